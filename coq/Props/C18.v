(** C18 — property theorems only (proved in IO/CircuitProofs.v, IO/CircuitSimpProofs.v). *)
From OxiVerif Require Import IO.Circuit IO.CircuitProofs IO.CircuitSimpProofs.
From Coq Require Import List.

(** ** The run-time audits decide the predicates of the property *)

(** normal form: the five documented conditions, scope, topological order *)
Theorem C18_nf_b_spec : forall c, nf_b c = true <-> NF c.
Proof. exact nf_b_spec. Qed.
Print Assumptions C18_nf_b_spec.

(** truth-table comparison = equality of the denoted functions under EVERY assignment *)
Theorem C18_equiv_b_spec : forall n c c' gm ls,
  n_inputs c = n -> n_inputs c' = n ->
  (equiv_b n c c' gm ls = true <->
   forall (a : nat -> bool) l, In l ls -> eval c a l = eval c' a (apply_gate_map gm l)).
Proof. exact equiv_b_spec. Qed.
Print Assumptions C18_equiv_b_spec.

Theorem C18_defined_b_spec : forall n c ls,
  n_inputs c = n ->
  (defined_b n c ls = true <->
   forall (a : nat -> bool) l g, In l ls -> latom l = AGate g -> eval c a l <> None).
Proof. exact defined_b_spec. Qed.
Print Assumptions C18_defined_b_spec.

Theorem C18_map_consistent_b_spec : forall c c' gm roots,
  map_consistent_b c c' gm roots = true <-> MapConsistent c c' gm roots.
Proof. exact map_consistent_b_spec. Qed.
Print Assumptions C18_map_consistent_b_spec.

(** ** The steps of the simplifier preserve the value of a gate *)

Theorem C18_dedup_sem : forall (va : atom -> bool) k ins,
  match dedup k ins with
  | Some ins' => gate_fun k (map (lval va) ins') = gate_fun k (map (lval va) ins)
  | None => k <> Xor /\ gate_fun k (map (lval va) ins) = absorb k
  end.
Proof. exact dedup_sem. Qed.
Print Assumptions C18_dedup_sem.

(** ** The model simplifier *)

(** [simp_nf] *)
Theorem C18_simp_nf : forall c roots c' gm, simplify c roots = Ok (c', gm) -> NF c'.
Proof. exact simp_nf. Qed.
Print Assumptions C18_simp_nf.

(** [simp_equiv]: every literal over gates reachable from the roots (in particular
    every root) has, under every assignment, the same value before and after through
    the gate map, and gate literals do have a value *)
Theorem C18_simp_equiv : forall c roots c' gm, simplify c roots = Ok (c', gm) ->
  forall l, (forall g, latom l = AGate g -> Reach c roots g) ->
  forall a, eval c a l = eval c' a (apply_gate_map gm l) /\
            (forall g, latom l = AGate g -> eval c a l <> None).
Proof. exact simp_equiv. Qed.
Print Assumptions C18_simp_equiv.

Theorem C18_simp_map_consistent : forall c roots c' gm, simplify c roots = Ok (c', gm) ->
  MapConsistent c c' gm roots.
Proof. exact simp_map_consistent. Qed.
Print Assumptions C18_simp_map_consistent.

(** an [Ok] answer is given only if no reachable gate lies on a cycle or mentions an unknown input *)
Theorem C18_simp_ok_no_err_condition : forall c roots c' gm, simplify c roots = Ok (c', gm) ->
  should_err_b c roots = false.
Proof. exact simp_no_err_condition. Qed.
Print Assumptions C18_simp_ok_no_err_condition.

(** every [Ok] answer of the model passes exactly the audit that the driver runs on
    the answers of the implementation *)
Theorem C18_simp_ok_answer : forall c roots c' gm, simplify c roots = Ok (c', gm) ->
  ok_answer_b c roots c' gm = true.
Proof. exact simp_ok_answer. Qed.
Print Assumptions C18_simp_ok_answer.

(** ** Errors and totality of the model *)

Theorem C18_closed_b_spec : forall c roots, closed_b c roots = true <-> Closed c roots.
Proof. exact closed_b_spec. Qed.
Print Assumptions C18_closed_b_spec.

(** [should_err_b] decides: some gate reachable from the roots lies on a cycle or
    mentions an input [>= n_inputs] (incl. UNDEF) *)
Theorem C18_should_err_b_spec : forall c roots, Closed c roots ->
  (should_err_b c roots = true <->
   exists g, Reach c roots g /\
     (Path c g g \/ exists gt l, nth_error (gates c) g = Some gt /\ In l (gins gt) /\
                                 unknown_input_b (n_inputs c) l = true)).
Proof. exact should_err_b_spec. Qed.
Print Assumptions C18_should_err_b_spec.

(** every answer of the model on a closed circuit passes the audit that the driver
    applies to the implementation; no index error, no fuel exhaustion *)
Theorem C18_simp_total : forall c roots, Closed c roots ->
  match simplify c roots with
  | Ok (c', gm) => ok_answer_b c roots c' gm = true
  | Err l => err_answer_b c roots l = true
  | Crash => False
  | Fuel => False
  end.
Proof. exact simp_total. Qed.
Print Assumptions C18_simp_total.

(** [simp_err_iff] *)
Theorem C18_simp_err_iff : forall c roots, Closed c roots ->
  ((exists l, simplify c roots = Err l) <->
   exists g, Reach c roots g /\
     (Path c g g \/ exists gt l, nth_error (gates c) g = Some gt /\ In l (gins gt) /\
                                 unknown_input_b (n_inputs c) l = true)).
Proof. exact simp_err_iff. Qed.
Print Assumptions C18_simp_err_iff.

(** an [Err] answer names a reachable gate on a cycle or an unknown input of a reachable gate *)
Theorem C18_simp_err_justified : forall c roots l, Closed c roots -> simplify c roots = Err l ->
  (exists g, l = gate_lit false g /\ Reach c roots g /\ Path c g g) \/
  (unknown_input_b (n_inputs c) l = true /\
   exists g gt, Reach c roots g /\ nth_error (gates c) g = Some gt /\ In l (gins gt)).
Proof. exact simp_err_justified. Qed.
Print Assumptions C18_simp_err_justified.
