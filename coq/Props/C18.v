(** C18 — property theorems only (proved in IO/CircuitProofs.v, IO/CircuitSimpProofs.v). *)
From OxiVerif Require Import IO.Circuit IO.CircuitProofs IO.CircuitSimpProofs.
From Coq Require Import List.

(** ** The run-time audits decide the predicates of the property *)

(** normal form: the five documented conditions, scope, topological order *)
Theorem C18_nf_b_spec : forall c, nf_b c = true <-> NF c.
Proof. exact nf_b_spec. Qed.
Print Assumptions C18_nf_b_spec.

(** truth-table comparison = equality of the denoted functions under EVERY assignment *)
Theorem C18_equiv_b_spec : forall n c c' gm ls,
  n_inputs c = n -> n_inputs c' = n ->
  (equiv_b n c c' gm ls = true <->
   forall (a : nat -> bool) l, In l ls -> eval c a l = eval c' a (apply_gate_map gm l)).
Proof. exact equiv_b_spec. Qed.
Print Assumptions C18_equiv_b_spec.

Theorem C18_defined_b_spec : forall n c ls,
  n_inputs c = n ->
  (defined_b n c ls = true <->
   forall (a : nat -> bool) l g, In l ls -> latom l = AGate g -> eval c a l <> None).
Proof. exact defined_b_spec. Qed.
Print Assumptions C18_defined_b_spec.

Theorem C18_map_consistent_b_spec : forall c c' gm roots,
  map_consistent_b c c' gm roots = true <-> MapConsistent c c' gm roots.
Proof. exact map_consistent_b_spec. Qed.
Print Assumptions C18_map_consistent_b_spec.

(** ** The steps of the simplifier preserve the value of a gate *)

Theorem C18_dedup_sem : forall (va : atom -> bool) k ins,
  match dedup k ins with
  | Some ins' => gate_fun k (map (lval va) ins') = gate_fun k (map (lval va) ins)
  | None => k <> Xor /\ gate_fun k (map (lval va) ins) = absorb k
  end.
Proof. exact dedup_sem. Qed.
Print Assumptions C18_dedup_sem.

(** ** The model simplifier *)

(** [simp_nf] *)
Theorem C18_simp_nf : forall c roots c' gm, simplify c roots = Ok (c', gm) -> NF c'.
Proof. exact simp_nf. Qed.
Print Assumptions C18_simp_nf.

(** [simp_equiv]: every literal over gates reachable from the roots (in particular
    every root) has, under every assignment, the same value before and after through
    the gate map, and gate literals do have a value *)
Theorem C18_simp_equiv : forall c roots c' gm, simplify c roots = Ok (c', gm) ->
  forall l, (forall g, latom l = AGate g -> Reach c roots g) ->
  forall a, eval c a l = eval c' a (apply_gate_map gm l) /\
            (forall g, latom l = AGate g -> eval c a l <> None).
Proof. exact simp_equiv. Qed.
Print Assumptions C18_simp_equiv.

Theorem C18_simp_map_consistent : forall c roots c' gm, simplify c roots = Ok (c', gm) ->
  MapConsistent c c' gm roots.
Proof. exact simp_map_consistent. Qed.
Print Assumptions C18_simp_map_consistent.

(** an [Ok] answer is given only if no reachable gate lies on a cycle or mentions an unknown input *)
Theorem C18_simp_ok_no_err_condition : forall c roots c' gm, simplify c roots = Ok (c', gm) ->
  should_err_b c roots = false.
Proof. exact simp_no_err_condition. Qed.
Print Assumptions C18_simp_ok_no_err_condition.

(** every [Ok] answer of the model passes exactly the audit that the driver runs on
    the answers of the implementation *)
Theorem C18_simp_ok_answer : forall c roots c' gm, simplify c roots = Ok (c', gm) ->
  ok_answer_b c roots c' gm = true.
Proof. exact simp_ok_answer. Qed.
Print Assumptions C18_simp_ok_answer.
