(** C19 — property theorems only (proved in Ffi/LedgerProofs.v, LedgerStep.v, LedgerThms.v,
    LedgerFinal.v, LedgerExamples.v).

    Vocabulary (Ffi/Spec.v, Ffi/Ledger.v):
    - [tt]            value table of a function of the manager's variables; [tab n f] / [fn n t]
                      convert between tables and the Boolean functions of DD/Sem.v;
    - [state]         Rust side [st_rs] = (strong count of the manager, bag of live [Function]
                      values owned through raw handles) + the client's ledger: manager handle
                      slots [st_mgrs], function handle slots [st_funs] (each [HVal t] or the
                      documented INVALID value [HInv]), substitution objects [st_subs];
    - [step st c]     one call of the C interface: [Done (st', ret)], [Illegal] (a documented
                      precondition is violated) or [UB] (the wrapper code would drop a dead
                      value / touch a destroyed manager); out-of-memory outcomes and the cube
                      [pick_cube*] selects are part of the call label;
    - [run]           call sequences; [ledger_funs st] the tables of all valid handles the
                      client owns (handle slots and substitution contents). *)
From Coq Require Import List Bool Arith NArith Permutation FMapPositive.
From OxiVerif Require Import DD.Sem DD.Table DD.TableExtra DD.TableProofs
  Ffi.Spec Ffi.Ledger Ffi.LedgerProofs Ffi.LedgerStep Ffi.LedgerThms Ffi.LedgerFinal Ffi.LedgerExamples.
Import ListNotations.

(** after any sequence of documented-legal calls, for every function the number of references
    the Rust side holds equals the number of valid handles for it in the client's ledger, and
    the manager's count is the number of manager handles plus the number of those handles *)
Theorem C19_ledger_balanced : forall (k : kind3) (cs : list call) (st : state),
  run (init k) cs = Done st ->
  (forall t, count_occ tt_eq_dec (r_funs (st_rs st)) t = count_occ tt_eq_dec (ledger_funs st) t) /\
  r_mrc (st_rs st) = length (st_mgrs st) + length (ledger_funs st).
Proof. exact ledger_balanced. Qed.
Print Assumptions C19_ledger_balanced.

(** no sequence of calls drives the wrapper code into dropping a dead value or using a
    destroyed manager: a run ends in [Done] or stops at a call that is not documented-legal *)
Theorem C19_no_ub : forall (k : kind3) (cs : list call), run (init k) cs <> UB.
Proof. exact ledger_no_ub. Qed.
Print Assumptions C19_no_ub.

(** the same from any balanced state, one call at a time *)
Theorem C19_step_balanced : forall (st : state) (c : call) (st' : state) (r : ret),
  balanced st -> step st c = Done (st', r) -> balanced st'.
Proof. exact step_bal. Qed.
Print Assumptions C19_step_balanced.

Theorem C19_step_no_ub : forall (st : state) (c : call), balanced st -> step st c <> UB.
Proof. exact step_no_ub. Qed.
Print Assumptions C19_step_no_ub.

(** constructors and operations (var, not_var, false, true, singleton, empty, base, not,
    connectives, ite, restrict, quantifiers, apply_*, subset0/1, change, union, intsec, diff,
    pick_cube_dd(_set), cofactor(s), substitute) return exactly one owned reference per valid
    handle returned and do not consume their operands: every slot the client owned is still
    owned with the same value, manager handles and substitution contents are untouched *)
Theorem C19_op_effect : forall (st : state) (c : call) (st' : state) (r : ret),
  is_op c = true -> step st c = Done (st', r) ->
  r_funs (st_rs st') = ret_tabs r ++ r_funs (st_rs st) /\
  r_mrc (st_rs st') = length (ret_tabs r) + r_mrc (st_rs st) /\
  funs_tabs (st_funs st') = ret_tabs r ++ funs_tabs (st_funs st) /\
  (forall i h, lookup i (st_funs st) = Some h -> lookup i (st_funs st') = Some h) /\
  st_mgrs st' = st_mgrs st /\ Permutation (subs_tabs (st_subs st')) (subs_tabs (st_subs st)).
Proof. exact op_effect. Qed.
Print Assumptions C19_op_effect.

(** ref: one more reference to exactly that function (none for INVALID), same handle returned *)
Theorem C19_ref_effect : forall (st : state) (d f : nat) (h : handle) (st' : state) (r : ret),
  lookup f (st_funs st) = Some h -> step st (CRef d f) = Done (st', r) ->
  r = RetH h /\
  st_funs st' = (d, h) :: st_funs st /\
  r_funs (st_rs st') = handle_tabs h ++ r_funs (st_rs st) /\
  r_mrc (st_rs st') = length (handle_tabs h) + r_mrc (st_rs st) /\
  st_mgrs st' = st_mgrs st /\ st_subs st' = st_subs st.
Proof. exact ref_effect. Qed.
Print Assumptions C19_ref_effect.

(** unref: one reference less to exactly that function *)
Theorem C19_unref_effect : forall (st : state) (f : nat) (h : handle) (st' : state) (r : ret),
  balanced st -> lookup f (st_funs st) = Some h -> step st (CUnref f) = Done (st', r) ->
  st_funs st' = remove_slot f (st_funs st) /\
  Permutation (r_funs (st_rs st)) (handle_tabs h ++ r_funs (st_rs st')) /\
  r_mrc (st_rs st) = length (handle_tabs h) + r_mrc (st_rs st') /\
  st_mgrs st' = st_mgrs st /\ st_subs st' = st_subs st.
Proof. exact unref_effect. Qed.
Print Assumptions C19_unref_effect.

Theorem C19_unref_counts : forall (st : state) (f : nat) (t : tt) (st' : state) (r : ret) (u : tt),
  balanced st -> lookup f (st_funs st) = Some (HVal t) -> step st (CUnref f) = Done (st', r) ->
  count_occ tt_eq_dec (r_funs (st_rs st)) u
  = (if tt_eq_dec t u then 1 else 0) + count_occ tt_eq_dec (r_funs (st_rs st')) u.
Proof. exact unref_counts. Qed.
Print Assumptions C19_unref_counts.

(** manager handles: manager_ref / containing_manager +1, manager_unref -1 *)
Theorem C19_mgr_ref_effect : forall (st : state) (d m : nat) (st' : state) (r : ret),
  step st (CMgrRef d m) = Done (st', r) ->
  st_mgrs st' = d :: st_mgrs st /\ r_mrc (st_rs st') = S (r_mrc (st_rs st)) /\
  r_funs (st_rs st') = r_funs (st_rs st) /\ st_funs st' = st_funs st /\ st_subs st' = st_subs st.
Proof. exact mgr_ref_effect. Qed.
Print Assumptions C19_mgr_ref_effect.

Theorem C19_mgr_unref_effect : forall (st : state) (m : nat) (st' : state) (r : ret),
  step st (CMgrUnref m) = Done (st', r) ->
  st_mgrs st' = remove_nat m (st_mgrs st) /\ r_mrc (st_rs st) = S (r_mrc (st_rs st')) /\
  r_funs (st_rs st') = r_funs (st_rs st) /\ st_funs st' = st_funs st /\ st_subs st' = st_subs st.
Proof. exact mgr_unref_effect. Qed.
Print Assumptions C19_mgr_unref_effect.

Theorem C19_containing_effect : forall (st : state) (d f : nat) (st' : state) (r : ret),
  step st (CContaining d f) = Done (st', r) ->
  st_mgrs st' = d :: st_mgrs st /\ r_mrc (st_rs st') = S (r_mrc (st_rs st)) /\
  r_funs (st_rs st') = r_funs (st_rs st) /\ st_funs st' = st_funs st.
Proof. exact containing_effect. Qed.
Print Assumptions C19_containing_effect.

(** an INVALID operand yields INVALID (no crash: the call is performed) and changes nothing *)
Theorem C19_invalid_propagates : forall (st : state) (c : call) (st' : state) (r : ret) (a : nat),
  In a (operands c) -> lookup a (st_funs st) = Some HInv -> step st c = Done (st', r) ->
  all_invalid_ret r /\ st_rs st' = st_rs st /\ st_mgrs st' = st_mgrs st.
Proof. exact invalid_propagates. Qed.
Print Assumptions C19_invalid_propagates.

Theorem C19_make_node_invalid :
  forall (st : state) (d var hi lo : nat) (oom : bool) (st' : state) (r : ret) (hv hh hl : handle),
  lookup var (st_funs st) = Some hv -> lookup hi (st_funs st) = Some hh -> lookup lo (st_funs st) = Some hl ->
  hv = HInv \/ hh = HInv \/ hl = HInv ->
  step st (CMakeNode d var hi lo oom) = Done (st', r) ->
  r = RetH HInv /\
  ((hv = HInv \/ hh = HInv) -> st_rs st' = st_rs st /\ st_funs st' = (d, HInv) :: st_funs st).
Proof. exact make_node_invalid. Qed.
Print Assumptions C19_make_node_invalid.

(** tables and functions: reading the table of [f] gives [f] (on the assignment cut down to
    the manager's variables) *)
Theorem C19_fn_tab : forall (n : nat) (f : bfun) (a : asg), fn n (tab n f) a = f (trunc n a).
Proof. exact fn_tab. Qed.
Print Assumptions C19_fn_tab.

Theorem C19_trunc_lt : forall (n : nat) (a : asg) (v : nat), v < n -> trunc n a v = a v.
Proof. exact trunc_lt. Qed.
Print Assumptions C19_trunc_lt.

(** the table a Rust API call returns is the table of the spec-layer (DD/Sem.v) function *)
Theorem C19_rapi_spec : forall (n : nat) (o : rop) (args : list tt) (f : bfun) (a : asg),
  rsem n o (map (fn n) args) = Some f -> fn n (rapi n o args) a = f (trunc n a).
Proof. exact rapi_spec. Qed.
Print Assumptions C19_rapi_spec.

(** the handle a C operation returns denotes the Rust API / spec-layer result on its operands *)
Theorem C19_ffi_equiv_op1 : forall (st : state) (o : op1) (d a : nat) (ta : tt) (st' : state) (r : ret),
  lookup a (st_funs st) = Some (HVal ta) -> step st (COp1 o d a false) = Done (st', r) ->
  r = RetH (HVal (op1_res (st_nv st) o ta)) /\
  lookup d (st_funs st') = Some (HVal (op1_res (st_nv st) o ta)).
Proof. exact ffi_equiv_op1. Qed.
Print Assumptions C19_ffi_equiv_op1.

Theorem C19_ffi_equiv_op2 : forall (st : state) (o : op2) (d a b : nat) (ta tb : tt) (st' : state) (r : ret),
  lookup a (st_funs st) = Some (HVal ta) -> lookup b (st_funs st) = Some (HVal tb) ->
  step st (COp2 o d a b false) = Done (st', r) ->
  r = RetH (HVal (op2_res (st_nv st) o ta tb)) /\
  lookup d (st_funs st') = Some (HVal (op2_res (st_nv st) o ta tb)).
Proof. exact ffi_equiv_op2. Qed.
Print Assumptions C19_ffi_equiv_op2.

Theorem C19_ffi_equiv_op3 :
  forall (st : state) (o : op3) (d a b c : nat) (ta tb tc : tt) (st' : state) (r : ret),
  lookup a (st_funs st) = Some (HVal ta) -> lookup b (st_funs st) = Some (HVal tb) ->
  lookup c (st_funs st) = Some (HVal tc) ->
  step st (COp3 o d a b c false) = Done (st', r) ->
  r = RetH (HVal (op3_res (st_nv st) o ta tb tc)) /\
  lookup d (st_funs st') = Some (HVal (op3_res (st_nv st) o ta tb tc)).
Proof. exact ffi_equiv_op3. Qed.
Print Assumptions C19_ffi_equiv_op3.

Theorem C19_ffi_equiv_op0 : forall (st : state) (o : op0) (d m : nat) (st' : state) (r : ret),
  step st (COp0 o d m false) = Done (st', r) ->
  r = RetH (HVal (rapi (st_nv st) (op0_rop o) [])).
Proof. exact ffi_equiv_op0. Qed.
Print Assumptions C19_ffi_equiv_op0.

(** pointwise: connectives, negation, if-then-else *)
Theorem C19_ffi_equiv_bin : forall (st : state) (o : bop) (d a b : nat) (ta tb : tt) (st' : state) (r : ret),
  lookup a (st_funs st) = Some (HVal ta) -> lookup b (st_funs st) = Some (HVal tb) ->
  step st (COp2 (O2Bin o) d a b false) = Done (st', r) ->
  exists tr, r = RetH (HVal tr) /\
    forall x, fn (st_nv st) tr x = eval_bop o (fn (st_nv st) ta x) (fn (st_nv st) tb x).
Proof. exact ffi_equiv_bin. Qed.
Print Assumptions C19_ffi_equiv_bin.

Theorem C19_ffi_equiv_not : forall (st : state) (d a : nat) (ta : tt) (st' : state) (r : ret),
  lookup a (st_funs st) = Some (HVal ta) -> step st (COp1 O1Not d a false) = Done (st', r) ->
  exists tr, r = RetH (HVal tr) /\ forall x, fn (st_nv st) tr x = negb (fn (st_nv st) ta x).
Proof. exact ffi_equiv_not. Qed.
Print Assumptions C19_ffi_equiv_not.

Theorem C19_ffi_equiv_ite : forall (st : state) (d a b c : nat) (ta tb tc : tt) (st' : state) (r : ret),
  lookup a (st_funs st) = Some (HVal ta) -> lookup b (st_funs st) = Some (HVal tb) ->
  lookup c (st_funs st) = Some (HVal tc) ->
  step st (COp3 O3Ite d a b c false) = Done (st', r) ->
  exists tr, r = RetH (HVal tr) /\
    forall x, fn (st_nv st) tr x = if fn (st_nv st) ta x then fn (st_nv st) tb x else fn (st_nv st) tc x.
Proof. exact ffi_equiv_ite. Qed.
Print Assumptions C19_ffi_equiv_ite.

(** quantifiers: DD/Sem.v's [forall_s] / [exists_s] / [unique_s] over the variables of [vars] *)
Theorem C19_ffi_equiv_quant :
  forall (st : state) (q : quantifier) (d a b : nat) (ta tb : tt) (st' : state) (r : ret),
  lookup a (st_funs st) = Some (HVal ta) -> lookup b (st_funs st) = Some (HVal tb) ->
  step st (COp2 (O2Quant q) d a b false) = Done (st', r) ->
  exists tr, r = RetH (HVal tr) /\
    forall x, fn (st_nv st) tr x
      = quant_of q (support (st_nv st) (fn (st_nv st) tb)) (fn (st_nv st) ta) (trunc (st_nv st) x).
Proof. exact ffi_equiv_quant. Qed.
Print Assumptions C19_ffi_equiv_quant.

(** cofactors: the children of the root as the model computes them; they are the Shannon
    cofactors w.r.t. the top variable (BDD / BCDD), subset1 / subset0 w.r.t. it (ZBDD) *)
Theorem C19_ffi_equiv_cofactors : forall (st : state) (dt de a : nat) (t : tt) (st' : state) (r : ret),
  lookup a (st_funs st) = Some (HVal t) -> step st (CCofactors dt de a) = Done (st', r) ->
  r = match cofactors_of (st_kind st) (st_nv st) (st_l2v st) t with
      | Some (ct, ce) => RetHH (HVal ct) (HVal ce)
      | None => RetHH HInv HInv
      end.
Proof. exact ffi_equiv_cofactors. Qed.
Print Assumptions C19_ffi_equiv_cofactors.

Theorem C19_ffi_equiv_cofactor : forall (st : state) (hi : bool) (d a : nat) (t : tt) (st' : state) (r : ret),
  lookup a (st_funs st) = Some (HVal t) -> step st (CCofactor hi d a) = Done (st', r) ->
  r = match cofactors_of (st_kind st) (st_nv st) (st_l2v st) t with
      | Some (ct, ce) => RetH (HVal (if hi then ct else ce))
      | None => RetH HInv
      end.
Proof. exact ffi_equiv_cofactor. Qed.
Print Assumptions C19_ffi_equiv_cofactor.

Theorem C19_cofactors_of_spec : forall (k : kind3) (n : nat) (l2v : list nat) (t ct ce : tt),
  cofactors_of k n l2v t = Some (ct, ce) ->
  exists v, top_var n k l2v (fn n t) = Some v /\
    (forall x, fn n ct x = child_s k (fn n t) v true (trunc n x)) /\
    (forall x, fn n ce x = child_s k (fn n t) v false (trunc n x)).
Proof. exact cofactors_of_spec. Qed.
Print Assumptions C19_cofactors_of_spec.

(** substitution: DD/Sem.v's simultaneous substitution with the object's pairs *)
Theorem C19_ffi_equiv_substitute :
  forall (st : state) (d a s : nat) (sb : subst_obj) (ta : tt) (st' : state) (r : ret),
  lookup a (st_funs st) = Some (HVal ta) -> lookup s (st_subs st) = Some sb ->
  step st (CSubstitute d a (Some s) false) = Done (st', r) ->
  exists tr, r = RetH (HVal tr) /\
    forall x, fn (st_nv st) tr x
      = subst_s (combine (sb_vars sb) (map (fn (st_nv st)) (sb_reps sb))) (fn (st_nv st) ta) (trunc (st_nv st) x).
Proof. exact ffi_equiv_substitute. Qed.
Print Assumptions C19_ffi_equiv_substitute.

(** oxidd_zbdd_make_node with valid operands: lo ∪ {x ∪ {v} | x ∈ hi}; hi and lo are consumed *)
Theorem C19_ffi_equiv_make_node :
  forall (st : state) (d var hi lo : nat) (tv th tl : tt) (st' : state) (r : ret),
  lookup var (st_funs st) = Some (HVal tv) -> lookup hi (st_funs st) = Some (HVal th) ->
  lookup lo (st_funs st) = Some (HVal tl) ->
  step st (CMakeNode d var hi lo false) = Done (st', r) ->
  exists v tr, singleton_var (st_nv st) tv = Some v /\ r = RetH (HVal tr) /\
    (forall x, fn (st_nv st) tr x = mknode_s v (fn (st_nv st) th) (fn (st_nv st) tl) (trunc (st_nv st) x)) /\
    st_funs st' = (d, HVal tr) :: remove_slot lo (remove_slot hi (st_funs st)).
Proof. exact ffi_equiv_make_node. Qed.
Print Assumptions C19_ffi_equiv_make_node.

(** everything unref'ed: nothing is referenced any more; with the manager handles released too
    the manager is gone *)
Theorem C19_ledger_zero : forall (k : kind3) (cs : list call) (st : state),
  run (init k) cs = Done st -> no_valid_handle st ->
  r_funs (st_rs st) = [] /\ r_mrc (st_rs st) = length (st_mgrs st) /\
  (st_mgrs st = [] -> st_rs st = mkR 0 []).
Proof. exact ledger_zero. Qed.
Print Assumptions C19_ledger_zero.

(** ... and then a collection leaves no node: in a manager snapshot (DD/Table.v) with exact
    reference counts (C05), without a count-0 node (collection completed), without external
    handles and without internal owners, the unique tables are empty *)
Theorem C19_no_handles_no_nodes : forall (s : snap),
  WF s -> rc_exact_b s [] = true -> no_dead_b s = true -> s_handles s = [] ->
  forall id, find_node s id = None.
Proof. exact no_handles_no_nodes. Qed.
Print Assumptions C19_no_handles_no_nodes.

(** the hypotheses are satisfiable: a concrete run (two variables, x0 ∧ x1, INVALID through
    [or], ref / unref, cofactors, ∃, an out-of-memory [ite], manager handle juggling), the
    state it reaches is balanced, and releasing everything ends with no reference at all *)
Theorem C19_example_run : run (init FB) ex_bdd = Done ex_bdd_state /\ balanced ex_bdd_state.
Proof. exact (conj ex_bdd_done ex_bdd_balanced). Qed.
Print Assumptions C19_example_run.

Theorem C19_example_released :
  exists st, run (init FB) (ex_bdd ++ ex_bdd_release) = Done st /\
    no_valid_handle st /\ st_mgrs st = [] /\ st_rs st = mkR 0 [].
Proof. exact ex_bdd_released. Qed.
Print Assumptions C19_example_released.

Theorem C19_example_double_unref_illegal : run (init FB) (ex_bdd ++ [CUnref 2; CUnref 2]) = Illegal.
Proof. exact ex_double_unref. Qed.
Print Assumptions C19_example_double_unref_illegal.
