(** C20 — property theorems (first instalment; extended below as the
    configuration model of DD/ConfigApply.v is proved). *)
From Coq Require Import List NArith PArith Bool Arith FMapPositive.
From OxiVerif Require Import DD.Table DD.TableProofs DD.Canon DD.Sem DD.Build DD.BuildProofs
  DD.Apply DD.ApplyProofs DD.Cache DD.CacheProofs.
Import ListNotations.

(** apply cache compiled in (direct-mapped, any bucket count / hash / content)
    versus compiled out (the [unit] cache): re-running the operation of one
    build in any later table of the other build returns the identical edge *)
Theorem C20_cache_on_off_same_edge :
  forall gt1 gt2 hash op s (c1 : dm_cache) f g fuel1 s1 c1' r1,
  BddOK s -> CacheOK (dmr_get hash) s c1 -> ref_ok s f -> ref_ok s g -> S (nlevels s) <= fuel1 ->
  apply_bin gt1 dm_cache (dmr_get hash) (dmr_add hash) fuel1 s c1 op f g = Some (s1, c1', r1) ->
  forall s2 fuel2, BddOK s2 -> extends s1 s2 -> S (nlevels s2) <= fuel2 ->
  exists c2', apply_bin gt2 unit nc_get nc_add fuel2 s2 tt op f g = Some (s2, c2', r1).
Proof.
  intros gt1 gt2 hash op s c1 f g fuel1 s1 c1' r1 B O Hf Hg F1 E s2 fuel2 B2 X F2.
  exact (apply_bin_history_independent gt1 gt2 dm_cache unit (dmr_get hash) (dmr_add hash) nc_get nc_add
           (dmr_lossy hash) nc_lossy op s c1 f g fuel1 s1 c1' r1 B O Hf Hg F1 E s2 tt fuel2 B2 X (nc_ok s2 tt) F2).
Qed.
Print Assumptions C20_cache_on_off_same_edge.
