(** C20 — property theorems only (proved in DD/ConfigProofs.v, DD/ConfigCache.v,
    DD/ConfigIndep.v, DD/ConfigRun.v, DD/Iso.v, DD/RenameProofs.v,
    DD/ConfigExamples.v; models in DD/ConfigApply.v, DD/Rename.v, DD/Cache.v).

    A configuration of the model is
      - [alloc]  the node store (index store / pointer store): where a new node
                 is put; any function returning an unused id ([alloc_ok]);
      - [gt]     the operand order of commutative operators (index / address
                 comparison);
      - [C], [cget], [cadd]  the apply cache: any lossy cache - the direct-
                 mapped cache [dm_cache] (feature on), [unit] (feature off);
      - [sched]  the recursor: [SSeq] = sequential; [SPar swap stale l r] = one
                 [WorkerPool::join] whose second closure ran first ([swap])
                 and/or whose later closure saw a stale cache ([stale]); the
                 shape of the tree = multi-threading feature, worker count,
                 split depth.
    All four are universally quantified below. *)
From Coq Require Import List NArith PArith Bool Arith FMapPositive.
From OxiVerif Require Import DD.Table DD.TableExtra DD.TableProofs DD.Canon DD.Sem DD.Build DD.BuildProofs
  DD.Apply DD.ApplyProofs DD.Cache DD.CacheProofs DD.ApplyExamples
  DD.ConfigApply DD.ConfigProofs DD.ConfigCache DD.ConfigIndep DD.ConfigRun DD.Iso
  DD.Rename DD.RenameProofs DD.ConfigExamples.
Import ListNotations.

(** ** (a) apply cache enabled / disabled / any other lossy cache *)

(** same node store and schedule, two arbitrary caches (implementations and
    contents) and operand orders: the two runs return the IDENTICAL table and
    the IDENTICAL edge *)
Theorem C20_apply_bin_cache_exact :
  forall alloc, alloc_ok alloc ->
  forall gt1 gt2 C1 C2 cget1 cadd1 cget2 cadd2, lossy cget1 cadd1 -> lossy cget2 cadd2 ->
  forall op fuel x s (c1 : C1) (c2 : C2) f g,
  BddOK s -> CacheOK cget1 s c1 -> CacheOK cget2 s c2 -> ref_ok s f -> ref_ok s g ->
  S (nlevels s) <= fuel ->
  match apply_bin_g alloc gt1 C1 cget1 cadd1 fuel x s c1 op f g,
        apply_bin_g alloc gt2 C2 cget2 cadd2 fuel x s c2 op f g with
  | Some (s1, _, r1), Some (s2, _, r2) => s1 = s2 /\ r1 = r2
  | _, _ => False
  end.
Proof. exact apply_bin_g_cache_exact. Qed.
Print Assumptions C20_apply_bin_cache_exact.

Theorem C20_apply_not_cache_exact :
  forall alloc, alloc_ok alloc ->
  forall C1 C2 cget1 cadd1 cget2 cadd2, lossy cget1 cadd1 -> lossy cget2 cadd2 ->
  forall fuel x s (c1 : C1) (c2 : C2) f,
  BddOK s -> CacheOK cget1 s c1 -> CacheOK cget2 s c2 -> ref_ok s f -> S (nlevels s) <= fuel ->
  match apply_not_g alloc C1 cget1 cadd1 fuel x s c1 f,
        apply_not_g alloc C2 cget2 cadd2 fuel x s c2 f with
  | Some (s1, _, r1), Some (s2, _, r2) => s1 = s2 /\ r1 = r2
  | _, _ => False
  end.
Proof. exact apply_not_g_cache_exact. Qed.
Print Assumptions C20_apply_not_cache_exact.

Theorem C20_apply_ite_cache_exact :
  forall alloc, alloc_ok alloc ->
  forall gt1 gt2 C1 C2 cget1 cadd1 cget2 cadd2, lossy cget1 cadd1 -> lossy cget2 cadd2 ->
  forall fuel x s (c1 : C1) (c2 : C2) f g h,
  BddOK s -> CacheOK cget1 s c1 -> CacheOK cget2 s c2 -> ref_ok s f -> ref_ok s g -> ref_ok s h ->
  S (nlevels s) <= fuel ->
  match apply_ite_g alloc gt1 C1 cget1 cadd1 fuel x s c1 f g h,
        apply_ite_g alloc gt2 C2 cget2 cadd2 fuel x s c2 f g h with
  | Some (s1, _, r1), Some (s2, _, r2) => s1 = s2 /\ r1 = r2
  | _, _ => False
  end.
Proof. exact apply_ite_g_cache_exact. Qed.
Print Assumptions C20_apply_ite_cache_exact.

(** the instance named in the property: direct-mapped cache (any hash, bucket
    count, entry capacity, correct content) against the cache-less build *)
Theorem C20_apply_bin_cache_on_off :
  forall alloc, alloc_ok alloc ->
  forall gt1 gt2 hash op fuel x s (c1 : dm_cache) f g,
  BddOK s -> CacheOK (dmr_get hash) s c1 -> ref_ok s f -> ref_ok s g -> S (nlevels s) <= fuel ->
  match apply_bin_g alloc gt1 dm_cache (dmr_get hash) (dmr_add hash) fuel x s c1 op f g,
        apply_bin_g alloc gt2 unit nc_get nc_add fuel x s tt op f g with
  | Some (s1, _, r1), Some (s2, _, r2) => s1 = s2 /\ r1 = r2
  | _, _ => False
  end.
Proof.
  exact (fun alloc Ha gt1 gt2 hash op fuel x s c1 f g B O1 =>
    apply_bin_g_cache_exact alloc Ha gt1 gt2 dm_cache unit (dmr_get hash) (dmr_add hash) nc_get nc_add
      (dmr_lossy hash) nc_lossy op fuel x s c1 tt f g B O1 (nc_ok s tt)).
Qed.
Print Assumptions C20_apply_bin_cache_on_off.

(** whole histories: same store and schedules, any two caches / operand
    orders: the two managers hold the identical table (nodes, ids, handles)
    after every history, or both runs fail *)
Theorem C20_run_ops_cache_exact :
  forall alloc, alloc_ok alloc ->
  forall (sch : nat -> sched) gt1 gt2 C1 C2 cget1 cadd1 cget2 cadd2,
  lossy cget1 cadd1 -> lossy cget2 cadd2 ->
  forall ops (st1 : mstate C1) (st2 : mstate C2),
  m_snap C1 st1 = m_snap C2 st2 -> m_step C1 st1 = m_step C2 st2 -> BddOK (m_snap C1 st1) ->
  CacheOK cget1 (m_snap C1 st1) (m_cache C1 st1) -> CacheOK cget2 (m_snap C2 st2) (m_cache C2 st2) ->
  match run_ops alloc gt1 C1 cget1 cadd1 sch st1 ops, run_ops alloc gt2 C2 cget2 cadd2 sch st2 ops with
  | Some a, Some b =>
    m_snap C1 a = m_snap C2 b /\ m_step C1 a = m_step C2 b /\ BddOK (m_snap C1 a) /\
    CacheOK cget1 (m_snap C1 a) (m_cache C1 a) /\ CacheOK cget2 (m_snap C2 b) (m_cache C2 b)
  | None, None => True
  | _, _ => False
  end.
Proof.
  exact (fun alloc Ha sch gt1 gt2 C1 C2 cget1 cadd1 cget2 cadd2 L1 L2 ops st1 st2 E1 E2 B O1 O2 =>
    run_ops_cache_exact alloc Ha sch gt1 gt2 C1 C2 cget1 cadd1 cget2 cadd2 L1 L2 ops st1 st2
      (conj E1 (conj E2 (conj B (conj O1 O2))))).
Qed.
Print Assumptions C20_run_ops_cache_exact.

(** ** (b) node store: observables do not depend on the ids *)

(** every injective renaming of the node ids of any snapshot (any kind,
    well-formed or not) preserves the value of every edge ... *)
Theorem C20_sem_edge_rename : forall rho, injective rho ->
  forall s e c, sem_edge (rename_snap rho s) (rename_edge rho e) c = sem_edge s e c.
Proof. exact sem_edge_rename. Qed.
Print Assumptions C20_sem_edge_rename.

(** ... the node count of every edge ... *)
Theorem C20_count_reach_rename : forall rho, injective rho ->
  forall s e, count_reach (rename_snap rho s) (rename_edge rho e) = count_reach s e.
Proof. exact count_reach_rename. Qed.
Print Assumptions C20_count_reach_rename.

(** ... the structural invariant (C03) ... *)
Theorem C20_wf_rename : forall rho, injective rho -> forall s, WF (rename_snap rho s) <-> WF s.
Proof. exact wf_rename. Qed.
Print Assumptions C20_wf_rename.

Theorem C20_wf_b_rename : forall rho, injective rho ->
  forall s, wf_b (rename_snap rho s) = wf_b s /\ wf_full_b (rename_snap rho s) = wf_full_b s.
Proof. exact (fun rho H s => conj (wf_b_rename rho H s) (wf_full_b_rename rho H s)). Qed.
Print Assumptions C20_wf_b_rename.

(** ... and the reference-count invariant (C05) *)
Theorem C20_rc_exact_b_rename : forall rho, injective rho ->
  forall s extra, rc_exact_b (rename_snap rho s) (map (rename_edge rho) extra) = rc_exact_b s extra.
Proof. exact rc_exact_b_rename. Qed.
Print Assumptions C20_rc_exact_b_rename.

(** hence the whole observation of a manager: per handle slot the value under
    the choice and the node count, and the variable order *)
Theorem C20_observe_rename : forall rho, injective rho ->
  forall s c, observe (rename_snap rho s) c = observe s c.
Proof. exact observe_rename. Qed.
Print Assumptions C20_observe_rename.

(** slab addresses are such a renaming of slot indices *)
Theorem C20_addr_of_injective : forall base k, injective (addr_of base k).
Proof. exact addr_of_injective. Qed.
Print Assumptions C20_addr_of_injective.

(** two managers that need not be renamings of each other (other garbage, other
    history, other everything): in two well-formed BDD tables over the same
    number of levels, two edges with the same value under every choice have
    the same node count *)
Theorem C20_count_reach_sem : forall s1 s2, BddOK s1 -> BddOK s2 -> nlevels s1 = nlevels s2 ->
  forall r1 r2, ref_ok s1 r1 -> ref_ok s2 r2 ->
  (forall c0, bchoice c0 -> semk s1 (S (nlevels s1)) r1 c0 = semk s2 (S (nlevels s2)) r2 c0) ->
  count_reach s1 (E r1) = count_reach s2 (E r2).
Proof. exact count_reach_sem. Qed.
Print Assumptions C20_count_reach_sem.

(** ** (a)+(b)+(c) one operation under two arbitrary configurations *)

(** both runs succeed; both result tables are well-formed extensions; the two
    edges have the value [op x y] under every choice and the same node count;
    if an edge with that meaning already exists, both runs return exactly it
    and create nothing *)
Theorem C20_apply_bin_config_indep :
  forall alloc1, alloc_ok alloc1 -> forall gt1 C1 cget1 cadd1, lossy cget1 cadd1 ->
  forall alloc2, alloc_ok alloc2 -> forall gt2 C2 cget2 cadd2, lossy cget2 cadd2 ->
  forall op s (c1 : C1) (c2 : C2) f g x1 x2 fuel1 fuel2,
  BddOK s -> CacheOK cget1 s c1 -> CacheOK cget2 s c2 -> ref_ok s f -> ref_ok s g ->
  S (nlevels s) <= fuel1 -> S (nlevels s) <= fuel2 ->
  exists s1 c1' r1 s2 c2' r2,
    apply_bin_g alloc1 gt1 C1 cget1 cadd1 fuel1 x1 s c1 op f g = Some (s1, c1', r1) /\
    apply_bin_g alloc2 gt2 C2 cget2 cadd2 fuel2 x2 s c2 op f g = Some (s2, c2', r2) /\
    BddOK s1 /\ BddOK s2 /\ extends s s1 /\ extends s s2 /\
    CacheOK cget1 s1 c1' /\ CacheOK cget2 s2 c2' /\
    ref_ok s1 r1 /\ ref_ok s2 r2 /\
    (forall c0, bchoice c0 -> exists v,
       (exists x y, semk s (S (nlevels s)) f c0 = Some (b2c x) /\
                    semk s (S (nlevels s)) g c0 = Some (b2c y) /\ v = eval_bop op x y) /\
       semk s1 (S (nlevels s1)) r1 c0 = Some (b2c v) /\
       semk s2 (S (nlevels s2)) r2 c0 = Some (b2c v)) /\
    count_reach s1 (E r1) = count_reach s2 (E r2) /\
    (forall r0, ref_ok s r0 ->
       (forall c0, bchoice c0 -> semk s (S (nlevels s)) r0 c0 = semk s1 (S (nlevels s1)) r1 c0) ->
       s1 = s /\ s2 = s /\ r1 = r0 /\ r2 = r0).
Proof. exact apply_bin_g_config_indep. Qed.
Print Assumptions C20_apply_bin_config_indep.

Theorem C20_apply_not_config_indep :
  forall alloc1, alloc_ok alloc1 -> forall C1 cget1 cadd1, lossy cget1 cadd1 ->
  forall alloc2, alloc_ok alloc2 -> forall C2 cget2 cadd2, lossy cget2 cadd2 ->
  forall s (c1 : C1) (c2 : C2) f x1 x2 fuel1 fuel2,
  BddOK s -> CacheOK cget1 s c1 -> CacheOK cget2 s c2 -> ref_ok s f ->
  S (nlevels s) <= fuel1 -> S (nlevels s) <= fuel2 ->
  exists s1 c1' r1 s2 c2' r2,
    apply_not_g alloc1 C1 cget1 cadd1 fuel1 x1 s c1 f = Some (s1, c1', r1) /\
    apply_not_g alloc2 C2 cget2 cadd2 fuel2 x2 s c2 f = Some (s2, c2', r2) /\
    BddOK s1 /\ BddOK s2 /\ extends s s1 /\ extends s s2 /\
    CacheOK cget1 s1 c1' /\ CacheOK cget2 s2 c2' /\
    ref_ok s1 r1 /\ ref_ok s2 r2 /\
    (forall c0, bchoice c0 -> exists v,
       (exists x, semk s (S (nlevels s)) f c0 = Some (b2c x) /\ v = negb x) /\
       semk s1 (S (nlevels s1)) r1 c0 = Some (b2c v) /\
       semk s2 (S (nlevels s2)) r2 c0 = Some (b2c v)) /\
    count_reach s1 (E r1) = count_reach s2 (E r2) /\
    (forall r0, ref_ok s r0 ->
       (forall c0, bchoice c0 -> semk s (S (nlevels s)) r0 c0 = semk s1 (S (nlevels s1)) r1 c0) ->
       s1 = s /\ s2 = s /\ r1 = r0 /\ r2 = r0).
Proof. exact apply_not_g_config_indep. Qed.
Print Assumptions C20_apply_not_config_indep.

Theorem C20_apply_ite_config_indep :
  forall alloc1, alloc_ok alloc1 -> forall gt1 C1 cget1 cadd1, lossy cget1 cadd1 ->
  forall alloc2, alloc_ok alloc2 -> forall gt2 C2 cget2 cadd2, lossy cget2 cadd2 ->
  forall s (c1 : C1) (c2 : C2) f g h x1 x2 fuel1 fuel2,
  BddOK s -> CacheOK cget1 s c1 -> CacheOK cget2 s c2 -> ref_ok s f -> ref_ok s g -> ref_ok s h ->
  S (nlevels s) <= fuel1 -> S (nlevels s) <= fuel2 ->
  exists s1 c1' r1 s2 c2' r2,
    apply_ite_g alloc1 gt1 C1 cget1 cadd1 fuel1 x1 s c1 f g h = Some (s1, c1', r1) /\
    apply_ite_g alloc2 gt2 C2 cget2 cadd2 fuel2 x2 s c2 f g h = Some (s2, c2', r2) /\
    BddOK s1 /\ BddOK s2 /\ extends s s1 /\ extends s s2 /\
    CacheOK cget1 s1 c1' /\ CacheOK cget2 s2 c2' /\
    ref_ok s1 r1 /\ ref_ok s2 r2 /\
    (forall c0, bchoice c0 -> exists v,
       (exists x y z, semk s (S (nlevels s)) f c0 = Some (b2c x) /\
                      semk s (S (nlevels s)) g c0 = Some (b2c y) /\
                      semk s (S (nlevels s)) h c0 = Some (b2c z) /\ v = if x then y else z) /\
       semk s1 (S (nlevels s1)) r1 c0 = Some (b2c v) /\
       semk s2 (S (nlevels s2)) r2 c0 = Some (b2c v)) /\
    count_reach s1 (E r1) = count_reach s2 (E r2) /\
    (forall r0, ref_ok s r0 ->
       (forall c0, bchoice c0 -> semk s (S (nlevels s)) r0 c0 = semk s1 (S (nlevels s1)) r1 c0) ->
       s1 = s /\ s2 = s /\ r1 = r0 /\ r2 = r0).
Proof. exact apply_ite_g_config_indep. Qed.
Print Assumptions C20_apply_ite_config_indep.

(** ** (c) the two evaluation orders of one join *)

(** then-closure first with a shared cache, versus else-closure first and a
    stale cache view for the other closure (sub-schedules arbitrary): same
    value under every choice, same node count, identical edge if it exists *)
Theorem C20_apply_bin_either_order : forall alloc, alloc_ok alloc ->
  forall gt C cget cadd, lossy cget cadd ->
  forall op s (c : C) f g l r l' r' stale,
  BddOK s -> CacheOK cget s c -> ref_ok s f -> ref_ok s g ->
  exists s1 c1' r1 s2 c2' r2,
    apply_bin_g alloc gt C cget cadd (S (nlevels s)) (SPar false false l r) s c op f g = Some (s1, c1', r1) /\
    apply_bin_g alloc gt C cget cadd (S (nlevels s)) (SPar true stale l' r') s c op f g = Some (s2, c2', r2) /\
    BddOK s1 /\ BddOK s2 /\ extends s s1 /\ extends s s2 /\
    CacheOK cget s1 c1' /\ CacheOK cget s2 c2' /\
    ref_ok s1 r1 /\ ref_ok s2 r2 /\
    (forall c0, bchoice c0 -> exists v,
       (exists x y, semk s (S (nlevels s)) f c0 = Some (b2c x) /\
                    semk s (S (nlevels s)) g c0 = Some (b2c y) /\ v = eval_bop op x y) /\
       semk s1 (S (nlevels s1)) r1 c0 = Some (b2c v) /\
       semk s2 (S (nlevels s2)) r2 c0 = Some (b2c v)) /\
    count_reach s1 (E r1) = count_reach s2 (E r2) /\
    (forall r0, ref_ok s r0 ->
       (forall c0, bchoice c0 -> semk s (S (nlevels s)) r0 c0 = semk s1 (S (nlevels s1)) r1 c0) ->
       s1 = s /\ s2 = s /\ r1 = r0 /\ r2 = r0).
Proof. exact apply_bin_g_either_order. Qed.
Print Assumptions C20_apply_bin_either_order.

(** history independence across configurations: the edge one configuration
    returned is what every other configuration returns for the same operands in
    every later table, without creating a node *)
Theorem C20_apply_bin_rerun :
  forall alloc1, alloc_ok alloc1 -> forall gt1 C1 cget1 cadd1, lossy cget1 cadd1 ->
  forall alloc2, alloc_ok alloc2 -> forall gt2 C2 cget2 cadd2, lossy cget2 cadd2 ->
  forall op s (c1 : C1) f g x1 fuel1 s1 c1' r1,
  BddOK s -> CacheOK cget1 s c1 -> ref_ok s f -> ref_ok s g -> S (nlevels s) <= fuel1 ->
  apply_bin_g alloc1 gt1 C1 cget1 cadd1 fuel1 x1 s c1 op f g = Some (s1, c1', r1) ->
  forall s2 (c2 : C2) x2 fuel2,
  BddOK s2 -> extends s1 s2 -> CacheOK cget2 s2 c2 -> S (nlevels s2) <= fuel2 ->
  exists c2', apply_bin_g alloc2 gt2 C2 cget2 cadd2 fuel2 x2 s2 c2 op f g = Some (s2, c2', r1).
Proof. exact apply_bin_g_rerun. Qed.
Print Assumptions C20_apply_bin_rerun.

(** ** Whole histories under two arbitrary configurations *)

(** two managers whose tables are well-formed BDD tables with the same
    variable order, the same handle slots and, slot by slot, edges of the same
    meaning (e.g. two fresh managers), running the same list of API calls under
    two arbitrary configurations: both runs fail together, or both final
    tables satisfy the structural invariant and every observation (slot,
    value under every choice, node count; variable order) agrees *)
Theorem C20_run_ops_observe :
  forall alloc1, alloc_ok alloc1 -> forall gt1 C1 cget1 cadd1, lossy cget1 cadd1 ->
  forall (sch1 : nat -> sched),
  forall alloc2, alloc_ok alloc2 -> forall gt2 C2 cget2 cadd2, lossy cget2 cadd2 ->
  forall (sch2 : nat -> sched) ops (st1 : mstate C1) (st2 : mstate C2),
  sim (m_snap C1 st1) (m_snap C2 st2) ->
  CacheOK cget1 (m_snap C1 st1) (m_cache C1 st1) -> CacheOK cget2 (m_snap C2 st2) (m_cache C2 st2) ->
  match run_ops alloc1 gt1 C1 cget1 cadd1 sch1 st1 ops, run_ops alloc2 gt2 C2 cget2 cadd2 sch2 st2 ops with
  | Some a, Some b =>
    wf_b (m_snap C1 a) = true /\ wf_b (m_snap C2 b) = true /\
    forall c, bchoice c -> observe (m_snap C1 a) c = observe (m_snap C2 b) c
  | None, None => True
  | _, _ => False
  end.
Proof.
  exact (fun alloc1 Ha1 gt1 C1 cget1 cadd1 L1 sch1 alloc2 Ha2 gt2 C2 cget2 cadd2 L2 sch2 ops st1 st2 S O1 O2 =>
    run_ops_observe alloc1 Ha1 gt1 C1 cget1 cadd1 L1 sch1 alloc2 Ha2 gt2 C2 cget2 cadd2 L2 sch2 ops st1 st2
      (conj S (conj O1 O2))).
Qed.
Print Assumptions C20_run_ops_observe.

(** what [sim] says, and that it holds of a table with itself *)
Theorem C20_sim_spec : forall s1 s2, sim s1 s2 <->
  BddOK s1 /\ BddOK s2 /\ s_v2l s1 = s_v2l s2 /\ s_l2v s1 = s_l2v s2 /\
  Forall2 (fun h1 h2 : N * edge =>
             fst h1 = fst h2 /\ etag (snd h1) = false /\ etag (snd h2) = false /\
             exists phi, Den s1 (eref (snd h1)) phi /\ Den s2 (eref (snd h2)) phi)
          (s_handles s1) (s_handles s2).
Proof.
  exact (fun s1 s2 => conj
    (fun H => conj (sim_b1 _ _ H) (conj (sim_b2 _ _ H) (conj (sim_v2l _ _ H) (conj (sim_l2v _ _ H) (sim_h _ _ H)))))
    (fun H => match H with conj a (conj b (conj c (conj d e))) => mkSim s1 s2 a b c d e end)).
Qed.
Print Assumptions C20_sim_spec.

Theorem C20_sim_refl : forall s, BddOK s -> sim s s.
Proof. exact sim_refl. Qed.
Print Assumptions C20_sim_refl.

(** ** The configuration of C02 / C06 is an instance *)

Theorem C20_seq_instance : forall gt C cget cadd fuel s (c : C),
  (forall f, apply_not_g fresh_id C cget cadd fuel SSeq s c f = apply_not C cget cadd fuel s c f) /\
  (forall op f g, apply_bin_g fresh_id gt C cget cadd fuel SSeq s c op f g
                  = apply_bin gt C cget cadd fuel s c op f g) /\
  (forall f g h, apply_ite_g fresh_id gt C cget cadd fuel SSeq s c f g h
                 = apply_ite gt C cget cadd fuel s c f g h) /\
  alloc_ok fresh_id.
Proof.
  exact (fun gt C cget cadd fuel s c =>
    conj (apply_not_g_seq C cget cadd fuel s c)
      (conj (fun op f g => apply_bin_g_seq gt C cget cadd fuel s c op f g)
        (conj (fun f g h => apply_ite_g_seq gt C cget cadd fuel s c f g h) fresh_id_alloc_ok))).
Qed.
Print Assumptions C20_seq_instance.

(** ** The hypotheses are satisfiable and the configurations differ *)

(** three model configurations (index-like store, no cache, sequential /
    id-skipping store, 4-bucket direct-mapped cache, every join to depth 3
    swapped with stale caches / address-like store, unbounded cache, mixed
    orders) on a 14-call history: all runs succeed, the tables differ, the
    observations under all 8 choices agree; the start states satisfy the
    hypotheses of [C20_run_ops_observe] *)
Theorem C20_example :
  alloc_ok (alloc_skip 5) /\ alloc_ok alloc_addr /\ BddOK ex_empty /\
  sim ex_empty ex_empty /\ CacheOK (dmr_get hash_op) ex_empty (dm_init 4 8) /\
  observe_all runA <> None /\
  observe_all runA = observe_all runB /\ observe_all runA = observe_all runC /\
  ids_of runA <> ids_of runB /\ ids_of runA <> ids_of runC /\
  length (ids_of runA) = length (ids_of runB) /\
  (match runA, runB with Some a, Some b => m_snap unit a <> m_snap dm_cache b | _, _ => False end).
Proof.
  exact (conj (alloc_skip_ok 5) (conj alloc_addr_ok (conj ex_empty_ok
          (conj (sim_refl ex_empty ex_empty_ok) (conj (dm_cacheok_init hash_op ex_empty 4 8) ex_runs))))).
Qed.
Print Assumptions C20_example.

(** the swapped join order alone already changes the table (same store): the
    equivalence of (c) is up to node ids, not an identity *)
Theorem C20_example_order :
  let x := run_ops fresh_id gt_id unit nc_get nc_add sch_seq (mkM unit ex_empty tt 0) ex_ops in
  let y := run_ops fresh_id gt_id unit nc_get nc_add sch_swapped (mkM unit ex_empty tt 0) ex_ops in
  observe_all x = observe_all y /\
  (match x, y with Some a, Some b => m_snap unit a <> m_snap unit b | _, _ => False end).
Proof. exact ex_swap_ids. Qed.
Print Assumptions C20_example_order.

(** cache on/off with the same store and schedule: identical tables *)
Theorem C20_example_cache :
  let x := run_ops fresh_id gt_id unit nc_get nc_add sch_swapped (mkM unit ex_empty tt 0) ex_ops in
  let y := run_ops fresh_id gt_rev dm_cache (dmr_get hash_op) (dmr_add hash_op) sch_swapped
                   (mkM dm_cache ex_empty (dm_init 2 8) 0) ex_ops in
  match x, y with Some a, Some b => m_snap unit a = m_snap dm_cache b | _, _ => False end.
Proof. exact ex_cache_exact. Qed.
Print Assumptions C20_example_cache.

(** renaming the final table of run A to slab addresses: other ids, same
    observation, same invariants *)
Theorem C20_example_rename :
  match runA with
  | Some a =>
    let s := m_snap unit a in
    let s' := rename_snap (addr_of 4096 4) s in
    map fst (PositiveMap.elements (s_nodes s')) <> map fst (PositiveMap.elements (s_nodes s)) /\
    map (observe s') all_choices = map (observe s) all_choices /\
    wf_b s' = true /\ rc_exact_b s' [] = rc_exact_b s []
  | None => False
  end.
Proof. exact ex_rename. Qed.
Print Assumptions C20_example_rename.

(** * C20x: the same for the complement-edge kind (BCDD) and the ZBDD kind

    Models: DD/ConfigBcdd.v ([capply_op_g], [capply_ite_g]; [not] is a tag flip,
    [capply_not]), DD/ConfigZbdd.v ([zapply_g] = union / intersection / difference,
    [zapply_not_g], [zsymm_g], [zapply_op_g], [zapply_ite_g]); proofs in
    DD/ConfigBcdd{Proofs,Cache,Indep}.v, DD/ConfigZbdd{Proofs,Ite,Cache,CacheIte,Indep}.v.
    A configuration is (alloc, edge order, cache, sched) as above.

    Reading the ZBDD statements: [ZDen s r P] = [r] exists in [s] and the list
    [fam_of s r] (= [famz] with the standard fuel) has exactly the members
    satisfying [P]; [zfam s r] = "is a member of [fam_of s r]"; [pbin] / [pop] /
    [pite] / [pall] = the set expressions of the operators on such predicates
    (DD/ZbddOpsProofs.v, DD/ZbddBoolProofs.v); [zview_of s r c] = [semz] with the
    standard fuel = the Boolean view. *)
From OxiVerif Require Import DD.CanonBcdd DD.ApplyBcdd DD.ApplyBcddProofs DD.ApplyBcddIte
  DD.FamSpec DD.ZbddOps DD.ZbddOpsProofs DD.ZbddVarsProofs DD.ZbddBool DD.ZbddBoolProofs DD.ZbddEvalProofs DD.ZbddExamples
  DD.ConfigInsert DD.ConfigBcdd DD.ConfigBcddProofs DD.ConfigBcddCache DD.ConfigBcddIndep
  DD.ConfigZbdd DD.ConfigZbddProofs DD.ConfigZbddIte DD.ConfigZbddCache DD.ConfigZbddCacheIte DD.ConfigZbddIndep
  DD.ConfigBcddRun DD.ConfigZbddRun DD.ConfigXExamples.

(** ** BCDD (a): any two lossy caches and edge orders, same store and schedule: identical table and edge *)

Theorem C20_bcdd_apply_op_cache_exact :
  forall alloc, alloc_ok alloc ->
  forall lt1 lt2 C1 C2 cget1 cadd1 cget2 cadd2, lossyC cget1 cadd1 -> lossyC cget2 cadd2 ->
  forall o fuel x s (c1 : C1) (c2 : C2) f g,
  BcOK s -> CacheOKC cget1 s c1 -> CacheOKC cget2 s c2 -> ref_ok s (eref f) -> ref_ok s (eref g) ->
  S (nlevels s) <= fuel ->
  match capply_op_g alloc lt1 C1 cget1 cadd1 fuel x s c1 o f g,
        capply_op_g alloc lt2 C2 cget2 cadd2 fuel x s c2 o f g with
  | Some (s1, _, r1), Some (s2, _, r2) => s1 = s2 /\ r1 = r2
  | _, _ => False
  end.
Proof. exact capply_op_g_cache_exact. Qed.
Print Assumptions C20_bcdd_apply_op_cache_exact.

Theorem C20_bcdd_apply_ite_cache_exact :
  forall alloc, alloc_ok alloc ->
  forall lt1 lt2 C1 C2 cget1 cadd1 cget2 cadd2, lossyC cget1 cadd1 -> lossyC cget2 cadd2 ->
  forall fuel x s (c1 : C1) (c2 : C2) f g h,
  BcOK s -> CacheOKC cget1 s c1 -> CacheOKC cget2 s c2 ->
  ref_ok s (eref f) -> ref_ok s (eref g) -> ref_ok s (eref h) -> S (nlevels s) <= fuel ->
  match capply_ite_g alloc lt1 C1 cget1 cadd1 fuel x s c1 f g h,
        capply_ite_g alloc lt2 C2 cget2 cadd2 fuel x s c2 f g h with
  | Some (s1, _, r1), Some (s2, _, r2) => s1 = s2 /\ r1 = r2
  | _, _ => False
  end.
Proof. exact capply_ite_g_cache_exact. Qed.
Print Assumptions C20_bcdd_apply_ite_cache_exact.

(** ** BCDD (b): the node count is a function of the value table, across two tables *)

Theorem C20_bcdd_count_reach_semc : forall s1 s2, BcOK s1 -> BcOK s2 -> nlevels s1 = nlevels s2 ->
  forall e1 e2, ref_ok s1 (eref e1) -> ref_ok s2 (eref e2) ->
  (forall c0, bchoice c0 -> semc s1 (S (nlevels s1)) e1 c0 = semc s2 (S (nlevels s2)) e2 c0) ->
  count_reach s1 e1 = count_reach s2 e2.
Proof. exact count_reach_semc. Qed.
Print Assumptions C20_bcdd_count_reach_semc.

(** ** BCDD (a)+(b)+(c): one operation under two arbitrary configurations *)

Theorem C20_bcdd_apply_op_config_indep :
  forall alloc1, alloc_ok alloc1 -> forall lt1 C1 cget1 cadd1, lossyC cget1 cadd1 ->
  forall alloc2, alloc_ok alloc2 -> forall lt2 C2 cget2 cadd2, lossyC cget2 cadd2 ->
  forall o s (c1 : C1) (c2 : C2) f g x1 x2 fuel1 fuel2,
  BcOK s -> CacheOKC cget1 s c1 -> CacheOKC cget2 s c2 -> ref_ok s (eref f) -> ref_ok s (eref g) ->
  S (nlevels s) <= fuel1 -> S (nlevels s) <= fuel2 ->
  exists s1 c1' r1 s2 c2' r2,
    capply_op_g alloc1 lt1 C1 cget1 cadd1 fuel1 x1 s c1 o f g = Some (s1, c1', r1) /\
    capply_op_g alloc2 lt2 C2 cget2 cadd2 fuel2 x2 s c2 o f g = Some (s2, c2', r2) /\
    BcOK s1 /\ BcOK s2 /\ extends s s1 /\ extends s s2 /\
    CacheOKC cget1 s1 c1' /\ CacheOKC cget2 s2 c2' /\
    ref_ok s1 (eref r1) /\ ref_ok s2 (eref r2) /\
    (forall c0, bchoice c0 -> exists v,
       (exists a b, semc s (S (nlevels s)) f c0 = Some a /\ semc s (S (nlevels s)) g c0 = Some b /\
                    v = eval_bop o a b) /\
       semc s1 (S (nlevels s1)) r1 c0 = Some v /\ semc s2 (S (nlevels s2)) r2 c0 = Some v) /\
    count_reach s1 r1 = count_reach s2 r2 /\
    (forall r0, ref_ok s (eref r0) ->
       (forall c0, bchoice c0 -> semc s (S (nlevels s)) r0 c0 = semc s1 (S (nlevels s1)) r1 c0) ->
       s1 = s /\ s2 = s /\ r1 = r0 /\ r2 = r0).
Proof. exact capply_op_g_config_indep. Qed.
Print Assumptions C20_bcdd_apply_op_config_indep.

Theorem C20_bcdd_apply_ite_config_indep :
  forall alloc1, alloc_ok alloc1 -> forall lt1 C1 cget1 cadd1, lossyC cget1 cadd1 ->
  forall alloc2, alloc_ok alloc2 -> forall lt2 C2 cget2 cadd2, lossyC cget2 cadd2 ->
  forall s (c1 : C1) (c2 : C2) f g h x1 x2 fuel1 fuel2,
  BcOK s -> CacheOKC cget1 s c1 -> CacheOKC cget2 s c2 ->
  ref_ok s (eref f) -> ref_ok s (eref g) -> ref_ok s (eref h) ->
  S (nlevels s) <= fuel1 -> S (nlevels s) <= fuel2 ->
  exists s1 c1' r1 s2 c2' r2,
    capply_ite_g alloc1 lt1 C1 cget1 cadd1 fuel1 x1 s c1 f g h = Some (s1, c1', r1) /\
    capply_ite_g alloc2 lt2 C2 cget2 cadd2 fuel2 x2 s c2 f g h = Some (s2, c2', r2) /\
    BcOK s1 /\ BcOK s2 /\ extends s s1 /\ extends s s2 /\
    CacheOKC cget1 s1 c1' /\ CacheOKC cget2 s2 c2' /\
    ref_ok s1 (eref r1) /\ ref_ok s2 (eref r2) /\
    (forall c0, bchoice c0 -> exists v,
       (exists a b d, semc s (S (nlevels s)) f c0 = Some a /\ semc s (S (nlevels s)) g c0 = Some b /\
                      semc s (S (nlevels s)) h c0 = Some d /\ v = if a then b else d) /\
       semc s1 (S (nlevels s1)) r1 c0 = Some v /\ semc s2 (S (nlevels s2)) r2 c0 = Some v) /\
    count_reach s1 r1 = count_reach s2 r2 /\
    (forall r0, ref_ok s (eref r0) ->
       (forall c0, bchoice c0 -> semc s (S (nlevels s)) r0 c0 = semc s1 (S (nlevels s1)) r1 c0) ->
       s1 = s /\ s2 = s /\ r1 = r0 /\ r2 = r0).
Proof. exact capply_ite_g_config_indep. Qed.
Print Assumptions C20_bcdd_apply_ite_config_indep.

(** [not_edge] is a tag flip: it reads neither the store nor the cache *)
Theorem C20_bcdd_apply_not_config_indep :
  forall C1 (cget1 : C1 -> N -> list edge -> option edge) C2 (cget2 : C2 -> N -> list edge -> option edge)
         s (c1 : C1) (c2 : C2) f,
  BcOK s -> CacheOKC cget1 s c1 -> CacheOKC cget2 s c2 -> ref_ok s (eref f) ->
  exists s1 c1' r1 s2 c2' r2,
    capply_not C1 s c1 f = Some (s1, c1', r1) /\ capply_not C2 s c2 f = Some (s2, c2', r2) /\
    BcOK s1 /\ BcOK s2 /\ extends s s1 /\ extends s s2 /\
    CacheOKC cget1 s1 c1' /\ CacheOKC cget2 s2 c2' /\
    ref_ok s1 (eref r1) /\ ref_ok s2 (eref r2) /\
    (forall c0, bchoice c0 -> exists v,
       (exists a, semc s (S (nlevels s)) f c0 = Some a /\ v = negb a) /\
       semc s1 (S (nlevels s1)) r1 c0 = Some v /\ semc s2 (S (nlevels s2)) r2 c0 = Some v) /\
    count_reach s1 r1 = count_reach s2 r2 /\
    (forall r0, ref_ok s (eref r0) ->
       (forall c0, bchoice c0 -> semc s (S (nlevels s)) r0 c0 = semc s1 (S (nlevels s1)) r1 c0) ->
       s1 = s /\ s2 = s /\ r1 = r0 /\ r2 = r0).
Proof. exact capply_not_config_indep. Qed.
Print Assumptions C20_bcdd_apply_not_config_indep.

(** (c) then-closure first with a shared cache versus else-closure first with a stale cache view *)
Theorem C20_bcdd_apply_op_either_order : forall alloc, alloc_ok alloc ->
  forall lt C cget cadd, lossyC cget cadd ->
  forall o s (c : C) f g l r l' r' stale,
  BcOK s -> CacheOKC cget s c -> ref_ok s (eref f) -> ref_ok s (eref g) ->
  exists s1 c1' r1 s2 c2' r2,
    capply_op_g alloc lt C cget cadd (S (nlevels s)) (SPar false false l r) s c o f g = Some (s1, c1', r1) /\
    capply_op_g alloc lt C cget cadd (S (nlevels s)) (SPar true stale l' r') s c o f g = Some (s2, c2', r2) /\
    BcOK s1 /\ BcOK s2 /\ extends s s1 /\ extends s s2 /\
    CacheOKC cget s1 c1' /\ CacheOKC cget s2 c2' /\
    ref_ok s1 (eref r1) /\ ref_ok s2 (eref r2) /\
    (forall c0, bchoice c0 -> exists v,
       (exists a b, semc s (S (nlevels s)) f c0 = Some a /\ semc s (S (nlevels s)) g c0 = Some b /\
                    v = eval_bop o a b) /\
       semc s1 (S (nlevels s1)) r1 c0 = Some v /\ semc s2 (S (nlevels s2)) r2 c0 = Some v) /\
    count_reach s1 r1 = count_reach s2 r2 /\
    (forall r0, ref_ok s (eref r0) ->
       (forall c0, bchoice c0 -> semc s (S (nlevels s)) r0 c0 = semc s1 (S (nlevels s1)) r1 c0) ->
       s1 = s /\ s2 = s /\ r1 = r0 /\ r2 = r0).
Proof. exact capply_op_g_either_order. Qed.
Print Assumptions C20_bcdd_apply_op_either_order.

(** history independence across configurations *)
Theorem C20_bcdd_apply_op_rerun :
  forall alloc1, alloc_ok alloc1 -> forall lt1 C1 cget1 cadd1, lossyC cget1 cadd1 ->
  forall alloc2, alloc_ok alloc2 -> forall lt2 C2 cget2 cadd2, lossyC cget2 cadd2 ->
  forall o s (c1 : C1) f g x1 fuel1 s1 c1' r1,
  BcOK s -> CacheOKC cget1 s c1 -> ref_ok s (eref f) -> ref_ok s (eref g) -> S (nlevels s) <= fuel1 ->
  capply_op_g alloc1 lt1 C1 cget1 cadd1 fuel1 x1 s c1 o f g = Some (s1, c1', r1) ->
  forall s2 (c2 : C2) x2 fuel2, BcOK s2 -> extends s1 s2 -> CacheOKC cget2 s2 c2 -> S (nlevels s2) <= fuel2 ->
  exists c2', capply_op_g alloc2 lt2 C2 cget2 cadd2 fuel2 x2 s2 c2 o f g = Some (s2, c2', r1).
Proof. exact capply_op_g_rerun. Qed.
Print Assumptions C20_bcdd_apply_op_rerun.

(** the configuration of C02 (DD/ApplyBcdd.v) is an instance *)
Theorem C20_bcdd_seq_instance : forall lt C cget cadd fuel s (c : C),
  (forall o f g, capply_op_g fresh_id lt C cget cadd fuel SSeq s c o f g = capply_op lt C cget cadd fuel s c o f g) /\
  (forall f g h, capply_ite_g fresh_id lt C cget cadd fuel SSeq s c f g h = capply_ite lt C cget cadd fuel s c f g h) /\
  (forall v neg, cmk_var_a fresh_id s v neg = cmk_var s v neg).
Proof.
  exact (fun lt C cget cadd fuel s c =>
    conj (fun o f g => capply_op_g_seq lt C cget cadd fuel s c o f g)
      (conj (fun f g h => capply_ite_g_seq lt C cget cadd fuel s c f g h) (cmk_var_a_fresh s))).
Qed.
Print Assumptions C20_bcdd_seq_instance.

(** non-vacuity: on [ex_bcdd] two configurations that differ in everything give
    other tables but the same value tables and node counts for all 8 operators;
    same store + schedule, other cache + edge order: identical tables; a
    15-call history on an empty 3-variable manager under three configurations *)
Theorem C20_bcdd_example :
  BcOK ex_bcdd /\ CacheOKC eac_get ex_bcdd [] /\ CacheOKC enc_get ex_bcdd tt /\ alloc_ok (alloc_skip 5) /\
  (forall o, In o all_bops ->
     c_obs (cA o) <> None /\ c_obs (cA o) = c_obs (cB o) /\ c_tab (cA o) = c_tab (cA' o)) /\
  (c_tab (cA OAnd) <> c_tab (cB OAnd) /\ c_tab (cA OXor) <> c_tab (cB OXor)) /\
  BcOK ex_cempty /\
  (cobserve_all crunA <> None /\ cobserve_all crunA = cobserve_all crunB /\ cobserve_all crunA = cobserve_all crunC /\
   cids_of crunA <> cids_of crunB /\ cids_of crunA <> cids_of crunC /\
   length (cids_of crunA) = length (cids_of crunB)).
Proof.
  exact (conj ApplyBcddExamples.ex_bcdd_bcok (conj ApplyBcddExamples.ex_bcdd_cache_ok (conj ex_c_nocache_ok
          (conj (alloc_skip_ok 5) (conj ex_c_configs (conj ex_c_tables_differ (conj ex_cempty_ok ex_cruns))))))).
Qed.
Print Assumptions C20_bcdd_example.

(** ** ZBDD (a): any two lossy caches and operand orders, same store and schedule: identical table and edge *)

Theorem C20_zbdd_setop_cache_exact :
  forall alloc, alloc_ok alloc ->
  forall gt1 gt2 C1 C2 cget1 cadd1 cget2 cadd2, zlossy C1 cget1 cadd1 -> zlossy C2 cget2 cadd2 ->
  forall op fuel x s (c1 : C1) (c2 : C2) f g,
  ZbddOK s -> ZCacheOKB C1 cget1 s c1 -> ZCacheOKB C2 cget2 s c2 -> ref_ok s f -> ref_ok s g ->
  S (nlevels s) <= fuel ->
  match zapply_g alloc gt1 C1 cget1 cadd1 fuel x s c1 op f g,
        zapply_g alloc gt2 C2 cget2 cadd2 fuel x s c2 op f g with
  | Some (s1, _, r1), Some (s2, _, r2) => s1 = s2 /\ r1 = r2
  | _, _ => False
  end.
Proof. exact zapply_g_cache_exact. Qed.
Print Assumptions C20_zbdd_setop_cache_exact.

Theorem C20_zbdd_apply_not_cache_exact :
  forall alloc, alloc_ok alloc ->
  forall gt1 gt2 C1 C2 cget1 cadd1 cget2 cadd2, zlossy C1 cget1 cadd1 -> zlossy C2 cget2 cadd2 ->
  forall fuel x s (c1 : C1) (c2 : C2) f,
  ZbddOK s -> ZChainOK s -> ZCacheOKB C1 cget1 s c1 -> ZCacheOKB C2 cget2 s c2 -> ref_ok s f ->
  S (nlevels s) <= fuel ->
  match zapply_not_g alloc gt1 C1 cget1 cadd1 fuel x s c1 f,
        zapply_not_g alloc gt2 C2 cget2 cadd2 fuel x s c2 f with
  | Some (s1, _, r1), Some (s2, _, r2) => s1 = s2 /\ r1 = r2
  | _, _ => False
  end.
Proof. exact zapply_not_g_cache_exact. Qed.
Print Assumptions C20_zbdd_apply_not_cache_exact.

Theorem C20_zbdd_apply_op_cache_exact :
  forall alloc, alloc_ok alloc ->
  forall gt1 gt2 C1 C2 cget1 cadd1 cget2 cadd2, zlossy C1 cget1 cadd1 -> zlossy C2 cget2 cadd2 ->
  forall op fuel x s (c1 : C1) (c2 : C2) f g,
  ZbddOK s -> ZChainOK s -> ZCacheOKB C1 cget1 s c1 -> ZCacheOKB C2 cget2 s c2 -> ref_ok s f -> ref_ok s g ->
  S (nlevels s) <= fuel ->
  match zapply_op_g alloc gt1 C1 cget1 cadd1 fuel x s c1 op f g,
        zapply_op_g alloc gt2 C2 cget2 cadd2 fuel x s c2 op f g with
  | Some (s1, _, r1), Some (s2, _, r2) => s1 = s2 /\ r1 = r2
  | _, _ => False
  end.
Proof. exact zapply_op_g_cache_exact. Qed.
Print Assumptions C20_zbdd_apply_op_cache_exact.

Theorem C20_zbdd_apply_ite_cache_exact :
  forall alloc, alloc_ok alloc ->
  forall gt1 gt2 C1 C2 cget1 cadd1 cget2 cadd2, zlossy C1 cget1 cadd1 -> zlossy C2 cget2 cadd2 ->
  forall fuel x s (c1 : C1) (c2 : C2) f g h,
  ZbddOK s -> ZChainOK s -> ZCacheOKB C1 cget1 s c1 -> ZCacheOKB C2 cget2 s c2 ->
  ref_ok s f -> ref_ok s g -> ref_ok s h -> S (nlevels s) <= fuel ->
  match zapply_ite_g alloc gt1 C1 cget1 cadd1 fuel x s c1 f g h,
        zapply_ite_g alloc gt2 C2 cget2 cadd2 fuel x s c2 f g h with
  | Some (s1, _, r1), Some (s2, _, r2) => s1 = s2 /\ r1 = r2
  | _, _ => False
  end.
Proof. exact zapply_ite_g_cache_exact. Qed.
Print Assumptions C20_zbdd_apply_ite_cache_exact.

(** ** ZBDD (b): the node count is a function of the family, across two tables *)

Theorem C20_zbdd_count_reach_fam : forall s1 s2, ZbddOK s1 -> ZbddOK s2 -> nlevels s1 = nlevels s2 ->
  forall r1 r2 F1 F2, ref_ok s1 r1 -> ref_ok s2 r2 ->
  fam_of s1 r1 = Some F1 -> fam_of s2 r2 = Some F2 -> (forall S, In S F1 <-> In S F2) ->
  count_reach s1 (E r1) = count_reach s2 (E r2).
Proof. exact count_reach_fam. Qed.
Print Assumptions C20_zbdd_count_reach_fam.

(** ** ZBDD (a)+(b)+(c): one operation under two arbitrary configurations *)

(** union / intersection / difference *)
Theorem C20_zbdd_setop_config_indep :
  forall alloc1, alloc_ok alloc1 -> forall gt1 C1 cget1 cadd1, zlossy C1 cget1 cadd1 ->
  forall alloc2, alloc_ok alloc2 -> forall gt2 C2 cget2 cadd2, zlossy C2 cget2 cadd2 ->
  forall op s (c1 : C1) (c2 : C2) f g x1 x2 fuel1 fuel2,
  ZbddOK s -> ZCacheOKB C1 cget1 s c1 -> ZCacheOKB C2 cget2 s c2 -> ref_ok s f -> ref_ok s g ->
  S (nlevels s) <= fuel1 -> S (nlevels s) <= fuel2 ->
  exists s1 c1' r1 s2 c2' r2,
    zapply_g alloc1 gt1 C1 cget1 cadd1 fuel1 x1 s c1 op f g = Some (s1, c1', r1) /\
    zapply_g alloc2 gt2 C2 cget2 cadd2 fuel2 x2 s c2 op f g = Some (s2, c2', r2) /\
    ZbddOK s1 /\ ZbddOK s2 /\ extends s s1 /\ extends s s2 /\
    ZCacheOKB C1 cget1 s1 c1' /\ ZCacheOKB C2 cget2 s2 c2' /\
    ref_ok s1 r1 /\ ref_ok s2 r2 /\
    ZDen s1 r1 (pbin op (zfam s f) (zfam s g)) /\ ZDen s2 r2 (pbin op (zfam s f) (zfam s g)) /\
    (forall c0, choice_ok s c0 -> exists v, True /\ zview_of s1 r1 c0 = Some v /\ zview_of s2 r2 c0 = Some v) /\
    count_reach s1 (E r1) = count_reach s2 (E r2) /\
    (forall r0, ref_ok s r0 ->
       (forall c0, choice_ok s c0 -> zview_of s r0 c0 = zview_of s1 r1 c0) ->
       r1 = r0 /\ r2 = r0 /\ (true = true -> s1 = s /\ s2 = s)).
Proof. exact zapply_g_config_indep. Qed.
Print Assumptions C20_zbdd_setop_config_indep.

(** the eight Boolean operators; [bop_single op = false] for nand / nor / equiv
    (two recursions: the table may keep nodes of the intermediate result) *)
Theorem C20_zbdd_apply_op_config_indep :
  forall alloc1, alloc_ok alloc1 -> forall gt1 C1 cget1 cadd1, zlossy C1 cget1 cadd1 ->
  forall alloc2, alloc_ok alloc2 -> forall gt2 C2 cget2 cadd2, zlossy C2 cget2 cadd2 ->
  forall op s (c1 : C1) (c2 : C2) f g x1 x2 fuel1 fuel2,
  ZbddOK s -> ZChainOK s -> ZCacheOKB C1 cget1 s c1 -> ZCacheOKB C2 cget2 s c2 -> ref_ok s f -> ref_ok s g ->
  S (nlevels s) <= fuel1 -> S (nlevels s) <= fuel2 ->
  exists s1 c1' r1 s2 c2' r2,
    zapply_op_g alloc1 gt1 C1 cget1 cadd1 fuel1 x1 s c1 op f g = Some (s1, c1', r1) /\
    zapply_op_g alloc2 gt2 C2 cget2 cadd2 fuel2 x2 s c2 op f g = Some (s2, c2', r2) /\
    ZbddOK s1 /\ ZbddOK s2 /\ extends s s1 /\ extends s s2 /\
    ZCacheOKB C1 cget1 s1 c1' /\ ZCacheOKB C2 cget2 s2 c2' /\
    ref_ok s1 r1 /\ ref_ok s2 r2 /\
    ZDen s1 r1 (pop (nlevels s) op (zfam s f) (zfam s g)) /\ ZDen s2 r2 (pop (nlevels s) op (zfam s f) (zfam s g)) /\
    (forall c0, choice_ok s c0 -> exists v,
       (exists a b, zview_of s f c0 = Some a /\ zview_of s g c0 = Some b /\ v = eval_bop op a b) /\
       zview_of s1 r1 c0 = Some v /\ zview_of s2 r2 c0 = Some v) /\
    count_reach s1 (E r1) = count_reach s2 (E r2) /\
    (forall r0, ref_ok s r0 ->
       (forall c0, choice_ok s c0 -> zview_of s r0 c0 = zview_of s1 r1 c0) ->
       r1 = r0 /\ r2 = r0 /\ (bop_single op = true -> s1 = s /\ s2 = s)).
Proof. exact zapply_op_g_config_indep. Qed.
Print Assumptions C20_zbdd_apply_op_config_indep.

Theorem C20_zbdd_apply_not_config_indep :
  forall alloc1, alloc_ok alloc1 -> forall gt1 C1 cget1 cadd1, zlossy C1 cget1 cadd1 ->
  forall alloc2, alloc_ok alloc2 -> forall gt2 C2 cget2 cadd2, zlossy C2 cget2 cadd2 ->
  forall s (c1 : C1) (c2 : C2) f x1 x2 fuel1 fuel2,
  ZbddOK s -> ZChainOK s -> ZCacheOKB C1 cget1 s c1 -> ZCacheOKB C2 cget2 s c2 -> ref_ok s f ->
  S (nlevels s) <= fuel1 -> S (nlevels s) <= fuel2 ->
  exists s1 c1' r1 s2 c2' r2,
    zapply_not_g alloc1 gt1 C1 cget1 cadd1 fuel1 x1 s c1 f = Some (s1, c1', r1) /\
    zapply_not_g alloc2 gt2 C2 cget2 cadd2 fuel2 x2 s c2 f = Some (s2, c2', r2) /\
    ZbddOK s1 /\ ZbddOK s2 /\ extends s s1 /\ extends s s2 /\
    ZCacheOKB C1 cget1 s1 c1' /\ ZCacheOKB C2 cget2 s2 c2' /\
    ref_ok s1 r1 /\ ref_ok s2 r2 /\
    ZDen s1 r1 (pbin ZDiff (pall (nlevels s) 0) (zfam s f)) /\ ZDen s2 r2 (pbin ZDiff (pall (nlevels s) 0) (zfam s f)) /\
    (forall c0, choice_ok s c0 -> exists v,
       (exists a, zview_of s f c0 = Some a /\ v = negb a) /\
       zview_of s1 r1 c0 = Some v /\ zview_of s2 r2 c0 = Some v) /\
    count_reach s1 (E r1) = count_reach s2 (E r2) /\
    (forall r0, ref_ok s r0 ->
       (forall c0, choice_ok s c0 -> zview_of s r0 c0 = zview_of s1 r1 c0) ->
       r1 = r0 /\ r2 = r0 /\ (true = true -> s1 = s /\ s2 = s)).
Proof. exact zapply_not_g_config_indep. Qed.
Print Assumptions C20_zbdd_apply_not_config_indep.

Theorem C20_zbdd_apply_ite_config_indep :
  forall alloc1, alloc_ok alloc1 -> forall gt1 C1 cget1 cadd1, zlossy C1 cget1 cadd1 ->
  forall alloc2, alloc_ok alloc2 -> forall gt2 C2 cget2 cadd2, zlossy C2 cget2 cadd2 ->
  forall s (c1 : C1) (c2 : C2) f g h x1 x2 fuel1 fuel2,
  ZbddOK s -> ZChainOK s -> ZCacheOKB C1 cget1 s c1 -> ZCacheOKB C2 cget2 s c2 ->
  ref_ok s f -> ref_ok s g -> ref_ok s h ->
  S (nlevels s) <= fuel1 -> S (nlevels s) <= fuel2 ->
  exists s1 c1' r1 s2 c2' r2,
    zapply_ite_g alloc1 gt1 C1 cget1 cadd1 fuel1 x1 s c1 f g h = Some (s1, c1', r1) /\
    zapply_ite_g alloc2 gt2 C2 cget2 cadd2 fuel2 x2 s c2 f g h = Some (s2, c2', r2) /\
    ZbddOK s1 /\ ZbddOK s2 /\ extends s s1 /\ extends s s2 /\
    ZCacheOKB C1 cget1 s1 c1' /\ ZCacheOKB C2 cget2 s2 c2' /\
    ref_ok s1 r1 /\ ref_ok s2 r2 /\
    ZDen s1 r1 (pite (zfam s f) (zfam s g) (zfam s h)) /\ ZDen s2 r2 (pite (zfam s f) (zfam s g) (zfam s h)) /\
    (forall c0, choice_ok s c0 -> exists v,
       (exists a b d, zview_of s f c0 = Some a /\ zview_of s g c0 = Some b /\ zview_of s h c0 = Some d /\
                      v = if a then b else d) /\
       zview_of s1 r1 c0 = Some v /\ zview_of s2 r2 c0 = Some v) /\
    count_reach s1 (E r1) = count_reach s2 (E r2) /\
    (forall r0, ref_ok s r0 ->
       (forall c0, choice_ok s c0 -> zview_of s r0 c0 = zview_of s1 r1 c0) ->
       r1 = r0 /\ r2 = r0 /\ (true = true -> s1 = s /\ s2 = s)).
Proof. exact zapply_ite_g_config_indep. Qed.
Print Assumptions C20_zbdd_apply_ite_config_indep.

(** (c) hi-closure first with a shared cache versus lo-closure first with a stale cache view *)
Theorem C20_zbdd_apply_op_either_order : forall alloc, alloc_ok alloc ->
  forall gt C cget cadd, zlossy C cget cadd ->
  forall op s (c : C) f g l r l' r' stale,
  ZbddOK s -> ZChainOK s -> ZCacheOKB C cget s c -> ref_ok s f -> ref_ok s g ->
  exists s1 c1' r1 s2 c2' r2,
    zapply_op_g alloc gt C cget cadd (S (nlevels s)) (SPar false false l r) s c op f g = Some (s1, c1', r1) /\
    zapply_op_g alloc gt C cget cadd (S (nlevels s)) (SPar true stale l' r') s c op f g = Some (s2, c2', r2) /\
    ZbddOK s1 /\ ZbddOK s2 /\ extends s s1 /\ extends s s2 /\
    ZCacheOKB C cget s1 c1' /\ ZCacheOKB C cget s2 c2' /\
    ref_ok s1 r1 /\ ref_ok s2 r2 /\
    ZDen s1 r1 (pop (nlevels s) op (zfam s f) (zfam s g)) /\ ZDen s2 r2 (pop (nlevels s) op (zfam s f) (zfam s g)) /\
    (forall c0, choice_ok s c0 -> exists v,
       (exists a b, zview_of s f c0 = Some a /\ zview_of s g c0 = Some b /\ v = eval_bop op a b) /\
       zview_of s1 r1 c0 = Some v /\ zview_of s2 r2 c0 = Some v) /\
    count_reach s1 (E r1) = count_reach s2 (E r2) /\
    (forall r0, ref_ok s r0 ->
       (forall c0, choice_ok s c0 -> zview_of s r0 c0 = zview_of s1 r1 c0) ->
       r1 = r0 /\ r2 = r0 /\ (bop_single op = true -> s1 = s /\ s2 = s)).
Proof. exact zapply_op_g_either_order. Qed.
Print Assumptions C20_zbdd_apply_op_either_order.

(** history independence across configurations *)
Theorem C20_zbdd_apply_op_rerun :
  forall alloc1, alloc_ok alloc1 -> forall gt1 C1 cget1 cadd1, zlossy C1 cget1 cadd1 ->
  forall alloc2, alloc_ok alloc2 -> forall gt2 C2 cget2 cadd2, zlossy C2 cget2 cadd2 ->
  forall op s (c1 : C1) f g x1 fuel1 s1 c1' r1,
  ZbddOK s -> ZChainOK s -> ZCacheOKB C1 cget1 s c1 -> ref_ok s f -> ref_ok s g -> S (nlevels s) <= fuel1 ->
  zapply_op_g alloc1 gt1 C1 cget1 cadd1 fuel1 x1 s c1 op f g = Some (s1, c1', r1) ->
  forall s2 (c2 : C2) x2 fuel2, ZbddOK s2 -> extends s1 s2 -> ZCacheOKB C2 cget2 s2 c2 -> S (nlevels s2) <= fuel2 ->
  exists s3 c2', zapply_op_g alloc2 gt2 C2 cget2 cadd2 fuel2 x2 s2 c2 op f g = Some (s3, c2', r1) /\
    (bop_single op = true -> s3 = s2).
Proof. exact zapply_op_g_rerun. Qed.
Print Assumptions C20_zbdd_apply_op_rerun.

(** the configuration of C09 / C02 (DD/ZbddOps.v, DD/ZbddBool.v) is an instance *)
Theorem C20_zbdd_seq_instance : forall gt C cget cadd fuel s (c : C),
  (forall op f g, zapply_g fresh_id gt C cget cadd fuel SSeq s c op f g = zapply gt C cget cadd fuel s c op f g) /\
  (forall f, zapply_not_g fresh_id gt C cget cadd fuel SSeq s c f = zapply_not gt C cget cadd fuel s c f) /\
  (forall op f g, zapply_op_g fresh_id gt C cget cadd fuel SSeq s c op f g = zapply_op gt C cget cadd fuel s c op f g) /\
  (forall f g h, zapply_ite_g fresh_id gt C cget cadd fuel SSeq s c f g h = zapply_ite gt C cget cadd fuel s c f g h).
Proof.
  exact (fun gt C cget cadd fuel s c =>
    conj (fun op f g => zapply_g_seq gt C cget cadd fuel s c op f g)
      (conj (fun f => zapply_not_g_seq gt C cget cadd fuel s c f)
        (conj (fun op f g => zapply_op_g_seq gt C cget cadd fuel s c op f g)
              (fun f g h => zapply_ite_g_seq gt C cget cadd fuel s c f g h)))).
Qed.
Print Assumptions C20_zbdd_seq_instance.

(** non-vacuity: on [ex_z4] (with its tautology chain) two configurations that
    differ in everything give other tables but the same Boolean views and
    node counts for all 8 operators and ite; same store + schedule, other
    cache + operand order: identical tables *)
Theorem C20_zbdd_example :
  ZbddOK ex_z4 /\ ZChainOK ex_z4 /\ ZCacheOKB zacache zac_get ex_z4 [] /\ ZCacheOKB unit znc_get ex_z4 tt /\
  (forall o, In o all_bops ->
     z_obs (zA o) <> None /\ z_obs (zA o) = z_obs (zB o) /\ z_tab (zA o) = z_tab (zA' o)) /\
  (z_tab (zA OXor) <> z_tab (zB OXor) /\ z_tab (zA ONand) <> z_tab (zB ONand)).
Proof.
  exact (conj ZbddBoolExamples.ex_z4_ok (conj ZbddBoolExamples.ex_z4_chain (conj ZbddBoolExamples.ex_z4_cache_ok
          (conj ZbddBoolExamples.ex_z4_nocache_ok (conj ex_z_configs ex_z_tables_differ))))).
Qed.
Print Assumptions C20_zbdd_example.

(** ** BCDD / ZBDD: whole API-call histories (const, var, not_var, not, the 8 operators, ite, clone, drop) *)

(** [csim] / [zsim]: both tables well-formed (ZBDD: with the tautology chain), same
    variable order, same handle slots, slot-wise the same function / family *)
Theorem C20_bcdd_sim_spec : forall s1 s2,
  csim s1 s2 <->
  BcOK s1 /\ BcOK s2 /\ s_v2l s1 = s_v2l s2 /\ s_l2v s1 = s_l2v s2 /\
  Forall2 (fun h1 h2 : N * edge => fst h1 = fst h2 /\
             exists phi, DenC s1 (snd h1) phi /\ DenC s2 (snd h2) phi)
          (s_handles s1) (s_handles s2).
Proof.
  exact (fun s1 s2 => conj
    (fun S => conj (csim_b1 _ _ S) (conj (csim_b2 _ _ S) (conj (csim_v2l _ _ S) (conj (csim_l2v _ _ S) (csim_h _ _ S)))))
    (fun H => match H with conj a (conj b (conj c (conj d e))) => mkCSim s1 s2 a b c d e end)).
Qed.
Print Assumptions C20_bcdd_sim_spec.

Theorem C20_zbdd_sim_spec : forall s1 s2,
  zsim s1 s2 <->
  ZbddOK s1 /\ ZbddOK s2 /\ ZChainOK s1 /\ ZChainOK s2 /\ s_v2l s1 = s_v2l s2 /\ s_l2v s1 = s_l2v s2 /\
  Forall2 (fun h1 h2 : N * edge => fst h1 = fst h2 /\ etag (snd h1) = false /\ etag (snd h2) = false /\
             exists P, ZDen s1 (eref (snd h1)) P /\ ZDen s2 (eref (snd h2)) P)
          (s_handles s1) (s_handles s2).
Proof.
  exact (fun s1 s2 => conj
    (fun S => conj (zsim_b1 _ _ S) (conj (zsim_b2 _ _ S) (conj (zsim_c1 _ _ S) (conj (zsim_c2 _ _ S)
                (conj (zsim_v2l _ _ S) (conj (zsim_l2v _ _ S) (zsim_h _ _ S)))))))
    (fun H => match H with conj a (conj b (conj c (conj d (conj e (conj f g))))) => mkZSim s1 s2 a b c d e f g end)).
Qed.
Print Assumptions C20_zbdd_sim_spec.

Theorem C20_bcdd_sim_refl : forall s, BcOK s -> csim s s.
Proof. exact csim_refl. Qed.
Print Assumptions C20_bcdd_sim_refl.

Theorem C20_zbdd_sim_refl : forall s, ZbddOK s -> ZChainOK s -> zsim s s.
Proof. exact zsim_refl. Qed.
Print Assumptions C20_zbdd_sim_refl.

(** two managers related by [csim] with correct caches run the same call list
    under two arbitrary configurations: they fail together or end with [wf_b]
    tables and equal observations (slot, value under every choice, node
    count; variable order) *)
Theorem C20_bcdd_run_ops_observe :
  forall alloc1, alloc_ok alloc1 -> forall lt1 C1 cget1 cadd1, lossyC cget1 cadd1 -> forall sch1,
  forall alloc2, alloc_ok alloc2 -> forall lt2 C2 cget2 cadd2, lossyC cget2 cadd2 -> forall sch2,
  forall ops (st1 : cmstate C1) (st2 : cmstate C2),
  csim (cm_snap C1 st1) (cm_snap C2 st2) /\
  CacheOKC cget1 (cm_snap C1 st1) (cm_cache C1 st1) /\ CacheOKC cget2 (cm_snap C2 st2) (cm_cache C2 st2) ->
  match crun_ops alloc1 lt1 C1 cget1 cadd1 sch1 st1 ops, crun_ops alloc2 lt2 C2 cget2 cadd2 sch2 st2 ops with
  | Some a, Some b =>
    wf_b (cm_snap C1 a) = true /\ wf_b (cm_snap C2 b) = true /\
    forall c, bchoice c -> observe (cm_snap C1 a) c = observe (cm_snap C2 b) c
  | None, None => True
  | _, _ => False
  end.
Proof. exact crun_ops_observe. Qed.
Print Assumptions C20_bcdd_run_ops_observe.

Theorem C20_zbdd_run_ops_observe :
  forall alloc1, alloc_ok alloc1 -> forall gt1 C1 cget1 cadd1, zlossy C1 cget1 cadd1 -> forall sch1,
  forall alloc2, alloc_ok alloc2 -> forall gt2 C2 cget2 cadd2, zlossy C2 cget2 cadd2 -> forall sch2,
  forall ops (st1 : zmstate C1) (st2 : zmstate C2),
  zsim (zm_snap C1 st1) (zm_snap C2 st2) /\
  ZCacheOKB C1 cget1 (zm_snap C1 st1) (zm_cache C1 st1) /\ ZCacheOKB C2 cget2 (zm_snap C2 st2) (zm_cache C2 st2) ->
  match zrun_ops alloc1 gt1 C1 cget1 cadd1 sch1 st1 ops, zrun_ops alloc2 gt2 C2 cget2 cadd2 sch2 st2 ops with
  | Some a, Some b =>
    wf_b (zm_snap C1 a) = true /\ wf_b (zm_snap C2 b) = true /\
    forall c, bchoice c -> observe (zm_snap C1 a) c = observe (zm_snap C2 b) c
  | None, None => True
  | _, _ => False
  end.
Proof. exact zrun_ops_observe. Qed.
Print Assumptions C20_zbdd_run_ops_observe.

(** (a) for histories: same store and schedules, any two lossy caches and
    operand orders: the two runs fail together or end with the IDENTICAL table *)
Theorem C20_bcdd_run_ops_cache_exact :
  forall alloc, alloc_ok alloc -> forall sch lt1 lt2 C1 C2 cget1 cadd1 cget2 cadd2,
  lossyC cget1 cadd1 -> lossyC cget2 cadd2 ->
  forall ops (st1 : cmstate C1) (st2 : cmstate C2),
  cm_snap C1 st1 = cm_snap C2 st2 /\ cm_step C1 st1 = cm_step C2 st2 /\ BcOK (cm_snap C1 st1) /\
  CacheOKC cget1 (cm_snap C1 st1) (cm_cache C1 st1) /\ CacheOKC cget2 (cm_snap C2 st2) (cm_cache C2 st2) ->
  match crun_ops alloc lt1 C1 cget1 cadd1 sch st1 ops, crun_ops alloc lt2 C2 cget2 cadd2 sch st2 ops with
  | Some a, Some b =>
    cm_snap C1 a = cm_snap C2 b /\ cm_step C1 a = cm_step C2 b /\ BcOK (cm_snap C1 a) /\
    CacheOKC cget1 (cm_snap C1 a) (cm_cache C1 a) /\ CacheOKC cget2 (cm_snap C2 b) (cm_cache C2 b)
  | None, None => True
  | _, _ => False
  end.
Proof. exact crun_ops_cache_exact. Qed.
Print Assumptions C20_bcdd_run_ops_cache_exact.

Theorem C20_zbdd_run_ops_cache_exact :
  forall alloc, alloc_ok alloc -> forall sch gt1 gt2 C1 C2 cget1 cadd1 cget2 cadd2,
  zlossy C1 cget1 cadd1 -> zlossy C2 cget2 cadd2 ->
  forall ops (st1 : zmstate C1) (st2 : zmstate C2),
  zm_snap C1 st1 = zm_snap C2 st2 /\ zm_step C1 st1 = zm_step C2 st2 /\
  ZbddOK (zm_snap C1 st1) /\ ZChainOK (zm_snap C1 st1) /\
  ZCacheOKB C1 cget1 (zm_snap C1 st1) (zm_cache C1 st1) /\ ZCacheOKB C2 cget2 (zm_snap C2 st2) (zm_cache C2 st2) ->
  match zrun_ops alloc gt1 C1 cget1 cadd1 sch st1 ops, zrun_ops alloc gt2 C2 cget2 cadd2 sch st2 ops with
  | Some a, Some b =>
    zm_snap C1 a = zm_snap C2 b /\ zm_step C1 a = zm_step C2 b /\
    ZbddOK (zm_snap C1 a) /\ ZChainOK (zm_snap C1 a) /\
    ZCacheOKB C1 cget1 (zm_snap C1 a) (zm_cache C1 a) /\ ZCacheOKB C2 cget2 (zm_snap C2 b) (zm_cache C2 b)
  | None, None => True
  | _, _ => False
  end.
Proof. exact zrun_ops_cache_exact. Qed.
Print Assumptions C20_zbdd_run_ops_cache_exact.

(** the history models' variable construction on the [fresh_id] store is [zvar] / [znot_var] of DD/ZbddBool.v *)
Theorem C20_zbdd_var_instance : forall gt C cget cadd fuel s (c : C) var,
  zvar_a fresh_id s var = zvar s var /\
  znot_var_g fresh_id gt C cget cadd fuel SSeq s c var = znot_var gt C cget cadd fuel s c var.
Proof. exact (fun gt C cget cadd fuel s c var => conj (zvar_a_fresh s var) (znot_var_g_seq gt C cget cadd fuel s c var)). Qed.
Print Assumptions C20_zbdd_var_instance.

(** non-vacuity for the histories: a 15-call history on a 3-variable manager of
    each kind under three configurations (ZBDD start table = the tautology
    chain): start states related, runs succeed, node ids differ, observations
    under all 8 choices agree; same store + schedule: identical final tables *)
Theorem C20_hist_example :
  cmsim eacache eac_get unit enc_get (mkCM eacache ex_cempty [] 0) (mkCM unit ex_cempty tt 0) /\
  zmsim zacache zac_get unit znc_get (mkZM zacache ex_zempty [] 0) (mkZM unit ex_zempty tt 0) /\
  (zobserve_all zrunA <> None /\ zobserve_all zrunA = zobserve_all zrunB /\ zobserve_all zrunA = zobserve_all zrunC /\
   zids_of zrunA <> zids_of zrunB /\ zids_of zrunA <> zids_of zrunC) /\
  (match crun_ops fresh_id ApplyBcddExamples.lt_id eacache eac_get eac_add (fun _ => sch_sw) (mkCM eacache ex_cempty [] 0) ex_cops,
         crun_ops fresh_id ApplyBcddExamples.gt_id unit enc_get enc_add (fun _ => sch_sw) (mkCM unit ex_cempty tt 0) ex_cops with
   | Some a, Some b => cm_snap eacache a = cm_snap unit b
   | _, _ => False
   end) /\
  (match zrun_ops fresh_id zgt_id zacache zac_get zac_add (fun _ => sch_sw) (mkZM zacache ex_zempty [] 0) ex_cops,
         zrun_ops fresh_id (fun _ _ => false) unit znc_get znc_add (fun _ => sch_sw) (mkZM unit ex_zempty tt 0) ex_cops with
   | Some a, Some b => zm_snap zacache a = zm_snap unit b
   | _, _ => False
   end).
Proof. exact (conj ex_cmsim_AB (conj ex_zmsim_AB (conj ex_zruns ex_hist_cache_exact))). Qed.
Print Assumptions C20_hist_example.

(** ** TDD (package TDDx): two TDD managers in ANY two configurations (operand order of terminal_bin = address
    order of the node store, apply-cache implementation incl. none, its contents) fed the same client calls
    (constants, variables, not, 8 connectives, ite, cofactors, clone / drop, gc, add_vars; Mgr/TddHist.v) are
    observationally equal: same occupied slots, same value of every slot under every three-valued assignment,
    same value tables, same answers of ==.  (Node ids and node counts of garbage are not observable.) *)
From Coq Require Import List NArith PArith Bool Arith FMapPositive.
From OxiVerif Require Import DD.Table DD.TableExtra DD.TableProofs DD.Build DD.BuildProofs DD.Apply DD.ApplyProofs
  DD.ConfigApply DD.Tdd DD.ApplyTdd DD.ApplyTddBase DD.ApplyTddProofs DD.ApplyTddTop DD.TddAudit DD.TddAuditProofs
  Mgr.History Mgr.TddHist Mgr.TddHistProofs Mgr.TddHistSim Mgr.TddHistExamples.
Import ListNotations.

Theorem C20_tdd_hist_config_independent :
  forall (gt1 gt2 : ref -> ref -> bool) (C1 C2 : Type) (cget1 : C1 -> N -> list ref -> option ref)
         (cadd1 : C1 -> N -> list ref -> ref -> C1) (cget2 : C2 -> N -> list ref -> option ref)
         (cadd2 : C2 -> N -> list ref -> ref -> C2) (ce1 : C1) (ce2 : C2),
  lossy cget1 cadd1 -> lossy cget2 cadd2 ->
  (forall k a, cget1 ce1 k a = None) -> (forall k a, cget2 ce2 k a = None) ->
  forall n ops, tops_pre_b gt1 C1 cget1 cadd1 ce1 (tinit C1 ce1 n) ops = true ->
  exists st1 st2, trun gt1 C1 cget1 cadd1 ce1 (tinit C1 ce1 n) ops = Some st1 /\
                  trun gt2 C2 cget2 cadd2 ce2 (tinit C2 ce2 n) ops = Some st2 /\
                  tsim C1 C2 cget1 cget2 st1 st2.
Proof. exact thist_config_independent. Qed.
Print Assumptions C20_tdd_hist_config_independent.

(* from any two related states (not only fresh managers), with the well-formedness of the requests transferred *)
Theorem C20_tdd_hist_run :
  forall (gt1 gt2 : ref -> ref -> bool) (C1 C2 : Type) (cget1 : C1 -> N -> list ref -> option ref)
         (cadd1 : C1 -> N -> list ref -> ref -> C1) (cget2 : C2 -> N -> list ref -> option ref)
         (cadd2 : C2 -> N -> list ref -> ref -> C2) (ce1 : C1) (ce2 : C2),
  lossy cget1 cadd1 -> lossy cget2 cadd2 ->
  (forall k a, cget1 ce1 k a = None) -> (forall k a, cget2 ce2 k a = None) ->
  forall ops (st1 : tstate C1) (st2 : tstate C2), tsim C1 C2 cget1 cget2 st1 st2 ->
  tops_pre_b gt1 C1 cget1 cadd1 ce1 st1 ops = true ->
  exists st1' st2', trun gt1 C1 cget1 cadd1 ce1 st1 ops = Some st1' /\
                    trun gt2 C2 cget2 cadd2 ce2 st2 ops = Some st2' /\
                    tsim C1 C2 cget1 cget2 st1' st2' /\ tops_pre_b gt2 C2 cget2 cadd2 ce2 st2 ops = true.
Proof. exact tsim_run. Qed.
Print Assumptions C20_tdd_hist_run.

Theorem C20_tdd_hist_observe :
  forall (C1 C2 : Type) (cget1 : C1 -> N -> list ref -> option ref) (cget2 : C2 -> N -> list ref -> option ref)
         (st1 : tstate C1) (st2 : tstate C2), tsim C1 C2 cget1 cget2 st1 st2 ->
  (forall x, occupied (t_s C1 st1) x = occupied (t_s C2 st2) x) /\
  (forall x r1 r2, tslot (t_s C1 st1) x = Some r1 -> tslot (t_s C2 st2) x = Some r2 ->
     (forall av : nat -> tri, tfun_of (t_s C1 st1) r1 av = tfun_of (t_s C2 st2) r2 av) /\
     td_vtable (t_s C1 st1) r1 = td_vtable (t_s C2 st2) r2) /\
  (forall x y e1 e1' e2 e2',
     hget (s_handles (t_s C1 st1)) x = Some e1 -> hget (s_handles (t_s C1 st1)) y = Some e1' ->
     hget (s_handles (t_s C2 st2)) x = Some e2 -> hget (s_handles (t_s C2 st2)) y = Some e2' ->
     (e1 = e1' <-> e2 = e2')).
Proof. exact tsim_observe. Qed.
Print Assumptions C20_tdd_hist_observe.

Theorem C20_tdd_example :
  tops_pre_b gtA acache ac_get ac_add [] (tinit acache [] 2) ex_ops = true /\
  (ex_runA = Some ex_stA /\ ex_runB = Some ex_stB) /\
  tsim acache unit ac_get nc_get ex_stA ex_stB.
Proof. exact (conj ex_ops_pre (conj ex_runs_defined ex_sim)). Qed.
Print Assumptions C20_tdd_example.

(* ---------------------------------------------------------------------------------------------
   Package ARCSLAB: the two node stores.  The ABSTRACT node store (coq/Tbl/RcStore.v): a map
   id -> (payload, count) with fresh ids + the client's handle variables; AAdd puts a payload under
   ANY unused id.  Whatever the ids are (slab addresses of the pointer-based manager, slot indices of
   the index-based one) and however they are re-used, the results of a script are the same.  The slab
   model (coq/Tbl/ArcSlab.v) refines the abstract store, a reference store with ids 0,1,2,... refines
   it, hence both agree on every script.  (Qualified names: nothing is imported.) *)
From Coq Require Import List NArith Bool Arith.
From OxiVerif Require Tbl.ArcSlab Tbl.ArcSlabProofsBase Tbl.ArcSlabProofs Tbl.ArcSlabThms Tbl.RcStore Tbl.ArcSlabRefine
  Tbl.ArcSlabReach Tbl.ArcSlabExamples.
Import ListNotations.

(* the abstract store: count = number of handle variables, never 0, under every step / script *)
Theorem C20_store_step_inv : forall (I : Type) (ieqb : I -> I -> bool),
  (forall a b, ieqb a b = true <-> a = b) ->
  forall s o r s', RcStore.AInv I ieqb s -> RcStore.astep I ieqb s o r s' -> RcStore.AInv I ieqb s'.
Proof. exact RcStore.astep_inv. Qed.
Print Assumptions C20_store_step_inv.

(* the results do not depend on the ids: two stores (any id types, any choice of fresh ids) in related
   states (same handle variables, same (payload, count) behind corresponding handles, same aliasing)
   return the same result for the same operation and stay related; whole scripts likewise *)
Theorem C20_store_id_independent : forall (I1 I2 : Type) (eqb1 : I1 -> I1 -> bool) (eqb2 : I2 -> I2 -> bool),
  (forall a b, eqb1 a b = true <-> a = b) -> (forall a b, eqb2 a b = true <-> a = b) ->
  forall s1 s2 o r1 r2 s1' s2',
  RcStore.AInv I1 eqb1 s1 -> RcStore.AInv I2 eqb2 s2 -> RcStore.sim I1 I2 s1 s2 ->
  RcStore.astep I1 eqb1 s1 o r1 s1' -> RcStore.astep I2 eqb2 s2 o r2 s2' ->
  r1 = r2 /\ RcStore.sim I1 I2 s1' s2'.
Proof. exact RcStore.astep_id_independent. Qed.
Print Assumptions C20_store_id_independent.

Theorem C20_store_runs_id_independent : forall (I1 I2 : Type) (eqb1 : I1 -> I1 -> bool) (eqb2 : I2 -> I2 -> bool),
  (forall a b, eqb1 a b = true <-> a = b) -> (forall a b, eqb2 a b = true <-> a = b) ->
  forall os s1 s2 rs1 rs2 s1' s2',
  RcStore.AInv I1 eqb1 s1 -> RcStore.AInv I2 eqb2 s2 -> RcStore.sim I1 I2 s1 s2 ->
  RcStore.aruns I1 eqb1 s1 os rs1 s1' -> RcStore.aruns I2 eqb2 s2 os rs2 s2' ->
  rs1 = rs2 /\ RcStore.sim I1 I2 s1' s2'.
Proof. exact RcStore.aruns_id_independent. Qed.
Print Assumptions C20_store_runs_id_independent.

Theorem C20_store_sim_def : forall (I1 I2 : Type) (s1 : RcStore.astate I1) (s2 : RcStore.astate I2),
  RcStore.sim I1 I2 s1 s2 <->
  (map fst (RcStore.a_hs s1) = map fst (RcStore.a_hs s2) /\
   (forall h id1 id2, RcStore.afind h (RcStore.a_hs s1) = Some id1 -> RcStore.afind h (RcStore.a_hs s2) = Some id2 ->
      RcStore.a_map s1 id1 = RcStore.a_map s2 id2) /\
   (forall h h' id1 id1' id2 id2',
      RcStore.afind h (RcStore.a_hs s1) = Some id1 -> RcStore.afind h' (RcStore.a_hs s1) = Some id1' ->
      RcStore.afind h (RcStore.a_hs s2) = Some id2 -> RcStore.afind h' (RcStore.a_hs s2) = Some id2' ->
      (id1 = id1' <-> id2 = id2'))).
Proof. intros. reflexivity. Qed.
Print Assumptions C20_store_sim_def.

(* (d) the slab refines the abstract store: ids = slot addresses, map = the items in their slots; in
   every reachable state the abstraction satisfies the counting invariant, every item-level operation
   (add_item, clone, drop, drop_with, into_inner, force_into_inner, deref) is ONE abstract step with the
   same result, every other operation (ExtHandle::from, retain / release, ArcSlabRef clone / drop, num_items)
   leaves the abstract state as it is *)
Theorem C20_arcslab_abs_inv : forall spp, (1 <= spp)%nat -> forall y sl,
  ArcSlabThms.reachable spp y -> ArcSlab.y_slab y = ArcSlab.Alive sl ->
  RcStore.AInv ArcSlab.addr ArcSlab.addr_eqb (ArcSlabRefine.abs sl (ArcSlab.y_hs y)).
Proof. exact ArcSlabReach.r_abs_inv. Qed.
Print Assumptions C20_arcslab_abs_inv.

Theorem C20_arcslab_refines_store : forall spp, (1 <= spp)%nat -> forall y sl o y' out,
  ArcSlabThms.reachable spp y -> ArcSlab.y_slab y = ArcSlab.Alive sl -> ArcSlab.step spp y o = ArcSlab.Done y' out ->
  match ArcSlabRefine.aproj o with
  | Some ao =>
      exists s', RcStore.astep ArcSlab.addr ArcSlab.addr_eqb (ArcSlabRefine.abs sl (ArcSlab.y_hs y)) ao (ArcSlabRefine.ares_of o out) s' /\
                 RcStore.a_hs s' = ArcSlabRefine.abs_hs (ArcSlab.y_hs y') /\
                 (forall sl', ArcSlab.y_slab y' = ArcSlab.Alive sl' -> forall j, RcStore.a_map s' j = ArcSlab.slot_read sl' j)
  | None =>
      ArcSlabRefine.abs_hs (ArcSlab.y_hs y') = ArcSlabRefine.abs_hs (ArcSlab.y_hs y) /\
      (forall sl', ArcSlab.y_slab y' = ArcSlab.Alive sl' -> forall j, ArcSlab.slot_read sl' j = ArcSlab.slot_read sl j)
  end.
Proof. exact ArcSlabReach.r_refine_step. Qed.
Print Assumptions C20_arcslab_refines_store.

Theorem C20_arcslab_abs_def : forall sl hs o,
  ArcSlabRefine.abs sl hs = RcStore.mkA (ArcSlab.slot_read sl) (map (fun e => (fst e, ArcSlab.h_addr (snd e))) hs) /\
  ArcSlabRefine.aproj o =
    match o with
    | ArcSlab.OAdd h p => Some (RcStore.AAdd h p)
    | ArcSlab.OClone h h2 => Some (RcStore.AClone h h2)
    | ArcSlab.ODrop h | ArcSlab.ODropWith h | ArcSlab.OIntoInner h | ArcSlab.OForce h => Some (RcStore.AEnd h)
    | ArcSlab.OGet h => Some (RcStore.AGet h)
    | _ => None
    end.
Proof. intros. split; reflexivity. Qed.
Print Assumptions C20_arcslab_abs_def.

(* a reference store (ids 0, 1, 2, ... in order of creation, never re-used) refines the same abstract store *)
Theorem C20_arcslab_reference_refines : forall r o r' res,
  ArcSlabRefine.RInv r -> ArcSlabRefine.ref_step r o = Some (r', res) ->
  RcStore.astep N N.eqb (ArcSlabRefine.rabs r) o res (ArcSlabRefine.rabs r') /\ ArcSlabRefine.RInv r'.
Proof. exact ArcSlabRefine.ref_refines. Qed.
Print Assumptions C20_arcslab_reference_refines.

(* store equivalence: for every page size and every script of item-level operations (rejected ones
   included) a new slab and a new reference store return the same results *)
Theorem C20_arcslab_equiv_reference : forall spp, (1 <= spp)%nat -> forall ops,
  forallb ArcSlabRefine.item_op ops = true ->
  ArcSlabRefine.arc_exec spp (ArcSlab.init spp) ops =
  ArcSlabRefine.ref_exec ArcSlabRefine.rinit (map ArcSlabRefine.aop_of ops).
Proof. exact ArcSlabRefine.arcslab_equiv_reference. Qed.
Print Assumptions C20_arcslab_equiv_reference.

(* ... hence the page size is not observable through the results *)
Theorem C20_arcslab_page_size_irrelevant : forall spp1 spp2, (1 <= spp1)%nat -> (1 <= spp2)%nat -> forall ops,
  forallb ArcSlabRefine.item_op ops = true ->
  ArcSlabRefine.arc_exec spp1 (ArcSlab.init spp1) ops = ArcSlabRefine.arc_exec spp2 (ArcSlab.init spp2) ops.
Proof. exact ArcSlabRefine.arcslab_page_size_irrelevant. Qed.
Print Assumptions C20_arcslab_page_size_irrelevant.

Theorem C20_arcslab_example :
  forallb ArcSlabRefine.item_op ArcSlabExamples.ex_item_ops = true /\
  ArcSlabRefine.arc_exec 3 (ArcSlab.init 3) ArcSlabExamples.ex_item_ops =
    ArcSlabRefine.ref_exec ArcSlabRefine.rinit (map ArcSlabRefine.aop_of ArcSlabExamples.ex_item_ops) /\
  ArcSlabRefine.arc_exec 3 (ArcSlab.init 3) ArcSlabExamples.ex_item_ops =
    [Some RcStore.ARAdded; Some RcStore.ARAdded; Some (RcStore.ARCount 2); Some RcStore.ARKept; Some (RcStore.ARVal 1 1);
     Some (RcStore.ARGone 1); Some RcStore.ARAdded; Some (RcStore.ARGone 2); None; None].
Proof. exact (conj ArcSlabExamples.ex_item_ops_ok ArcSlabExamples.ex_equiv). Qed.
Print Assumptions C20_arcslab_example.

(** ** GLUE: the table-isomorphism checker the correspondence drivers call (DD/IsoCheck.v, extracted)

    [IsoCheck.iso_with ix rc onto fixed s_m s_r roots = Some r]: the model's table [s_m] is the real table
    [s_r] up to a renaming of node ids that keeps the [fixed] ids and maps the root pairs onto each other
    ([onto] = false: [s_r] may hold further nodes; [rc]: reference counts compared as well).  [iso_rel] is the
    relational notion; by [C20_iso_rel_rename] it says that [rename_snap rho s_m] (DD/Rename.v) and [s_r]
    store the same nodes. *)
From OxiVerif Require DD.IsoCheck DD.IsoCheckProofs.

(* soundness, for whatever index the driver passes: a globally injective renaming that extends the answer *)
Theorem C20_iso_check_sound : forall ix rc onto fixed s_m s_r roots r,
  IsoCheck.iso_with ix rc onto fixed s_m s_r roots = Some r ->
  exists rho, injective rho /\ IsoCheckProofs.agrees r rho /\
    (forall a, IsoCheckProofs.in_m s_m a -> PositiveMap.find a r = Some (rho a)) /\
    IsoCheckProofs.iso_rel rc onto fixed s_m s_r roots rho.
Proof. exact IsoCheckProofs.iso_with_sound. Qed.
Print Assumptions C20_iso_check_sound.

(* completeness on well-formed tables: whenever a renaming exists the checker finds it *)
Theorem C20_iso_check_complete : forall rc onto fixed s_m s_r roots rho,
  WF s_m -> WF s_r -> IsoCheckProofs.iso_rel rc onto fixed s_m s_r roots rho ->
  exists r, IsoCheck.iso_core rc onto fixed s_m s_r roots = Some r /\
            forall a, IsoCheckProofs.in_m s_m a -> PositiveMap.find a r = Some (rho a).
Proof. exact IsoCheckProofs.iso_core_complete_wf. Qed.
Print Assumptions C20_iso_check_complete.

(* ... under exactly the parts of WF that are needed: model table closed with deeper children, real table duplicate-free *)
Theorem C20_iso_check_complete_gen : forall rc onto fixed s_m s_r roots rho,
  IsoCheckProofs.iso_rel rc onto fixed s_m s_r roots rho ->
  (forall a nd, find_node s_m a = Some nd -> nlevel nd < nlevels s_m) ->
  (forall a nd e c, find_node s_m a = Some nd -> In e (nchildren nd) -> eref e = RN c ->
     exists ndc, find_node s_m c = Some ndc /\ nlevel nd < nlevel ndc) ->
  (forall j1 j2 n1 n2, find_node s_r j1 = Some n1 -> find_node s_r j2 = Some n2 ->
     nlevel n1 = nlevel n2 -> nchildren n1 = nchildren n2 -> j1 = j2) ->
  exists r, IsoCheck.iso_core rc onto fixed s_m s_r roots = Some r /\
            forall a, IsoCheckProofs.in_m s_m a -> PositiveMap.find a r = Some (rho a).
Proof. exact IsoCheckProofs.iso_core_complete. Qed.
Print Assumptions C20_iso_check_complete_gen.

(* semantics: accepted root pairs have the same value under every choice (all five kinds) ... *)
Theorem C20_iso_check_sem : forall ix rc onto fixed s_m s_r roots r,
  IsoCheck.iso_with ix rc onto fixed s_m s_r roots = Some r -> IsoCheck.hdr_eqb s_m s_r = true ->
  IsoCheckProofs.closed s_m ->
  forall p, In p roots -> forall c, sem_edge s_r (snd p) c = sem_edge s_m (fst p) c.
Proof. exact IsoCheckProofs.iso_with_sem. Qed.
Print Assumptions C20_iso_check_sem.

(* ... and denote the same ZBDD family *)
Theorem C20_iso_check_famz : forall ix rc onto fixed s_m s_r roots r,
  IsoCheck.iso_with ix rc onto fixed s_m s_r roots = Some r -> IsoCheck.hdr_eqb s_m s_r = true ->
  IsoCheckProofs.closed s_m ->
  forall p, In p roots -> forall f, famz s_r f (eref (snd p)) = famz s_m f (eref (fst p)).
Proof. exact IsoCheckProofs.iso_with_famz. Qed.
Print Assumptions C20_iso_check_famz.

Theorem C20_iso_wf_closed : forall s, WF s -> IsoCheckProofs.closed s.
Proof. exact IsoCheckProofs.wf_closed. Qed.
Print Assumptions C20_iso_wf_closed.

(* the relation in terms of DD/Rename.v, both directions *)
Theorem C20_iso_rel_rename : forall rc fixed s_m s_r roots rho, injective rho ->
  IsoCheckProofs.iso_rel rc true fixed s_m s_r roots rho ->
  forall j, option_map IsoCheckProofs.norc (find_node (rename_snap rho s_m) j)
            = option_map IsoCheckProofs.norc (find_node s_r j) /\
            (rc = true -> find_node (rename_snap rho s_m) j = find_node s_r j).
Proof. exact IsoCheckProofs.iso_rel_rename. Qed.
Print Assumptions C20_iso_rel_rename.

Theorem C20_rename_iso_rel : forall fixed s_m s_r roots rho, injective rho ->
  (forall j, option_map IsoCheckProofs.norc (find_node (rename_snap rho s_m) j)
             = option_map IsoCheckProofs.norc (find_node s_r j)) ->
  (forall a, IsoCheckProofs.in_m s_m a -> fixed a = true -> rho a = a) ->
  (forall p, In p roots -> IsoCheckProofs.root_in s_m (fst p) /\ rename_edge rho (fst p) = snd p) ->
  IsoCheckProofs.iso_rel false true fixed s_m s_r roots rho.
Proof. exact IsoCheckProofs.rename_iso_rel. Qed.
Print Assumptions C20_rename_iso_rel.

(* the form with the table before the operation: its nodes are stored unchanged in both tables and keep their ids *)
Theorem C20_iso_ext_sound : forall old s_m s_r roots r, IsoCheck.iso_ext_b old s_m s_r roots = Some r ->
  IsoCheckProofs.old_in old s_m /\ IsoCheckProofs.old_in old s_r /\
  exists rho, injective rho /\ (forall a, IsoCheckProofs.in_m s_m a -> PositiveMap.find a r = Some (rho a)) /\
    (forall a, IsoCheckProofs.in_m old a -> rho a = a) /\
    IsoCheckProofs.iso_rel false true (IsoCheck.in_snap_b old) s_m s_r roots rho.
Proof. exact IsoCheckProofs.iso_ext_b_sound. Qed.
Print Assumptions C20_iso_ext_sound.

Theorem C20_iso_ext_complete : forall old s_m s_r roots rho, WF s_m -> WF s_r ->
  IsoCheckProofs.old_in old s_m -> IsoCheckProofs.old_in old s_r ->
  IsoCheckProofs.iso_rel false true (IsoCheck.in_snap_b old) s_m s_r roots rho ->
  exists r, IsoCheck.iso_ext_b old s_m s_r roots = Some r /\
            forall a, IsoCheckProofs.in_m s_m a -> PositiveMap.find a r = Some (rho a).
Proof. exact IsoCheckProofs.iso_ext_b_complete. Qed.
Print Assumptions C20_iso_ext_complete.

(* whole snapshots (what the level-swap replay of C08 calls): header and handle slots literally, nodes and handle edges up to the renaming *)
Theorem C20_iso_snap_sound : forall fixed s_m s_r roots r, IsoCheck.iso_snap_b fixed s_m s_r roots = Some r ->
  s_kind s_m = s_kind s_r /\ s_v2l s_m = s_v2l s_r /\ s_l2v s_m = s_l2v s_r /\ s_terms s_m = s_terms s_r /\
  map fst (s_handles s_m) = map fst (s_handles s_r) /\
  exists rho, injective rho /\ (forall a, IsoCheckProofs.in_m s_m a -> PositiveMap.find a r = Some (rho a)) /\
    IsoCheckProofs.iso_rel false true fixed s_m s_r
      (combine (map snd (s_handles s_m)) (map snd (s_handles s_r)) ++ roots) rho.
Proof. exact IsoCheckProofs.iso_snap_b_sound. Qed.
Print Assumptions C20_iso_snap_sound.

(* the relation unfolded (so that the statements above can be read without the proof files) *)
Theorem C20_iso_rel_def : forall rc onto fixed s_m s_r roots rho,
  IsoCheckProofs.iso_rel rc onto fixed s_m s_r roots rho <->
  ((forall a b, (exists nd, find_node s_m a = Some nd) -> (exists nd, find_node s_m b = Some nd) -> rho a = rho b -> a = b) /\
   (forall a, (exists nd, find_node s_m a = Some nd) -> fixed a = true -> rho a = a) /\
   (forall a nd, find_node s_m a = Some nd -> exists nd', find_node s_r (rho a) = Some nd' /\
      nlevel nd = nlevel nd' /\ nstored nd = nstored nd' /\ (rc = true -> nrc nd = nrc nd') /\
      map (rename_edge rho) (nchildren nd) = nchildren nd') /\
   (onto = true -> forall j nd', find_node s_r j = Some nd' -> exists a, (exists nd, find_node s_m a = Some nd) /\ rho a = j) /\
   (forall p, In p roots ->
      match eref (fst p) with RN id => exists nd, find_node s_m id = Some nd | RT _ => True end /\
      rename_edge rho (fst p) = snd p)).
Proof.
  intros. split.
  - intros [H1 H2 H3 H4 H5]. repeat split; auto; apply (H5 p H).
  - intros [H1 [H2 [H3 [H4 H5]]]]. constructor; auto.
Qed.
Print Assumptions C20_iso_rel_def.

Theorem C20_iso_check_example :
  wf_b (IsoCheckProofs.ex_tab 5 (RT 0)) = true /\ wf_b (IsoCheckProofs.ex_tab 9 (RT 0)) = true /\
  option_map (fun r => (PositiveMap.find 1%positive r, PositiveMap.find 5%positive r))
    (IsoCheck.iso_ext_b IsoCheckProofs.ex_old (IsoCheckProofs.ex_tab 5 (RT 0)) (IsoCheckProofs.ex_tab 9 (RT 0))
       [(IsoCheckProofs.ex_e (RN 5), IsoCheckProofs.ex_e (RN 9))])
  = Some (Some 1%positive, Some 9%positive) /\
  IsoCheck.iso_ext_b IsoCheckProofs.ex_old (IsoCheckProofs.ex_tab 5 (RT 0)) (IsoCheckProofs.ex_tab 9 (RT 1)) [] = None.
Proof.
  destruct IsoCheckProofs.ex_iso_accepts as [H1 [H2 [H3 _]]]. destruct IsoCheckProofs.ex_iso_rejects as [H4 _]. auto.
Qed.
Print Assumptions C20_iso_check_example.

(* ================================================================================================
   STOREREF — BOTH node stores refine ONE abstract reference-counted store.
   The index-based manager's node store (coq/Mgr/IndexStore.v) = the slot allocator of package ALLOC
   (coq/Mgr/Alloc.v, every thread's `LocalStoreState`, any interleaving) x the contents of the slots that
   hold a node (payload, STORED count: the unique table's edge is counted) x the edge values that exist
   (handle variable -> slot ID; a child edge is an edge value held by a node).  Operations: `add_node` by a
   thread (count 2, two edges, the children are moved into the node; on OutOfMemory they are released),
   `clone_edge`, `drop_edge` (never frees a slot: the code assumes it is not the last edge), the collector's /
   `try_remove_node`'s removal (`load_rc == 1` -> `free_slot` by a thread: children released, slot back to the
   allocator), every allocator-internal action.  (Qualified names: nothing is imported.) *)
From OxiVerif Require Mgr.Alloc Mgr.AllocInv Mgr.AllocProofs Mgr.AllocExamples Mgr.IndexStore Mgr.IndexStoreProofs
  Mgr.IndexStoreEquiv Mgr.IndexStoreExamples.

(* the abstraction (ids = slot IDs), the abstract script an operation stands for, and the invariant *)
Theorem C20_index_abs_def : forall s o r,
  IndexStore.iabs s = RcStore.mkA (IndexStore.nget (IndexStore.i_nodes s)) (IndexStore.i_hs s) /\
  IndexStore.abs_ops o r =
    match o, r with
    | IndexStore.IAdd _ h h2 p _, IndexStore.IRAdded _ _ => [RcStore.AAdd h p; RcStore.AClone h h2]
    | IndexStore.IAdd _ _ _ _ cs, IndexStore.IROom _ => map RcStore.AEnd cs
    | IndexStore.IRetain h h2, IndexStore.IRCount _ => [RcStore.AClone h h2]
    | IndexStore.IRelease h, IndexStore.IRReleased _ => [RcStore.AEnd h]
    | IndexStore.IRemove _ h, IndexStore.IRRemoved _ kids _ => RcStore.AEnd h :: map RcStore.AEnd kids
    | IndexStore.IGet h, IndexStore.IRVal _ _ => [RcStore.AGet h]
    | _, _ => []
    end /\
  IndexStore.abs_res o r =
    match o, r with
    | IndexStore.IAdd _ _ _ _ _, IndexStore.IRAdded _ _ => [RcStore.ARAdded; RcStore.ARCount 2]
    | IndexStore.IAdd _ _ _ _ cs, IndexStore.IROom _ => map (fun _ => RcStore.ARKept) cs
    | IndexStore.IRetain _ _, IndexStore.IRCount rc => [RcStore.ARCount rc]
    | IndexStore.IRelease _, IndexStore.IRReleased _ => [RcStore.ARKept]
    | IndexStore.IRemove _ _, IndexStore.IRRemoved p kids _ => RcStore.ARGone p :: map (fun _ => RcStore.ARKept) kids
    | IndexStore.IGet _, IndexStore.IRVal p rc => [RcStore.ARVal p rc]
    | _, _ => []
    end /\
  IndexStore.leaked r =
    match r with
    | IndexStore.IROom lk | IndexStore.IRReleased lk | IndexStore.IRRemoved _ _ lk => lk
    | _ => false
    end.
Proof. intros. repeat split; reflexivity. Qed.
Print Assumptions C20_index_abs_def.

Theorem C20_index_inv_def : forall c s,
  IndexStoreProofs.IInv c s <->
  (AllocInv.AInv c (IndexStore.i_al s) /\
   (forall id, Alloc.sget (Alloc.sl (IndexStore.i_al s)) id = Alloc.SNode <-> IndexStore.nget (IndexStore.i_nodes s) id <> None) /\
   RcStore.AInv N N.eqb (IndexStore.iabs s) /\
   NoDup (map fst (IndexStore.i_own s)) /\
   (forall k pid, In (k, pid) (IndexStore.i_own s) ->
      RcStore.afind k (IndexStore.i_hs s) <> None /\ IndexStore.nget (IndexStore.i_nodes s) pid <> None)).
Proof. intros. reflexivity. Qed.
Print Assumptions C20_index_inv_def.

Theorem C20_index_init_inv : forall c n, (1 <= Alloc.chunk c)%N -> (1 <= Alloc.term c)%N ->
  IndexStoreProofs.IInv c (IndexStore.iinit c n).
Proof. exact IndexStoreProofs.iinit_inv. Qed.
Print Assumptions C20_index_init_inv.

(* THE REFINEMENT: every operation of every thread that stays inside the code's assumption (no `drop_edge` of
   a last edge) keeps the invariant and IS its abstract script with the same results: one abstract step for
   clone / drop / read, two for `add_node`, 1 + #children for a removal, the children's releases for a failed
   `add_node`, NO step (a stutter: the abstract state is unchanged) for a kept entry and for every
   allocator-internal action (prepare, guard drop, hand-over of lists, worker binding, collector epilogue) *)
Theorem C20_index_refines_store : forall c s o s' r,
  IndexStoreProofs.IInv c s -> IndexStore.istep c s o = Some (s', r) -> IndexStore.leaked r = false ->
  IndexStoreProofs.IInv c s' /\
  RcStore.aruns N N.eqb (IndexStore.iabs s) (IndexStore.abs_ops o r) (IndexStore.abs_res o r) (IndexStore.iabs s').
Proof. exact IndexStoreProofs.istep_refines. Qed.
Print Assumptions C20_index_refines_store.

(* whole runs = any interleaving of the threads' operations *)
Theorem C20_index_run_refines : forall c ops s s' rs,
  IndexStoreProofs.IInv c s -> IndexStore.irun c s ops = Some (s', rs) -> IndexStoreProofs.no_leak rs = true ->
  IndexStoreProofs.IInv c s' /\
  RcStore.aruns N N.eqb (IndexStore.iabs s) (IndexStoreProofs.flat_ops ops rs) (IndexStoreProofs.flat_res ops rs)
    (IndexStore.iabs s').
Proof. exact IndexStoreProofs.irun_refines. Qed.
Print Assumptions C20_index_run_refines.

Theorem C20_index_reachable_inv : forall c s,
  (exists n ops rs, (1 <= Alloc.chunk c)%N /\ (1 <= Alloc.term c)%N /\
     IndexStore.irun c (IndexStore.iinit c n) ops = Some (s, rs) /\ IndexStoreProofs.no_leak rs = true) ->
  IndexStoreProofs.IInv c s.
Proof. exact IndexStoreProofs.ireachable_inv. Qed.
Print Assumptions C20_index_reachable_inv.

(* the assumption: `drop_edge` reports a leak exactly when it was given the LAST edge of a node - where the
   abstract store (and the slab) let the payload go, the index store keeps the node in its slot with count 0 *)
Theorem C20_index_drop_last_leaks : forall s c0 s1 lk,
  RcStore.AInv N N.eqb (IndexStore.iabs s) -> IndexStore.release1 s c0 = Some (s1, lk) ->
  (lk = true <-> exists id p, RcStore.afind c0 (IndexStore.i_hs s) = Some id /\
                              IndexStore.nget (IndexStore.i_nodes s) id = Some (p, 1%N)).
Proof. exact IndexStoreProofs.release1_leak_iff. Qed.
Print Assumptions C20_index_drop_last_leaks.

(* OutOfMemory = the abstract store with a capacity.  [cstep (Some k)]: AAdd fails when (and only when) k
   entries exist.  `add_node` fails ONLY IF the store holds cap entries (then the capacity store fails too) OR
   free slots are parked with other threads (ALLOC's C14_alloc_oom_only_parked); it does fail when the store is
   full; a successful `add_node` is two steps of the capacity store; with nothing parked elsewhere: iff *)
Theorem C20_index_capacity_store_def : forall cap s o r s',
  (IndexStoreProofs.afull cap s <->
   match cap with
   | None => False
   | Some k => exists l, NoDup l /\ (forall id, In id l <-> RcStore.a_map s id <> None) /\ length l = k
   end) /\
  (IndexStoreProofs.cstep cap s o r s' <->
   ((exists r0, r = Some r0 /\ (forall h p, o = RcStore.AAdd h p -> ~ IndexStoreProofs.afull cap s) /\
                RcStore.astep N N.eqb s o r0 s') \/
    (exists h p, o = RcStore.AAdd h p /\ r = None /\ s' = s /\ IndexStoreProofs.afull cap s /\
                 RcStore.afind h (RcStore.a_hs s) = None))).
Proof. intros. split; [destruct cap; reflexivity | apply IndexStoreProofs.cstep_def]. Qed.
Print Assumptions C20_index_capacity_store_def.

Theorem C20_index_oom_cases : forall c s t h h2 p cs s' lk,
  IndexStoreProofs.IInv c s -> IndexStore.istep c s (IndexStore.IAdd t h h2 p cs) = Some (s', IndexStore.IROom lk) ->
  IndexStoreProofs.cstep (Some (N.to_nat (Alloc.cap c))) (IndexStore.iabs s) (RcStore.AAdd h p) None (IndexStore.iabs s) \/
  exists u id, u <> t /\ In id (Alloc.thread_slots c (IndexStore.i_al s) u).
Proof. exact IndexStoreProofs.iadd_oom_cases. Qed.
Print Assumptions C20_index_oom_cases.

Theorem C20_index_full_oom : forall c s t h h2 p cs s' r,
  IndexStoreProofs.IInv c s -> IndexStore.istep c s (IndexStore.IAdd t h h2 p cs) = Some (s', r) ->
  Alloc.nlive c (IndexStore.i_al s) = N.to_nat (Alloc.cap c) -> exists lk, r = IndexStore.IROom lk.
Proof. exact IndexStoreProofs.iadd_full_oom. Qed.
Print Assumptions C20_index_full_oom.

Theorem C20_index_add_capacity : forall c s t h h2 p cs s' id pa,
  IndexStoreProofs.IInv c s -> IndexStore.istep c s (IndexStore.IAdd t h h2 p cs) = Some (s', IndexStore.IRAdded id pa) ->
  exists s1,
    IndexStoreProofs.cstep (Some (N.to_nat (Alloc.cap c))) (IndexStore.iabs s) (RcStore.AAdd h p) (Some RcStore.ARAdded) s1 /\
    IndexStoreProofs.cstep (Some (N.to_nat (Alloc.cap c))) s1 (RcStore.AClone h h2) (Some (RcStore.ARCount 2)) (IndexStore.iabs s').
Proof. exact IndexStoreProofs.iadd_capacity. Qed.
Print Assumptions C20_index_add_capacity.

Theorem C20_index_full_iff : forall c s, IndexStoreProofs.IInv c s ->
  (IndexStoreProofs.afull (Some (N.to_nat (Alloc.cap c))) (IndexStore.iabs s) <->
   Alloc.nlive c (IndexStore.i_al s) = N.to_nat (Alloc.cap c)).
Proof. exact IndexStoreProofs.afull_iff. Qed.
Print Assumptions C20_index_full_iff.

Theorem C20_index_oom_single : forall c s t l h h2 p cs s' r,
  IndexStoreProofs.IInv c s -> nth_error (Alloc.th (IndexStore.i_al s)) t = Some l ->
  AllocProofs.others_idle_p c (IndexStore.i_al s) t ->
  IndexStore.istep c s (IndexStore.IAdd t h h2 p cs) = Some (s', r) ->
  ((exists lk, r = IndexStore.IROom lk) <-> Alloc.nlive c (IndexStore.i_al s) = N.to_nat (Alloc.cap c)).
Proof. exact IndexStoreProofs.iadd_oom_single. Qed.
Print Assumptions C20_index_oom_single.

(* a client with `Arc` semantics on the index store (thread t: AAdd = `add_node` + drop of the second edge;
   AEnd = `drop_edge`, the last one removes the node and frees the slot): every accepted operation is ONE
   abstract step with its result, a refused one changes nothing, OutOfMemory only for AAdd *)
Theorem C20_index_arc_step_spec : forall c t s o,
  IndexStoreProofs.IInv c s /\ IndexStore.i_own s = [] /\ (t < length (Alloc.th (IndexStore.i_al s)))%nat ->
  match IndexStore.arc_step c t s o with
  | (s', IndexStore.XOk r) =>
      RcStore.astep N N.eqb (IndexStore.iabs s) o r (IndexStore.iabs s') /\
      (IndexStoreProofs.IInv c s' /\ IndexStore.i_own s' = [] /\ (t < length (Alloc.th (IndexStore.i_al s')))%nat)
  | (s', IndexStore.XRej) =>
      s' = s /\
      match o with
      | RcStore.AAdd h _ => RcStore.afind h (IndexStore.i_hs s) <> None
      | RcStore.AClone h h2 => RcStore.afind h (IndexStore.i_hs s) = None \/ RcStore.afind h2 (IndexStore.i_hs s) <> None
      | RcStore.AEnd h | RcStore.AGet h => RcStore.afind h (IndexStore.i_hs s) = None
      end
  | (s', IndexStore.XOom) =>
      exists h p lk, o = RcStore.AAdd h p /\
        IndexStore.istep c s (IndexStore.IAdd t h (IndexStore.fresh_h h (IndexStore.i_hs s)) p []) = Some (s', IndexStore.IROom lk)
  | (_, IndexStore.XBroken) => False
  end.
Proof. exact IndexStoreEquiv.arc_step_spec. Qed.
Print Assumptions C20_index_arc_step_spec.

(* STORE EQUIVALENCE.  From ANY state of the index store without edges (new manager, or after any
   allocator-internal prefix: guards, bound workers, other threads' parked slots, re-used slots), any thread:
   for every script without OutOfMemory the index store returns the results of the reference store with ids
   0, 1, 2, ... (rejected operations included) ... *)
Theorem C20_index_equiv_reference : forall c t s ops,
  IndexStoreProofs.IInv c s -> IndexStore.i_hs s = [] -> (t < length (Alloc.th (IndexStore.i_al s)))%nat ->
  ~ In IndexStore.XOom (IndexStore.idx_exec c t s ops) ->
  IndexStore.idx_exec c t s ops = map IndexStoreEquiv.lift (ArcSlabRefine.ref_exec ArcSlabRefine.rinit ops).
Proof. exact IndexStoreEquiv.index_equiv_reference. Qed.
Print Assumptions C20_index_equiv_reference.

(* ... and of the pointer-based manager's slab, for every page size, chunk size, capacity, thread: the three
   stores are indistinguishable through the results of item-level scripts *)
Theorem C20_stores_equivalent : forall c t s spp ops,
  IndexStoreProofs.IInv c s -> IndexStore.i_hs s = [] -> (t < length (Alloc.th (IndexStore.i_al s)))%nat -> (1 <= spp)%nat ->
  forallb ArcSlabRefine.item_op ops = true ->
  ~ In IndexStore.XOom (IndexStore.idx_exec c t s (map ArcSlabRefine.aop_of ops)) ->
  IndexStore.idx_exec c t s (map ArcSlabRefine.aop_of ops) =
    map IndexStoreEquiv.lift (ArcSlabRefine.arc_exec spp (ArcSlab.init spp) ops) /\
  IndexStore.idx_exec c t s (map ArcSlabRefine.aop_of ops) =
    map IndexStoreEquiv.lift (ArcSlabRefine.ref_exec ArcSlabRefine.rinit (map ArcSlabRefine.aop_of ops)).
Proof. exact IndexStoreEquiv.stores_equivalent. Qed.
Print Assumptions C20_stores_equivalent.

Theorem C20_index_lift_def : forall x,
  IndexStoreEquiv.lift x = match x with Some r => IndexStore.XOk r | None => IndexStore.XRej end.
Proof. intros. reflexivity. Qed.
Print Assumptions C20_index_lift_def.

(* the `Arc` client's OutOfMemory with nothing parked in other threads: exactly when all slots hold a node *)
Theorem C20_index_arc_oom_single : forall c t s o l s',
  IndexStoreProofs.IInv c s /\ IndexStore.i_own s = [] /\ (t < length (Alloc.th (IndexStore.i_al s)))%nat ->
  nth_error (Alloc.th (IndexStore.i_al s)) t = Some l -> AllocProofs.others_idle_p c (IndexStore.i_al s) t ->
  (exists h p, o = RcStore.AAdd h p /\ RcStore.afind h (IndexStore.i_hs s) = None) ->
  (IndexStore.arc_step c t s o = (s', IndexStore.XOom) -> Alloc.nlive c (IndexStore.i_al s) = N.to_nat (Alloc.cap c)) /\
  (Alloc.nlive c (IndexStore.i_al s) = N.to_nat (Alloc.cap c) -> snd (IndexStore.arc_step c t s o) = IndexStore.XOom).
Proof. exact IndexStoreEquiv.arc_step_oom_single. Qed.
Print Assumptions C20_index_arc_oom_single.

(* non-vacuity (capacity 6, chunk size 2, slot IDs 2..7): a 21-operation run of two threads through every
   operation (child edges, borrowed clone, removal releasing children, kept entry, slot re-use across threads,
   full store); OutOfMemory with 2 of 6 slots parked in two other threads, then a `drop_edge` of a last edge
   (leak); the three stores on ARCSLAB's example script *)
Theorem C20_index_example :
  (exists s, IndexStore.irun AllocExamples.ex_cfg (IndexStore.iinit AllocExamples.ex_cfg 2) IndexStoreExamples.ex_ops =
               Some (s, IndexStoreExamples.ex_results) /\
     IndexStoreProofs.no_leak IndexStoreExamples.ex_results = true /\ IndexStoreProofs.IInv AllocExamples.ex_cfg s /\
     IndexStore.iinv_b AllocExamples.ex_cfg s = true /\
     IndexStore.i_own s = [(8%nat, 4%N); (4%nat, 6%N)] /\
     map (IndexStore.nget (IndexStore.i_nodes s)) [2; 3; 4; 5; 6; 7]%N =
       [Some (10, 1); Some (14, 1); Some (15, 2); Some (16, 2); Some (13, 2); Some (17, 2)]%N) /\
  (exists s rs s', IndexStore.irun AllocExamples.ex_cfg (IndexStore.iinit AllocExamples.ex_cfg 2) IndexStoreExamples.ex_parked = Some (s, rs) /\
     IndexStoreProofs.IInv AllocExamples.ex_cfg s /\
     IndexStore.istep AllocExamples.ex_cfg s (IndexStore.IAdd 2 8 9 5 [0%nat]) = Some (s', IndexStore.IROom false) /\
     Alloc.live_slots AllocExamples.ex_cfg (IndexStore.i_al s) = [2; 4; 6; 7]%N /\
     Alloc.thread_slots AllocExamples.ex_cfg (IndexStore.i_al s) 0 = [3%N] /\
     Alloc.thread_slots AllocExamples.ex_cfg (IndexStore.i_al s) 1 = [5%N] /\
     (exists s'', IndexStore.istep AllocExamples.ex_cfg s' (IndexStore.IRelease 1) = Some (s'', IndexStore.IRReleased true) /\
        IndexStore.nget (IndexStore.i_nodes s'') 2 = Some (1, 0)%N /\
        Alloc.sget (Alloc.sl (IndexStore.i_al s'')) 2 = Alloc.SNode /\ RcStore.afind 1%nat (IndexStore.i_hs s'') = None)) /\
  (~ In IndexStore.XOom (IndexStore.idx_exec AllocExamples.ex_cfg 0 (IndexStore.iinit AllocExamples.ex_cfg 1)
                           (map ArcSlabRefine.aop_of ArcSlabExamples.ex_item_ops)) /\
   IndexStore.idx_exec AllocExamples.ex_cfg 0 (IndexStore.iinit AllocExamples.ex_cfg 1) (map ArcSlabRefine.aop_of ArcSlabExamples.ex_item_ops) =
     map IndexStoreEquiv.lift (ArcSlabRefine.arc_exec 3 (ArcSlab.init 3) ArcSlabExamples.ex_item_ops) /\
   IndexStore.idx_exec AllocExamples.ex_cfg 0 (IndexStore.iinit AllocExamples.ex_cfg 1) (map (fun k => RcStore.AAdd k 1) (seq 0 8)) =
     [IndexStore.XOk RcStore.ARAdded; IndexStore.XOk RcStore.ARAdded; IndexStore.XOk RcStore.ARAdded; IndexStore.XOk RcStore.ARAdded;
      IndexStore.XOk RcStore.ARAdded; IndexStore.XOk RcStore.ARAdded; IndexStore.XOom; IndexStore.XOom]).
Proof.
  split; [|split].
  - destruct IndexStoreExamples.ex_run as (s & H1 & H2 & _ & H3 & H4 & _ & H5 & H6 & _). exists s. repeat (split; [assumption|]). assumption.
  - destruct IndexStoreExamples.ex_parked_oom as (s & rs & s' & H1 & H2 & H3 & H4 & H5 & H6 & _ & _ & _ & s'' & G1 & G2 & G3 & _ & G4).
    exists s, rs, s'. repeat (split; [assumption|]). exists s''. repeat (split; [assumption|]). assumption.
  - destruct IndexStoreExamples.ex_equiv as (_ & H1 & H2 & _ & H3). repeat (split; [assumption|]). assumption.
Qed.
Print Assumptions C20_index_example.

(* STOREREF, continued: "without OutOfMemory" can be read off the script.  One thread, nothing parked with other
   threads, at most as many additions as slots without node: the `Arc` client never meets OutOfMemory; hence for
   a NEW manager (any capacity, chunk size, number of terminals) and any script with at most `capacity`
   additions the index store, the slab (any page size) and the reference store return the same results *)
From OxiVerif Require Mgr.IndexStoreCap.

Theorem C20_index_no_oom : forall c t ops s,
  IndexStoreProofs.IInv c s /\ IndexStore.i_own s = [] /\ (t < length (Alloc.th (IndexStore.i_al s)))%nat ->
  AllocProofs.others_idle_p c (IndexStore.i_al s) t ->
  (Alloc.nlive c (IndexStore.i_al s) + IndexStoreCap.nadds ops <= N.to_nat (Alloc.cap c))%nat ->
  ~ In IndexStore.XOom (IndexStore.idx_exec c t s ops).
Proof. exact IndexStoreCap.idx_exec_no_oom. Qed.
Print Assumptions C20_index_no_oom.

Theorem C20_stores_equivalent_new : forall c spp ops,
  (1 <= Alloc.chunk c)%N -> (1 <= Alloc.term c)%N -> (1 <= spp)%nat ->
  forallb ArcSlabRefine.item_op ops = true ->
  (length (filter (fun o => match o with ArcSlab.OAdd _ _ => true | _ => false end) ops) <= N.to_nat (Alloc.cap c))%nat ->
  IndexStore.idx_exec c 0 (IndexStore.iinit c 1) (map ArcSlabRefine.aop_of ops) =
    map IndexStoreEquiv.lift (ArcSlabRefine.arc_exec spp (ArcSlab.init spp) ops) /\
  IndexStore.idx_exec c 0 (IndexStore.iinit c 1) (map ArcSlabRefine.aop_of ops) =
    map IndexStoreEquiv.lift (ArcSlabRefine.ref_exec ArcSlabRefine.rinit (map ArcSlabRefine.aop_of ops)).
Proof.
  intros c spp ops Hc Ht Hs Hi Hn. apply IndexStoreCap.stores_equivalent_new; auto.
  assert (E : forall l, forallb ArcSlabRefine.item_op l = true ->
            IndexStoreCap.nadds (map ArcSlabRefine.aop_of l) =
            length (filter (fun o => match o with ArcSlab.OAdd _ _ => true | _ => false end) l)).
  { induction l as [|o l IH]; [reflexivity|]. cbn [forallb]. intros H. apply andb_prop in H. destruct H as [Ho Hl].
    destruct o; try discriminate Ho; cbn; rewrite (IH Hl); reflexivity. }
  rewrite (E ops Hi). exact Hn.
Qed.
Print Assumptions C20_stores_equivalent_new.

(* ------------------------------------------------------------------------------------------------
   STORECONC: the side condition [leaked r = false] of C20_index_refines_store is discharged for all
   manager-driven runs: in every reachable state of the manager core (Mgr/Core.v: unique table of
   Conc.v on this store) the store component of every action of every thread runs inside the
   refinement -- unconditionally *)
From OxiVerif Require Mgr.Core Mgr.CoreProofs Mgr.CoreThms.

Theorem C20_core_refines_store : forall k terms nl c s a s' r rs,
  CoreProofs.kreachable k terms nl c s -> Core.kstep k terms nl c s a = Some (s', r, rs) ->
  IndexStore.irun c (Core.k_i s) (Core.kstep_ops k terms nl s a) = Some (Core.k_i s', rs) /\
  IndexStoreProofs.IInv c (Core.k_i s) /\ IndexStoreProofs.IInv c (Core.k_i s') /\
  RcStore.aruns N N.eqb (IndexStore.iabs (Core.k_i s))
    (IndexStoreProofs.flat_ops (Core.kstep_ops k terms nl s a) rs)
    (IndexStoreProofs.flat_res (Core.kstep_ops k terms nl s a) rs) (IndexStore.iabs (Core.k_i s')).
Proof. exact CoreThms.core_refines_store. Qed.
Print Assumptions C20_core_refines_store.
