(** * ARCSLAB — model of the node store of the pointer-based manager
      (/repo/crates/arcslab/src/lib.rs; executable Gallina only, no proofs)

    [ArcSlab<I, D, PAGE_SIZE>] = a reference-counted slab of reference-counted items.  The items
    live in pages of PAGE_SIZE bytes (separate allocations, aligned to their size); the free
    slots of ALL pages form ONE singly linked list through the slots themselves
    ([Slot::next_free]), its head is [PageList::free_slot].

    One definition per Rust function:

      [page_slots]        the `count` computation of `Page::new`
      [page_new]          `Page::new`: slot i points to slot i+1, the last one to null
      [pagelist_new]      `PageList::new`
      [get_slot]          `PageList::get_slot`: pop the head; when the popped slot was the LAST
                          free slot (next = null) a new page is allocated AT ONCE and its first
                          slot becomes the head (the list is never empty)
      [add_item]          `ArcSlab::add_item` (count + 1, the item is written with count 1 =
                          `ArcItem::new`)
      [free_slot]         `Page::free_slot`: count - 1, push (LIFO)
      [slot_retain]       `Slot::retain`  (= `ArcItem::retain`)
      [slot_release]      `Slot::release` / `Slot::release_move`: count - 1; the caller that
                          sees the old count 1 takes the item out and frees the slot
      [slot_force]        `IntHandle::force_into_inner` (no counter access; takes the item)
      [slab_new]          `ArcSlab::new` / `new_with`: rc = 1, items = 0
      [slab_retain]       `ArcSlab::retain`
      [slab_release]      `ArcSlab::release`: the caller that sees the old count 1 drops the box
                          (`D`, then the `PageList`: every page is deallocated; items that are
                          still in their slots are NOT dropped: `ManuallyDrop`)
      [step]              the client-visible operations: `add_item`, `Clone` / `Drop` /
                          `into_inner` / `drop_with` of `IntHandle` and `ExtHandle`,
                          `IntHandle::force_into_inner`, `ExtHandle::from(IntHandle)`, `Deref`,
                          `num_items`, `ArcSlab::retain` / `release` (raw), `Clone` / `Drop` of
                          `ArcSlabRef`.  The ORDER inside the `ExtHandle` operations is the
                          code's: first the item, then the slab.

    Addresses are (page number in order of allocation, slot index on the page).  Handles are
    client-side tokens: the client state ([y_hs]) maps handle variables to (address, kind); the
    slab itself only sees counters.  `IntHandle::into_raw` / `from_raw`, `ArcSlabRef::into_raw`
    / `from_raw` and `ArcSlab::from_data_ptr` change nothing (no-ops here).

    Outcomes of [step]: [Done] (new state + observable output), [Invalid] (the CLIENT breaks a
    precondition: unknown / already bound handle variable, `release` without a matching
    `retain`, `force_into_inner` on a handle that is not the last one; the state is unchanged),
    [Dead] (the slab has been destroyed: nothing may be used any more), [Broken] (an internal
    structure is inconsistent, e.g. the head of the free list is not a free slot: the theorems
    show that no reachable state produces it).

    Not modelled: atomics / memory orderings and the `Mutex` around the page list (sequential
    model), the overflow guards (`abort` above usize::MAX/2 resp. isize::MAX), allocation
    failure, `madvise`. *)

From Coq Require Import List NArith Bool Arith.
Import ListNotations.

Definition addr := (nat * nat)%type.

Definition addr_eqb (a b : addr) : bool :=
  ((fst a =? fst b) && (snd a =? snd b))%nat.

(** `union Slot<I>`: `next_free` (null = [None]) | `item` (here: payload + `ArcItem::rc`) *)
Inductive slot := Free (next : option addr) | Item (payload rc : N).

(** `PageList`: the pages in order of allocation (`current_page` = the last one, `prev` = the
    one before) and `free_slot` *)
Record pagelist := mkPL { pl_pages : list (list slot); pl_free : addr }.

(** `ArcSlabInt`: `rc`, `items`, `pages` *)
Record slab := mkSlab { sl_rc : N; sl_items : N; sl_pl : pagelist }.

(** ** list access *)

Fixpoint upd {A : Type} (n : nat) (f : A -> A) (l : list A) {struct l} : list A :=
  match l with
  | [] => []
  | x :: r => match n with O => f x :: r | S k => x :: upd k f r end
  end.

Definition get_at (pgs : list (list slot)) (a : addr) : option slot :=
  match nth_error pgs (fst a) with
  | Some pg => nth_error pg (snd a)
  | None => None
  end.

Definition set_at (pgs : list (list slot)) (a : addr) (v : slot) : list (list slot) :=
  upd (fst a) (upd (snd a) (fun _ => v)) pgs.

(** ** pages *)

(** `count` in `Page::new`: (PAGE_SIZE - offset of `items`) / size_of::<Slot<I>>(); the header
    (`slab`, `prev`) is [hdr] bytes, a slot [ssz] bytes *)
Definition page_slots (page_size hdr ssz : N) : nat :=
  N.to_nat (N.div (N.sub page_size hdr) ssz).

Local Open Scope N_scope.

Section Model.
Variable spp : nat.     (* slots per page (>= 1: asserted by `Page::layout`) *)

(** `Page::new` for the page with number [pno] *)
Definition page_new (pno : nat) : list slot :=
  map (fun i => Free (if (S i <? spp)%nat then Some (pno, S i) else None)) (seq 0 spp).

(** `PageList::new` *)
Definition pagelist_new : pagelist := mkPL [page_new 0] (0, 0)%nat.

(** `PageList::get_slot` *)
Definition get_slot (pl : pagelist) : option (addr * pagelist) :=
  let s := pl_free pl in
  match get_at (pl_pages pl) s with
  | Some (Free (Some nx)) => Some (s, mkPL (pl_pages pl) nx)
  | Some (Free None) =>
      let pno := length (pl_pages pl) in
      Some (s, mkPL (pl_pages pl ++ [page_new pno]) (pno, 0)%nat)
  | _ => None
  end.

(** `ArcSlab::new` *)
Definition slab_new : slab := mkSlab 1 0 pagelist_new.

(** `ArcSlab::add_item` *)
Definition add_item (sl : slab) (p : N) : option (addr * slab) :=
  match get_slot (sl_pl sl) with
  | Some (a, pl) =>
      Some (a, mkSlab (sl_rc sl) (sl_items sl + 1) (mkPL (set_at (pl_pages pl) a (Item p 1)) (pl_free pl)))
  | None => None
  end.

(** `Page::free_slot` *)
Definition free_slot (sl : slab) (a : addr) : slab :=
  let pl := sl_pl sl in
  mkSlab (sl_rc sl) (sl_items sl - 1) (mkPL (set_at (pl_pages pl) a (Free (Some (pl_free pl)))) a).

(** `Slot::retain`; the result also carries the new count *)
Definition slot_retain (sl : slab) (a : addr) : option (slab * N) :=
  match get_at (pl_pages (sl_pl sl)) a with
  | Some (Item p rc) =>
      Some (mkSlab (sl_rc sl) (sl_items sl) (mkPL (set_at (pl_pages (sl_pl sl)) a (Item p (rc + 1))) (pl_free (sl_pl sl))),
            rc + 1)
  | _ => None
  end.

(** `Slot::release` / `Slot::release_move`: [Some p] = the old count was 1, the item (payload
    [p]) has been taken out and the slot freed *)
Definition slot_release (sl : slab) (a : addr) : option (slab * option N) :=
  match get_at (pl_pages (sl_pl sl)) a with
  | Some (Item p rc) =>
      if rc =? 1 then Some (free_slot sl a, Some p)
      else Some (mkSlab (sl_rc sl) (sl_items sl) (mkPL (set_at (pl_pages (sl_pl sl)) a (Item p (rc - 1))) (pl_free (sl_pl sl))),
                 None)
  | _ => None
  end.

(** `IntHandle::force_into_inner` *)
Definition slot_force (sl : slab) (a : addr) : option (slab * N) :=
  match get_at (pl_pages (sl_pl sl)) a with
  | Some (Item p rc) => Some (free_slot sl a, p)
  | _ => None
  end.

(** `Deref` of a handle + `AtomicRefCounted::current` *)
Definition slot_read (sl : slab) (a : addr) : option (N * N) :=
  match get_at (pl_pages (sl_pl sl)) a with
  | Some (Item p rc) => Some (p, rc)
  | _ => None
  end.

(** `ArcSlab::retain` *)
Definition slab_retain (sl : slab) : slab := mkSlab (sl_rc sl + 1) (sl_items sl) (sl_pl sl).

(** `ArcSlab::release`: [None] = this was the last reference, the slab is gone *)
Definition slab_release (sl : slab) : option slab :=
  if sl_rc sl =? 1 then None else Some (mkSlab (sl_rc sl - 1) (sl_items sl) (sl_pl sl)).

(** ** the client *)

Inductive hkind := KInt | KExt.
Record handle := mkH { h_addr : addr; h_kind : hkind }.

(** the slab (or, once it is destroyed, the value of `items` at that moment = the number of
    items that were still in their slots and are never dropped) *)
Inductive slab_state := Alive (sl : slab) | Destroyed (leaked : N).

Record sys := mkSys {
  y_slab : slab_state;
  y_hs : list (nat * handle);   (* handle variables of the client *)
  y_refs : N;                   (* `ArcSlabRef`s the client holds *)
  y_tok : N                     (* raw `retain()`s the client has not yet `release()`d *)
}.

Fixpoint hfind (h : nat) (hs : list (nat * handle)) : option handle :=
  match hs with
  | [] => None
  | (k, v) :: r => if (k =? h)%nat then Some v else hfind h r
  end.

Fixpoint hremove (h : nat) (hs : list (nat * handle)) : list (nat * handle) :=
  match hs with
  | [] => []
  | (k, v) :: r => if (k =? h)%nat then hremove h r else (k, v) :: hremove h r
  end.

(** replaces the value of the handle variable [h] in place *)
Fixpoint hset (h : nat) (v : handle) (hs : list (nat * handle)) : list (nat * handle) :=
  match hs with
  | [] => []
  | (k, x) :: r => if (k =? h)%nat then (k, v) :: hset h v r else (k, x) :: hset h v r
  end.

Definition is_ext (k : hkind) : bool := match k with KExt => true | KInt => false end.

Inductive ev := EvDrop (p : N)     (* `Drop` of an item's payload *)
              | EvFn (p : N)       (* the closure of `drop_with` is called with the item *)
              | EvData.            (* `Drop` of the slab's data `D` *)

Inductive res := RAddr (a : addr) | RSome (p : N) | RNone | RUnit | RVal (p rc : N) | RNum (n : N).

Record out := mkOut { o_res : res; o_log : list ev }.

Inductive outcome := Done (y : sys) (o : out) | Invalid | Dead | Broken.

Inductive op :=
  | OAdd (h : nat) (p : N)      (* `add_item` into the new handle variable h *)
  | OClone (h h2 : nat)         (* h2 = h.clone() *)
  | ODrop (h : nat)             (* drop(h) *)
  | OIntoInner (h : nat)        (* `IntHandle::into_inner` / `ExtHandle::into_inner` *)
  | ODropWith (h : nat)         (* `drop_with(h, f)` *)
  | OForce (h : nat)            (* `IntHandle::force_into_inner` (last handle only) *)
  | OExt (h : nat)              (* h = ExtHandle::from(h) *)
  | OGet (h : nat)              (* the payload behind h and h.current() *)
  | ONum                        (* `num_items` *)
  | ORetain | ORelease          (* `ArcSlab::retain` / `ArcSlab::release` *)
  | ORefClone | ORefDrop.       (* `ArcSlabRef::clone` / drop *)

(** the slab part of dropping an `ExtHandle` / `ArcSlabRef` / raw reference: `ArcSlab::release`;
    [log] = what the operation has logged so far *)
Definition finish_release (sl : slab) (hs : list (nat * handle)) (refs tok : N) (r : res) (log : list ev) : outcome :=
  match slab_release sl with
  | Some sl' => Done (mkSys (Alive sl') hs refs tok) (mkOut r log)
  | None => Done (mkSys (Destroyed (sl_items sl)) hs refs tok) (mkOut r (log ++ [EvData]))
  end.

(** after the item part of a handle's end: an `ExtHandle` also gives up its slab reference *)
Definition finish_handle (k : hkind) (sl : slab) (hs : list (nat * handle)) (refs tok : N) (r : res) (log : list ev) : outcome :=
  match k with
  | KInt => Done (mkSys (Alive sl) hs refs tok) (mkOut r log)
  | KExt => finish_release sl hs refs tok r log
  end.

Definition step (y : sys) (o : op) : outcome :=
  match y_slab y with
  | Destroyed _ => Dead
  | Alive sl =>
    let hs := y_hs y in
    match o with
    | OAdd h p =>
        match hfind h hs with
        | Some _ => Invalid
        | None =>
            match add_item sl p with
            | Some (a, sl') => Done (mkSys (Alive sl') ((h, mkH a KInt) :: hs) (y_refs y) (y_tok y)) (mkOut (RAddr a) [])
            | None => Broken
            end
        end
    | OClone h h2 =>
        match hfind h hs, hfind h2 hs with
        | Some hd, None =>
            match slot_retain sl (h_addr hd) with
            | Some (sl1, rc) =>
                let sl2 := if is_ext (h_kind hd) then slab_retain sl1 else sl1 in
                Done (mkSys (Alive sl2) ((h2, hd) :: hs) (y_refs y) (y_tok y)) (mkOut (RNum rc) [])
            | None => Broken
            end
        | _, _ => Invalid
        end
    | ODrop h =>
        match hfind h hs with
        | None => Invalid
        | Some hd =>
            match slot_release sl (h_addr hd) with
            | Some (sl1, d) =>
                finish_handle (h_kind hd) sl1 (hremove h hs) (y_refs y) (y_tok y) RUnit
                  (match d with Some p => [EvDrop p] | None => [] end)
            | None => Broken
            end
        end
    | ODropWith h =>
        match hfind h hs with
        | None => Invalid
        | Some hd =>
            match slot_release sl (h_addr hd) with
            | Some (sl1, d) =>
                finish_handle (h_kind hd) sl1 (hremove h hs) (y_refs y) (y_tok y) RUnit
                  (match d with Some p => [EvFn p; EvDrop p] | None => [] end)
            | None => Broken
            end
        end
    | OIntoInner h =>
        match hfind h hs with
        | None => Invalid
        | Some hd =>
            match slot_release sl (h_addr hd) with
            | Some (sl1, d) =>
                finish_handle (h_kind hd) sl1 (hremove h hs) (y_refs y) (y_tok y)
                  (match d with Some p => RSome p | None => RNone end) []
            | None => Broken
            end
        end
    | OForce h =>
        match hfind h hs with
        | Some (mkH a KInt) =>
            match slot_read sl a with
            | Some (_, rc) =>
                if rc =? 1 then
                  match slot_force sl a with
                  | Some (sl1, p) => Done (mkSys (Alive sl1) (hremove h hs) (y_refs y) (y_tok y)) (mkOut (RSome p) [])
                  | None => Broken
                  end
                else Invalid
            | None => Broken
            end
        | _ => Invalid
        end
    | OExt h =>
        match hfind h hs with
        | Some (mkH a KInt) =>
            Done (mkSys (Alive (slab_retain sl)) (hset h (mkH a KExt) hs) (y_refs y) (y_tok y)) (mkOut RUnit [])
        | _ => Invalid
        end
    | OGet h =>
        match hfind h hs with
        | None => Invalid
        | Some hd =>
            match slot_read sl (h_addr hd) with
            | Some (p, rc) => Done y (mkOut (RVal p rc) [])
            | None => Broken
            end
        end
    | ONum => Done y (mkOut (RNum (sl_items sl)) [])
    | ORetain => Done (mkSys (Alive (slab_retain sl)) hs (y_refs y) (y_tok y + 1)) (mkOut RUnit [])
    | ORelease =>
        if y_tok y =? 0 then Invalid
        else finish_release sl hs (y_refs y) (y_tok y - 1) RUnit []
    | ORefClone =>
        if y_refs y =? 0 then Invalid
        else Done (mkSys (Alive (slab_retain sl)) hs (y_refs y + 1) (y_tok y)) (mkOut RUnit [])
    | ORefDrop =>
        if y_refs y =? 0 then Invalid
        else finish_release sl hs (y_refs y - 1) (y_tok y) RUnit []
    end
  end.

(** `ArcSlab::new(data)`: one `ArcSlabRef`, no handle *)
Definition init : sys := mkSys (Alive slab_new) [] 1 0.

(** a whole script; rejected operations ([Invalid], [Dead]) leave the state as it is; [Broken]
    stops the run ([None]) *)
Fixpoint run (y : sys) (ops : list op) : option (sys * list outcome) :=
  match ops with
  | [] => Some (y, [])
  | o :: r =>
      match step y o with
      | Done y' out =>
          match run y' r with Some (yf, l) => Some (yf, Done y' out :: l) | None => None end
      | Broken => None
      | oc => match run y r with Some (yf, l) => Some (yf, oc :: l) | None => None end
      end
  end.

(** ** observers used by the correspondence run *)

Definition obs_items (y : sys) : option N :=
  match y_slab y with Alive sl => Some (sl_items sl) | Destroyed _ => None end.

(** number of pages that are currently allocated *)
Definition obs_pages (y : sys) : nat :=
  match y_slab y with Alive sl => length (pl_pages (sl_pl sl)) | Destroyed _ => 0 end.

Definition obs_alive (y : sys) : bool :=
  match y_slab y with Alive _ => true | Destroyed _ => false end.

Definition obs_leaked (y : sys) : N :=
  match y_slab y with Alive _ => 0 | Destroyed n => n end.

End Model.
