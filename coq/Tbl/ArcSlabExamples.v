(** * ARCSLAB: concrete scripts (non-vacuity of the theorems' hypotheses)

    [ex_ops] on pages of 3 slots: four items (the fourth on a second page, which is allocated
    when the LAST free slot of the first page is handed out), a clone, the item leaves through
    `into_inner` of its last handle, its slot is the next one handed out (LIFO), an `ExtHandle`
    keeps the slab alive after the last `ArcSlabRef` is gone; dropping it destroys the slab
    although two `IntHandle`s are left: their items are never dropped (leaked = 2). *)

From Coq Require Import List NArith Bool Arith.
From OxiVerif Require Import Tbl.ArcSlab Tbl.ArcSlabProofsBase Tbl.ArcSlabProofs Tbl.ArcSlabProofsStep
  Tbl.ArcSlabThms Tbl.RcStore Tbl.ArcSlabRefine.
Import ListNotations.
Local Open Scope N_scope.

Definition ex_ops : list op :=
  [OAdd 0 1; OAdd 1 2; OAdd 2 3; OAdd 3 4; OClone 0 4; ODrop 0; OIntoInner 4; OAdd 5 6; OExt 1;
   ORefDrop; ODropWith 2; OGet 1; ODrop 1; ONum].

Definition ex_results : list (option (res * list ev)) :=
  [Some (RAddr (0, 0)%nat, []); Some (RAddr (0, 1)%nat, []); Some (RAddr (0, 2)%nat, []);
   Some (RAddr (1, 0)%nat, []); Some (RNum 2, []); Some (RUnit, []); Some (RSome 1, []);
   Some (RAddr (0, 0)%nat, []); Some (RUnit, []); Some (RUnit, []); Some (RUnit, [EvFn 3; EvDrop 3]);
   Some (RVal 2 1, []); Some (RUnit, [EvDrop 2; EvData]); None].

Definition view (oc : outcome) : option (res * list ev) :=
  match oc with Done _ o => Some (o_res o, o_log o) | _ => None end.

Example ex_run :
  exists yf outs, run 3 (init 3) ex_ops = Some (yf, outs) /\ map view outs = ex_results /\
    y_slab yf = Destroyed 2 /\ map fst (y_hs yf) = [5; 3]%nat /\ y_refs yf = 0 /\ y_tok yf = 0.
Proof. eexists _, _. split; [vm_compute; reflexivity|]. vm_compute. auto. Qed.

(** the state before the slab dies: two pages, three items, the recycled slot (0,2) on top of
    the never-used slots (1,1), (1,2) *)
Definition ex_mid_ops : list op := firstn 11 ex_ops.

Example ex_mid :
  exists y sl outs, run 3 (init 3) ex_mid_ops = Some (y, outs) /\ y_slab y = Alive sl /\
    reachable 3 y /\
    sl_items sl = 3 /\ length (pl_pages (sl_pl sl)) = 2%nat /\ pl_free (sl_pl sl) = (0, 2)%nat /\
    get_at (pl_pages (sl_pl sl)) (0, 2)%nat = Some (Free (Some (1, 1)%nat)) /\
    get_at (pl_pages (sl_pl sl)) (1, 1)%nat = Some (Free (Some (1, 2)%nat)) /\
    get_at (pl_pages (sl_pl sl)) (1, 2)%nat = Some (Free None) /\
    slot_read sl (0, 0)%nat = Some (6, 1) /\ slot_read sl (0, 1)%nat = Some (2, 1) /\
    slot_read sl (1, 0)%nat = Some (4, 1) /\ slab_count y = 1.
Proof.
  eexists _, _, _. split; [vm_compute; reflexivity|]. split; [reflexivity|].
  split; [exists ex_mid_ops; eexists; vm_compute; reflexivity|]. vm_compute. repeat split; reflexivity.
Qed.

(** pages of ONE slot: every allocation adds a page *)
Example ex_one_slot :
  exists y outs, run 1 (init 1) [OAdd 0 7; OAdd 1 8; ODrop 0; OAdd 2 9] = Some (y, outs) /\
    map view outs = [Some (RAddr (0, 0)%nat, []); Some (RAddr (1, 0)%nat, []); Some (RUnit, [EvDrop 7]);
                     Some (RAddr (0, 0)%nat, [])] /\
    obs_pages y = 3%nat /\ obs_items y = Some 2.
Proof. eexists _, _. split; [vm_compute; reflexivity|]. vm_compute. auto. Qed.

(** an item-level script and its results on the slab = on the reference store *)
Definition ex_item_ops : list op :=
  [OAdd 0 1; OAdd 1 2; OClone 0 2; ODrop 0; OGet 2; OIntoInner 2; OAdd 0 5; ODropWith 1; OGet 7; OAdd 0 9].

Example ex_item_ops_ok : forallb item_op ex_item_ops = true.
Proof. reflexivity. Qed.

Example ex_equiv :
  arc_exec 3 (init 3) ex_item_ops = ref_exec rinit (map aop_of ex_item_ops) /\
  arc_exec 3 (init 3) ex_item_ops =
    [Some ARAdded; Some ARAdded; Some (ARCount 2); Some ARKept; Some (ARVal 1 1); Some (ARGone 1);
     Some ARAdded; Some (ARGone 2); None; None].
Proof. split; vm_compute; reflexivity. Qed.
