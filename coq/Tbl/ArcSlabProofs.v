(** * ARCSLAB proofs, part 2: what the slab-level functions do ([add_item], [slot_retain],
      [slot_release], [slot_force]), the system invariant [YInv] (slab + the client's handles),
      its preservation by every operation, and the per-operation facts behind the property
      theorems (coq/Props/C05.v, theorems C05_arcslab_...). *)

From Coq Require Import List NArith ZArith Bool Arith Lia.
From OxiVerif Require Import Tbl.ArcSlab Tbl.ArcSlabProofsBase.
Import ListNotations.

Local Open Scope N_scope.

Arguments N.add : simpl never.
Arguments N.sub : simpl never.
Arguments N.mul : simpl never.
Arguments N.div : simpl never.

(** the item (payload, count) in slot [a], if any *)
Definition rd (pgs : list (list slot)) (a : addr) : option (N * N) :=
  match get_at pgs a with Some (Item p rc) => Some (p, rc) | _ => None end.

Definition item_of (v : slot) : option (N * N) :=
  match v with Item p rc => Some (p, rc) | Free _ => None end.

Lemma rd_set pgs a v b s :
  get_at pgs a = Some s ->
  rd (set_at pgs a v) b = if addr_eqb a b then item_of v else rd pgs b.
Proof.
  intros H. unfold rd. rewrite get_set. destruct (addr_eqb a b) eqn:E; [|reflexivity].
  apply addr_eqb_eq in E. subst b. rewrite H. cbn. destruct v; reflexivity.
Qed.

Lemma slot_read_rd sl a : slot_read sl a = rd (pl_pages (sl_pl sl)) a.
Proof. reflexivity. Qed.

Section Proofs.
Variable spp : nat.
Hypothesis spp_pos : (1 <= spp)%nat.
Local Set Default Proof Using "spp_pos".

Local Notation page_new_length := (ArcSlabProofsBase.page_new_length spp spp_pos).
Local Notation page_new_nth := (ArcSlabProofsBase.page_new_nth spp spp_pos).
Local Notation cntp_page_new := (ArcSlabProofsBase.cntp_page_new spp spp_pos).
Local Notation shape_get := (ArcSlabProofsBase.shape_get spp spp_pos).
Local Notation shape_set := (ArcSlabProofsBase.shape_set spp spp_pos).
Local Notation valid_set := (ArcSlabProofsBase.valid_set spp spp_pos).
Local Notation shape_app := (ArcSlabProofsBase.shape_app spp spp_pos).
Local Notation linked_free := (ArcSlabProofsBase.linked_free spp spp_pos).
Local Notation linked_set := (ArcSlabProofsBase.linked_set spp spp_pos).
Local Notation linked_app_old := (ArcSlabProofsBase.linked_app_old spp spp_pos).
Local Notation fresh_In := (ArcSlabProofsBase.fresh_In spp spp_pos).
Local Notation fresh_cons := (ArcSlabProofsBase.fresh_cons spp spp_pos).
Local Notation fresh_nil := (ArcSlabProofsBase.fresh_nil spp spp_pos).
Local Notation fresh_NoDup := (ArcSlabProofsBase.fresh_NoDup spp spp_pos).
Local Notation valid_used_or_fresh := (ArcSlabProofsBase.valid_used_or_fresh spp spp_pos).
Local Notation used_not_fresh := (ArcSlabProofsBase.used_not_fresh spp spp_pos).
Local Notation linked_page_new := (ArcSlabProofsBase.linked_page_new spp spp_pos).
Local Notation SI_intro := (ArcSlabProofsBase.SI_intro spp spp_pos).
Local Notation SI_chain_NoDup := (ArcSlabProofsBase.SI_chain_NoDup spp spp_pos).
Local Notation SI_item_not_chain := (ArcSlabProofsBase.SI_item_not_chain spp spp_pos).
Local Notation SI_item_valid_used := (ArcSlabProofsBase.SI_item_valid_used spp spp_pos).
Local Notation SI_partition := (ArcSlabProofsBase.SI_partition spp spp_pos).
Local Notation SI_set_item := (ArcSlabProofsBase.SI_set_item spp spp_pos).
Local Notation SI_push := (ArcSlabProofsBase.SI_push spp spp_pos).
Local Notation SI_pop := (ArcSlabProofsBase.SI_pop spp spp_pos).
Local Notation SI_extend := (ArcSlabProofsBase.SI_extend spp spp_pos).
Notation SInv := (SInv spp).
Notation SI := (SI spp).
Notation chain := (chain spp).

Lemma rd_app_new pgs b :
  rd (pgs ++ [page_new spp (length pgs)]) b = rd pgs b.
Proof.
  unfold rd. destruct (lt_eq_lt_dec (fst b) (length pgs)) as [[H|H]|H].
  - rewrite get_at_app_old by exact H. reflexivity.
  - destruct b as [bp bi]; cbn [fst] in H; subst bp. rewrite get_at_app_new.
    assert (E : get_at pgs (length pgs, bi) = None).
    { unfold get_at; cbn [fst]. replace (nth_error pgs (length pgs)) with (@None (list slot)); [reflexivity|].
      symmetry. apply nth_error_None. lia. }
    rewrite E. destruct (Nat.lt_ge_cases bi spp) as [Hlt|Hge].
    + rewrite page_new_nth by exact Hlt. reflexivity.
    + replace (nth_error (page_new spp (length pgs)) bi) with (@None slot); [reflexivity|].
      symmetry. apply nth_error_None. rewrite page_new_length. exact Hge.
  - rewrite get_at_app_beyond by exact H.
    assert (E : get_at pgs b = None).
    { unfold get_at. replace (nth_error pgs (fst b)) with (@None (list slot)); [reflexivity|].
      symmetry. apply nth_error_None. lia. }
    rewrite E. reflexivity.
Qed.

Lemma chain_set pgs a v stack k : chain (set_at pgs a v) stack k = chain pgs stack k.
Proof. unfold ArcSlabProofsBase.chain. rewrite set_at_length. reflexivity. Qed.

(** ** `ArcSlab::add_item`: the address policy, with the representation made explicit *)

(** the representation after an allocation *)
Definition add_new_page (stack : list addr) (k : nat) : bool :=
  match tl stack with [] => (spp <=? pop_k stack k)%nat | _ :: _ => false end.
Definition add_stack (stack : list addr) (k : nat) : list addr :=
  if add_new_page stack k then [] else tl stack.
Definition add_k (stack : list addr) (k : nat) : nat :=
  if add_new_page stack k then 0%nat else pop_k stack k.

Lemma add_item_rep sl stack k p :
  SRep spp sl stack k ->
  exists sl',
    add_item spp sl p = Some (pop_addr (pl_pages (sl_pl sl)) stack k, sl') /\
    SRep spp sl' (add_stack stack k) (add_k stack k) /\
    pop_addr (pl_pages (sl_pl sl)) stack k = pl_free (sl_pl sl) /\
    length (pl_pages (sl_pl sl')) =
      (if add_new_page stack k then S (length (pl_pages (sl_pl sl))) else length (pl_pages (sl_pl sl))) /\
    slot_read sl (pl_free (sl_pl sl)) = None /\
    (forall b, slot_read sl' b = if addr_eqb (pl_free (sl_pl sl)) b then Some (p, 1) else slot_read sl b) /\
    sl_rc sl' = sl_rc sl /\ sl_items sl' = sl_items sl + 1.
Proof.
  intros (HSI & Hhd & Hit).
  destruct sl as [rc items [pgs free]]; cbn [sl_pl pl_pages pl_free sl_items sl_rc] in *.
  destruct (chain pgs stack k) as [|a rest] eqn:Hch; [discriminate|].
  cbn in Hhd. inversion Hhd; subst a.
  destruct (SI_pop pgs stack k free rest p HSI Hch) as (Hpa & Hg & Hrest & HSI').
  rewrite <- Hpa. unfold add_item, get_slot; cbn [sl_pl pl_pages pl_free sl_items sl_rc]. rewrite Hg.
  assert (Hrd : rd pgs free = None) by (unfold rd; rewrite Hg; reflexivity).
  assert (Hvf : (fst free < length pgs)%nat).
  { destruct HSI as (Hs & _). apply (shape_get pgs free Hs). congruence. }
  assert (Hk' : (pop_k stack k <= spp)%nat) by (destruct HSI' as (_ & Hk' & _); exact Hk').
  assert (Hnp : add_new_page stack k = true <-> rest = []).
  { unfold add_new_page. rewrite Hrest. unfold ArcSlabProofsBase.chain.
    destruct (tl stack) as [|s st]; cbn [app].
    - rewrite Nat.leb_le. split.
      + intros H. apply fresh_nil. exact H.
      + intros H. destruct (Nat.lt_ge_cases (pop_k stack k) spp) as [Hlt|Hge]; [|exact Hge].
        rewrite (fresh_cons _ _ Hlt) in H. discriminate.
    - split; discriminate. }
  destruct (hd_error rest) as [nx|] eqn:Hnx.
  - assert (Hb : add_new_page stack k = false).
    { apply not_true_is_false. intros Hb. apply Hnp in Hb. rewrite Hb in Hnx. discriminate Hnx. }
    unfold add_stack, add_k. rewrite Hb.
    eexists. split; [reflexivity|]. cbn [sl_pl pl_pages pl_free sl_items sl_rc].
    split; [|split; [reflexivity | split; [apply set_at_length | split; [exact Hrd | split; [|split; [reflexivity|reflexivity]]]]]].
    + split; [exact HSI'|]. cbn [sl_pl pl_pages pl_free sl_items]. split.
      * rewrite chain_set, <- Hrest. exact Hnx.
      * pose proof (cnt_set pgs free (Item p 1) _ Hg) as Hc. cbn in Hc. lia.
    + intros b. rewrite slot_read_rd; cbn [sl_pl pl_pages]. rewrite (rd_set _ _ _ _ _ Hg). reflexivity.
  - (* the last free slot: a new page *)
    assert (Hr : rest = []) by (destruct rest; [reflexivity | discriminate]).
    assert (Hb : add_new_page stack k = true) by (apply Hnp; exact Hr).
    unfold add_stack, add_k. rewrite Hb.
    eexists. split; [reflexivity|]. cbn [sl_pl pl_pages pl_free sl_items sl_rc].
    assert (Hst' : tl stack = [] /\ pop_k stack k = spp).
    { unfold add_new_page in Hb. destruct (tl stack); [|discriminate]. apply Nat.leb_le in Hb. split; [reflexivity | lia]. }
    destruct Hst' as [Hst' Hpk]. rewrite Hst', Hpk in HSI'.
    rewrite set_at_app by exact Hvf.
    pose proof (SI_extend _ HSI') as HSI2. rewrite set_at_length in HSI2.
    split; [|split; [reflexivity | split; [rewrite app_length, set_at_length; cbn; lia | split; [exact Hrd | split; [|split; [reflexivity|reflexivity]]]]]].
    + split; [exact HSI2|]. cbn [sl_pl pl_pages pl_free sl_items]. split.
      * unfold ArcSlabProofsBase.chain. cbn [app]. rewrite app_length, set_at_length. cbn [length].
        rewrite fresh_cons by lia. cbn. f_equal. f_equal. lia.
      * rewrite cnt_app, cntp_page_new.
        pose proof (cnt_set pgs free (Item p 1) _ Hg) as Hc. cbn in Hc. lia.
    + intros b. rewrite !slot_read_rd; cbn [sl_pl pl_pages].
      rewrite <- (set_at_length pgs free (Item p 1)) at 1. rewrite rd_app_new.
      rewrite (rd_set _ _ _ _ _ Hg). reflexivity.
Qed.

Lemma add_item_spec sl p :
  SInv sl ->
  exists a sl',
    add_item spp sl p = Some (a, sl') /\ SInv sl' /\
    a = pl_free (sl_pl sl) /\
    slot_read sl a = None /\
    (forall b, slot_read sl' b = if addr_eqb a b then Some (p, 1) else slot_read sl b) /\
    sl_rc sl' = sl_rc sl /\ sl_items sl' = sl_items sl + 1.
Proof.
  intros (stack & k & HR).
  destruct (add_item_rep sl stack k p HR) as (sl' & H1 & H2 & H3 & H4 & H5 & H6 & H7 & H8).
  exists (pl_free (sl_pl sl)), sl'. rewrite <- H3 at 1. split; [exact H1|].
  split; [eexists _, _; exact H2|]. auto.
Qed.

(** ** counter updates in place *)
Lemma set_item_rep sl stack k a p rc rc' :
  SRep spp sl stack k -> slot_read sl a = Some (p, rc) ->
  let sl' := mkSlab (sl_rc sl) (sl_items sl)
               (mkPL (set_at (pl_pages (sl_pl sl)) a (Item p rc')) (pl_free (sl_pl sl))) in
  SRep spp sl' stack k /\ (forall b, slot_read sl' b = if addr_eqb a b then Some (p, rc') else slot_read sl b).
Proof.
  intros (HSI & Hhd & Hit) Hr sl'.
  destruct sl as [src items [pgs free]]; cbn [sl_pl pl_pages pl_free sl_items sl_rc] in *.
  assert (Hg : get_at pgs a = Some (Item p rc)).
  { unfold slot_read in Hr; cbn in Hr. destruct (get_at pgs a) as [[|q r]|]; try discriminate.
    inversion Hr; subst; reflexivity. }
  split.
  - subst sl'; split; cbn [sl_pl pl_pages pl_free sl_items]; [|split].
    + eapply SI_set_item; eauto.
    + rewrite chain_set. exact Hhd.
    + pose proof (cnt_set pgs a (Item p rc') _ Hg) as Hc. cbn in Hc. lia.
  - intros b. subst sl'. rewrite !slot_read_rd; cbn [sl_pl pl_pages].
    rewrite (rd_set _ _ _ _ _ Hg). reflexivity.
Qed.

Lemma set_item_spec sl a p rc rc' :
  SInv sl -> slot_read sl a = Some (p, rc) ->
  let sl' := mkSlab (sl_rc sl) (sl_items sl)
               (mkPL (set_at (pl_pages (sl_pl sl)) a (Item p rc')) (pl_free (sl_pl sl))) in
  SInv sl' /\ (forall b, slot_read sl' b = if addr_eqb a b then Some (p, rc') else slot_read sl b).
Proof.
  intros (stack & k & HR) Hr sl'. destruct (set_item_rep sl stack k a p rc rc' HR Hr) as [H1 H2].
  split; [eexists _, _; exact H1 | exact H2].
Qed.

Lemma slot_retain_spec sl a p rc :
  SInv sl -> slot_read sl a = Some (p, rc) ->
  exists sl', slot_retain sl a = Some (sl', rc + 1) /\ SInv sl' /\
    (forall b, slot_read sl' b = if addr_eqb a b then Some (p, rc + 1) else slot_read sl b) /\
    sl_rc sl' = sl_rc sl /\ sl_items sl' = sl_items sl /\
    length (pl_pages (sl_pl sl')) = length (pl_pages (sl_pl sl)).
Proof.
  intros HI Hr. destruct (set_item_spec sl a p rc (rc + 1) HI Hr) as [H1 H2].
  unfold slot_retain. unfold slot_read in Hr.
  destruct (get_at (pl_pages (sl_pl sl)) a) as [[|q r]|]; try discriminate. inversion Hr; subst q r.
  eexists. split; [reflexivity|]. split; [exact H1|]. split; [exact H2|].
  cbn. rewrite set_at_length. auto.
Qed.

(** ** `Page::free_slot` on a slot that holds an item: push *)
Lemma free_slot_rep sl stack k a p rc :
  SRep spp sl stack k -> slot_read sl a = Some (p, rc) ->
  SRep spp (free_slot sl a) (a :: stack) k /\
  (forall b, slot_read (free_slot sl a) b = if addr_eqb a b then None else slot_read sl b) /\
  pl_free (sl_pl (free_slot sl a)) = a /\
  sl_items (free_slot sl a) = sl_items sl - 1 /\ 1 <= sl_items sl.
Proof.
  intros (HSI & Hhd & Hit) Hr.
  destruct sl as [src items [pgs free]]; cbn [sl_pl pl_pages pl_free sl_items sl_rc] in *.
  assert (Hg : get_at pgs a = Some (Item p rc)).
  { unfold slot_read in Hr; cbn in Hr. destruct (get_at pgs a) as [[|q r]|]; try discriminate.
    inversion Hr; subst; reflexivity. }
  pose proof (cnt_set pgs a (Free (Some free)) _ Hg) as Hc. cbn in Hc.
  unfold free_slot; cbn [sl_pl pl_pages pl_free sl_items sl_rc].
  split; [|split; [|split; [reflexivity | split; [reflexivity | lia]]]].
  - split; cbn [sl_pl pl_pages pl_free sl_items]; [|split].
    + rewrite <- Hhd. eapply SI_push; eauto.
    + reflexivity.
    + lia.
  - intros b. rewrite !slot_read_rd; cbn [sl_pl pl_pages]. rewrite (rd_set _ _ _ _ _ Hg). reflexivity.
Qed.

Lemma free_slot_spec sl a p rc :
  SInv sl -> slot_read sl a = Some (p, rc) ->
  SInv (free_slot sl a) /\
  (forall b, slot_read (free_slot sl a) b = if addr_eqb a b then None else slot_read sl b) /\
  pl_free (sl_pl (free_slot sl a)) = a /\
  sl_items (free_slot sl a) = sl_items sl - 1 /\ 1 <= sl_items sl.
Proof.
  intros (stack & k & HR) Hr. destruct (free_slot_rep sl stack k a p rc HR Hr) as (H1 & H2).
  split; [eexists _, _; exact H1 | exact H2].
Qed.

(** ** `Slot::release` / `release_move` *)
Lemma slot_release_spec sl a p rc :
  SInv sl -> slot_read sl a = Some (p, rc) ->
  exists sl' d, slot_release sl a = Some (sl', d) /\ SInv sl' /\ sl_rc sl' = sl_rc sl /\
    length (pl_pages (sl_pl sl')) = length (pl_pages (sl_pl sl)) /\
    ((rc = 1 /\ d = Some p /\ sl_items sl' = sl_items sl - 1 /\ 1 <= sl_items sl /\
      pl_free (sl_pl sl') = a /\
      (forall b, slot_read sl' b = if addr_eqb a b then None else slot_read sl b)) \/
     (rc <> 1 /\ d = None /\ sl_items sl' = sl_items sl /\
      (forall b, slot_read sl' b = if addr_eqb a b then Some (p, rc - 1) else slot_read sl b))).
Proof.
  intros HI Hr. unfold slot_release. pose proof Hr as Hr0. unfold slot_read in Hr0.
  destruct (get_at (pl_pages (sl_pl sl)) a) as [[|q r]|]; try discriminate. inversion Hr0; subst q r.
  destruct (N.eqb_spec rc 1) as [E|E].
  - destruct (free_slot_spec sl a p rc HI Hr) as (H1 & H2 & H3 & H4 & H5).
    eexists _, _. split; [reflexivity|]. split; [exact H1|]. split; [reflexivity|].
    split; [cbn; apply set_at_length|]. left. auto 10.
  - destruct (set_item_spec sl a p rc (rc - 1) HI Hr) as [H1 H2].
    eexists _, _. split; [reflexivity|]. split; [exact H1|]. split; [reflexivity|].
    split; [cbn; apply set_at_length|]. right. auto.
Qed.

Lemma slot_force_spec sl a p rc :
  SInv sl -> slot_read sl a = Some (p, rc) ->
  exists sl', slot_force sl a = Some (sl', p) /\ SInv sl' /\ sl_rc sl' = sl_rc sl /\
    length (pl_pages (sl_pl sl')) = length (pl_pages (sl_pl sl)) /\
    sl_items sl' = sl_items sl - 1 /\ 1 <= sl_items sl /\ pl_free (sl_pl sl') = a /\
    (forall b, slot_read sl' b = if addr_eqb a b then None else slot_read sl b).
Proof.
  intros HI Hr. unfold slot_force. pose proof Hr as Hr0. unfold slot_read in Hr0.
  destruct (get_at (pl_pages (sl_pl sl)) a) as [[|q r]|]; try discriminate. inversion Hr0; subst q r.
  destruct (free_slot_spec sl a p rc HI Hr) as (H1 & H2 & H3 & H4 & H5).
  eexists. split; [reflexivity|]. split; [exact H1|]. split; [reflexivity|].
  split; [cbn; apply set_at_length|]. auto.
Qed.

Lemma SInv_rc sl rc : SInv sl -> SInv (mkSlab rc (sl_items sl) (sl_pl sl)).
Proof. intros H. exact H. Qed.

Lemma slab_new_rep : SRep spp (slab_new spp) [] 0.
Proof.
  unfold SRep. cbn [slab_new pagelist_new sl_pl pl_pages pl_free sl_items].
  assert (Hsh : shape spp [page_new spp 0]).
  { split; [congruence|]. constructor; [apply page_new_length | constructor]. }
  split; [|split].
  - apply (SI_intro _ 1%nat); [reflexivity | exact Hsh | lia | constructor | intros b [] | |].
    + cbn [app]. apply (linked_page_new [] 0). lia.
    + intros b _ Hu _. unfold used in Hu. cbn in Hu. lia.
  - unfold ArcSlabProofsBase.chain. cbn [app length]. rewrite fresh_cons by lia. reflexivity.
  - cbn. rewrite cntp_page_new. reflexivity.
Qed.

Lemma slab_new_inv : SInv (slab_new spp).
Proof. exists [], 0%nat. exact slab_new_rep. Qed.

End Proofs.

(** ** the client's handles *)

Definition hcount (a : addr) (hs : list (nat * handle)) : nat :=
  length (filter (fun e => addr_eqb (h_addr (snd e)) a) hs).

Definition ecount (hs : list (nat * handle)) : nat :=
  length (filter (fun e => is_ext (h_kind (snd e))) hs).

Arguments hcount : simpl never.
Arguments ecount : simpl never.

Lemma hcount_cons a h hd hs :
  hcount a ((h, hd) :: hs) = (b2n (addr_eqb (h_addr hd) a) + hcount a hs)%nat.
Proof. unfold hcount. cbn. destruct (addr_eqb (h_addr hd) a); reflexivity. Qed.

Lemma ecount_cons h hd hs :
  ecount ((h, hd) :: hs) = (b2n (is_ext (h_kind hd)) + ecount hs)%nat.
Proof. unfold ecount. cbn. destruct (is_ext (h_kind hd)); reflexivity. Qed.

Lemma hfind_In h hs hd : hfind h hs = Some hd -> In (h, hd) hs.
Proof.
  induction hs as [|[k v] r IH]; cbn; [discriminate|].
  destruct (Nat.eqb_spec k h) as [->|Hne]; [intros H; inversion H; auto | auto].
Qed.

Lemma hfind_None h hs : hfind h hs = None -> ~ In h (map fst hs).
Proof.
  induction hs as [|[k v] r IH]; cbn; [tauto|].
  destruct (Nat.eqb_spec k h) as [->|Hne]; [discriminate|]. intros H [E|E]; [congruence | apply IH; auto].
Qed.

Lemma hremove_In h hs k v : In (k, v) (hremove h hs) <-> In (k, v) hs /\ k <> h.
Proof.
  induction hs as [|[k' v'] r IH]; cbn; [tauto|].
  destruct (Nat.eqb_spec k' h) as [->|Hne].
  - rewrite IH. split; [tauto|]. intros [[E|E] Hk]; [inversion E; subst; congruence | tauto].
  - cbn. rewrite IH. split.
    + intros [E|E]; [inversion E; subst; auto | tauto].
    + tauto.
Qed.

Lemma hremove_keys h hs k : In k (map fst (hremove h hs)) -> In k (map fst hs) /\ k <> h.
Proof.
  rewrite !in_map_iff. intros [[k' v] [E H]]. cbn in E; subst k'. apply hremove_In in H.
  split; [exists (k, v); tauto | tauto].
Qed.

Lemma hremove_NoDup h hs : NoDup (map fst hs) -> NoDup (map fst (hremove h hs)).
Proof.
  induction hs as [|[k v] r IH]; cbn; [auto|]. intros H. inversion H; subst.
  destruct (Nat.eqb_spec k h); [auto|]. cbn. constructor; [|auto].
  intros Hin. apply hremove_keys in Hin. tauto.
Qed.

Lemma hremove_notin h hs : ~ In h (map fst hs) -> hremove h hs = hs.
Proof.
  induction hs as [|[k v] r IH]; cbn; [auto|]. intros H.
  destruct (Nat.eqb_spec k h); [tauto|]. f_equal. apply IH. tauto.
Qed.

Lemma hremove_hcount h hs hd a :
  NoDup (map fst hs) -> hfind h hs = Some hd ->
  hcount a hs = (b2n (addr_eqb (h_addr hd) a) + hcount a (hremove h hs))%nat.
Proof.
  induction hs as [|[k v] r IH]; cbn [hfind hremove map]; [discriminate|]. intros Hnd Hf.
  inversion Hnd; subst. rewrite hcount_cons. cbn [fst] in *.
  destruct (Nat.eqb_spec k h) as [->|Hne].
  - inversion Hf; subst v. rewrite hremove_notin by assumption. reflexivity.
  - rewrite hcount_cons. rewrite (IH H2 Hf). lia.
Qed.

Lemma hremove_ecount h hs hd :
  NoDup (map fst hs) -> hfind h hs = Some hd ->
  ecount hs = (b2n (is_ext (h_kind hd)) + ecount (hremove h hs))%nat.
Proof.
  induction hs as [|[k v] r IH]; cbn [hfind hremove map]; [discriminate|]. intros Hnd Hf.
  inversion Hnd; subst. rewrite ecount_cons. cbn [fst] in *.
  destruct (Nat.eqb_spec k h) as [->|Hne].
  - inversion Hf; subst v. rewrite hremove_notin by assumption. reflexivity.
  - rewrite ecount_cons. rewrite (IH H2 Hf). lia.
Qed.

Lemma hset_keys h v hs : map fst (hset h v hs) = map fst hs.
Proof.
  induction hs as [|[k x] r IH]; cbn; [reflexivity|]. destruct (k =? h)%nat; cbn; rewrite IH; reflexivity.
Qed.

Lemma hset_notin h v hs : ~ In h (map fst hs) -> hset h v hs = hs.
Proof.
  induction hs as [|[k x] r IH]; cbn; [auto|]. intros H.
  destruct (Nat.eqb_spec k h); [tauto|]. f_equal. apply IH. tauto.
Qed.

Lemma hset_hfind h v hs h' :
  hfind h' (hset h v hs) = if (h =? h')%nat then option_map (fun _ => v) (hfind h' hs) else hfind h' hs.
Proof.
  induction hs as [|[k x] r IH]; cbn [hset hfind]; [destruct (h =? h')%nat; reflexivity|].
  destruct (Nat.eqb_spec k h) as [->|Hne]; cbn [hfind].
  - destruct (Nat.eqb_spec h h') as [->|Hne']; [reflexivity|]. exact IH.
  - destruct (Nat.eqb_spec k h') as [->|Hne'].
    + destruct (Nat.eqb_spec h h') as [E|E]; [congruence | reflexivity].
    + exact IH.
Qed.

Lemma hset_hcount h v hs old b :
  NoDup (map fst hs) -> hfind h hs = Some old -> h_addr v = h_addr old ->
  hcount b (hset h v hs) = hcount b hs.
Proof.
  induction hs as [|[k x] r IH]; cbn [hfind hset map]; [discriminate|]. intros Hnd Hf Ha.
  inversion Hnd; subst. cbn [fst] in *.
  destruct (Nat.eqb_spec k h) as [->|Hne].
  - inversion Hf; subst x. rewrite !hcount_cons, Ha, hset_notin by assumption. reflexivity.
  - rewrite !hcount_cons, (IH H2 Hf Ha). reflexivity.
Qed.

Lemma hset_ecount h v hs old :
  NoDup (map fst hs) -> hfind h hs = Some old ->
  (ecount (hset h v hs) + b2n (is_ext (h_kind old)) = ecount hs + b2n (is_ext (h_kind v)))%nat.
Proof.
  induction hs as [|[k x] r IH]; cbn [hfind hset map]; [discriminate|]. intros Hnd Hf.
  inversion Hnd; subst. cbn [fst] in *.
  destruct (Nat.eqb_spec k h) as [->|Hne].
  - inversion Hf; subst x. rewrite !ecount_cons, hset_notin by assumption. lia.
  - rewrite !ecount_cons. specialize (IH H2 Hf). lia.
Qed.

Lemma hcount_pos a hs : (1 <= hcount a hs)%nat <-> exists h hd, In (h, hd) hs /\ h_addr hd = a.
Proof.
  induction hs as [|[k v] r IH].
  - unfold hcount. cbn. split; [lia | intros (h & hd & [] & _)].
  - rewrite hcount_cons. destruct (addr_eqb (h_addr v) a) eqn:E.
    + apply addr_eqb_eq in E. split; [|cbn; lia]. intros _. exists k, v. cbn; auto.
    + cbn [b2n]. rewrite Nat.add_0_l, IH. split.
      * intros (h & hd & H1 & H2). exists h, hd. cbn; auto.
      * intros (h & hd & [H1|H1] & H2); [|eauto]. inversion H1; subst.
        apply addr_eqb_neq in E. congruence.
Qed.

Section Sys.
Variable spp : nat.
Hypothesis spp_pos : (1 <= spp)%nat.
Local Set Default Proof Using "spp_pos".

Notation SInv := (SInv spp).
Local Notation page_new_nth := (ArcSlabProofsBase.page_new_nth spp spp_pos).
Local Notation page_new_length := (ArcSlabProofsBase.page_new_length spp spp_pos).
Local Notation slot_release_spec := (slot_release_spec spp spp_pos).
Local Notation slab_new_inv := (slab_new_inv spp spp_pos).

(** ** the system invariant *)

(** the count stored in every item is the number of handle variables that refer to it, and it
    is not 0; no handle refers to anything else *)
Definition RC (sl : slab) (hs : list (nat * handle)) : Prop :=
  forall a, match slot_read sl a with
            | Some (p, rc) => rc = N.of_nat (hcount a hs) /\ (1 <= hcount a hs)%nat
            | None => hcount a hs = 0%nat
            end.

Definition YInv (y : sys) : Prop :=
  NoDup (map fst (y_hs y)) /\
  match y_slab y with
  | Alive sl =>
      SInv sl /\ RC sl (y_hs y) /\
      sl_rc sl = y_refs y + y_tok y + N.of_nat (ecount (y_hs y)) /\ 1 <= sl_rc sl
  | Destroyed n => y_refs y = 0 /\ y_tok y = 0 /\ ecount (y_hs y) = 0%nat /\ (y_hs y = [] -> n = 0)
  end.

Lemma init_inv : YInv (init spp).
Proof.
  split; [constructor|]. cbn. split; [apply slab_new_inv|]. split; [|split; [reflexivity | lia]].
  intros a. destruct (slot_read (slab_new spp) a) as [[p rc]|] eqn:E; [|reflexivity].
  exfalso. unfold slot_read, slab_new, pagelist_new in E; cbn in E.
  unfold get_at in E; cbn in E. destruct (fst a); cbn in E.
  - destruct (Nat.lt_ge_cases (snd a) spp) as [Hlt|Hge].
    + rewrite (page_new_nth 0 _ Hlt) in E. discriminate.
    + replace (nth_error (page_new spp 0) (snd a)) with (@None slot) in E; [discriminate|].
      symmetry. apply nth_error_None. rewrite page_new_length. exact Hge.
  - destruct n; discriminate.
Qed.

(** no handle: no item *)
Lemma no_handles_no_items sl : SInv sl -> RC sl [] -> sl_items sl = 0.
Proof.
  intros (stack & k & _ & _ & Hit) HRC. rewrite Hit.
  rewrite cnt_zero; [reflexivity|]. intros a p rc Hg. specialize (HRC a).
  unfold slot_read in HRC. rewrite Hg in HRC. unfold hcount in HRC. cbn in HRC. lia.
Qed.

(** the slab part of the end of an `ExtHandle` / `ArcSlabRef` / raw reference *)
Lemma finish_release_inv sl hs refs tok r log :
  NoDup (map fst hs) -> SInv sl -> RC sl hs ->
  sl_rc sl = refs + tok + N.of_nat (ecount hs) + 1 ->
  exists y' o, finish_release sl hs refs tok r log = Done y' o /\ YInv y' /\
    y_hs y' = hs /\ y_refs y' = refs /\ y_tok y' = tok /\ o_res o = r /\
    ((refs + tok + N.of_nat (ecount hs) = 0 /\ y_slab y' = Destroyed (sl_items sl) /\ o_log o = log ++ [EvData]) \/
     (refs + tok + N.of_nat (ecount hs) <> 0 /\
      y_slab y' = Alive (mkSlab (sl_rc sl - 1) (sl_items sl) (sl_pl sl)) /\ o_log o = log)).
Proof.
  intros Hnd HS HRC Hrc. unfold finish_release, slab_release.
  destruct (N.eqb_spec (sl_rc sl) 1) as [E|E].
  - eexists _, _. split; [reflexivity|]. cbn. split.
    + split; [exact Hnd|]. cbn. split; [lia|]. split; [lia|]. split; [lia|].
      intros ->. apply no_handles_no_items; assumption.
    + repeat (split; [reflexivity|]). left. split; [lia|]. auto.
  - eexists _, _. split; [reflexivity|]. cbn. split.
    + split; [exact Hnd|]. cbn. split; [exact HS|]. split; [exact HRC|]. lia.
    + repeat (split; [reflexivity|]). right. split; [lia|]. auto.
Qed.

(** RC after the count of one item changes together with the handle list *)
Lemma RC_update sl sl' hs hs' a (v : option (N * N)) :
  RC sl hs ->
  (forall b, slot_read sl' b = if addr_eqb a b then v else slot_read sl b) ->
  (forall b, a <> b -> hcount b hs' = hcount b hs) ->
  match v with
  | Some (p, rc) => rc = N.of_nat (hcount a hs') /\ (1 <= hcount a hs')%nat
  | None => hcount a hs' = 0%nat
  end ->
  RC sl' hs'.
Proof.
  intros HRC Hrd Hh Ha b. rewrite Hrd. destruct (addr_eqb a b) eqn:E.
  - apply addr_eqb_eq in E. subst b. exact Ha.
  - apply addr_eqb_neq in E. rewrite (Hh b E). apply HRC.
Qed.

Lemma RC_same_reads sl sl' hs :
  RC sl hs -> (forall b, slot_read sl' b = slot_read sl b) -> RC sl' hs.
Proof. intros H E b. rewrite E. apply H. Qed.

Lemma RC_handle sl hs h hd :
  RC sl hs -> In (h, hd) hs -> exists p rc, slot_read sl (h_addr hd) = Some (p, rc) /\
                                            rc = N.of_nat (hcount (h_addr hd) hs) /\ (1 <= hcount (h_addr hd) hs)%nat.
Proof.
  intros HRC Hin. specialize (HRC (h_addr hd)).
  assert (Hp : (1 <= hcount (h_addr hd) hs)%nat) by (apply hcount_pos; eauto).
  destruct (slot_read sl (h_addr hd)) as [[p rc]|]; [eauto | lia].
Qed.

(** the item part of the end of a handle ([ODrop], [ODropWith], [OIntoInner]) *)
Lemma release_handle_spec sl hs h hd :
  NoDup (map fst hs) -> SInv sl -> RC sl hs -> hfind h hs = Some hd ->
  exists p rc sl1 d,
    slot_read sl (h_addr hd) = Some (p, rc) /\ rc = N.of_nat (hcount (h_addr hd) hs) /\
    slot_release sl (h_addr hd) = Some (sl1, d) /\
    SInv sl1 /\ RC sl1 (hremove h hs) /\ sl_rc sl1 = sl_rc sl /\
    length (pl_pages (sl_pl sl1)) = length (pl_pages (sl_pl sl)) /\
    ((hcount (h_addr hd) hs = 1%nat /\ d = Some p /\ sl_items sl1 = sl_items sl - 1 /\ 1 <= sl_items sl /\
      pl_free (sl_pl sl1) = h_addr hd /\ slot_read sl1 (h_addr hd) = None) \/
     (hcount (h_addr hd) hs <> 1%nat /\ d = None /\ sl_items sl1 = sl_items sl /\
      slot_read sl1 (h_addr hd) = Some (p, rc - 1))).
Proof.
  intros Hnd HS HRC Hf. pose proof (hfind_In _ _ _ Hf) as Hin.
  destruct (RC_handle _ _ _ _ HRC Hin) as (p & rc & Hr & Hrc & Hpos).
  destruct (slot_release_spec sl _ p rc HS Hr) as (sl1 & d & Hrel & HS1 & Hrc1 & Hlen & Hcase).
  exists p, rc, sl1, d. split; [exact Hr|]. split; [exact Hrc|]. split; [exact Hrel|]. split; [exact HS1|].
  pose proof (hremove_hcount h hs hd (h_addr hd) Hnd Hf) as Hcnt. rewrite addr_eqb_refl in Hcnt. cbn [b2n] in Hcnt.
  assert (Hoth : forall b, h_addr hd <> b -> hcount b (hremove h hs) = hcount b hs).
  { intros b Hb. pose proof (hremove_hcount h hs hd b Hnd Hf) as H.
    apply addr_eqb_neq in Hb. rewrite Hb in H. cbn in H. lia. }
  destruct Hcase as [(E & Hd & Hit & Hit1 & Hfree & Hrd)|(E & Hd & Hit & Hrd)].
  - split; [|split; [exact Hrc1 | split; [exact Hlen|]]].
    + eapply RC_update; [exact HRC | exact Hrd | exact Hoth | cbn; lia].
    + left. split; [lia|]. split; [exact Hd|]. split; [exact Hit|]. split; [exact Hit1|]. split; [exact Hfree|].
      rewrite Hrd, addr_eqb_refl. reflexivity.
  - split; [|split; [exact Hrc1 | split; [exact Hlen|]]].
    + eapply RC_update; [exact HRC | exact Hrd | exact Hoth |]. cbn. lia.
    + right. split; [lia|]. split; [exact Hd|]. split; [exact Hit|].
      rewrite Hrd, addr_eqb_refl. reflexivity.
Qed.

End Sys.
