(** * ARCSLAB proofs, part 1: pages as lists of lists, the free chain, the slab invariant [SInv]
      and what every slab-level function does to it. *)

From Coq Require Import List NArith ZArith Bool Arith Lia FinFun.
From OxiVerif Require Import Tbl.ArcSlab.
Import ListNotations.

Arguments N.add : simpl never.
Arguments N.sub : simpl never.
Arguments N.mul : simpl never.
Arguments N.div : simpl never.

(** ** addresses *)

Lemma addr_eqb_eq a b : addr_eqb a b = true <-> a = b.
Proof.
  unfold addr_eqb. destruct a as [p i], b as [q j]; cbn [fst snd].
  rewrite andb_true_iff, !Nat.eqb_eq. split; [intros [-> ->]; reflexivity | intros H; inversion H; auto].
Qed.

Lemma addr_eqb_refl a : addr_eqb a a = true.
Proof. apply addr_eqb_eq. reflexivity. Qed.

Lemma addr_eqb_neq a b : addr_eqb a b = false <-> a <> b.
Proof.
  split.
  - intros H E. apply addr_eqb_eq in E. congruence.
  - intros H. destruct (addr_eqb a b) eqn:E; [apply addr_eqb_eq in E; contradiction | reflexivity].
Qed.

Lemma addr_eqb_sym a b : addr_eqb a b = addr_eqb b a.
Proof.
  destruct (addr_eqb a b) eqn:E.
  - apply addr_eqb_eq in E. subst. symmetry. apply addr_eqb_refl.
  - apply addr_eqb_neq in E. symmetry. apply addr_eqb_neq. auto.
Qed.

Lemma addr_dec (a b : addr) : {a = b} + {a <> b}.
Proof. decide equality; apply Nat.eq_dec. Qed.

Lemma NoDup_app_intro {A} (l1 l2 : list A) :
  NoDup l1 -> NoDup l2 -> (forall x, In x l1 -> In x l2 -> False) -> NoDup (l1 ++ l2).
Proof.
  induction l1 as [|a l1 IH]; cbn; intros H1 H2 Hd; [exact H2|].
  inversion H1; subst. constructor.
  - rewrite in_app_iff. intros [H|H]; [contradiction | eapply Hd; eauto].
  - apply IH; auto. intros x Hx Hy. eapply Hd; eauto.
Qed.

(** ** [upd], [get_at], [set_at] *)

Lemma upd_length {A} n (f : A -> A) l : length (upd n f l) = length l.
Proof. revert n. induction l as [|x l IH]; intros [|n]; cbn; auto. Qed.

Lemma nth_error_upd {A} n (f : A -> A) l m :
  nth_error (upd n f l) m = if (n =? m)%nat then option_map f (nth_error l m) else nth_error l m.
Proof.
  revert n m. induction l as [|x l IH]; intros n m.
  - cbn. destruct m; cbn; destruct (n =? _)%nat; reflexivity.
  - destruct n as [|n], m as [|m]; cbn; try reflexivity. apply IH.
Qed.

Lemma get_set pgs a v b :
  get_at (set_at pgs a v) b =
  if addr_eqb a b then option_map (fun _ => v) (get_at pgs b) else get_at pgs b.
Proof.
  unfold get_at, set_at, addr_eqb. rewrite nth_error_upd.
  destruct (fst a =? fst b)%nat eqn:E1; cbn [andb].
  - destruct (nth_error pgs (fst b)) as [pg|]; cbn [option_map].
    + rewrite nth_error_upd. reflexivity.
    + destruct (snd a =? snd b)%nat; reflexivity.
  - reflexivity.
Qed.

Lemma get_set_same pgs a v s : get_at pgs a = Some s -> get_at (set_at pgs a v) a = Some v.
Proof. intros H. rewrite get_set, addr_eqb_refl, H. reflexivity. Qed.

Lemma get_set_other pgs a v b : a <> b -> get_at (set_at pgs a v) b = get_at pgs b.
Proof. intros H. rewrite get_set. apply addr_eqb_neq in H. rewrite H. reflexivity. Qed.

Lemma set_at_length pgs a v : length (set_at pgs a v) = length pgs.
Proof. apply upd_length. Qed.

Lemma Forall_upd {A} (P : A -> Prop) n f l :
  Forall P l -> (forall x, P x -> P (f x)) -> Forall P (upd n f l).
Proof.
  intros H Hf. revert n. induction H as [|x l Hx Hl IH]; intros [|n]; cbn; constructor; auto.
Qed.

Lemma set_at_app pgs pg a v :
  (fst a < length pgs)%nat -> set_at (pgs ++ [pg]) a v = set_at pgs a v ++ [pg].
Proof.
  unfold set_at. generalize (upd (snd a) (fun _ : slot => v)) as f. generalize (fst a) as n.
  induction pgs as [|x l IH]; intros n f H; cbn in *; [lia|].
  destruct n; cbn; [reflexivity|]. f_equal. apply IH. lia.
Qed.

Lemma get_at_app_old pgs pg a : (fst a < length pgs)%nat -> get_at (pgs ++ [pg]) a = get_at pgs a.
Proof. intros H. unfold get_at. rewrite nth_error_app1 by exact H. reflexivity. Qed.

Lemma get_at_app_new pgs pg i : get_at (pgs ++ [pg]) (length pgs, i) = nth_error pg i.
Proof.
  unfold get_at; cbn [fst snd]. rewrite nth_error_app2 by lia. rewrite Nat.sub_diag. reflexivity.
Qed.

Lemma get_at_app_beyond pgs pg a : (length pgs < fst a)%nat -> get_at (pgs ++ [pg]) a = None.
Proof.
  intros H. unfold get_at.
  assert (E : nth_error (pgs ++ [pg]) (fst a) = None).
  { apply nth_error_None. rewrite app_length. cbn. lia. }
  rewrite E. reflexivity.
Qed.

(** ** counting the items *)

Definition is_item (s : slot) : bool := match s with Item _ _ => true | Free _ => false end.
Definition b2n (b : bool) : nat := if b then 1 else 0.

Fixpoint cntp (l : list slot) : nat :=
  match l with [] => 0 | s :: r => b2n (is_item s) + cntp r end.

(** number of slots (of all pages) that hold an item *)
Fixpoint cnt (pgs : list (list slot)) : nat :=
  match pgs with [] => 0 | pg :: r => cntp pg + cnt r end.

Lemma cntp_upd l n v old :
  nth_error l n = Some old ->
  (cntp (upd n (fun _ => v) l) + b2n (is_item old) = cntp l + b2n (is_item v))%nat.
Proof.
  revert n. induction l as [|s l IH]; intros [|n] H; cbn in H; try discriminate.
  - inversion H; subst. cbn. lia.
  - cbn. specialize (IH _ H). lia.
Qed.

Lemma cnt_set pgs a v old :
  get_at pgs a = Some old ->
  (cnt (set_at pgs a v) + b2n (is_item old) = cnt pgs + b2n (is_item v))%nat.
Proof.
  unfold get_at, set_at. generalize (fst a) as n. induction pgs as [|pg l IH]; intros [|n] H; cbn in H; try discriminate.
  - cbn. pose proof (cntp_upd _ _ v _ H). lia.
  - cbn. specialize (IH _ H). lia.
Qed.

Lemma cnt_app pgs pg : cnt (pgs ++ [pg]) = (cnt pgs + cntp pg)%nat.
Proof. induction pgs as [|x l IH]; cbn; [lia | rewrite IH; lia]. Qed.

Lemma cntp_zero pg :
  (forall i p rc, nth_error pg i <> Some (Item p rc)) -> cntp pg = 0%nat.
Proof.
  induction pg as [|s r IH]; intros H; [reflexivity|]. cbn.
  rewrite IH by (intros i p rc; apply (H (S i))).
  destruct s as [nx|p rc]; [reflexivity|]. exfalso. apply (H 0%nat p rc). reflexivity.
Qed.

Lemma cnt_zero pgs :
  (forall a p rc, get_at pgs a <> Some (Item p rc)) -> cnt pgs = 0%nat.
Proof.
  induction pgs as [|pg r IH]; intros H; [reflexivity|]. cbn.
  rewrite IH by (intros [pn i] p rc; apply (H (S pn, i))).
  rewrite cntp_zero; [reflexivity|]. intros i p rc. apply (H (0%nat, i)).
Qed.

Section Proofs.
Variable spp : nat.
Hypothesis spp_pos : (1 <= spp)%nat.
Local Set Default Proof Using "spp_pos".

(** ** a fresh page *)

Lemma page_new_length pno : length (page_new spp pno) = spp.
Proof. unfold page_new. rewrite map_length, seq_length. reflexivity. Qed.

Lemma page_new_nth pno i :
  (i < spp)%nat ->
  nth_error (page_new spp pno) i = Some (Free (if (S i <? spp)%nat then Some (pno, S i) else None)).
Proof.
  intros H. unfold page_new.
  rewrite nth_error_map, nth_error_nth' with (d := 0%nat) by (rewrite seq_length; exact H).
  rewrite seq_nth by exact H. reflexivity.
Qed.

Lemma cntp_page_new pno : cntp (page_new spp pno) = 0%nat.
Proof.
  unfold page_new. generalize (seq 0 spp) as l. induction l as [|x l IH]; cbn; auto.
Qed.

(** ** shape, validity *)

Definition shape (pgs : list (list slot)) : Prop :=
  pgs <> [] /\ Forall (fun pg => length pg = spp) pgs.

Definition valid (pgs : list (list slot)) (a : addr) : Prop :=
  (fst a < length pgs)%nat /\ (snd a < spp)%nat.

Lemma shape_get pgs a : shape pgs -> (valid pgs a <-> get_at pgs a <> None).
Proof.
  intros [_ HF]. unfold valid, get_at. split.
  - intros [H1 H2]. destruct (nth_error pgs (fst a)) as [pg|] eqn:E.
    + rewrite Forall_forall in HF. specialize (HF pg (nth_error_In _ _ E)).
      apply nth_error_Some. lia.
    + apply nth_error_None in E. lia.
  - destruct (nth_error pgs (fst a)) as [pg|] eqn:E; [|congruence].
    intros H. split.
    + apply nth_error_Some. congruence.
    + rewrite Forall_forall in HF. specialize (HF pg (nth_error_In _ _ E)).
      apply nth_error_Some in H. lia.
Qed.

Lemma shape_set pgs a v : shape pgs -> shape (set_at pgs a v).
Proof.
  intros [H1 H2]. split.
  - intros E. apply H1. apply length_zero_iff_nil. rewrite <- (set_at_length pgs a v), E. reflexivity.
  - unfold set_at. apply Forall_upd; [exact H2|]. intros pg Hpg. rewrite upd_length. exact Hpg.
Qed.

Lemma valid_set pgs a v b : valid (set_at pgs a v) b <-> valid pgs b.
Proof. unfold valid. rewrite set_at_length. tauto. Qed.

Lemma shape_app pgs : shape pgs -> shape (pgs ++ [page_new spp (length pgs)]).
Proof.
  intros [H1 H2]. split.
  - destruct pgs; cbn; congruence.
  - apply Forall_app. split; [exact H2|]. constructor; [apply page_new_length | constructor].
Qed.

(** ** the free chain *)

Fixpoint linked (pgs : list (list slot)) (ch : list addr) : Prop :=
  match ch with
  | [] => True
  | a :: r => get_at pgs a = Some (Free (hd_error r)) /\ linked pgs r
  end.

Lemma linked_free pgs ch a : linked pgs ch -> In a ch -> exists nx, get_at pgs a = Some (Free nx).
Proof.
  induction ch as [|b r IH]; cbn; [tauto|]. intros [H1 H2] [->|H]; eauto.
Qed.

Lemma linked_set pgs ch a v : linked pgs ch -> ~ In a ch -> linked (set_at pgs a v) ch.
Proof.
  induction ch as [|b r IH]; cbn; [tauto|]. intros [H1 H2] Hn. split.
  - rewrite get_set_other by (intros E; apply Hn; auto). exact H1.
  - apply IH; [exact H2 | tauto].
Qed.

Lemma linked_app_old pgs pg ch :
  linked pgs ch -> (forall a, In a ch -> (fst a < length pgs)%nat) -> linked (pgs ++ [pg]) ch.
Proof.
  induction ch as [|b r IH]; cbn; [tauto|]. intros [H1 H2] Hv. split.
  - rewrite get_at_app_old by (apply Hv; auto). exact H1.
  - apply IH; auto.
Qed.

(** the never-used slots of the newest page ([P] pages, the first [k] slots of the last page
    have been handed out at least once): (P-1, k), ..., (P-1, spp-1) *)
Definition fresh (P k : nat) : list addr := map (pair (P - 1)%nat) (seq k (spp - k)).

(** the slots that have been handed out at least once *)
Definition used (P k : nat) (a : addr) : Prop :=
  (fst a < P - 1)%nat \/ (fst a = P - 1 /\ snd a < k)%nat.

Lemma fresh_In P k a : In a (fresh P k) <-> (fst a = P - 1 /\ k <= snd a < spp)%nat.
Proof.
  unfold fresh. rewrite in_map_iff. split.
  - intros [i [<- Hi]]. apply in_seq in Hi. cbn. lia.
  - intros [H1 H2]. exists (snd a). split; [destruct a; cbn in *; subst; reflexivity | apply in_seq; lia].
Qed.

Lemma fresh_cons P k : (k < spp)%nat -> fresh P k = (P - 1, k)%nat :: fresh P (S k).
Proof.
  intros H. unfold fresh. replace (spp - k)%nat with (S (spp - S k)) by lia. reflexivity.
Qed.

Lemma fresh_nil P k : (spp <= k)%nat -> fresh P k = [].
Proof. intros H. unfold fresh. replace (spp - k)%nat with 0%nat by lia. reflexivity. Qed.

Lemma fresh_NoDup P k : NoDup (fresh P k).
Proof.
  unfold fresh. apply Injective_map_NoDup; [|apply seq_NoDup].
  intros x y H. inversion H. reflexivity.
Qed.

Lemma valid_used_or_fresh pgs k a :
  pgs <> [] -> (k <= spp)%nat -> valid pgs a -> used (length pgs) k a \/ In a (fresh (length pgs) k).
Proof.
  intros Hne Hk [H1 H2]. rewrite fresh_In. unfold used.
  assert (length pgs <> 0)%nat by (destruct pgs; cbn; congruence). lia.
Qed.

Lemma used_not_fresh P k a : used P k a -> ~ In a (fresh P k).
Proof. unfold used. rewrite fresh_In. lia. Qed.

Lemma linked_page_new pgs k :
  (k <= spp)%nat -> linked (pgs ++ [page_new spp (length pgs)]) (fresh (S (length pgs)) k).
Proof.
  intros Hk. remember (spp - k)%nat as n eqn:En. revert k Hk En.
  induction n as [|n IH]; intros k Hk En.
  - rewrite fresh_nil by lia. exact I.
  - rewrite fresh_cons by lia. cbn [linked]. split.
    + replace (S (length pgs) - 1)%nat with (length pgs) by lia.
      rewrite get_at_app_new, page_new_nth by lia.
      destruct (S k <? spp)%nat eqn:E.
      * apply Nat.ltb_lt in E. rewrite fresh_cons by lia. cbn.
        replace (length pgs - 0)%nat with (length pgs) by lia. reflexivity.
      * apply Nat.ltb_ge in E. rewrite fresh_nil by lia. reflexivity.
    + apply IH; lia.
Qed.

(** ** the invariant of the page list

    [stack] = the slots that have been handed out and freed again, most recently freed first;
    the free chain is [stack ++ fresh P k]: a slot that has never been used is only taken when
    no recycled slot is left *)
Definition SI (pgs : list (list slot)) (stack : list addr) (k : nat) : Prop :=
  shape pgs /\ (k <= spp)%nat /\ NoDup stack /\
  (forall a, In a stack -> valid pgs a /\ used (length pgs) k a) /\
  linked pgs (stack ++ fresh (length pgs) k) /\
  (forall a, valid pgs a -> used (length pgs) k a -> ~ In a stack ->
     exists p rc, get_at pgs a = Some (Item p rc)).

Lemma SI_intro pgs P stack k :
  length pgs = P ->
  shape pgs -> (k <= spp)%nat -> NoDup stack ->
  (forall a, In a stack -> valid pgs a /\ used P k a) ->
  linked pgs (stack ++ fresh P k) ->
  (forall a, valid pgs a -> used P k a -> ~ In a stack ->
     exists p rc, get_at pgs a = Some (Item p rc)) ->
  SI pgs stack k.
Proof. intros <-. unfold SI. tauto. Qed.

Definition chain (pgs : list (list slot)) (stack : list addr) (k : nat) : list addr :=
  stack ++ fresh (length pgs) k.

(** the slab is represented by (recycled stack, number of used slots of the newest page) *)
Definition SRep (sl : slab) (stack : list addr) (k : nat) : Prop :=
  SI (pl_pages (sl_pl sl)) stack k /\
  hd_error (chain (pl_pages (sl_pl sl)) stack k) = Some (pl_free (sl_pl sl)) /\
  sl_items sl = N.of_nat (cnt (pl_pages (sl_pl sl))).

Definition SInv (sl : slab) : Prop := exists stack k, SRep sl stack k.

Lemma SI_chain_NoDup pgs stack k : SI pgs stack k -> NoDup (chain pgs stack k).
Proof.
  intros (Hs & Hk & Hnd & Hst & Hl & Hit). unfold chain.
  apply NoDup_app_intro; [exact Hnd | apply fresh_NoDup |].
  intros a Ha Hf. apply (used_not_fresh _ _ _ (proj2 (Hst a Ha)) Hf).
Qed.

Lemma SI_item_not_chain pgs stack k a p rc :
  SI pgs stack k -> get_at pgs a = Some (Item p rc) -> ~ In a (chain pgs stack k).
Proof.
  intros (Hs & Hk & Hnd & Hst & Hl & Hit) Hg Hin.
  destruct (linked_free _ _ _ Hl Hin) as [nx E]. congruence.
Qed.

Lemma SI_item_valid_used pgs stack k a p rc :
  SI pgs stack k -> get_at pgs a = Some (Item p rc) ->
  valid pgs a /\ used (length pgs) k a /\ ~ In a stack.
Proof.
  intros HSI Hg. pose proof (SI_item_not_chain _ _ _ _ _ _ HSI Hg) as Hn.
  destruct HSI as (Hs & Hk & Hnd & Hst & Hl & Hit).
  assert (Hv : valid pgs a) by (apply shape_get; [exact Hs | congruence]).
  unfold chain in Hn. rewrite in_app_iff in Hn.
  destruct (valid_used_or_fresh pgs k a (proj1 Hs) Hk Hv) as [Hu|Hf]; [|tauto]. tauto.
Qed.

(** every slot of every page is exactly one of: an item, a recycled free slot, a never-used
    free slot *)
Lemma SI_partition pgs stack k a :
  SI pgs stack k -> valid pgs a ->
  ((exists p rc, get_at pgs a = Some (Item p rc)) /\ ~ In a stack /\ ~ In a (fresh (length pgs) k)) \/
  ((exists nx, get_at pgs a = Some (Free nx)) /\ In a stack /\ ~ In a (fresh (length pgs) k)) \/
  ((exists nx, get_at pgs a = Some (Free nx)) /\ ~ In a stack /\ In a (fresh (length pgs) k)).
Proof.
  intros HSI Hv. pose proof HSI as (Hs & Hk & Hnd & Hst & Hl & Hit).
  destruct (valid_used_or_fresh pgs k a (proj1 Hs) Hk Hv) as [Hu|Hf].
  - destruct (in_dec addr_dec a stack) as [Hin|Hnin].
    + right; left. split; [|split; [exact Hin | apply used_not_fresh; exact Hu]].
      apply (linked_free _ _ _ Hl). apply in_or_app. auto.
    + left. split; [apply Hit; assumption | split; [exact Hnin | apply used_not_fresh; exact Hu]].
  - right; right. split; [|split; [|exact Hf]].
    + apply (linked_free _ _ _ Hl). apply in_or_app. auto.
    + intros Hin. apply (used_not_fresh _ _ _ (proj2 (Hst a Hin)) Hf).
Qed.

(** *** rewriting an item in place (counter updates) *)
Lemma SI_set_item pgs stack k a p rc p' rc' :
  SI pgs stack k -> get_at pgs a = Some (Item p rc) -> SI (set_at pgs a (Item p' rc')) stack k.
Proof.
  intros HSI Hg. destruct (SI_item_valid_used _ _ _ _ _ _ HSI Hg) as (Hv & Hu & Hns).
  pose proof (SI_item_not_chain _ _ _ _ _ _ HSI Hg) as Hnc.
  destruct HSI as (Hs & Hk & Hnd & Hst & Hl & Hit).
  apply (SI_intro _ (length pgs)); [apply set_at_length | apply shape_set; exact Hs | | | | | ].
  - exact Hk.
  - exact Hnd.
  - intros b Hb. split; [apply valid_set|]; apply Hst; assumption.
  - apply linked_set; assumption.
  - intros b Hvb Hub Hnb. apply (proj1 (valid_set _ _ _ _)) in Hvb.
    destruct (addr_dec a b) as [->|Hne].
    + rewrite (get_set_same _ _ _ _ Hg). eauto.
    + rewrite get_set_other by exact Hne. apply Hit; assumption.
Qed.

(** *** push: `Page::free_slot` *)
Lemma SI_push pgs stack k a p rc :
  SI pgs stack k -> get_at pgs a = Some (Item p rc) ->
  SI (set_at pgs a (Free (hd_error (chain pgs stack k)))) (a :: stack) k.
Proof.
  intros HSI Hg. destruct (SI_item_valid_used _ _ _ _ _ _ HSI Hg) as (Hv & Hu & Hns).
  pose proof (SI_item_not_chain _ _ _ _ _ _ HSI Hg) as Hnc.
  destruct HSI as (Hs & Hk & Hnd & Hst & Hl & Hit).
  apply (SI_intro _ (length pgs)); [apply set_at_length | apply shape_set; exact Hs | | | | | ].
  - exact Hk.
  - constructor; assumption.
  - intros b H. split.
    + apply valid_set. destruct H as [<-|H]; [exact Hv | apply Hst; exact H].
    + destruct H as [<-|H]; [exact Hu | apply Hst; exact H].
  - cbn [app linked]. split.
    + rewrite (get_set_same _ _ _ _ Hg). reflexivity.
    + apply linked_set; assumption.
  - intros b Hvb Hub Hnb. apply (proj1 (valid_set _ _ _ _)) in Hvb. cbn in Hnb.
    rewrite get_set_other by tauto. apply Hit; tauto.
Qed.

(** *** pop: the head of the chain gets an item; the head is the most recently freed slot if
    there is one, else the first never-used slot *)
Definition pop_addr (pgs : list (list slot)) (stack : list addr) (k : nat) : addr :=
  match stack with s :: _ => s | [] => (length pgs - 1, k)%nat end.
Definition pop_k (stack : list addr) (k : nat) : nat :=
  match stack with _ :: _ => k | [] => S k end.

Lemma SI_pop pgs stack k a rest p :
  SI pgs stack k -> chain pgs stack k = a :: rest ->
  a = pop_addr pgs stack k /\
  get_at pgs a = Some (Free (hd_error rest)) /\
  rest = chain pgs (tl stack) (pop_k stack k) /\
  SI (set_at pgs a (Item p 1)) (tl stack) (pop_k stack k).
Proof.
  intros HSI Hch. pose proof (SI_chain_NoDup _ _ _ HSI) as Hnd'.
  destruct HSI as (Hs & Hk & Hnd & Hst & Hl & Hit).
  unfold chain in *. rewrite Hch in Hl, Hnd'. cbn [linked] in Hl. destruct Hl as [Hga Hl].
  inversion Hnd' as [|x l Hna Hndr]; subst x l.
  destruct stack as [|s st]; cbn [tl pop_k pop_addr].
  - (* a never-used slot *)
    cbn [app] in Hch. destruct (Nat.lt_ge_cases k spp) as [Hlt|Hge]; [|rewrite fresh_nil in Hch by lia; discriminate].
    rewrite fresh_cons in Hch by exact Hlt. inversion Hch; subst a rest.
    split; [reflexivity|]. split; [exact Hga|]. split; [reflexivity|].
    apply (SI_intro _ (length pgs)); [apply set_at_length | apply shape_set; exact Hs | | | | | ].
    + lia.
    + constructor.
    + intros b [].
    + cbn [app]. apply linked_set; assumption.
    + intros b Hvb Hub _. apply (proj1 (valid_set _ _ _ _)) in Hvb.
      destruct (addr_dec (length pgs - 1, k)%nat b) as [<-|Hne].
      * rewrite (get_set_same _ _ _ _ Hga). eauto.
      * rewrite get_set_other by exact Hne. apply Hit; [exact Hvb | | tauto].
        unfold used in *. destruct b as [bp bi]; cbn [fst snd] in *.
        assert (~ (bp = (length pgs - 1)%nat /\ bi = k)) by (intros [-> ->]; apply Hne; reflexivity). lia.
  - (* the most recently freed slot *)
    cbn [app] in Hch. inversion Hch; subst s rest.
    split; [reflexivity|]. split; [exact Hga|]. split; [reflexivity|].
    inversion Hnd as [|x l Hnast Hndst]; subst x l.
    destruct (Hst a (or_introl eq_refl)) as [Hva Hua].
    apply (SI_intro _ (length pgs)); [apply set_at_length | apply shape_set; exact Hs | | | | | ].
    + exact Hk.
    + exact Hndst.
    + intros b Hb. split; [apply valid_set|]; apply Hst; right; assumption.
    + apply linked_set; assumption.
    + intros b Hvb Hub Hnb. apply (proj1 (valid_set _ _ _ _)) in Hvb.
      destruct (addr_dec a b) as [<-|Hne].
      * rewrite (get_set_same _ _ _ _ Hga). eauto.
      * rewrite get_set_other by exact Hne. apply Hit; [exact Hvb | exact Hub |].
        cbn. tauto.
Qed.

(** *** a new page: all slots of all pages used -> the next page, nothing of it used *)
Lemma SI_extend pgs :
  SI pgs [] spp -> SI (pgs ++ [page_new spp (length pgs)]) [] 0.
Proof.
  intros (Hs & Hk & Hnd & Hst & Hl & Hit).
  assert (Hlen : length (pgs ++ [page_new spp (length pgs)]) = S (length pgs)) by (rewrite app_length; cbn; lia).
  assert (Hne : (length pgs <> 0)%nat) by (destruct Hs as [H _]; destruct pgs; cbn; congruence).
  apply (SI_intro _ (S (length pgs))); [exact Hlen | apply shape_app; exact Hs | | | | | ].
  - lia.
  - constructor.
  - intros b [].
  - cbn [app]. apply linked_page_new. lia.
  - intros b [Hb1 Hb2] Hub _. rewrite Hlen in Hb1. unfold used in Hub.
    rewrite get_at_app_old by lia. apply Hit; [split; [lia | exact Hb2] | | tauto].
    unfold used. lia.
Qed.

End Proofs.
