(** * ARCSLAB proofs, part 3: every client operation ([step]) on a state that satisfies the
      system invariant: never [Broken], the invariant again, and what exactly it returns / logs
      / changes. *)

From Coq Require Import List NArith ZArith Bool Arith Lia.
From OxiVerif Require Import Tbl.ArcSlab Tbl.ArcSlabProofsBase Tbl.ArcSlabProofs.
Import ListNotations.

Local Open Scope N_scope.

Arguments N.add : simpl never.
Arguments N.sub : simpl never.
Arguments N.mul : simpl never.
Arguments N.div : simpl never.
Arguments hcount : simpl never.
Arguments ecount : simpl never.

(** references that keep the slab alive: `ArcSlabRef`s + raw references + `ExtHandle`s *)
Definition slab_count (y : sys) : N := y_refs y + y_tok y + N.of_nat (ecount (y_hs y)).

(** the items that are in their slots (after the destruction: were, and are never dropped) *)
Definition live (y : sys) : N :=
  match y_slab y with Alive sl => sl_items sl | Destroyed n => n end.

Section Proofs.
Variable spp : nat.
Hypothesis spp_pos : (1 <= spp)%nat.
Local Set Default Proof Using "spp_pos".

Local Notation RC_update := (ArcSlabProofs.RC_update spp spp_pos).
Local Notation RC_same_reads := (ArcSlabProofs.RC_same_reads spp spp_pos).
Local Notation RC_handle := (ArcSlabProofs.RC_handle spp spp_pos).
Local Notation finish_release_inv := (ArcSlabProofs.finish_release_inv spp spp_pos).
Local Notation release_handle_spec := (ArcSlabProofs.release_handle_spec spp spp_pos).
Local Notation init_inv := (ArcSlabProofs.init_inv spp spp_pos).
Local Notation add_item_spec := (ArcSlabProofs.add_item_spec spp spp_pos).
Local Notation slot_retain_spec := (ArcSlabProofs.slot_retain_spec spp spp_pos).
Local Notation slot_force_spec := (ArcSlabProofs.slot_force_spec spp spp_pos).
Local Notation slot_release_spec := (ArcSlabProofs.slot_release_spec spp spp_pos).
Notation SInv := (SInv spp).
Notation YInv := (YInv spp).
Notation step := (step spp).

(** ** the end of a handle: the slab part *)
Lemma finish_handle_inv k sl hs refs tok r log :
  NoDup (map fst hs) -> SInv sl -> RC sl hs ->
  sl_rc sl = refs + tok + N.of_nat (ecount hs) + N.of_nat (b2n (is_ext k)) -> 1 <= sl_rc sl ->
  exists y' o, finish_handle k sl hs refs tok r log = Done y' o /\ YInv y' /\
    y_hs y' = hs /\ y_refs y' = refs /\ y_tok y' = tok /\ o_res o = r /\
    ((is_ext k = true /\ refs + tok + N.of_nat (ecount hs) = 0 /\
      y_slab y' = Destroyed (sl_items sl) /\ o_log o = log ++ [EvData]) \/
     (~ (is_ext k = true /\ refs + tok + N.of_nat (ecount hs) = 0) /\
      exists sl', y_slab y' = Alive sl' /\ sl_items sl' = sl_items sl /\ sl_pl sl' = sl_pl sl /\
                  o_log o = log)).
Proof.
  intros Hnd HS HRC Hrc Hpos. destruct k; cbn [finish_handle is_ext b2n] in *.
  - eexists _, _. split; [reflexivity|]. cbn. split.
    + split; [exact Hnd|]. cbn. split; [exact HS|]. split; [exact HRC|]. lia.
    + repeat (split; [reflexivity|]). right. split; [intros [? _]; discriminate|].
      eexists. repeat (split; [reflexivity|]). reflexivity.
  - destruct (finish_release_inv sl hs refs tok r log Hnd HS HRC) as (y' & o & Hf & HY & H1 & H2 & H3 & H4 & Hc).
    { cbn in Hrc. lia. }
    exists y', o. split; [exact Hf|]. split; [exact HY|]. repeat (split; [assumption|]).
    destruct Hc as [(E & Hd & Hl)|(E & Hd & Hl)].
    + left. auto.
    + right. split; [tauto|]. eexists. split; [exact Hd|]. cbn. auto.
Qed.

(** what [ODrop] / [ODropWith] / [OIntoInner] have in common *)
Definition end_res (o : op) (d : option N) : res :=
  match o with
  | OIntoInner _ => match d with Some p => RSome p | None => RNone end
  | _ => RUnit
  end.

Definition end_log (o : op) (d : option N) : list ev :=
  match o, d with
  | ODrop _, Some p => [EvDrop p]
  | ODropWith _, Some p => [EvFn p; EvDrop p]
  | _, _ => []
  end.

Definition is_end (o : op) (h : nat) : Prop := o = ODrop h \/ o = ODropWith h \/ o = OIntoInner h.

Lemma step_end_unfold y sl o h hd :
  y_slab y = Alive sl -> is_end o h -> hfind h (y_hs y) = Some hd ->
  step y o =
  match slot_release sl (h_addr hd) with
  | Some (sl1, d) => finish_handle (h_kind hd) sl1 (hremove h (y_hs y)) (y_refs y) (y_tok y) (end_res o d) (end_log o d)
  | None => Broken
  end.
Proof using.
  intros Ha [-> | [-> | ->]] Hf; unfold ArcSlab.step; rewrite Ha, Hf;
    destruct (slot_release sl (h_addr hd)) as [[sl1 [p|]]|]; reflexivity.
Qed.

(** *** [ODrop], [ODropWith], [OIntoInner]: the item leaves its slot exactly when the handle is the
    last one that refers to it; an `ExtHandle` then gives up its slab reference, which destroys
    the slab exactly when it is the last one *)
Theorem step_end_spec y sl o h hd :
  YInv y -> y_slab y = Alive sl -> is_end o h -> hfind h (y_hs y) = Some hd ->
  exists p rc y' out,
    slot_read sl (h_addr hd) = Some (p, rc) /\ rc = N.of_nat (hcount (h_addr hd) (y_hs y)) /\
    step y o = Done y' out /\ YInv y' /\
    y_hs y' = hremove h (y_hs y) /\ y_refs y' = y_refs y /\ y_tok y' = y_tok y /\
    let last := (hcount (h_addr hd) (y_hs y) =? 1)%nat in
    let d := if last then Some p else None in
    let dies := is_ext (h_kind hd) && (slab_count y =? 1) in
    o_res out = end_res o d /\
    o_log out = end_log o d ++ (if dies then [EvData] else []) /\
    live y' = (if last then live y - 1 else live y) /\ (last = true -> 1 <= live y) /\
    if dies then y_slab y' = Destroyed (live y')
    else exists sl', y_slab y' = Alive sl' /\
           length (pl_pages (sl_pl sl')) = length (pl_pages (sl_pl sl)) /\
           (forall b, slot_read sl' b =
                      if addr_eqb (h_addr hd) b then (if last then None else Some (p, rc - 1))
                      else slot_read sl b) /\
           (last = true -> pl_free (sl_pl sl') = h_addr hd).
Proof.
  intros (Hnd & HY) Ha He Hf. rewrite Ha in HY. destruct HY as (HS & HRC & Hrc & Hpos).
  destruct (release_handle_spec sl (y_hs y) h hd Hnd HS HRC Hf)
    as (p & rc & sl1 & d & Hr & Hrceq & Hrel & HS1 & HRC1 & Hrc1 & Hlen & Hcase).
  pose proof (hremove_ecount h (y_hs y) hd Hnd Hf) as Hec.
  pose proof (hremove_NoDup h (y_hs y) Hnd) as Hnd1.
  destruct (finish_handle_inv (h_kind hd) sl1 (hremove h (y_hs y)) (y_refs y) (y_tok y) (end_res o d) (end_log o d)
              Hnd1 HS1 HRC1) as (y' & out & Hfin & HY' & E1 & E2 & E3 & E4 & Hc).
  { rewrite Hrc1, Hrc. lia. }
  { rewrite Hrc1. exact Hpos. }
  exists p, rc, y', out. split; [exact Hr|]. split; [exact Hrceq|].
  split; [rewrite (step_end_unfold y sl o h hd Ha He Hf), Hrel; exact Hfin|].
  split; [exact HY'|]. split; [exact E1|]. split; [exact E2|]. split; [exact E3|].
  cbv zeta.
  assert (Hd : d = if (hcount (h_addr hd) (y_hs y) =? 1)%nat then Some p else None).
  { destruct Hcase as [(E & -> & _)|(E & -> & _)].
    - rewrite E. reflexivity.
    - apply Nat.eqb_neq in E. rewrite E. reflexivity. }
  assert (Hdies : is_ext (h_kind hd) && (slab_count y =? 1) = true <->
                  (is_ext (h_kind hd) = true /\ y_refs y + y_tok y + N.of_nat (ecount (hremove h (y_hs y))) = 0)).
  { unfold slab_count. rewrite andb_true_iff, N.eqb_eq. destruct (is_ext (h_kind hd)); cbn [b2n] in Hec; lia. }
  rewrite <- Hd. split; [exact E4|].
  assert (Hsr1 : forall b, slot_read sl1 b =
                   if addr_eqb (h_addr hd) b then (if (hcount (h_addr hd) (y_hs y) =? 1)%nat then None else Some (p, rc - 1))
                   else slot_read sl b).
  { intros b. destruct (release_handle_spec sl (y_hs y) h hd Hnd HS HRC Hf) as (p' & rc' & sl1' & d' & Hr' & _ & Hrel' & _).
    rewrite Hr in Hr'. inversion Hr'; subst p' rc'. rewrite Hrel in Hrel'. inversion Hrel'; subst sl1' d'. clear Hr' Hrel'.
    destruct (slot_release_spec sl (h_addr hd) p rc HS Hr) as (sl2 & d2 & Hrel2 & _ & _ & _ & Hc2).
    rewrite Hrel in Hrel2. inversion Hrel2; subst sl2 d2.
    destruct Hc2 as [(E & _ & _ & _ & _ & Hrd)|(E & _ & _ & Hrd)]; rewrite Hrd.
    - assert (Hh : hcount (h_addr hd) (y_hs y) = 1%nat) by lia. rewrite Hh. reflexivity.
    - assert (Hh : (hcount (h_addr hd) (y_hs y) =? 1)%nat = false) by (apply Nat.eqb_neq; lia). rewrite Hh. reflexivity. }
  assert (Hlive1 : sl_items sl1 = (if (hcount (h_addr hd) (y_hs y) =? 1)%nat then sl_items sl - 1 else sl_items sl) /\
                   ((hcount (h_addr hd) (y_hs y) =? 1)%nat = true -> 1 <= sl_items sl) /\
                   ((hcount (h_addr hd) (y_hs y) =? 1)%nat = true -> pl_free (sl_pl sl1) = h_addr hd)).
  { destruct Hcase as [(E & _ & Hi & Hi1 & Hfr & _)|(E & _ & Hi & _)].
    - rewrite E. cbn. auto.
    - apply Nat.eqb_neq in E. rewrite E. split; [exact Hi|]. split; discriminate. }
  destruct Hlive1 as (Hl1 & Hl2 & Hl3).
  unfold live at 2 3 4. rewrite Ha.
  destruct Hc as [(Ek & Ez & Hd' & Hlog)|(Hn & sl' & Hd' & Hi' & Hpl' & Hlog)].
  - assert (Hb : is_ext (h_kind hd) && (slab_count y =? 1) = true) by (apply Hdies; auto).
    rewrite Hb. split; [exact Hlog|]. unfold live. rewrite Hd'. auto.
  - assert (Hb : is_ext (h_kind hd) && (slab_count y =? 1) = false).
    { apply not_true_is_false. intros Eb. apply Hdies in Eb. tauto. }
    rewrite Hb. split; [rewrite app_nil_r; exact Hlog|]. unfold live. rewrite Hd'.
    split; [rewrite Hi'; exact Hl1|]. split; [exact Hl2|].
    exists sl'. split; [reflexivity|]. rewrite Hpl'. split; [exact Hlen|]. split; [|exact Hl3].
    intros b. unfold slot_read. rewrite Hpl'. apply Hsr1.
Qed.

(** *** [OAdd] *)
Theorem step_add_spec y sl h p :
  YInv y -> y_slab y = Alive sl -> hfind h (y_hs y) = None ->
  exists a sl',
    step y (OAdd h p) = Done (mkSys (Alive sl') ((h, mkH a KInt) :: y_hs y) (y_refs y) (y_tok y)) (mkOut (RAddr a) []) /\
    YInv (mkSys (Alive sl') ((h, mkH a KInt) :: y_hs y) (y_refs y) (y_tok y)) /\
    a = pl_free (sl_pl sl) /\ slot_read sl a = None /\ hcount a (y_hs y) = 0%nat /\
    (forall b, slot_read sl' b = if addr_eqb a b then Some (p, 1) else slot_read sl b) /\
    sl_items sl' = sl_items sl + 1.
Proof.
  intros (Hnd & HY) Ha Hf. rewrite Ha in HY. destruct HY as (HS & HRC & Hrc & Hpos).
  destruct (add_item_spec sl p HS) as (a & sl' & Hadd & HS' & Hfree & Hrd0 & Hrd & Hrc' & Hit).
  exists a, sl'. unfold ArcSlab.step. rewrite Ha, Hf, Hadd. split; [reflexivity|].
  assert (H0 : hcount a (y_hs y) = 0%nat) by (specialize (HRC a); rewrite Hrd0 in HRC; exact HRC).
  split; [|auto 10].
  split; cbn [y_hs y_slab y_refs y_tok map fst].
  - constructor; [apply hfind_None; exact Hf | exact Hnd].
  - split; [exact HS'|]. split; [|rewrite ecount_cons; cbn; lia].
    eapply RC_update; [exact HRC | exact Hrd | |].
    + intros b Hb. rewrite hcount_cons. cbn [h_addr]. apply addr_eqb_neq in Hb. rewrite Hb. reflexivity.
    + rewrite hcount_cons. cbn [h_addr]. rewrite addr_eqb_refl, H0. cbn. split; [reflexivity | lia].
Qed.

(** *** [OClone] *)
Theorem step_clone_spec y sl h h2 hd :
  YInv y -> y_slab y = Alive sl -> hfind h (y_hs y) = Some hd -> hfind h2 (y_hs y) = None ->
  exists p rc sl',
    slot_read sl (h_addr hd) = Some (p, rc) /\
    step y (OClone h h2) = Done (mkSys (Alive sl') ((h2, hd) :: y_hs y) (y_refs y) (y_tok y)) (mkOut (RNum (rc + 1)) []) /\
    YInv (mkSys (Alive sl') ((h2, hd) :: y_hs y) (y_refs y) (y_tok y)) /\
    (forall b, slot_read sl' b = if addr_eqb (h_addr hd) b then Some (p, rc + 1) else slot_read sl b) /\
    sl_items sl' = sl_items sl /\ length (pl_pages (sl_pl sl')) = length (pl_pages (sl_pl sl)).
Proof.
  intros (Hnd & HY) Ha Hf Hf2. rewrite Ha in HY. destruct HY as (HS & HRC & Hrc & Hpos).
  pose proof (hfind_In _ _ _ Hf) as Hin.
  destruct (RC_handle _ _ _ _ HRC Hin) as (p & rc & Hr & Hrceq & Hp).
  destruct (slot_retain_spec sl _ p rc HS Hr) as (sl1 & Hret & HS1 & Hrd & Hrc1 & Hit1 & Hlen1).
  exists p, rc, (if is_ext (h_kind hd) then slab_retain sl1 else sl1).
  split; [exact Hr|]. unfold ArcSlab.step. rewrite Ha, Hf, Hf2, Hret. split; [reflexivity|].
  assert (Hrd' : forall b, slot_read (if is_ext (h_kind hd) then slab_retain sl1 else sl1) b =
                           if addr_eqb (h_addr hd) b then Some (p, rc + 1) else slot_read sl b).
  { intros b. rewrite <- Hrd. destruct (is_ext (h_kind hd)); reflexivity. }
  split; [|split; [exact Hrd'|]].
  - split; cbn [y_hs y_slab y_refs y_tok map fst].
    + constructor; [apply hfind_None; exact Hf2 | exact Hnd].
    + split; [destruct (is_ext (h_kind hd)); exact HS1|]. split.
      * eapply RC_update; [exact HRC | exact Hrd' | |].
        -- intros b Hb. rewrite hcount_cons. apply addr_eqb_neq in Hb. rewrite Hb. reflexivity.
        -- rewrite hcount_cons, addr_eqb_refl. cbn [b2n]. split; lia.
      * rewrite ecount_cons. destruct (is_ext (h_kind hd)); cbn [b2n slab_retain sl_rc]; lia.
  - destruct (is_ext (h_kind hd)); cbn; auto.
Qed.

(** *** [OForce] *)
Theorem step_force_spec y sl h a :
  YInv y -> y_slab y = Alive sl -> hfind h (y_hs y) = Some (mkH a KInt) -> hcount a (y_hs y) = 1%nat ->
  exists p sl',
    slot_read sl a = Some (p, 1) /\
    step y (OForce h) = Done (mkSys (Alive sl') (hremove h (y_hs y)) (y_refs y) (y_tok y)) (mkOut (RSome p) []) /\
    YInv (mkSys (Alive sl') (hremove h (y_hs y)) (y_refs y) (y_tok y)) /\
    (forall b, slot_read sl' b = if addr_eqb a b then None else slot_read sl b) /\
    sl_items sl' = sl_items sl - 1 /\ 1 <= sl_items sl /\ pl_free (sl_pl sl') = a /\
    length (pl_pages (sl_pl sl')) = length (pl_pages (sl_pl sl)).
Proof.
  intros (Hnd & HY) Ha Hf H1. rewrite Ha in HY. destruct HY as (HS & HRC & Hrc & Hpos).
  pose proof (hfind_In _ _ _ Hf) as Hin.
  destruct (RC_handle _ _ _ _ HRC Hin) as (p & rc & Hr & Hrceq & Hp). cbn [h_addr] in *.
  assert (E1 : rc = 1) by lia. clear Hrceq. subst rc.
  destruct (slot_force_spec sl a p 1 HS Hr) as (sl1 & Hfo & HS1 & Hrc1 & Hlen & Hit & Hit1 & Hfree & Hrd).
  exists p, sl1. split; [exact Hr|]. unfold ArcSlab.step. rewrite Ha, Hf, Hr. cbn [N.eqb Pos.eqb]. rewrite Hfo.
  split; [reflexivity|]. split; [|auto 10].
  pose proof (hremove_hcount h (y_hs y) _ a Hnd Hf) as Hcnt. cbn [h_addr] in Hcnt. rewrite addr_eqb_refl in Hcnt. cbn [b2n] in Hcnt.
  pose proof (hremove_ecount h (y_hs y) _ Hnd Hf) as Hec. cbn [h_kind is_ext b2n] in Hec.
  split; cbn [y_hs y_slab y_refs y_tok].
  - apply hremove_NoDup; exact Hnd.
  - split; [exact HS1|]. split; [|lia].
    eapply RC_update; [exact HRC | exact Hrd | | cbn; lia].
    intros b Hb. pose proof (hremove_hcount h (y_hs y) _ b Hnd Hf) as H. cbn [h_addr] in H.
    apply addr_eqb_neq in Hb. rewrite Hb in H. cbn in H. lia.
Qed.

(** *** the slab's own references *)
Lemma step_release_like_spec y sl refs tok :
  YInv y -> y_slab y = Alive sl -> refs + tok + 1 = y_refs y + y_tok y ->
  exists y' out, finish_release sl (y_hs y) refs tok RUnit [] = Done y' out /\ YInv y' /\
    y_hs y' = y_hs y /\ y_refs y' = refs /\ y_tok y' = tok /\ o_res out = RUnit /\ live y' = live y /\
    ((slab_count y = 1 /\ y_slab y' = Destroyed (sl_items sl) /\ o_log out = [EvData]) \/
     (slab_count y <> 1 /\ y_slab y' = Alive (mkSlab (sl_rc sl - 1) (sl_items sl) (sl_pl sl)) /\ o_log out = [])).
Proof.
  intros (Hnd & HY) Ha Hcnt. rewrite Ha in HY. destruct HY as (HS & HRC & Hrc & Hpos).
  destruct (finish_release_inv sl (y_hs y) refs tok RUnit [] Hnd HS HRC) as (y' & o & Hf & HY' & H1 & H2 & H3 & H4 & Hc).
  { lia. }
  exists y', o. split; [exact Hf|]. split; [exact HY'|]. repeat (split; [assumption|]).
  unfold slab_count, live. rewrite Ha.
  destruct Hc as [(E & Hd & Hl)|(E & Hd & Hl)]; rewrite Hd.
  - split; [reflexivity|]. left. split; [lia|]. auto.
  - split; [reflexivity|]. right. split; [lia|]. auto.
Qed.

(** ** every operation: the invariant is kept, nothing is ever [Broken] *)
Theorem step_inv y o :
  YInv y -> match step y o with Done y' _ => YInv y' | Broken => False | _ => True end.
Proof.
  intros HY. destruct (y_slab y) as [sl|n] eqn:Ha; [|unfold ArcSlab.step; rewrite Ha; exact I].
  assert (Hend : forall h, is_end o h ->
            match step y o with Done y' _ => YInv y' | Broken => False | _ => True end).
  { intros h He. destruct (hfind h (y_hs y)) as [hd|] eqn:Hf.
    - destruct (step_end_spec y sl o h hd HY Ha He Hf) as (p & rc & y' & out & _ & _ & Hst & HY' & _).
      rewrite Hst. exact HY'.
    - destruct He as [-> | [-> | ->]]; unfold ArcSlab.step; rewrite Ha, Hf; exact I. }
  destruct o as [h p|h h2|h|h|h|h|h|h| | | | | ].
  - (* OAdd *)
    destruct (hfind h (y_hs y)) as [hd|] eqn:Hf.
    + unfold ArcSlab.step. rewrite Ha, Hf. exact I.
    + destruct (step_add_spec y sl h p HY Ha Hf) as (a & sl' & Hst & HY' & _). rewrite Hst. exact HY'.
  - (* OClone *)
    destruct (hfind h (y_hs y)) as [hd|] eqn:Hf; [destruct (hfind h2 (y_hs y)) as [hd2|] eqn:Hf2|].
    + unfold ArcSlab.step. rewrite Ha, Hf, Hf2. exact I.
    + destruct (step_clone_spec y sl h h2 hd HY Ha Hf Hf2) as (p & rc & sl' & _ & Hst & HY' & _).
      rewrite Hst. exact HY'.
    + unfold ArcSlab.step. rewrite Ha, Hf. exact I.
  - apply (Hend h). left; reflexivity.
  - apply (Hend h). right; right; reflexivity.
  - apply (Hend h). right; left; reflexivity.
  - (* OForce *)
    destruct (hfind h (y_hs y)) as [[a [|]]|] eqn:Hf; try (unfold ArcSlab.step; rewrite Ha, Hf; exact I).
    destruct HY as (Hnd & HY0). pose proof HY0 as HY1. rewrite Ha in HY1. destruct HY1 as (HS & HRC & Hrc & Hpos).
    destruct (RC_handle _ _ _ _ HRC (hfind_In _ _ _ Hf)) as (p & rc & Hr & Hrceq & Hp). cbn [h_addr] in *.
    destruct (N.eqb_spec rc 1) as [E|E].
    + assert (H1 : hcount a (y_hs y) = 1%nat) by lia.
      destruct (step_force_spec y sl h a (conj Hnd HY0) Ha Hf H1) as (p' & sl' & _ & Hst & HY' & _).
      rewrite Hst. exact HY'.
    + unfold ArcSlab.step. rewrite Ha, Hf, Hr. apply N.eqb_neq in E. rewrite E. exact I.
  - (* OExt *)
    destruct (hfind h (y_hs y)) as [[a [|]]|] eqn:Hf; try (unfold ArcSlab.step; rewrite Ha, Hf; exact I).
    unfold ArcSlab.step. rewrite Ha, Hf.
    destruct HY as (Hnd & HY0). rewrite Ha in HY0. destruct HY0 as (HS & HRC & Hrc & Hpos).
    pose proof (hset_ecount h (mkH a KExt) (y_hs y) _ Hnd Hf) as Hec. cbn [h_kind is_ext b2n] in Hec.
    split; cbn [y_hs y_slab y_refs y_tok].
    + rewrite hset_keys. exact Hnd.
    + split; [exact HS|]. split; [|cbn [slab_retain sl_rc]; lia].
      intros b. specialize (HRC b).
      rewrite (hset_hcount h (mkH a KExt) (y_hs y) _ b Hnd Hf eq_refl). exact HRC.
  - (* OGet *)
    destruct (hfind h (y_hs y)) as [hd|] eqn:Hf; [|unfold ArcSlab.step; rewrite Ha, Hf; exact I].
    unfold ArcSlab.step. rewrite Ha, Hf.
    pose proof HY as (Hnd & HY0). rewrite Ha in HY0. destruct HY0 as (HS & HRC & Hrc & Hpos).
    destruct (RC_handle _ _ _ _ HRC (hfind_In _ _ _ Hf)) as (p & rc & Hr & _). rewrite Hr. exact HY.
  - (* ONum *) unfold ArcSlab.step. rewrite Ha. exact HY.
  - (* ORetain *)
    unfold ArcSlab.step. rewrite Ha. destruct HY as (Hnd & HY0). rewrite Ha in HY0. destruct HY0 as (HS & HRC & Hrc & Hpos).
    split; [exact Hnd|]. cbn. split; [exact HS|]. split; [exact HRC|]. lia.
  - (* ORelease *)
    unfold ArcSlab.step. rewrite Ha. destruct (N.eqb_spec (y_tok y) 0) as [E|E]; [exact I|].
    destruct (step_release_like_spec y sl (y_refs y) (y_tok y - 1) HY Ha) as (y' & out & Hst & HY' & _); [lia|].
    rewrite Hst. exact HY'.
  - (* ORefClone *)
    unfold ArcSlab.step. rewrite Ha. destruct (N.eqb_spec (y_refs y) 0) as [E|E]; [exact I|].
    destruct HY as (Hnd & HY0). rewrite Ha in HY0. destruct HY0 as (HS & HRC & Hrc & Hpos).
    split; [exact Hnd|]. cbn. split; [exact HS|]. split; [exact HRC|]. lia.
  - (* ORefDrop *)
    unfold ArcSlab.step. rewrite Ha. destruct (N.eqb_spec (y_refs y) 0) as [E|E]; [exact I|].
    destruct (step_release_like_spec y sl (y_refs y - 1) (y_tok y) HY Ha) as (y' & out & Hst & HY' & _); [lia|].
    rewrite Hst. exact HY'.
Qed.

(** ** whole scripts *)
Theorem run_inv ops : forall y, YInv y -> exists yf outs, run spp y ops = Some (yf, outs) /\ YInv yf.
Proof.
  induction ops as [|o r IH]; intros y HY; cbn [run].
  - eauto.
  - pose proof (step_inv y o HY) as H. destruct (step y o) as [y' out| | |] eqn:E.
    + destruct (IH y' H) as (yf & l & -> & HYf). eauto.
    + destruct (IH y HY) as (yf & l & -> & HYf). eauto.
    + destruct (IH y HY) as (yf & l & -> & HYf). eauto.
    + contradiction.
Qed.

Corollary run_init_inv ops : exists yf outs, run spp (init spp) ops = Some (yf, outs) /\ YInv yf.
Proof. apply run_inv. apply init_inv. Qed.

End Proofs.
