(** * ARCSLAB proofs, part 6: the theorems about [YInv] states, re-stated for REACHABLE states
      (= after any script from a new slab); these are the statements of coq/Props/C05.v. *)

From Coq Require Import List NArith ZArith Bool Arith Lia.
From OxiVerif Require Import Tbl.ArcSlab Tbl.ArcSlabProofsBase Tbl.ArcSlabProofs Tbl.ArcSlabProofsStep
  Tbl.ArcSlabThms Tbl.RcStore Tbl.ArcSlabRefine.
Import ListNotations.

Local Open Scope N_scope.

Section Reach.
Variable spp : nat.
Hypothesis spp_pos : (1 <= spp)%nat.
Local Set Default Proof Using "spp_pos".

Notation reachable := (reachable spp).
Notation step := (step spp).
Local Notation inv := (reachable_inv spp spp_pos).

Theorem r_partition y sl :
  reachable y -> y_slab y = Alive sl ->
  exists stack k,
    let pgs := pl_pages (sl_pl sl) in
    let never := fresh spp (length pgs) k in
    (k <= spp)%nat /\ pgs <> [] /\
    NoDup (stack ++ never) /\
    hd_error (stack ++ never) = Some (pl_free (sl_pl sl)) /\
    linked pgs (stack ++ never) /\
    (forall a, valid spp pgs a ->
       ((exists p rc, get_at pgs a = Some (Item p rc)) /\ ~ In a stack /\ ~ In a never) \/
       ((exists nx, get_at pgs a = Some (Free nx)) /\ In a stack /\ ~ In a never) \/
       ((exists nx, get_at pgs a = Some (Free nx)) /\ ~ In a stack /\ In a never)) /\
    (forall a, In a (stack ++ never) -> valid spp pgs a) /\
    sl_items sl = N.of_nat (cnt pgs).
Proof. intros HR. apply (partition spp spp_pos y sl (inv y HR)). Qed.

Theorem r_rc_exact y sl a p rc :
  reachable y -> y_slab y = Alive sl -> slot_read sl a = Some (p, rc) ->
  rc = N.of_nat (hcount a (y_hs y)) /\ 1 <= rc.
Proof. intros HR. apply (rc_exact spp spp_pos y sl a p rc (inv y HR)). Qed.

Theorem r_free_slot_no_handle y sl a :
  reachable y -> y_slab y = Alive sl -> slot_read sl a = None -> hcount a (y_hs y) = 0%nat.
Proof. intros HR. apply (free_slot_no_handle spp spp_pos y sl a (inv y HR)). Qed.

Theorem r_no_dangling y sl h hd :
  reachable y -> y_slab y = Alive sl -> hfind h (y_hs y) = Some hd ->
  exists p rc, slot_read sl (h_addr hd) = Some (p, rc) /\ 1 <= rc.
Proof. intros HR. apply (no_dangling spp spp_pos y sl h hd (inv y HR)). Qed.

Theorem r_handle_vars_distinct y : reachable y -> NoDup (map fst (y_hs y)).
Proof. intros HR. exact (proj1 (inv y HR)). Qed.

(** a slot that is handed out holds no item and no handle refers to it; nothing else changes *)
Theorem r_add_fresh y sl h p y' out :
  reachable y -> y_slab y = Alive sl -> step y (OAdd h p) = Done y' out ->
  exists a sl',
    out = mkOut (RAddr a) [] /\ y' = mkSys (Alive sl') ((h, mkH a KInt) :: y_hs y) (y_refs y) (y_tok y) /\
    a = pl_free (sl_pl sl) /\ (exists nx, get_at (pl_pages (sl_pl sl)) a = Some (Free nx)) /\
    slot_read sl a = None /\ hcount a (y_hs y) = 0%nat /\
    (forall b, slot_read sl' b = if addr_eqb a b then Some (p, 1) else slot_read sl b) /\
    sl_items sl' = sl_items sl + 1.
Proof.
  intros HR Ha Hst. destruct (hfind h (y_hs y)) as [hd|] eqn:Hf;
    [unfold ArcSlab.step in Hst; rewrite Ha, Hf in Hst; discriminate|].
  destruct (step_add_spec spp spp_pos y sl h p (inv y HR) Ha Hf) as (a & sl' & Hst1 & _ & Hfa & Hr0 & Hc & Hrd & Hit).
  rewrite Hst in Hst1. inversion Hst1; subst y' out. exists a, sl'.
  repeat (split; [assumption || reflexivity|]).
  split; [|auto].
  destruct (r_partition y sl HR Ha) as (stack & k & _ & _ & _ & Hhd & Hl & _).
  cbv zeta in *. apply (linked_free spp spp_pos _ _ a Hl).
  destruct (stack ++ fresh spp (length (pl_pages (sl_pl sl))) k) as [|x r]; [discriminate|].
  cbn in Hhd. inversion Hhd; subst. left. reflexivity.
Qed.

Theorem r_end_spec y sl o h hd :
  reachable y -> y_slab y = Alive sl -> is_end o h -> hfind h (y_hs y) = Some hd ->
  exists p rc y' out,
    slot_read sl (h_addr hd) = Some (p, rc) /\ rc = N.of_nat (hcount (h_addr hd) (y_hs y)) /\
    step y o = Done y' out /\
    y_hs y' = hremove h (y_hs y) /\ y_refs y' = y_refs y /\ y_tok y' = y_tok y /\
    let last := (hcount (h_addr hd) (y_hs y) =? 1)%nat in
    let d := if last then Some p else None in
    let dies := is_ext (h_kind hd) && (slab_count y =? 1) in
    o_res out = end_res o d /\
    o_log out = end_log o d ++ (if dies then [EvData] else []) /\
    live y' = (if last then live y - 1 else live y) /\ (last = true -> 1 <= live y) /\
    if dies then y_slab y' = Destroyed (live y')
    else exists sl', y_slab y' = Alive sl' /\
           length (pl_pages (sl_pl sl')) = length (pl_pages (sl_pl sl)) /\
           (forall b, slot_read sl' b =
                      if addr_eqb (h_addr hd) b then (if last then None else Some (p, rc - 1))
                      else slot_read sl b) /\
           (last = true -> pl_free (sl_pl sl') = h_addr hd).
Proof.
  intros HR Ha He Hf.
  destruct (step_end_spec spp spp_pos y sl o h hd (inv y HR) Ha He Hf)
    as (p & rc & y' & out & H1 & H2 & H3 & _ & H4).
  exists p, rc, y', out. auto.
Qed.

Theorem r_force_spec y sl h a :
  reachable y -> y_slab y = Alive sl -> hfind h (y_hs y) = Some (mkH a KInt) -> hcount a (y_hs y) = 1%nat ->
  exists p sl',
    slot_read sl a = Some (p, 1) /\
    step y (OForce h) = Done (mkSys (Alive sl') (hremove h (y_hs y)) (y_refs y) (y_tok y)) (mkOut (RSome p) []) /\
    (forall b, slot_read sl' b = if addr_eqb a b then None else slot_read sl b) /\
    sl_items sl' = sl_items sl - 1 /\ 1 <= sl_items sl /\ pl_free (sl_pl sl') = a /\
    length (pl_pages (sl_pl sl')) = length (pl_pages (sl_pl sl)).
Proof.
  intros HR Ha Hf H1.
  destruct (step_force_spec spp spp_pos y sl h a (inv y HR) Ha Hf H1) as (p & sl' & E1 & E2 & _ & E3).
  exists p, sl'. auto.
Qed.

Theorem r_clone_spec y sl h h2 hd :
  reachable y -> y_slab y = Alive sl -> hfind h (y_hs y) = Some hd -> hfind h2 (y_hs y) = None ->
  exists p rc sl',
    slot_read sl (h_addr hd) = Some (p, rc) /\
    step y (OClone h h2) = Done (mkSys (Alive sl') ((h2, hd) :: y_hs y) (y_refs y) (y_tok y)) (mkOut (RNum (rc + 1)) []) /\
    (forall b, slot_read sl' b = if addr_eqb (h_addr hd) b then Some (p, rc + 1) else slot_read sl b) /\
    sl_items sl' = sl_items sl /\ length (pl_pages (sl_pl sl')) = length (pl_pages (sl_pl sl)) /\
    sl_rc sl' = sl_rc sl + N.of_nat (b2n (is_ext (h_kind hd))).
Proof.
  intros HR Ha Hf Hf2. pose proof (inv y HR) as HY.
  destruct (step_clone_spec spp spp_pos y sl h h2 hd HY Ha Hf Hf2) as (p & rc & sl' & E1 & E2 & HY' & E3 & E4 & E5).
  exists p, rc, sl'. repeat (split; [assumption|]).
  destruct HY as (Hnd & HY0). rewrite Ha in HY0. destruct HY0 as (_ & _ & Hrc & _).
  destruct HY' as (_ & HY1). cbn [y_slab y_hs y_refs y_tok] in HY1. destruct HY1 as (_ & _ & Hrc' & _).
  rewrite ecount_cons in Hrc'. lia.
Qed.

Theorem r_step_delta y o y' out :
  reachable y -> step y o = Done y' out ->
  live y' + gone out = live y + added out /\
  (In EvData (o_log out) <-> obs_alive y' = false) /\
  (obs_alive y' = false -> slab_count y = 1).
Proof. intros HR. apply (step_delta spp spp_pos y o y' out (inv y HR)). Qed.

Theorem r_no_handles_all_free y sl :
  reachable y -> y_slab y = Alive sl -> y_hs y = [] ->
  sl_items sl = 0 /\
  exists ch, NoDup ch /\ hd_error ch = Some (pl_free (sl_pl sl)) /\ linked (pl_pages (sl_pl sl)) ch /\
             forall a, valid spp (pl_pages (sl_pl sl)) a <-> In a ch.
Proof. intros HR. apply (no_handles_all_free spp spp_pos y sl (inv y HR)). Qed.

Theorem r_alive_iff_count y :
  reachable y -> (obs_alive y = true <-> 1 <= slab_count y) /\ (obs_alive y = false <-> slab_count y = 0).
Proof. intros HR. apply (alive_iff_count spp spp_pos y (inv y HR)). Qed.

Theorem r_destroyed_leak_free y n :
  reachable y -> y_slab y = Destroyed n -> y_hs y = [] -> n = 0.
Proof. intros HR. apply (destroyed_leak_free spp spp_pos y n (inv y HR)). Qed.

Theorem r_lifo_reuse y sl o h hd y' out h2 p2 :
  reachable y -> y_slab y = Alive sl -> is_end o h -> hfind h (y_hs y) = Some hd ->
  hcount (h_addr hd) (y_hs y) = 1%nat ->
  step y o = Done y' out -> obs_alive y' = true -> hfind h2 (y_hs y') = None ->
  exists y'', step y' (OAdd h2 p2) = Done y'' (mkOut (RAddr (h_addr hd)) []).
Proof. intros HR. apply (lifo_reuse spp spp_pos y sl o h hd y' out h2 p2 (inv y HR)). Qed.

(** the representation (recycled stack, used slots of the newest page) exists in every
    reachable state; [add_item_rep] / [free_slot_rep] say how each operation changes it *)
Theorem r_rep y sl : reachable y -> y_slab y = Alive sl -> exists stack k, SRep spp sl stack k.
Proof. intros HR Ha. pose proof (inv y HR) as (_ & HY). rewrite Ha in HY. exact (proj1 HY). Qed.

Theorem r_abs_inv y sl : reachable y -> y_slab y = Alive sl -> AInv addr addr_eqb (abs sl (y_hs y)).
Proof. intros HR. apply (abs_inv spp spp_pos y sl (inv y HR)). Qed.

Theorem r_refine_step y sl o y' out :
  reachable y -> y_slab y = Alive sl -> step y o = Done y' out ->
  match aproj o with
  | Some ao =>
      exists s', astep addr addr_eqb (abs sl (y_hs y)) ao (ares_of o out) s' /\
                 a_hs s' = abs_hs (y_hs y') /\
                 (forall sl', y_slab y' = Alive sl' -> forall j, a_map s' j = slot_read sl' j)
  | None =>
      abs_hs (y_hs y') = abs_hs (y_hs y) /\
      (forall sl', y_slab y' = Alive sl' -> forall j, slot_read sl' j = slot_read sl j)
  end.
Proof. intros HR. apply (refine_step spp spp_pos y sl o y' out (inv y HR)). Qed.

End Reach.
