(** * ARCSLAB proofs, part 5: the slab refines the abstract node store (Tbl/RcStore.v)

    Abstraction: ids = slot addresses, map = the items in their slots, handle variables as they
    are (the kind of a handle, the slab's own count, pages and the free list are not visible).
    Every item-level operation of the model is one [astep] with the same result; the other
    operations change nothing of the abstract state.  A reference store whose ids are never
    re-used ([rstore]) refines the same abstract store; therefore both return the same results
    for every script ([arcslab_equiv_reference]). *)

From Coq Require Import List NArith ZArith Bool Arith Lia.
From OxiVerif Require Import Tbl.ArcSlab Tbl.ArcSlabProofsBase Tbl.ArcSlabProofs Tbl.ArcSlabProofsStep
  Tbl.ArcSlabThms Tbl.RcStore.
Import ListNotations.

Local Open Scope N_scope.

Arguments N.add : simpl never.
Arguments N.sub : simpl never.
Arguments hcount : simpl never.
Arguments ecount : simpl never.

(** ** the abstraction *)

Definition abs_hs (hs : list (nat * handle)) : list (nat * addr) :=
  map (fun e => (fst e, h_addr (snd e))) hs.

Definition abs (sl : slab) (hs : list (nat * handle)) : astate addr := mkA (slot_read sl) (abs_hs hs).

Definition aproj (o : op) : option aop :=
  match o with
  | OAdd h p => Some (AAdd h p)
  | OClone h h2 => Some (AClone h h2)
  | ODrop h | ODropWith h | OIntoInner h | OForce h => Some (AEnd h)
  | OGet h => Some (AGet h)
  | _ => None
  end.

(** the abstract result, read off the concrete output *)
Definition ares_of (o : op) (out : out) : ares :=
  match o with
  | OAdd _ _ => ARAdded
  | OClone _ _ => match o_res out with RNum rc => ARCount rc | _ => ARKept end
  | ODrop _ => match o_log out with EvDrop p :: _ => ARGone p | _ => ARKept end
  | ODropWith _ => match o_log out with EvFn p :: _ => ARGone p | _ => ARKept end
  | OIntoInner _ | OForce _ => match o_res out with RSome p => ARGone p | _ => ARKept end
  | OGet _ => match o_res out with RVal p rc => ARVal p rc | _ => ARKept end
  | _ => ARKept
  end.

Lemma abs_hs_cons k v r : abs_hs ((k, v) :: r) = (k, h_addr v) :: abs_hs r.
Proof. reflexivity. Qed.

Lemma abs_hs_keys hs : map fst (abs_hs hs) = map fst hs.
Proof. unfold abs_hs. rewrite map_map. reflexivity. Qed.

Lemma abs_hs_find h hs : afind h (abs_hs hs) = option_map h_addr (hfind h hs).
Proof.
  induction hs as [|[k v] r IH]; [reflexivity|]. rewrite abs_hs_cons. cbn [afind hfind].
  destruct (k =? h)%nat; [reflexivity | exact IH].
Qed.

Lemma abs_hs_remove h hs : aremove h (abs_hs hs) = abs_hs (hremove h hs).
Proof.
  induction hs as [|[k v] r IH]; [reflexivity|]. rewrite abs_hs_cons. cbn [aremove hremove].
  destruct (k =? h)%nat; [exact IH|]. rewrite abs_hs_cons, IH. reflexivity.
Qed.

Lemma abs_hs_count a hs : acount addr addr_eqb a (abs_hs hs) = hcount a hs.
Proof.
  induction hs as [|[k v] r IH]; [reflexivity|]. rewrite abs_hs_cons, acount_cons, hcount_cons, IH.
  destruct (addr_eqb (h_addr v) a); reflexivity.
Qed.

Lemma abs_hs_set h v hs old :
  NoDup (map fst hs) -> hfind h hs = Some old -> h_addr v = h_addr old -> abs_hs (hset h v hs) = abs_hs hs.
Proof.
  induction hs as [|[k x] r IH]; cbn [hfind hset map]; [discriminate|]. intros Hnd Hf Ha.
  inversion Hnd; subst. cbn [fst] in *.
  destruct (Nat.eqb_spec k h) as [->|Hne].
  - inversion Hf; subst x. rewrite hset_notin by assumption. rewrite !abs_hs_cons, Ha. reflexivity.
  - rewrite !abs_hs_cons, (IH H2 Hf Ha). reflexivity.
Qed.

Section Refine.
Variable spp : nat.
Hypothesis spp_pos : (1 <= spp)%nat.
Local Set Default Proof Using "spp_pos".

Notation YInv := (YInv spp).
Notation step := (step spp).
Local Notation step_end_spec := (step_end_spec spp spp_pos).
Local Notation step_add_spec := (step_add_spec spp spp_pos).
Local Notation step_clone_spec := (step_clone_spec spp spp_pos).
Local Notation step_force_spec := (step_force_spec spp spp_pos).
Local Notation step_release_like_spec := (step_release_like_spec spp spp_pos).
Local Notation RC_handle := (RC_handle spp spp_pos).

(** the counting invariant of the abstract store holds of the abstraction *)
Theorem abs_inv y sl :
  YInv y -> y_slab y = Alive sl -> AInv addr addr_eqb (abs sl (y_hs y)).
Proof.
  intros (Hnd & HY) Ha. rewrite Ha in HY. destruct HY as (_ & HRC & _). split; cbn [abs a_hs a_map].
  - rewrite abs_hs_keys. exact Hnd.
  - intros a. rewrite abs_hs_count. apply HRC.
Qed.

(** ** refinement: one operation = one abstract step with the same result, or no change *)
Theorem refine_step y sl o y' out :
  YInv y -> y_slab y = Alive sl -> step y o = Done y' out ->
  match aproj o with
  | Some ao =>
      exists s', astep addr addr_eqb (abs sl (y_hs y)) ao (ares_of o out) s' /\
                 a_hs s' = abs_hs (y_hs y') /\
                 (forall sl', y_slab y' = Alive sl' -> forall j, a_map s' j = slot_read sl' j)
  | None =>
      abs_hs (y_hs y') = abs_hs (y_hs y) /\
      (forall sl', y_slab y' = Alive sl' -> forall j, slot_read sl' j = slot_read sl j)
  end.
Proof.
  intros HY Ha Hst.
  assert (Hend : forall h, is_end o h ->
            exists s', astep addr addr_eqb (abs sl (y_hs y)) (AEnd h) (ares_of o out) s' /\
                       a_hs s' = abs_hs (y_hs y') /\
                       (forall sl', y_slab y' = Alive sl' -> forall j, a_map s' j = slot_read sl' j)).
  { intros h He. destruct (hfind h (y_hs y)) as [hd|] eqn:Hf;
      [|destruct He as [-> | [-> | ->]]; unfold ArcSlab.step in Hst; rewrite Ha, Hf in Hst; discriminate].
    destruct (step_end_spec y sl o h hd HY Ha He Hf)
      as (p & rc & y1 & out1 & Hr & Hrc & Hst1 & _ & Hhs & _ & _ & Hres & Hlog & _ & _ & Hd).
    rewrite Hst in Hst1. inversion Hst1; subst y1 out1. clear Hst1.
    set (last := (hcount (h_addr hd) (y_hs y) =? 1)%nat) in *.
    exists (mkA (fun j => if addr_eqb (h_addr hd) j then (if last then None else Some (p, rc - 1)) else slot_read sl j)
                (abs_hs (hremove h (y_hs y)))).
    split; [|split].
    - cbn [astep abs a_hs a_map]. exists (h_addr hd), p, rc.
      split; [rewrite abs_hs_find, Hf; reflexivity|]. split; [exact Hr|].
      split; [rewrite abs_hs_remove; reflexivity|].
      assert (Hares : ares_of o out = if last then ARGone p else ARKept).
      { destruct He as [-> | [-> | ->]]; cbn [ares_of]; rewrite ?Hres, ?Hlog; destruct last; cbn;
          try reflexivity; destruct (is_ext (h_kind hd) && (slab_count y =? 1)); reflexivity. }
      rewrite Hares. destruct last eqn:El.
      + left. apply Nat.eqb_eq in El. split; [lia|]. split; [reflexivity|]. intros j. reflexivity.
      + right. apply Nat.eqb_neq in El. split; [lia|]. split; [reflexivity|]. intros j. reflexivity.
    - cbn [a_hs]. rewrite Hhs. reflexivity.
    - intros sl' Ha' j. cbn [a_map]. destruct (is_ext (h_kind hd) && (slab_count y =? 1)).
      + rewrite Hd in Ha'. discriminate.
      + destruct Hd as (sl2 & Ha2 & _ & Hrd & _). rewrite Ha' in Ha2. inversion Ha2; subst sl2.
        rewrite Hrd. reflexivity. }
  destruct o as [h p|h h2|h|h|h|h|h|h| | | | | ]; cbn [aproj].
  - (* OAdd *)
    destruct (hfind h (y_hs y)) as [hd|] eqn:Hf; [unfold ArcSlab.step in Hst; rewrite Ha, Hf in Hst; discriminate|].
    destruct (step_add_spec y sl h p HY Ha Hf) as (a & sl' & Hst1 & _ & _ & Hr0 & _ & Hrd & _).
    rewrite Hst in Hst1. inversion Hst1; subst y' out.
    exists (abs sl' ((h, mkH a KInt) :: y_hs y)). split; [|split].
    + cbn [astep abs a_hs a_map ares_of]. split; [rewrite abs_hs_find, Hf; reflexivity|].
      exists a. split; [exact Hr0|]. split; [reflexivity|]. split; [reflexivity | exact Hrd].
    + reflexivity.
    + cbn. intros sl2 E j. inversion E; subst. reflexivity.
  - (* OClone *)
    destruct (hfind h (y_hs y)) as [hd|] eqn:Hf; [destruct (hfind h2 (y_hs y)) as [hd2|] eqn:Hf2|];
      try (unfold ArcSlab.step in Hst; rewrite Ha, Hf, ?Hf2 in Hst; discriminate).
    destruct (step_clone_spec y sl h h2 hd HY Ha Hf Hf2) as (p & rc & sl' & Hr & Hst1 & _ & Hrd & _).
    rewrite Hst in Hst1. inversion Hst1; subst y' out.
    exists (abs sl' ((h2, hd) :: y_hs y)). split; [|split].
    + cbn [astep abs a_hs a_map ares_of o_res]. exists (h_addr hd), p, rc.
      split; [rewrite abs_hs_find, Hf; reflexivity|]. split; [rewrite abs_hs_find, Hf2; reflexivity|].
      split; [exact Hr|]. split; [reflexivity|]. split; [reflexivity | exact Hrd].
    + reflexivity.
    + cbn. intros sl2 E j. inversion E; subst. reflexivity.
  - apply (Hend h). left; reflexivity.
  - apply (Hend h). right; right; reflexivity.
  - apply (Hend h). right; left; reflexivity.
  - (* OForce *)
    destruct (hfind h (y_hs y)) as [[a [|]]|] eqn:Hf; try (unfold ArcSlab.step in Hst; rewrite Ha, Hf in Hst; discriminate).
    pose proof HY as (Hnd & HY0). rewrite Ha in HY0. destruct HY0 as (HS & HRC & Hrc & Hpos).
    destruct (RC_handle _ _ _ _ HRC (hfind_In _ _ _ Hf)) as (p & rc & Hr & Hrceq & Hp). cbn [h_addr] in *.
    destruct (N.eqb_spec rc 1) as [E|E];
      [|unfold ArcSlab.step in Hst; rewrite Ha, Hf, Hr in Hst; apply N.eqb_neq in E; rewrite E in Hst; discriminate].
    assert (H1 : hcount a (y_hs y) = 1%nat) by lia.
    destruct (step_force_spec y sl h a HY Ha Hf H1) as (p' & sl' & Hr' & Hst1 & _ & Hrd & _).
    rewrite Hst in Hst1. inversion Hst1; subst y' out.
    exists (abs sl' (hremove h (y_hs y))). split; [|split].
    + cbn [astep abs a_hs a_map ares_of o_res]. exists a, p', 1.
      split; [rewrite abs_hs_find, Hf; reflexivity|]. split; [exact Hr'|].
      split; [rewrite abs_hs_remove; reflexivity|]. left. split; [reflexivity|]. split; [reflexivity | exact Hrd].
    + reflexivity.
    + cbn. intros sl2 E2 j. inversion E2; subst. reflexivity.
  - (* OExt *)
    destruct (hfind h (y_hs y)) as [[a [|]]|] eqn:Hf; try (unfold ArcSlab.step in Hst; rewrite Ha, Hf in Hst; discriminate).
    unfold ArcSlab.step in Hst. rewrite Ha, Hf in Hst. inversion Hst; subst y' out. cbn [y_hs y_slab].
    destruct HY as (Hnd & _). split; [apply (abs_hs_set h _ _ _ Hnd Hf); reflexivity|].
    intros sl' E j. inversion E; subst. reflexivity.
  - (* OGet *)
    destruct (hfind h (y_hs y)) as [hd|] eqn:Hf; [|unfold ArcSlab.step in Hst; rewrite Ha, Hf in Hst; discriminate].
    unfold ArcSlab.step in Hst. rewrite Ha, Hf in Hst.
    destruct (slot_read sl (h_addr hd)) as [[p rc]|] eqn:Hr; [|discriminate]. inversion Hst; subst y' out.
    exists (abs sl (y_hs y)). split; [|split].
    + cbn [astep abs a_hs a_map ares_of o_res]. exists (h_addr hd), p, rc.
      split; [rewrite abs_hs_find, Hf; reflexivity|]. split; [exact Hr|]. auto.
    + reflexivity.
    + intros sl2 E j. rewrite Ha in E. inversion E; subst. reflexivity.
  - (* ONum *)
    unfold ArcSlab.step in Hst. rewrite Ha in Hst. inversion Hst; subst y' out.
    split; [reflexivity|]. intros sl2 E j. rewrite Ha in E. inversion E; subst. reflexivity.
  - (* ORetain *)
    unfold ArcSlab.step in Hst. rewrite Ha in Hst. inversion Hst; subst y' out. cbn.
    split; [reflexivity|]. intros sl2 E j. inversion E; subst. reflexivity.
  - (* ORelease *)
    unfold ArcSlab.step in Hst. rewrite Ha in Hst. destruct (N.eqb_spec (y_tok y) 0) as [E|E]; [discriminate|].
    destruct (step_release_like_spec y sl (y_refs y) (y_tok y - 1) HY Ha) as (y1 & out1 & Hst1 & _ & Hhs & _ & _ & _ & _ & Hc); [lia|].
    rewrite Hst in Hst1. inversion Hst1; subst y1 out1. rewrite Hhs. split; [reflexivity|].
    intros sl2 E2 j. destruct Hc as [(_ & Hd & _)|(_ & Hd & _)]; rewrite Hd in E2; [discriminate|].
    inversion E2; subst. reflexivity.
  - (* ORefClone *)
    unfold ArcSlab.step in Hst. rewrite Ha in Hst. destruct (N.eqb_spec (y_refs y) 0) as [E|E]; [discriminate|].
    inversion Hst; subst y' out. cbn.
    split; [reflexivity|]. intros sl2 E2 j. inversion E2; subst. reflexivity.
  - (* ORefDrop *)
    unfold ArcSlab.step in Hst. rewrite Ha in Hst. destruct (N.eqb_spec (y_refs y) 0) as [E|E]; [discriminate|].
    destruct (step_release_like_spec y sl (y_refs y - 1) (y_tok y) HY Ha) as (y1 & out1 & Hst1 & _ & Hhs & _ & _ & _ & _ & Hc); [lia|].
    rewrite Hst in Hst1. inversion Hst1; subst y1 out1. rewrite Hhs. split; [reflexivity|].
    intros sl2 E2 j. destruct Hc as [(_ & Hd & _)|(_ & Hd & _)]; rewrite Hd in E2; [discriminate|].
    inversion E2; subst. reflexivity.
Qed.

End Refine.

(** ** a reference store: ids 0, 1, 2, ... in order of creation, never re-used *)

Record rstore := mkR { r_next : N; r_map : list (N * (N * N)); r_hs : list (nat * N) }.

Fixpoint rfind (id : N) (m : list (N * (N * N))) : option (N * N) :=
  match m with
  | [] => None
  | (k, v) :: r => if k =? id then Some v else rfind id r
  end.

Fixpoint rdel (id : N) (m : list (N * (N * N))) : list (N * (N * N)) :=
  match m with
  | [] => []
  | (k, v) :: r => if k =? id then rdel id r else (k, v) :: rdel id r
  end.

Definition rinit : rstore := mkR 0 [] [].

Definition ref_step (r : rstore) (o : aop) : option (rstore * ares) :=
  match o with
  | AAdd h p =>
      match afind h (r_hs r) with
      | Some _ => None
      | None => Some (mkR (r_next r + 1) ((r_next r, (p, 1)) :: r_map r) ((h, r_next r) :: r_hs r), ARAdded)
      end
  | AClone h h2 =>
      match afind h (r_hs r), afind h2 (r_hs r) with
      | Some id, None =>
          match rfind id (r_map r) with
          | Some (p, rc) => Some (mkR (r_next r) ((id, (p, rc + 1)) :: r_map r) ((h2, id) :: r_hs r), ARCount (rc + 1))
          | None => None
          end
      | _, _ => None
      end
  | AEnd h =>
      match afind h (r_hs r) with
      | Some id =>
          match rfind id (r_map r) with
          | Some (p, rc) =>
              if rc =? 1 then Some (mkR (r_next r) (rdel id (r_map r)) (aremove h (r_hs r)), ARGone p)
              else Some (mkR (r_next r) ((id, (p, rc - 1)) :: r_map r) (aremove h (r_hs r)), ARKept)
          | None => None
          end
      | None => None
      end
  | AGet h =>
      match afind h (r_hs r) with
      | Some id => match rfind id (r_map r) with Some (p, rc) => Some (r, ARVal p rc) | None => None end
      | None => None
      end
  end.

Definition rabs (r : rstore) : astate N := mkA (fun id => rfind id (r_map r)) (r_hs r).

(** every id in use is below the next id *)
Definition RInv (r : rstore) : Prop := forall id, r_next r <= id -> rfind id (r_map r) = None.

Lemma rfind_rdel id m j : rfind j (rdel id m) = if id =? j then None else rfind j m.
Proof.
  induction m as [|[k v] r IH]; cbn [rdel rfind]; [destruct (id =? j); reflexivity|].
  destruct (N.eqb_spec k id) as [->|Hne].
  - rewrite IH. destruct (N.eqb_spec id j); reflexivity.
  - cbn [rfind]. rewrite IH. destruct (N.eqb_spec k j) as [->|Hne'].
    + destruct (N.eqb_spec id j); [congruence | reflexivity].
    + reflexivity.
Qed.

Lemma Neqb_eq a b : (a =? b) = true <-> a = b.
Proof. apply N.eqb_eq. Qed.

(** the reference store refines the abstract store *)
Theorem ref_refines r o r' res :
  RInv r -> ref_step r o = Some (r', res) -> astep N N.eqb (rabs r) o res (rabs r') /\ RInv r'.
Proof.
  intros HI Hst. destruct o as [h p|h h2|h|h]; cbn [ref_step] in Hst.
  - destruct (afind h (r_hs r)) eqn:Hf; [discriminate|]. inversion Hst; subst r' res. split.
    + cbn [astep rabs a_hs a_map r_hs r_map]. split; [exact Hf|]. exists (r_next r).
      split; [apply HI; lia|]. split; [reflexivity|]. split; [reflexivity|]. intros j. reflexivity.
    + intros id Hid. cbn [r_next r_map rfind] in *. destruct (N.eqb_spec (r_next r) id); [lia|]. apply HI. lia.
  - destruct (afind h (r_hs r)) as [id|] eqn:Hf; [|discriminate].
    destruct (afind h2 (r_hs r)) eqn:Hf2; [discriminate|].
    destruct (rfind id (r_map r)) as [[p rc]|] eqn:Hr; [|discriminate]. inversion Hst; subst r' res. split.
    + cbn [astep rabs a_hs a_map r_hs r_map]. exists id, p, rc. repeat (split; [assumption || reflexivity|]).
      intros j. reflexivity.
    + intros j Hj. cbn [r_next r_map rfind] in *. destruct (N.eqb_spec id j) as [->|]; [|apply HI; exact Hj].
      rewrite (HI j Hj) in Hr. discriminate.
  - destruct (afind h (r_hs r)) as [id|] eqn:Hf; [|discriminate].
    destruct (rfind id (r_map r)) as [[p rc]|] eqn:Hr; [|discriminate].
    destruct (N.eqb_spec rc 1) as [E|E]; inversion Hst; subst r' res; split.
    + cbn [astep rabs a_hs a_map r_hs r_map]. exists id, p, rc. repeat (split; [assumption || reflexivity|]).
      left. split; [exact E|]. split; [reflexivity|]. intros j. apply rfind_rdel.
    + intros j Hj. cbn [r_next r_map]. rewrite rfind_rdel. destruct (id =? j); [reflexivity | apply HI; exact Hj].
    + cbn [astep rabs a_hs a_map r_hs r_map]. exists id, p, rc. repeat (split; [assumption || reflexivity|]).
      right. split; [exact E|]. split; [reflexivity|]. intros j. reflexivity.
    + intros j Hj. cbn [r_next r_map rfind] in *. destruct (N.eqb_spec id j) as [->|]; [|apply HI; exact Hj].
      rewrite (HI j Hj) in Hr. discriminate.
  - destruct (afind h (r_hs r)) as [id|] eqn:Hf; [|discriminate].
    destruct (rfind id (r_map r)) as [[p rc]|] eqn:Hr; [|discriminate]. inversion Hst; subst r' res. split; [|exact HI].
    cbn [astep rabs a_hs a_map]. exists id, p, rc. repeat (split; [assumption || reflexivity|]). intros j. reflexivity.
Qed.

Lemma rinit_inv : RInv rinit /\ AInv N N.eqb (rabs rinit).
Proof.
  split; [intros id _; reflexivity|]. split; [constructor|]. intros id. reflexivity.
Qed.

(** ** the same script on the slab and on the reference store *)

(** item-level operations (without `force_into_inner`, whose precondition the abstract store
    does not have) *)
Definition item_op (o : op) : bool :=
  match o with
  | OAdd _ _ | OClone _ _ | ODrop _ | ODropWith _ | OIntoInner _ | OGet _ => true
  | _ => false
  end.

Definition aop_of (o : op) : aop :=
  match aproj o with Some ao => ao | None => AGet 0 end.

Section Equiv.
Variable spp : nat.
Hypothesis spp_pos : (1 <= spp)%nat.
Local Set Default Proof Using "spp_pos".

(** results of a script on the slab: [None] = the operation is rejected *)
Fixpoint arc_exec (y : sys) (ops : list op) : list (option ares) :=
  match ops with
  | [] => []
  | o :: r =>
      match step spp y o with
      | Done y' out => Some (ares_of o out) :: arc_exec y' r
      | _ => None :: arc_exec y r
      end
  end.

Fixpoint ref_exec (r : rstore) (ops : list aop) : list (option ares) :=
  match ops with
  | [] => []
  | o :: rest =>
      match ref_step r o with
      | Some (r', res) => Some res :: ref_exec r' rest
      | None => None :: ref_exec r rest
      end
  end.

(** the client holds one `ArcSlabRef` and only `IntHandle`s *)
Definition simple (y : sys) : Prop :=
  y_refs y = 1 /\ y_tok y = 0 /\ Forall (fun e => h_kind (snd e) = KInt) (y_hs y).

Lemma hremove_Forall (P : nat * handle -> Prop) h hs : Forall P hs -> Forall P (hremove h hs).
Proof.
  induction hs as [|[k v] r IH]; cbn; [auto|]. intros H. inversion H; subst.
  destruct (k =? h)%nat; [auto | constructor; auto].
Qed.

Lemma simple_kind y h hd : simple y -> hfind h (y_hs y) = Some hd -> h_kind hd = KInt.
Proof.
  intros (_ & _ & HF) Hf. rewrite Forall_forall in HF. apply (HF (h, hd)). apply hfind_In. exact Hf.
Qed.

Lemma simple_step y o y' out :
  simple y -> item_op o = true -> step spp y o = Done y' out ->
  simple y' /\ exists sl', y_slab y' = Alive sl'.
Proof.
  intros HS Hi Hst. pose proof HS as (H1 & H2 & HF). unfold ArcSlab.step in Hst.
  destruct (y_slab y) as [sl|n] eqn:Ha; [|discriminate].
  destruct o as [h p|h h2|h|h|h|h|h|h| | | | | ]; try discriminate.
  - destruct (hfind h (y_hs y)); [discriminate|]. destruct (add_item spp sl p) as [[a sl']|]; [|discriminate].
    inversion Hst; subst y' out; unfold simple; cbn [y_refs y_tok y_hs y_slab]. split; [|eauto]. split; [exact H1|]. split; [exact H2|]. constructor; [reflexivity | exact HF].
  - destruct (hfind h (y_hs y)) as [hd|] eqn:Hf; [|discriminate]. destruct (hfind h2 (y_hs y)); [discriminate|].
    destruct (slot_retain sl (h_addr hd)) as [[sl1 rc]|]; [|discriminate]. inversion Hst; subst y' out; unfold simple; cbn [y_refs y_tok y_hs y_slab].
    split; [|eauto]. split; [exact H1|]. split; [exact H2|]. constructor; [exact (simple_kind y h hd HS Hf) | exact HF].
  - destruct (hfind h (y_hs y)) as [hd|] eqn:Hf; [|discriminate].
    destruct (slot_release sl (h_addr hd)) as [[sl1 d]|]; [|discriminate].
    rewrite (simple_kind y h hd HS Hf) in Hst. cbn [finish_handle] in Hst. inversion Hst; subst y' out; unfold simple; cbn [y_refs y_tok y_hs y_slab].
    split; [|eauto]. split; [exact H1|]. split; [exact H2|]. apply hremove_Forall. exact HF.
  - destruct (hfind h (y_hs y)) as [hd|] eqn:Hf; [|discriminate].
    destruct (slot_release sl (h_addr hd)) as [[sl1 d]|]; [|discriminate].
    rewrite (simple_kind y h hd HS Hf) in Hst. cbn [finish_handle] in Hst. inversion Hst; subst y' out; unfold simple; cbn [y_refs y_tok y_hs y_slab].
    split; [|eauto]. split; [exact H1|]. split; [exact H2|]. apply hremove_Forall. exact HF.
  - destruct (hfind h (y_hs y)) as [hd|] eqn:Hf; [|discriminate].
    destruct (slot_release sl (h_addr hd)) as [[sl1 d]|]; [|discriminate].
    rewrite (simple_kind y h hd HS Hf) in Hst. cbn [finish_handle] in Hst. inversion Hst; subst y' out; unfold simple; cbn [y_refs y_tok y_hs y_slab].
    split; [|eauto]. split; [exact H1|]. split; [exact H2|]. apply hremove_Forall. exact HF.
  - destruct (hfind h (y_hs y)) as [hd|] eqn:Hf; [|discriminate].
    destruct (slot_read sl (h_addr hd)) as [[p rc]|]; [|discriminate]. inversion Hst; subst y' out; unfold simple; cbn [y_refs y_tok y_hs y_slab].
    split; [exact HS|]. rewrite Ha. eauto.
Qed.

(** what an accepted abstract step of a related store says about the reference store: it
    accepts the operation too *)
Lemma ref_enabled (s1 s1' : astate addr) r ao res :
  sim addr N s1 (rabs r) -> astep addr addr_eqb s1 ao res s1' ->
  exists r' res2, ref_step r ao = Some (r', res2).
Proof using.
  intros Hsim Hst. pose proof Hsim as (Hk & Hv & _).
  assert (Hb : forall h id1, afind h (a_hs s1) = Some id1 -> exists id2, afind h (r_hs r) = Some id2).
  { intros h id1 Hf. destruct (afind h (r_hs r)) as [id2|] eqn:E; [eauto|].
    apply (sim_bound addr N s1 (rabs r) h Hsim) in E. congruence. }
  destruct ao as [h p|h h2|h|h]; cbn [astep] in Hst; cbn [ref_step].
  - destruct Hst as (Hf & _). apply (sim_bound addr N s1 (rabs r) h Hsim) in Hf. cbn [rabs a_hs] in Hf. rewrite Hf. eauto.
  - destruct Hst as (id1 & p & rc & Hf & Hf2 & Hm & _). destruct (Hb h id1 Hf) as [id2 Hf'].
    apply (sim_bound addr N s1 (rabs r) h2 Hsim) in Hf2. cbn [rabs a_hs] in Hf2. rewrite Hf', Hf2.
    pose proof (Hv h id1 id2 Hf Hf') as E. cbn [rabs a_map] in E. rewrite <- E, Hm. eauto.
  - destruct Hst as (id1 & p & rc & Hf & Hm & _). destruct (Hb h id1 Hf) as [id2 Hf']. rewrite Hf'.
    pose proof (Hv h id1 id2 Hf Hf') as E. cbn [rabs a_map] in E. rewrite <- E, Hm. destruct (rc =? 1); eauto.
  - destruct Hst as (id1 & p & rc & Hf & Hm & _). destruct (Hb h id1 Hf) as [id2 Hf']. rewrite Hf'.
    pose proof (Hv h id1 id2 Hf Hf') as E. cbn [rabs a_map] in E. rewrite <- E, Hm. eauto.
Qed.

(** an operation the slab rejects is rejected by the reference store *)
Lemma ref_rejects y sl o r :
  y_slab y = Alive sl -> item_op o = true -> step spp y o = Invalid ->
  sim addr N (abs sl (y_hs y)) (rabs r) -> ref_step r (aop_of o) = None.
Proof using.
  intros Ha Hi Hst Hsim.
  assert (Hn : forall h, hfind h (y_hs y) = None -> afind h (r_hs r) = None).
  { intros h Hf. apply (sim_bound addr N _ (rabs r) h Hsim). cbn [abs a_hs]. rewrite abs_hs_find, Hf. reflexivity. }
  assert (Hs : forall h hd, hfind h (y_hs y) = Some hd -> exists id, afind h (r_hs r) = Some id).
  { intros h hd Hf. destruct (afind h (r_hs r)) as [id|] eqn:E; [eauto|].
    apply (sim_bound addr N _ (rabs r) h Hsim) in E. cbn [abs a_hs] in E. rewrite abs_hs_find, Hf in E. discriminate. }
  unfold ArcSlab.step in Hst. rewrite Ha in Hst.
  destruct o as [h p|h h2|h|h|h|h|h|h| | | | | ]; try discriminate; unfold aop_of; cbn [aproj ref_step].
  - destruct (hfind h (y_hs y)) as [hd|] eqn:Hf.
    + destruct (Hs h hd Hf) as [id ->]. reflexivity.
    + destruct (add_item spp sl p) as [[? ?]|]; discriminate.
  - destruct (hfind h (y_hs y)) as [hd|] eqn:Hf; [|rewrite (Hn h Hf); reflexivity].
    destruct (hfind h2 (y_hs y)) as [hd2|] eqn:Hf2.
    + destruct (Hs h hd Hf) as [id ->]. destruct (Hs h2 hd2 Hf2) as [id2 ->]. reflexivity.
    + destruct (slot_retain sl (h_addr hd)) as [[? ?]|]; discriminate.
  - destruct (hfind h (y_hs y)) as [hd|] eqn:Hf; [|rewrite (Hn h Hf); reflexivity].
    destruct (slot_release sl (h_addr hd)) as [[? ?]|]; [|discriminate].
    destruct (h_kind hd); cbn in Hst; [discriminate|]. unfold finish_release in Hst. destruct (slab_release s); discriminate.
  - destruct (hfind h (y_hs y)) as [hd|] eqn:Hf; [|rewrite (Hn h Hf); reflexivity].
    destruct (slot_release sl (h_addr hd)) as [[? ?]|]; [|discriminate].
    destruct (h_kind hd); cbn in Hst; [discriminate|]. unfold finish_release in Hst. destruct (slab_release s); discriminate.
  - destruct (hfind h (y_hs y)) as [hd|] eqn:Hf; [|rewrite (Hn h Hf); reflexivity].
    destruct (slot_release sl (h_addr hd)) as [[? ?]|]; [|discriminate].
    destruct (h_kind hd); cbn in Hst; [discriminate|]. unfold finish_release in Hst. destruct (slab_release s); discriminate.
  - destruct (hfind h (y_hs y)) as [hd|] eqn:Hf; [|rewrite (Hn h Hf); reflexivity].
    destruct (slot_read sl (h_addr hd)) as [[? ?]|]; discriminate.
Qed.

Lemma finish_release_not_dead sl hs refs tok r log : finish_release sl hs refs tok r log <> Dead.
Proof using. unfold finish_release. destruct (slab_release sl); discriminate. Qed.

Lemma finish_handle_not_dead k sl hs refs tok r log : finish_handle k sl hs refs tok r log <> Dead.
Proof using. destruct k; [discriminate | apply finish_release_not_dead]. Qed.

Lemma step_dead y o : step spp y o = Dead -> exists n, y_slab y = Destroyed n.
Proof using.
  unfold ArcSlab.step. destruct (y_slab y) as [sl|n] eqn:Ha; [|eauto]. intros H. exfalso.
  destruct o;
    repeat match type of H with
           | finish_handle _ _ _ _ _ _ _ = Dead => exact (finish_handle_not_dead _ _ _ _ _ _ _ H)
           | finish_release _ _ _ _ _ _ = Dead => exact (finish_release_not_dead _ _ _ _ _ _ H)
           | context [match ?x with _ => _ end] => destruct x
           end; discriminate.
Qed.

(** ** the slab and the reference store return the same results for every item-level script,
    rejected operations included *)
Lemma equiv_from ops : forall y sl r,
  YInv spp y -> y_slab y = Alive sl -> simple y -> RInv r -> AInv N N.eqb (rabs r) ->
  sim addr N (abs sl (y_hs y)) (rabs r) ->
  forallb item_op ops = true ->
  arc_exec y ops = ref_exec r (map aop_of ops).
Proof.
  induction ops as [|o ops IH]; intros y sl r HY Ha HS HR HAr Hsim Hall; [reflexivity|].
  cbn [forallb] in Hall. apply andb_true_iff in Hall. destruct Hall as [Hi Hall].
  cbn [arc_exec map ref_exec].
  pose proof (step_inv spp spp_pos y o HY) as Hinv.
  destruct (step spp y o) as [y' out| | |] eqn:Hst.
  - destruct (simple_step y o y' out HS Hi Hst) as [HS' [sl' Ha']].
    pose proof (refine_step spp spp_pos y sl o y' out HY Ha Hst) as Href.
    assert (Hp : aproj o = Some (aop_of o)).
    { unfold aop_of. destruct o; try discriminate; reflexivity. }
    rewrite Hp in Href. destruct Href as (s' & Hast & Hhs' & Hmap').
    assert (Hast' : astep addr addr_eqb (abs sl (y_hs y)) (aop_of o) (ares_of o out) (abs sl' (y_hs y'))).
    { eapply astep_ext; [exact Hast | cbn [abs a_hs]; congruence |]. intros j. cbn [abs a_map]. symmetry. apply (Hmap' sl' Ha'). }
    destruct (ref_enabled _ _ r _ _ Hsim Hast') as (r' & res2 & Hrs). rewrite Hrs.
    destruct (ref_refines r _ r' res2 HR Hrs) as [Hrst HR'].
    destruct (astep_id_independent addr N addr_eqb N.eqb addr_eqb_eq Neqb_eq _ _ _ _ _ _ _
                (abs_inv spp spp_pos y sl HY Ha) HAr Hsim Hast' Hrst) as [Eres Hsim'].
    rewrite Eres. f_equal.
    apply (IH y' sl' r' Hinv Ha' HS' HR'); [|exact Hsim' | exact Hall].
    eapply astep_inv; [exact Neqb_eq | exact HAr | exact Hrst].
  - rewrite (ref_rejects y sl o r Ha Hi Hst Hsim). f_equal. eapply IH; eauto.
  - destruct (step_dead y o Hst) as [n Hn]. congruence.
  - contradiction.
Qed.

Theorem arcslab_equiv_reference ops :
  forallb item_op ops = true ->
  arc_exec (init spp) ops = ref_exec rinit (map aop_of ops).
Proof.
  intros Hall. apply (equiv_from ops (init spp) (slab_new spp) rinit).
  - apply init_inv. exact spp_pos.
  - reflexivity.
  - split; [reflexivity|]. split; [reflexivity | constructor].
  - apply rinit_inv.
  - apply rinit_inv.
  - split; [reflexivity|]. split; [intros h id1 id2 H; discriminate H | intros h h' a a' b b' H; discriminate H].
  - exact Hall.
Qed.

End Equiv.

(** the page size is not observable through the results of item-level scripts *)
Theorem arcslab_page_size_irrelevant spp1 spp2 :
  (1 <= spp1)%nat -> (1 <= spp2)%nat -> forall ops,
  forallb item_op ops = true ->
  arc_exec spp1 (init spp1) ops = arc_exec spp2 (init spp2) ops.
Proof.
  intros H1 H2 ops Hall.
  rewrite (arcslab_equiv_reference spp1 H1 ops Hall), (arcslab_equiv_reference spp2 H2 ops Hall). reflexivity.
Qed.
