(** * ARCSLAB proofs, part 4: the property-level theorems (re-stated in coq/Props/C05.v as
      C05_arcslab_...): partition of the pages, exact counts, no dangling handle, conservation of
      items over whole scripts (every item leaves its slot exactly once, exactly when its last
      handle goes), no leak, the slab dies exactly when its count reaches zero, LIFO re-use. *)

From Coq Require Import List NArith ZArith Bool Arith Lia.
From OxiVerif Require Import Tbl.ArcSlab Tbl.ArcSlabProofsBase Tbl.ArcSlabProofs Tbl.ArcSlabProofsStep.
Import ListNotations.

Local Open Scope N_scope.

Arguments N.add : simpl never.
Arguments N.sub : simpl never.
Arguments N.mul : simpl never.
Arguments N.div : simpl never.
Arguments hcount : simpl never.
Arguments ecount : simpl never.

(** ** bookkeeping over outputs: items that entered a slot / left it (dropped or returned) *)

Definition added (out : out) : N := match o_res out with RAddr _ => 1 | _ => 0 end.

Definition gone_ev (e : ev) : N := match e with EvDrop _ => 1 | _ => 0 end.

Fixpoint gone_log (l : list ev) : N :=
  match l with [] => 0 | e :: r => gone_ev e + gone_log r end.

Definition gone (out : out) : N :=
  (match o_res out with RSome _ => 1 | _ => 0 end) + gone_log (o_log out).

Fixpoint total (f : out -> N) (l : list outcome) : N :=
  match l with
  | [] => 0
  | Done _ o :: r => f o + total f r
  | _ :: r => total f r
  end.

Lemma gone_log_app l1 l2 : gone_log (l1 ++ l2) = gone_log l1 + gone_log l2.
Proof. induction l1 as [|e r IH]; cbn [app gone_log]; [lia | rewrite IH; lia]. Qed.

Section Thms.
Variable spp : nat.
Hypothesis spp_pos : (1 <= spp)%nat.
Local Set Default Proof Using "spp_pos".

Notation SInv := (SInv spp).
Notation YInv := (YInv spp).
Notation step := (step spp).
Local Notation step_end_spec := (step_end_spec spp spp_pos).
Local Notation step_add_spec := (step_add_spec spp spp_pos).
Local Notation step_clone_spec := (step_clone_spec spp spp_pos).
Local Notation step_force_spec := (step_force_spec spp spp_pos).
Local Notation step_release_like_spec := (step_release_like_spec spp spp_pos).
Local Notation step_inv := (step_inv spp spp_pos).
Local Notation RC_handle := (RC_handle spp spp_pos).
Local Notation no_handles_no_items := (no_handles_no_items spp spp_pos).

(** ** (a) the pages are partitioned into items, recycled free slots and never-used free slots;
    the free list is exactly [recycled ++ never-used], without repetition *)
Theorem partition y sl :
  YInv y -> y_slab y = Alive sl ->
  exists stack k,
    let pgs := pl_pages (sl_pl sl) in
    let never := fresh spp (length pgs) k in
    (k <= spp)%nat /\ pgs <> [] /\
    NoDup (stack ++ never) /\
    hd_error (stack ++ never) = Some (pl_free (sl_pl sl)) /\
    linked pgs (stack ++ never) /\
    (forall a, valid spp pgs a ->
       ((exists p rc, get_at pgs a = Some (Item p rc)) /\ ~ In a stack /\ ~ In a never) \/
       ((exists nx, get_at pgs a = Some (Free nx)) /\ In a stack /\ ~ In a never) \/
       ((exists nx, get_at pgs a = Some (Free nx)) /\ ~ In a stack /\ In a never)) /\
    (forall a, In a (stack ++ never) -> valid spp pgs a) /\
    sl_items sl = N.of_nat (cnt pgs).
Proof.
  intros (_ & HY) Ha. rewrite Ha in HY. destruct HY as ((stack & k & HSI & Hhd & Hit) & _).
  exists stack, k. cbv zeta. pose proof HSI as (Hs & Hk & Hnd & Hst & Hl & Hitm).
  split; [exact Hk|]. split; [exact (proj1 Hs)|].
  split; [exact (SI_chain_NoDup spp spp_pos _ _ _ HSI)|]. split; [exact Hhd|]. split; [exact Hl|].
  split; [intros a Hv; exact (SI_partition spp spp_pos _ _ _ a HSI Hv)|]. split; [|exact Hit].
  intros a Hin. apply in_app_or in Hin. destruct Hin as [Hin|Hin]; [apply Hst; exact Hin|].
  apply (fresh_In spp spp_pos) in Hin. split; [|lia].
  assert (length (pl_pages (sl_pl sl)) <> 0)%nat by (destruct Hs as [H _]; destruct (pl_pages (sl_pl sl)); cbn; congruence).
  lia.
Qed.

(** ** (b) counts *)
Theorem rc_exact y sl a p rc :
  YInv y -> y_slab y = Alive sl -> slot_read sl a = Some (p, rc) ->
  rc = N.of_nat (hcount a (y_hs y)) /\ 1 <= rc.
Proof.
  intros (_ & HY) Ha Hr. rewrite Ha in HY. destruct HY as (_ & HRC & _).
  specialize (HRC a). rewrite Hr in HRC. lia.
Qed.

Theorem free_slot_no_handle y sl a :
  YInv y -> y_slab y = Alive sl -> slot_read sl a = None -> hcount a (y_hs y) = 0%nat.
Proof.
  intros (_ & HY) Ha Hr. rewrite Ha in HY. destruct HY as (_ & HRC & _).
  specialize (HRC a). rewrite Hr in HRC. exact HRC.
Qed.

(** no use-after-free: every handle variable of a reachable state refers to a live item *)
Theorem no_dangling y sl h hd :
  YInv y -> y_slab y = Alive sl -> hfind h (y_hs y) = Some hd ->
  exists p rc, slot_read sl (h_addr hd) = Some (p, rc) /\ 1 <= rc.
Proof.
  intros (_ & HY) Ha Hf. rewrite Ha in HY. destruct HY as (_ & HRC & _).
  destruct (RC_handle _ _ _ _ HRC (hfind_In _ _ _ Hf)) as (p & rc & Hr & E & Hp).
  exists p, rc. split; [exact Hr | lia].
Qed.

Theorem num_items_exact y sl :
  YInv y -> y_slab y = Alive sl -> sl_items sl = N.of_nat (cnt (pl_pages (sl_pl sl))).
Proof.
  intros (_ & HY) Ha. rewrite Ha in HY. destruct HY as ((stack & k & _ & _ & Hit) & _). exact Hit.
Qed.

(** ** (c) no leak: no handle -> no item, every slot of every page is on the free list *)
Theorem no_handles_all_free y sl :
  YInv y -> y_slab y = Alive sl -> y_hs y = [] ->
  sl_items sl = 0 /\
  exists ch, NoDup ch /\ hd_error ch = Some (pl_free (sl_pl sl)) /\ linked (pl_pages (sl_pl sl)) ch /\
             forall a, valid spp (pl_pages (sl_pl sl)) a <-> In a ch.
Proof.
  intros HY Ha Hh. pose proof HY as (_ & HY0). rewrite Ha in HY0. destruct HY0 as (HS & HRC & _).
  rewrite Hh in HRC.
  destruct (partition y sl HY Ha) as (stack & k & Hk & Hne & Hnd & Hhd & Hl & Hpart & Hval & Hit).
  cbv zeta in *. split; [apply no_handles_no_items; assumption|].
  eexists. split; [exact Hnd|]. split; [exact Hhd|]. split; [exact Hl|].
  intros a. split; [|apply Hval].
  intros Hv. destruct (Hpart a Hv) as [((p & rc & Hg) & _)|[(_ & Hin & _)|(_ & _ & Hin)]].
  - exfalso. specialize (HRC a). unfold slot_read in HRC. rewrite Hg in HRC. unfold hcount in HRC. cbn in HRC. lia.
  - apply in_or_app. auto.
  - apply in_or_app. auto.
Qed.

(** ** the slab is alive exactly as long as its count (`ArcSlabRef`s + raw references +
    `ExtHandle`s) is not zero *)
Theorem alive_iff_count y :
  YInv y -> (obs_alive y = true <-> 1 <= slab_count y) /\ (obs_alive y = false <-> slab_count y = 0).
Proof.
  intros (_ & HY). unfold obs_alive, slab_count. destruct (y_slab y) as [sl|n].
  - destruct HY as (_ & _ & Hrc & Hpos). split; split; intros H; try reflexivity; try discriminate; lia.
  - destruct HY as (H1 & H2 & H3 & _). split; split; intros H; try reflexivity; try discriminate; lia.
Qed.

Theorem destroyed_leak_free y n :
  YInv y -> y_slab y = Destroyed n -> y_hs y = [] -> n = 0.
Proof. intros (_ & HY) Ha Hh. rewrite Ha in HY. destruct HY as (_ & _ & _ & H). auto. Qed.

(** ** one step: items are conserved; `D` is dropped exactly when the slab dies *)
Theorem step_delta y o y' out :
  YInv y -> step y o = Done y' out ->
  live y' + gone out = live y + added out /\
  (In EvData (o_log out) <-> obs_alive y' = false) /\
  (obs_alive y' = false -> slab_count y = 1).
Proof.
  intros HY Hst. destruct (y_slab y) as [sl|n] eqn:Ha; [|unfold ArcSlab.step in Hst; rewrite Ha in Hst; discriminate].
  assert (Hend : forall h, is_end o h ->
            live y' + gone out = live y + added out /\ (In EvData (o_log out) <-> obs_alive y' = false) /\
            (obs_alive y' = false -> slab_count y = 1)).
  { intros h He. destruct (hfind h (y_hs y)) as [hd|] eqn:Hf.
    - destruct (step_end_spec y sl o h hd HY Ha He Hf)
        as (p & rc & y1 & out1 & _ & _ & Hst1 & _ & _ & _ & _ & Hres & Hlog & Hlive & Hl1 & Hd).
      rewrite Hst in Hst1. inversion Hst1; subst y1 out1. clear Hst1.
      unfold gone, added. rewrite Hres, Hlog, gone_log_app.
      set (last := (hcount (h_addr hd) (y_hs y) =? 1)%nat) in *.
      set (dies := is_ext (h_kind hd) && (slab_count y =? 1)) in *.
      assert (Hg : (match end_res o (if last then Some p else None) with RSome _ => 1 | _ => 0 end)
                   + gone_log (end_log o (if last then Some p else None)) = if last then 1 else 0).
      { destruct He as [-> | [-> | ->]]; destruct last; reflexivity. }
      assert (Ha0 : match end_res o (if last then Some p else None) with RAddr _ => 1 | _ => 0 end = 0).
      { destruct He as [-> | [-> | ->]]; destruct last; reflexivity. }
      assert (Hnd : ~ In EvData (end_log o (if last then Some p else None))).
      { destruct He as [-> | [-> | ->]]; destruct last; cbn; intuition discriminate. }
      rewrite Ha0. split; [|split].
      + assert (Hz : gone_log (if dies then [EvData] else []) = 0) by (destruct dies; reflexivity).
        rewrite Hz, Hlive. destruct last; [specialize (Hl1 eq_refl)|]; lia.
      + rewrite in_app_iff. unfold obs_alive. destruct dies.
        * rewrite Hd. cbn. tauto.
        * destruct Hd as (sl' & -> & _). cbn. split; [tauto | discriminate].
      + unfold obs_alive. destruct dies eqn:Ed.
        * intros _. apply andb_true_iff in Ed. destruct Ed as [_ Ed]. apply N.eqb_eq in Ed. exact Ed.
        * destruct Hd as (sl' & -> & _). discriminate.
    - destruct He as [-> | [-> | ->]]; unfold ArcSlab.step in Hst; rewrite Ha, Hf in Hst; discriminate. }
  assert (Hsame : forall r, y' = y -> out = mkOut r [] -> (forall a, r <> RAddr a) -> (forall p, r <> RSome p) ->
            live y' + gone out = live y + added out /\ (In EvData (o_log out) <-> obs_alive y' = false) /\
            (obs_alive y' = false -> slab_count y = 1)).
  { intros r -> -> H1 H2. unfold gone, added, obs_alive; cbn [o_res o_log gone_log]. rewrite Ha.
    split; [destruct r; try lia; [exfalso; eapply H1; eauto | exfalso; eapply H2; eauto]|].
    split; [split; [intros [] | discriminate] | discriminate]. }
  destruct o as [h p|h h2|h|h|h|h|h|h| | | | | ].
  - (* OAdd *)
    destruct (hfind h (y_hs y)) as [hd|] eqn:Hf; [unfold ArcSlab.step in Hst; rewrite Ha, Hf in Hst; discriminate|].
    destruct (step_add_spec y sl h p HY Ha Hf) as (a & sl' & Hst1 & _ & _ & _ & _ & _ & Hit).
    rewrite Hst in Hst1. inversion Hst1; subst y' out.
    unfold gone, added, live, obs_alive; cbn. rewrite Ha. split; [lia|]. split; [split; [intros [] | discriminate] | discriminate].
  - (* OClone *)
    destruct (hfind h (y_hs y)) as [hd|] eqn:Hf; [destruct (hfind h2 (y_hs y)) as [hd2|] eqn:Hf2|];
      try (unfold ArcSlab.step in Hst; rewrite Ha, Hf, ?Hf2 in Hst; discriminate).
    destruct (step_clone_spec y sl h h2 hd HY Ha Hf Hf2) as (p & rc & sl' & _ & Hst1 & _ & _ & Hit & _).
    rewrite Hst in Hst1. inversion Hst1; subst y' out.
    unfold gone, added, live, obs_alive; cbn. rewrite Ha. split; [lia|]. split; [split; [intros [] | discriminate] | discriminate].
  - apply (Hend h). left; reflexivity.
  - apply (Hend h). right; right; reflexivity.
  - apply (Hend h). right; left; reflexivity.
  - (* OForce *)
    destruct (hfind h (y_hs y)) as [[a [|]]|] eqn:Hf; try (unfold ArcSlab.step in Hst; rewrite Ha, Hf in Hst; discriminate).
    pose proof HY as (Hnd & HY0). rewrite Ha in HY0. destruct HY0 as (HS & HRC & Hrc & Hpos).
    destruct (RC_handle _ _ _ _ HRC (hfind_In _ _ _ Hf)) as (p & rc & Hr & Hrceq & Hp). cbn [h_addr] in *.
    destruct (N.eqb_spec rc 1) as [E|E].
    + assert (H1 : hcount a (y_hs y) = 1%nat) by lia.
      destruct (step_force_spec y sl h a HY Ha Hf H1) as (p' & sl' & _ & Hst1 & _ & _ & Hit & Hit1 & _).
      rewrite Hst in Hst1. inversion Hst1; subst y' out.
      unfold gone, added, live, obs_alive; cbn. rewrite Ha. split; [lia|]. split; [split; [intros [] | discriminate] | discriminate].
    + unfold ArcSlab.step in Hst. rewrite Ha, Hf, Hr in Hst. apply N.eqb_neq in E. rewrite E in Hst. discriminate.
  - (* OExt *)
    destruct (hfind h (y_hs y)) as [[a [|]]|] eqn:Hf; try (unfold ArcSlab.step in Hst; rewrite Ha, Hf in Hst; discriminate).
    unfold ArcSlab.step in Hst. rewrite Ha, Hf in Hst. inversion Hst; subst y' out.
    unfold gone, added, live, obs_alive; cbn. rewrite Ha. split; [lia|]. split; [split; [intros [] | discriminate] | discriminate].
  - (* OGet *)
    destruct (hfind h (y_hs y)) as [hd|] eqn:Hf; [|unfold ArcSlab.step in Hst; rewrite Ha, Hf in Hst; discriminate].
    unfold ArcSlab.step in Hst. rewrite Ha, Hf in Hst.
    destruct (slot_read sl (h_addr hd)) as [[p rc]|]; [|discriminate]. inversion Hst; subst y' out.
    apply (Hsame (RVal p rc)); [reflexivity | reflexivity | discriminate | discriminate].
  - (* ONum *)
    unfold ArcSlab.step in Hst. rewrite Ha in Hst. inversion Hst; subst y' out.
    apply (Hsame (RNum (sl_items sl))); [reflexivity | reflexivity | discriminate | discriminate].
  - (* ORetain *)
    unfold ArcSlab.step in Hst. rewrite Ha in Hst. inversion Hst; subst y' out.
    unfold gone, added, live, obs_alive; cbn. rewrite Ha. split; [lia|]. split; [split; [intros [] | discriminate] | discriminate].
  - (* ORelease *)
    unfold ArcSlab.step in Hst. rewrite Ha in Hst. destruct (N.eqb_spec (y_tok y) 0) as [E|E]; [discriminate|].
    destruct (step_release_like_spec y sl (y_refs y) (y_tok y - 1) HY Ha) as (y1 & out1 & Hst1 & _ & _ & _ & _ & Hres & Hlive & Hc); [lia|].
    rewrite Hst in Hst1. inversion Hst1; subst y1 out1.
    unfold gone, added, obs_alive. rewrite Hres, Hlive.
    destruct Hc as [(E1 & -> & ->)|(E1 & -> & ->)]; cbn; (split; [lia|]); (split; [|try discriminate; auto]).
    + tauto.
    + split; [intros [] | discriminate].
  - (* ORefClone *)
    unfold ArcSlab.step in Hst. rewrite Ha in Hst. destruct (N.eqb_spec (y_refs y) 0) as [E|E]; [discriminate|].
    inversion Hst; subst y' out.
    unfold gone, added, live, obs_alive; cbn. rewrite Ha. split; [lia|]. split; [split; [intros [] | discriminate] | discriminate].
  - (* ORefDrop *)
    unfold ArcSlab.step in Hst. rewrite Ha in Hst. destruct (N.eqb_spec (y_refs y) 0) as [E|E]; [discriminate|].
    destruct (step_release_like_spec y sl (y_refs y - 1) (y_tok y) HY Ha) as (y1 & out1 & Hst1 & _ & _ & _ & _ & Hres & Hlive & Hc); [lia|].
    rewrite Hst in Hst1. inversion Hst1; subst y1 out1.
    unfold gone, added, obs_alive. rewrite Hres, Hlive.
    destruct Hc as [(E1 & -> & ->)|(E1 & -> & ->)]; cbn; (split; [lia|]); (split; [|try discriminate; auto]).
    + tauto.
    + split; [intros [] | discriminate].
Qed.

(** ** whole scripts: (items ever added) = (items dropped or returned) + (items in their slots) *)
Theorem run_conservation ops : forall y yf outs,
  YInv y -> run spp y ops = Some (yf, outs) ->
  live yf + total gone outs = live y + total added outs.
Proof.
  induction ops as [|o r IH]; intros y yf outs HY Hrun; cbn [run] in Hrun.
  - inversion Hrun; subst. cbn. lia.
  - pose proof (step_inv y o HY) as Hinv. destruct (step y o) as [y' out| | |] eqn:E.
    + destruct (run spp y' r) as [[yf' l]|] eqn:Er; [|discriminate]. inversion Hrun; subst yf outs.
      destruct (step_delta y o y' out HY E) as (Hd & _). specialize (IH y' yf' l Hinv Er).
      cbn [total]. lia.
    + destruct (run spp y r) as [[yf' l]|] eqn:Er; [|discriminate]. inversion Hrun; subst yf outs.
      specialize (IH y yf' l HY Er). cbn [total]. exact IH.
    + destruct (run spp y r) as [[yf' l]|] eqn:Er; [|discriminate]. inversion Hrun; subst yf outs.
      specialize (IH y yf' l HY Er). cbn [total]. exact IH.
    + discriminate.
Qed.

(** from a new slab: after any script, every item that was added has been dropped / returned
    exactly once or is still in its slot; with no handle left nothing is in a slot *)
Theorem run_init_conservation ops :
  exists yf outs, run spp (init spp) ops = Some (yf, outs) /\ YInv yf /\
    total added outs = total gone outs + live yf /\
    (y_hs yf = [] -> total added outs = total gone outs).
Proof.
  destruct (run_init_inv spp spp_pos ops) as (yf & outs & Hrun & HYf).
  exists yf, outs. split; [exact Hrun|]. split; [exact HYf|].
  pose proof (run_conservation ops _ _ _ (init_inv spp spp_pos) Hrun) as H.
  assert (Hl0 : live (init spp) = 0) by reflexivity. rewrite Hl0 in H.
  split; [lia|]. intros Hh.
  assert (live yf = 0); [|lia].
  unfold live. destruct (y_slab yf) as [sl|n] eqn:Ha.
  - apply (proj1 (no_handles_all_free yf sl HYf Ha Hh)).
  - apply (destroyed_leak_free yf n HYf Ha Hh).
Qed.

(** ** LIFO: the slot whose item has just left is the next one to be handed out *)
Theorem lifo_reuse y sl o h hd y' out h2 p2 :
  YInv y -> y_slab y = Alive sl -> is_end o h -> hfind h (y_hs y) = Some hd ->
  hcount (h_addr hd) (y_hs y) = 1%nat ->
  step y o = Done y' out -> obs_alive y' = true -> hfind h2 (y_hs y') = None ->
  exists y'', step y' (OAdd h2 p2) = Done y'' (mkOut (RAddr (h_addr hd)) []).
Proof.
  intros HY Ha He Hf H1 Hst Hal Hf2.
  destruct (step_end_spec y sl o h hd HY Ha He Hf)
    as (p & rc & y1 & out1 & _ & _ & Hst1 & HY1 & _ & _ & _ & _ & _ & _ & _ & Hd).
  rewrite Hst in Hst1. inversion Hst1; subst y1 out1. clear Hst1.
  rewrite H1 in Hd. cbn [Nat.eqb] in Hd.
  destruct (is_ext (h_kind hd) && (slab_count y =? 1)).
  - unfold obs_alive in Hal. rewrite Hd in Hal. discriminate.
  - destruct Hd as (sl' & Ha' & _ & _ & Hfree).
    destruct (step_add_spec y' sl' h2 p2 HY1 Ha' Hf2) as (a & sl'' & Hst2 & _ & Hfa & _).
    rewrite Hfa, (Hfree eq_refl) in Hst2. eauto.
Qed.

(** ** reachable states: after ANY script from a new slab *)
Definition reachable (y : sys) : Prop :=
  exists ops outs, run spp (init spp) ops = Some (y, outs).

Lemma run_app ops1 : forall y ops2 y1 l1,
  run spp y ops1 = Some (y1, l1) ->
  run spp y (ops1 ++ ops2) = match run spp y1 ops2 with Some (y2, l2) => Some (y2, l1 ++ l2) | None => None end.
Proof using.
  induction ops1 as [|o r IH]; intros y ops2 y1 l1 H; cbn [run app] in *.
  - inversion H; subst. destruct (run spp y1 ops2) as [[y2 l2]|]; reflexivity.
  - destruct (step y o) as [y' out| | |] eqn:E.
    + destruct (run spp y' r) as [[yf l]|] eqn:Er; [|discriminate]. inversion H; subst.
      rewrite (IH y' ops2 y1 l Er). destruct (run spp y1 ops2) as [[y2 l2]|]; reflexivity.
    + destruct (run spp y r) as [[yf l]|] eqn:Er; [|discriminate]. inversion H; subst.
      rewrite (IH y ops2 y1 l Er). destruct (run spp y1 ops2) as [[y2 l2]|]; reflexivity.
    + destruct (run spp y r) as [[yf l]|] eqn:Er; [|discriminate]. inversion H; subst.
      rewrite (IH y ops2 y1 l Er). destruct (run spp y1 ops2) as [[y2 l2]|]; reflexivity.
    + discriminate.
Qed.

Theorem reachable_init : reachable (init spp).
Proof using. exists [], []. reflexivity. Qed.

Theorem reachable_inv y : reachable y -> YInv y.
Proof.
  intros (ops & outs & Hrun). destruct (run_init_inv spp spp_pos ops) as (yf & l & Hrun' & HY).
  rewrite Hrun in Hrun'. inversion Hrun'; subst. exact HY.
Qed.

Theorem reachable_step y o y' out : reachable y -> step y o = Done y' out -> reachable y'.
Proof using.
  intros (ops & outs & Hrun) Hst. exists (ops ++ [o]), (outs ++ [Done y' out]).
  rewrite (run_app ops _ [o] y outs Hrun). cbn [run]. rewrite Hst. reflexivity.
Qed.

Theorem reachable_never_broken y o : reachable y -> step y o <> Broken.
Proof.
  intros HR E. pose proof (step_inv y o (reachable_inv y HR)) as H. rewrite E in H. exact H.
Qed.

End Thms.
