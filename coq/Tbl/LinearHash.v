(** * Model of [linear_hashtbl::raw::RawTable] (crates/linear-hashtbl/src/raw.rs)

    Executable Gallina mirror of the open-addressing table that backs the
    unique tables.  One definition per Rust function; loops become recursion
    on explicit fuel and return [None] when the fuel runs out (the real code
    would spin forever there), so that divergence is a visible value of the
    model and is excluded by theorems, never hidden behind a default.

    Elements are [N] keys; the hash function is a parameter of every
    operation that needs it (the table stores the status derived from the
    hash, exactly like the code, so that rehashing does not call the hash
    function again).  [sbits] is the number of hash bits a status keeps:
    31 for [Status = u32], 63 for [Status = usize].

    No proofs in this file: it must stay loadable (and extractable) even if a
    proof elsewhere breaks. *)

From Coq Require Import List NArith Bool Arith.
Import ListNotations.

Inductive slot := Free | Tomb | Full (st : N) (v : N).

Record tbl := mkTbl { data : list slot; len : N; free : N }.

Definition slot_is_full (s : slot) : bool :=
  match s with Full _ _ => true | _ => false end.
Definition slot_is_free (s : slot) : bool :=
  match s with Free => true | _ => false end.

Section Model.
Variable sbits : N.

(** [Status::from_hash]: keep the low [sbits] bits. *)
Definition status (hash : N) : N := N.modulo hash (N.pow 2 sbits).

Definition size (t : tbl) : nat := length (data t).
Definition sizeN (t : tbl) : N := N.of_nat (size t).

(** [RawTable::new] *)
Definition empty : tbl := mkTbl [] 0 0.

(** [usize::next_power_of_two] *)
Definition next_pow2 (n : N) : N :=
  if N.leb n 1 then 1%N else N.pow 2 (N.log2_up n).

Definition RATIO_N : N := 3.
Definition RATIO_D : N := 4.
Definition MIN_CAP : N := 16.

(** [RawTable::next_capacity] (the [check_capacity] panic for capacities
    above 2^sbits is outside the model: sizes are unbounded here). *)
Definition next_capacity (requested : N) : N :=
  if N.eqb requested 0 then 0%N
  else N.max (next_pow2 (N.div (N.mul requested RATIO_D) RATIO_N)) MIN_CAP.

(** [RawTable::with_capacity] *)
Definition with_capacity (c : N) : tbl :=
  let cap := next_capacity c in
  mkTbl (repeat Free (N.to_nat cap)) 0 cap.

(** index of a hash / status in a table of [n] slots ([x & (n - 1)] for a
    power of two [n]; the model uses [mod], equal on powers of two). *)
Definition home (x : N) (n : nat) : nat := N.to_nat (N.modulo x (N.of_nat n)).

Definition next_idx (i n : nat) : nat := Nat.modulo (S i) n.

Definition get_slot (d : list slot) (i : nat) : slot := nth i d Free.

Fixpoint set_slot (d : list slot) (i : nat) (s : slot) : list slot :=
  match d, i with
  | [], _ => []
  | _ :: r, O => s :: r
  | x :: r, S j => x :: set_slot r j s
  end.

(** the inner loop of [reserve_rehash]: first FREE slot from [i] *)
Fixpoint place (fuel : nat) (d : list slot) (i : nat) (st v : N) : option (list slot) :=
  match fuel with
  | O => None
  | S f =>
    match get_slot d i with
    | Free => Some (set_slot d i (Full st v))
    | _ => place f d (next_idx i (length d)) st v
    end
  end.

Fixpoint rehash_into (old : list slot) (nd : list slot) : option (list slot) :=
  match old with
  | [] => Some nd
  | Full st v :: r =>
    match place (length nd) nd (home st (length nd)) st v with
    | Some nd' => rehash_into r nd'
    | None => None
    end
  | _ :: r => rehash_into r nd
  end.

(** [RawTable::reserve_rehash] *)
Definition reserve_rehash (t : tbl) (additional : N) : option tbl :=
  let new_cap := next_capacity (N.add (len t) additional) in
  if N.eqb new_cap 0 then Some (mkTbl [] (len t) 0)
  else
    match rehash_into (data t) (repeat Free (N.to_nat new_cap)) with
    | Some nd => Some (mkTbl nd (len t) (N.sub new_cap (len t)))
    | None => None
    end.

(** [RawTable::reserve] *)
Definition reserve (t : tbl) (additional : N) : option tbl :=
  let spare := N.add additional (N.mul (N.div (sizeN t) RATIO_D) (N.sub RATIO_D RATIO_N)) in
  if N.ltb (free t) spare then reserve_rehash t additional else Some t.

(** [RawTable::find]; outer [None] = the loop does not terminate *)
Fixpoint find_loop (fuel : nat) (d : list slot) (i : nat) (hs : N) (eq : N -> bool)
  : option (option nat) :=
  match fuel with
  | O => None
  | S f =>
    match get_slot d i with
    | Full st v =>
      if N.eqb st hs && eq v then Some (Some i)
      else find_loop f d (next_idx i (length d)) hs eq
    | Free => Some None
    | Tomb => find_loop f d (next_idx i (length d)) hs eq
    end
  end.

Definition find (t : tbl) (hash : N) (eq : N -> bool) : option (option nat) :=
  if N.eqb (len t) 0 then Some None
  else find_loop (size t) (data t) (home hash (size t)) (status hash) eq.

(** the loop of [find_or_find_insert_slot] (after [reserve(1)]);
    [inl i] = [Ok(i)], [inr i] = [Err(i)] *)
Fixpoint fofis_loop (fuel : nat) (d : list slot) (i : nat) (hs : N) (eq : N -> bool)
  (first_tomb : option nat) : option (nat + nat) :=
  match fuel with
  | O => None
  | S f =>
    match get_slot d i with
    | Full st v =>
      if N.eqb st hs && eq v then Some (inl i)
      else fofis_loop f d (next_idx i (length d)) hs eq first_tomb
    | Free => Some (inr (match first_tomb with Some j => j | None => i end))
    | Tomb =>
      fofis_loop f d (next_idx i (length d)) hs eq
        (match first_tomb with Some j => Some j | None => Some i end)
    end
  end.

Definition find_or_find_insert_slot (t : tbl) (hash : N) (eq : N -> bool)
  : option (tbl * (nat + nat)) :=
  match reserve t 1 with
  | None => None
  | Some t1 =>
    match fofis_loop (size t1) (data t1) (home hash (size t1)) (status hash) eq None with
    | Some r => Some (t1, r)
    | None => None
    end
  end.

(** [RawTable::insert_in_slot_unchecked] *)
Definition insert_in_slot (t : tbl) (hash : N) (i : nat) (v : N) : tbl :=
  let fr := match get_slot (data t) i with Tomb => free t | _ => N.sub (free t) 1 end in
  mkTbl (set_slot (data t) i (Full (status hash) v)) (N.add (len t) 1) fr.

(** [RawTable::remove_at_slot_unchecked] *)
Definition remove_at_slot (t : tbl) (i : nat) : tbl * option N :=
  let nxt := get_slot (data t) (next_idx i (size t)) in
  let val := match get_slot (data t) i with Full _ v => Some v | _ => None end in
  if slot_is_free nxt
  then (mkTbl (set_slot (data t) i Free) (N.sub (len t) 1) (N.add (free t) 1), val)
  else (mkTbl (set_slot (data t) i Tomb) (N.sub (len t) 1) (free t), val).

(** [RawTable::remove_entry] *)
Definition remove_entry (t : tbl) (hash : N) (eq : N -> bool) : option (tbl * option N) :=
  match find t hash eq with
  | None => None
  | Some None => Some (t, None)
  | Some (Some i) => Some (remove_at_slot t i)
  end.

(** [RawTable::get] *)
Definition get (t : tbl) (hash : N) (eq : N -> bool) : option (option N) :=
  match find t hash eq with
  | None => None
  | Some None => Some None
  | Some (Some i) =>
    Some (match get_slot (data t) i with Full _ v => Some v | _ => None end)
  end.

(** [RawTable::clear]: slots are reset front to back until [len] elements were
    seen; [free] is left as it is (the code does not touch it). *)
Fixpoint clear_loop (d : list slot) (remaining : N) : list slot :=
  if N.eqb remaining 0 then d
  else match d with
       | [] => []
       | Full _ _ :: r => Free :: clear_loop r (N.sub remaining 1)
       | _ :: r => Free :: clear_loop r remaining
       end.

Definition clear (t : tbl) : tbl :=
  if N.eqb (len t) 0 then t else mkTbl (clear_loop (data t) (len t)) 0 (free t).

(** the iterators: the first [len] occupied slots in slot order *)
Fixpoint iter_loop (d : list slot) (remaining : N) : list N :=
  if N.eqb remaining 0 then []
  else match d with
       | [] => []
       | Full _ v :: r => v :: iter_loop r (N.sub remaining 1)
       | _ :: r => iter_loop r remaining
       end.

Definition iter (t : tbl) : list N := iter_loop (data t) (len t).

(** [RawTable::drain] followed by exhausting and/or dropping the [Drain]:
    [drain()] sets [len = 0] and [free = slots]; the iterator hands out the
    first [len] elements in slot order and resets the slots it passes;
    [Drain::drop] resets every remaining slot. *)
Definition drain (t : tbl) : tbl * list N :=
  (mkTbl (repeat Free (size t)) 0 (sizeN t), iter t).

(** [RawTable::retain]: walks the slots from the back.  State of the loop:
    [last_is_free], remaining count [i], [len], [free].  The list is processed
    reversed; the result is reversed back. *)
Fixpoint retain_loop (rd : list slot) (pred : N -> bool) (last_is_free : bool)
  (i : N) (ln fr : N) (dropped : list N) : list slot * N * N * list N :=
  if N.eqb i 0 then (rd, ln, fr, dropped)
  else match rd with
  | [] => ([], ln, fr, dropped)
  | Free :: r =>
    let '(r', ln', fr', dr') := retain_loop r pred true i ln fr dropped in
    (Free :: r', ln', fr', dr')
  | Tomb :: r =>
    if last_is_free then
      let '(r', ln', fr', dr') := retain_loop r pred true i ln (N.add fr 1) dropped in
      (Free :: r', ln', fr', dr')
    else
      let '(r', ln', fr', dr') := retain_loop r pred false i ln fr dropped in
      (Tomb :: r', ln', fr', dr')
  | Full st v :: r =>
    if pred v then
      let '(r', ln', fr', dr') := retain_loop r pred false (N.sub i 1) ln fr dropped in
      (Full st v :: r', ln', fr', dr')
    else if last_is_free then
      let '(r', ln', fr', dr') :=
        retain_loop r pred true (N.sub i 1) (N.sub ln 1) (N.add fr 1) (v :: dropped) in
      (Free :: r', ln', fr', dr')
    else
      let '(r', ln', fr', dr') :=
        retain_loop r pred false (N.sub i 1) (N.sub ln 1) fr (v :: dropped) in
      (Tomb :: r', ln', fr', dr')
  end.

Definition retain (t : tbl) (pred : N -> bool) : option (tbl * list N) :=
  if N.eqb (len t) 0 then Some (t, [])
  else
    let lif := slot_is_free (get_slot (data t) 0) in
    let '(rd, ln, fr, dropped) :=
      retain_loop (rev (data t)) pred lif (len t) (len t) (free t) [] in
    let t1 := mkTbl (rev rd) ln fr in
    if N.ltb ln (N.mul (N.div (sizeN t1) RATIO_D) (N.sub RATIO_D RATIO_N))
       && N.leb MIN_CAP (sizeN t1)
    then match reserve_rehash t1 0 with
         | Some t2 => Some (t2, dropped)
         | None => None
         end
    else Some (t1, dropped).

(** ** Set-level client protocol (how the unique tables and the harness use
    the table): elements are their own keys. *)
Variable hash : N -> N.

Definition insert (t : tbl) (k : N) : option (tbl * bool) :=
  match find_or_find_insert_slot t (hash k) (N.eqb k) with
  | None => None
  | Some (t1, inl _) => Some (t1, false)
  | Some (t1, inr i) => Some (insert_in_slot t1 (hash k) i k, true)
  end.

Definition remove (t : tbl) (k : N) : option (tbl * option N) :=
  remove_entry t (hash k) (N.eqb k).

Definition lookup (t : tbl) (k : N) : option (option N) :=
  get t (hash k) (N.eqb k).

End Model.

(** ** Operation language shared with the harness *)
Inductive op :=
| OInsert (k : N) | ORemove (k : N) | OLookup (k : N)
| ORetain (m r : N)          (* keep [k] iff [k mod m <> r] *)
| OReserve (n : N) | OClear | ODrain | OIter | OLen | OClone
| OWithCap (n : N)           (* replace the table by [with_capacity n] *)
| ODrainPart (j : N)         (* take [j] elements from a [Drain], then drop it *)
| OIntoIter.                 (* consume the table, continue with [new()] *)

Inductive out :=
| RBool (b : bool) | ROpt (o : option N) | RList (l : list N) | RNum (n : N) | RUnit
| RDiverge.

Definition retain_pred (m r k : N) : bool := negb (N.eqb (N.modulo k m) r).

Definition step (sbits : N) (hash : N -> N) (t : tbl) (o : op) : tbl * out :=
  match o with
  | OInsert k =>
    match insert sbits hash t k with Some (t', b) => (t', RBool b) | None => (t, RDiverge) end
  | ORemove k =>
    match remove sbits hash t k with Some (t', r) => (t', ROpt r) | None => (t, RDiverge) end
  | OLookup k =>
    match lookup sbits hash t k with Some r => (t, ROpt r) | None => (t, RDiverge) end
  | ORetain m r =>
    match retain t (retain_pred m r) with
    | Some (t', dropped) => (t', RList dropped) | None => (t, RDiverge) end
  | OReserve n =>
    match reserve t n with Some t' => (t', RUnit) | None => (t, RDiverge) end
  | OClear => (clear t, RUnit)
  | ODrain => let '(t', l) := drain t in (t', RList l)
  | OIter => (t, RList (iter t))
  | OLen => (t, RNum (len t))
  | OClone => (t, RUnit)
  | OWithCap n => (with_capacity n, RUnit)
  | ODrainPart j => let '(t', l) := drain t in (t', RList (firstn (N.to_nat j) l))
  | OIntoIter => (empty, RList (iter t))
  end.

Fixpoint run (sbits : N) (hash : N -> N) (t : tbl) (ops : list op) : list out :=
  match ops with
  | [] => []
  | o :: r => let '(t', x) := step sbits hash t o in x :: run sbits hash t' r
  end.

(** the adversarial hash functions used by the correspondence check *)
Definition hash_fn (id : N) (k : N) : N :=
  match id with
  | 0 => 0
  | 1 => k
  | 2 => N.mul k (N.pow 2 32)
  | 3 => N.add 14 (N.modulo k 3)            (* wrap-around cluster at the last slots *)
  | 4 => N.add (N.mul (N.modulo k 2) (N.pow 2 63)) (N.div k 2)   (* top bit differs *)
  | _ => N.modulo (N.mul k 11400714819323198485) (N.pow 2 64)
  end%N.
