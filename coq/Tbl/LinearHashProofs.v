(** * C17 proofs, part 3: clear / iterators / drain / retain, the reference-set
    specification, the single-step refinement theorem and its lifting to
    arbitrary operation sequences.

    Statement of C17 (fixed text): "The open-addressing table that backs the
    unique tables contains exactly the elements inserted and not since removed:
    lookups find precisely those elements and terminate, iteration / len /
    drain / into_iter report them exactly once, and retain keeps exactly the
    elements accepted by the predicate.  This holds across growth, shrinking,
    tombstone accumulation, clone and clearing, for any hash distribution
    including total collisions." *)

From Coq Require Import List NArith ZArith Bool Arith Lia Permutation.
From OxiVerif Require Import Tbl.LinearHash Tbl.LinearHashProofsBase Tbl.LinearHashProofsCore.
Import ListNotations.

Ltac Zify.zify_post_hook ::= Z.to_euclidean_division_equations.

Arguments N.add : simpl never.
Arguments N.sub : simpl never.
Arguments N.mul : simpl never.
Arguments N.div : simpl never.
Arguments N.modulo : simpl never.
Arguments N.pow : simpl never.
Arguments Nat.modulo : simpl never.
Arguments Nat.div : simpl never.

(** ** List helpers *)

Definition npred (pred : N -> bool) : N -> bool := fun x => negb (pred x).

Lemma filter_partition_length (f : N -> bool) l :
  length (filter f l) + length (filter (npred f) l) = length l.
Proof.
  induction l as [|x l IH]; [reflexivity|]. unfold npred in *. cbn [filter].
  destruct (f x); cbn [negb length]; lia.
Qed.

Lemma filter_rev' (f : N -> bool) l : filter f (rev l) = rev (filter f l).
Proof.
  induction l as [|x l IH]; [reflexivity|]. cbn [rev filter]. rewrite filter_app, IH.
  cbn [filter]. destruct (f x); cbn [rev]; [reflexivity | apply app_nil_r].
Qed.

Lemma firstn_in (l : list N) n x : In x (firstn n l) -> In x l.
Proof.
  revert l. induction n as [|n IH]; intros l H; [contradiction|].
  destruct l as [|y l]; [contradiction|]. cbn [firstn] in H. destruct H as [H|H].
  - left. exact H.
  - right. apply IH. exact H.
Qed.

Lemma NoDup_firstn (l : list N) n : NoDup l -> NoDup (firstn n l).
Proof.
  revert l. induction n as [|n IH]; intros l H; [constructor|].
  destruct l as [|y l]; [constructor|]. cbn [firstn]. inversion H as [|? ? H1 H2]; subst.
  constructor.
  - intros Hin. apply H1. apply (firstn_in _ _ _ Hin).
  - apply IH. exact H2.
Qed.

Lemma get_slot_rev l p : p < length l -> get_slot (rev l) p = get_slot l (length l - S p).
Proof. intros H. unfold get_slot. apply rev_nth. exact H. Qed.

Lemma get_slot_cons_S x l q : get_slot (x :: l) (S q) = get_slot l q.
Proof. reflexivity. Qed.

Lemma get_slot_cons_0 x l : get_slot (x :: l) 0 = x.
Proof. reflexivity. Qed.

(** ** Iterators *)

Lemma iter_loop_vals d : iter_loop d (N.of_nat (length (vals d))) = vals d.
Proof.
  induction d as [|s d IH]; [reflexivity|].
  destruct s; rewrite vals_cons; cbn [sv app length iter_loop].
  - destruct (N.eqb_spec (N.of_nat (length (vals d))) 0) as [H|H]; [|exact IH].
    symmetry. apply length_zero_iff_nil. lia.
  - destruct (N.eqb_spec (N.of_nat (length (vals d))) 0) as [H|H]; [|exact IH].
    symmetry. apply length_zero_iff_nil. lia.
  - destruct (N.eqb_spec (N.of_nat (S (length (vals d)))) 0) as [H|H]; [lia|].
    replace (N.of_nat (S (length (vals d))) - 1)%N with (N.of_nat (length (vals d))) by lia.
    rewrite IH. reflexivity.
Qed.

(** ** clear *)

Lemma clear_loop_spec d :
  length (clear_loop d (N.of_nat (length (vals d)))) = length d /\
  vals (clear_loop d (N.of_nat (length (vals d)))) = [] /\
  nfree d <= nfree (clear_loop d (N.of_nat (length (vals d)))).
Proof.
  induction d as [|s d [IH1 [IH2 IH3]]]; [repeat split; cbn; lia|].
  destruct s; rewrite vals_cons; cbn [sv app length clear_loop].
  - destruct (N.eqb_spec (N.of_nat (length (vals d))) 0) as [H|H].
    + repeat split; [|lia]. rewrite vals_cons. cbn [sv app]. apply length_zero_iff_nil. lia.
    + cbn [length]. rewrite vals_cons, !nfree_cons. cbn [sv app slot_is_free].
      repeat split; [lia | exact IH2 | lia].
  - destruct (N.eqb_spec (N.of_nat (length (vals d))) 0) as [H|H].
    + repeat split; [|lia]. rewrite vals_cons. cbn [sv app]. apply length_zero_iff_nil. lia.
    + cbn [length]. rewrite vals_cons, !nfree_cons. cbn [sv app slot_is_free].
      repeat split; [lia | exact IH2 | lia].
  - destruct (N.eqb_spec (N.of_nat (S (length (vals d)))) 0) as [H|H]; [lia|].
    replace (N.of_nat (S (length (vals d))) - 1)%N with (N.of_nat (length (vals d))) by lia.
    cbn [length]. rewrite vals_cons, !nfree_cons. cbn [sv app slot_is_free].
    repeat split; [lia | exact IH2 | lia].
Qed.

(** ** retain: the backwards loop *)

Definition idx_ok (lif : bool) (rd rd' : list slot) : Prop :=
  forall p, p < length rd ->
    (get_slot rd p = Free -> get_slot rd' p = Free) /\
    (forall st v, get_slot rd' p = Full st v -> get_slot rd p = Full st v) /\
    (get_slot rd' p = Free ->
       get_slot rd p = Free \/
       match p with 0 => lif = true | S q => get_slot rd' q = Free end).

Lemma idx_ok_refl lif rd : idx_ok lif rd rd.
Proof.
  intros p Hp. split; [intros H; exact H|]. split; [intros st v H; exact H|].
  intros H. left. exact H.
Qed.

Lemma idx_ok_cons lif lif' x x' r r' :
  idx_ok lif' r r' ->
  (lif' = true -> x' = Free) ->
  (x = Free -> x' = Free) ->
  (forall st v, x' = Full st v -> x = Full st v) ->
  (x' = Free -> x = Free \/ lif = true) ->
  idx_ok lif (x :: r) (x' :: r').
Proof.
  intros Hr Hl H1 H2 H3 p Hp. destruct p as [|q].
  - rewrite !get_slot_cons_0. split; [exact H1|]. split; [exact H2 | exact H3].
  - rewrite !get_slot_cons_S. cbn [length] in Hp.
    destruct (Hr q ltac:(lia)) as [G1 [G2 G3]].
    split; [exact G1|]. split; [exact G2|]. intros Hf.
    destruct (G3 Hf) as [G|G]; [left; exact G|]. right.
    destruct q as [|q'].
    + rewrite get_slot_cons_0. apply Hl. exact G.
    + rewrite get_slot_cons_S. exact G.
Qed.

Definition retain_post (pred : N -> bool) (lif : bool) (rd : list slot) (ln fr : N)
  (dr : list N) (rd' : list slot) (ln' fr' : N) (dr' : list N) : Prop :=
  length rd' = length rd /\
  vals rd' = filter pred (vals rd) /\
  Permutation dr' (filter (npred pred) (vals rd) ++ dr) /\
  (ln' + N.of_nat (length (filter (npred pred) (vals rd))) = ln)%N /\
  (fr' + N.of_nat (nfree rd) = fr + N.of_nat (nfree rd'))%N /\
  (fr <= fr')%N /\
  idx_ok lif rd rd'.

Ltac idx_fin :=
  first [ solve [intros; reflexivity] | solve [intros; discriminate]
        | solve [intros; assumption] | solve [intros; left; reflexivity]
        | solve [intros; right; reflexivity] ].

Lemma retain_loop_spec pred : forall rd lif i ln fr dr rd' ln' fr' dr',
  retain_loop rd pred lif i ln fr dr = (rd', ln', fr', dr') ->
  i = N.of_nat (length (vals rd)) -> (i <= ln)%N ->
  retain_post pred lif rd ln fr dr rd' ln' fr' dr'.
Proof.
  induction rd as [|x r IH]; intros lif i ln fr dr rd' ln' fr' dr' H Hi Hle.
  - cbn [retain_loop] in H.
    assert (H' : ([] : list slot, ln, fr, dr) = (rd', ln', fr', dr'))
      by (destruct (N.eqb i 0); exact H).
    injection H' as <- <- <- <-. unfold retain_post. cbn [vals flat_map filter app length].
    split; [reflexivity|]. split; [reflexivity|]. split; [apply Permutation_refl|].
      split; [lia|]. split; [lia|]. split; [lia|]. apply idx_ok_refl.
  - cbn [retain_loop] in H. destruct (N.eqb_spec i 0) as [H0|H0].
    + injection H as <- <- <- <-.
      assert (Hnil : vals (x :: r) = []) by (apply length_zero_iff_nil; lia).
      unfold retain_post. rewrite Hnil. cbn [filter length app].
      split; [reflexivity|]. split; [reflexivity|]. split; [apply Permutation_refl|].
      split; [lia|]. split; [lia|]. split; [lia|]. apply idx_ok_refl.
    + destruct x as [| |st v].
      * (* FREE *)
        destruct (retain_loop r pred true i ln fr dr) as [[[r1 ln1] fr1] dr1] eqn:E.
        injection H as <- <- <- <-.
        rewrite vals_cons in Hi. cbn [sv app] in Hi.
        destruct (IH _ _ _ _ _ _ _ _ _ E Hi Hle) as [L1 [L2 [L3 [L4 [L5 [L6 L7]]]]]].
        unfold retain_post. rewrite !vals_cons, !nfree_cons. cbn [sv app slot_is_free length].
        split; [lia|]. split; [exact L2|]. split; [exact L3|]. split; [exact L4|].
        split; [lia|]. split; [exact L6|].
        apply (idx_ok_cons lif true Free Free r r1 L7); idx_fin.
      * (* TOMBSTONE *)
        destruct lif.
        -- destruct (retain_loop r pred true i ln (fr + 1) dr) as [[[r1 ln1] fr1] dr1] eqn:E.
           injection H as <- <- <- <-.
           rewrite vals_cons in Hi. cbn [sv app] in Hi.
           destruct (IH _ _ _ _ _ _ _ _ _ E Hi Hle) as [L1 [L2 [L3 [L4 [L5 [L6 L7]]]]]].
           unfold retain_post. rewrite !vals_cons, !nfree_cons.
           cbn [sv app slot_is_free length].
           split; [lia|]. split; [exact L2|]. split; [exact L3|]. split; [exact L4|].
           split; [lia|]. split; [lia|].
           apply (idx_ok_cons true true Tomb Free r r1 L7); idx_fin.
        -- destruct (retain_loop r pred false i ln fr dr) as [[[r1 ln1] fr1] dr1] eqn:E.
           injection H as <- <- <- <-.
           rewrite vals_cons in Hi. cbn [sv app] in Hi.
           destruct (IH _ _ _ _ _ _ _ _ _ E Hi Hle) as [L1 [L2 [L3 [L4 [L5 [L6 L7]]]]]].
           unfold retain_post. rewrite !vals_cons, !nfree_cons.
           cbn [sv app slot_is_free length].
           split; [lia|]. split; [exact L2|]. split; [exact L3|]. split; [exact L4|].
           split; [lia|]. split; [lia|].
           apply (idx_ok_cons false false Tomb Tomb r r1 L7); idx_fin.
      * (* occupied *)
        rewrite vals_cons in Hi. cbn [sv app length] in Hi.
        destruct (pred v) eqn:Ep.
        -- destruct (retain_loop r pred false (i - 1) ln fr dr) as [[[r1 ln1] fr1] dr1] eqn:E.
           injection H as <- <- <- <-.
           destruct (IH _ _ _ _ _ _ _ _ _ E ltac:(lia) ltac:(lia))
             as [L1 [L2 [L3 [L4 [L5 [L6 L7]]]]]].
           unfold retain_post, npred in *. rewrite !vals_cons, !nfree_cons.
           cbn [sv app slot_is_free length filter]. rewrite Ep. cbn [negb].
           split; [lia|]. split; [rewrite L2; reflexivity|]. split; [exact L3|].
           split; [exact L4|]. split; [lia|]. split; [lia|].
           apply (idx_ok_cons lif false (Full st v) (Full st v) r r1 L7); idx_fin.
        -- destruct lif.
           ++ destruct (retain_loop r pred true (i - 1) (ln - 1) (fr + 1) (v :: dr))
                as [[[r1 ln1] fr1] dr1] eqn:E.
              injection H as <- <- <- <-.
              destruct (IH _ _ _ _ _ _ _ _ _ E ltac:(lia) ltac:(lia))
                as [L1 [L2 [L3 [L4 [L5 [L6 L7]]]]]].
              unfold retain_post, npred in *. rewrite !vals_cons, !nfree_cons.
              cbn [sv app slot_is_free length filter]. rewrite Ep. cbn [negb length app].
              split; [lia|]. split; [exact L2|].
              split; [eapply Permutation_trans; [exact L3|];
                      apply Permutation_sym, Permutation_middle|].
              split; [lia|]. split; [lia|]. split; [lia|].
              apply (idx_ok_cons true true (Full st v) Free r r1 L7); idx_fin.
           ++ destruct (retain_loop r pred false (i - 1) (ln - 1) fr (v :: dr))
                as [[[r1 ln1] fr1] dr1] eqn:E.
              injection H as <- <- <- <-.
              destruct (IH _ _ _ _ _ _ _ _ _ E ltac:(lia) ltac:(lia))
                as [L1 [L2 [L3 [L4 [L5 [L6 L7]]]]]].
              unfold retain_post, npred in *. rewrite !vals_cons, !nfree_cons.
              cbn [sv app slot_is_free length filter]. rewrite Ep. cbn [negb length app].
              split; [lia|]. split; [exact L2|].
              split; [eapply Permutation_trans; [exact L3|];
                      apply Permutation_sym, Permutation_middle|].
              split; [lia|]. split; [lia|]. split; [lia|].
              apply (idx_ok_cons false false (Full st v) Tomb r r1 L7); idx_fin.
Qed.

(** the loop only frees slots whose cyclic successor is free *)
Lemma idx_ok_shrinks d rd' :
  idx_ok (slot_is_free (get_slot d 0)) (rev d) rd' -> length rd' = length d ->
  shrinks d (rev rd').
Proof.
  intros Hidx Hlen. split; [rewrite rev_length; exact Hlen|].
  intros i Hi.
  assert (Hp : length d - S i < length (rev d)) by (rewrite rev_length; lia).
  destruct (Hidx _ Hp) as [G1 [G2 G3]].
  assert (Eold : get_slot (rev d) (length d - S i) = get_slot d i).
  { rewrite get_slot_rev by lia. f_equal. lia. }
  assert (Enew : get_slot rd' (length d - S i) = get_slot (rev rd') i).
  { rewrite get_slot_rev by lia. rewrite Hlen. reflexivity. }
  rewrite Eold, Enew in *. split; [exact G2|].
  intros Hf. destruct (G3 Hf) as [G|G]; [left; exact G|]. right.
  destruct (length d - S i) as [|q] eqn:Eq.
  - (* last slot: its successor is slot 0, which was free from the start *)
    assert (Hi' : i = length d - 1) by lia. subst i.
    rewrite next_idx_last by lia.
    assert (Hp0 : length d - 1 < length (rev d)) by (rewrite rev_length; lia).
    destruct (Hidx _ Hp0) as [K1 _].
    rewrite (get_slot_rev rd') by lia. rewrite Hlen.
    replace (length d - 1) with (length d - S 0) by lia. apply K1.
    rewrite get_slot_rev by lia. replace (length d - S (length d - S 0)) with 0 by lia.
    destruct (get_slot d 0); [reflexivity | discriminate | discriminate].
  - rewrite next_idx_small by lia.
    rewrite (get_slot_rev rd') by lia. rewrite Hlen.
    replace (length d - S (S i)) with q by lia. exact G.
Qed.

Section Refine.
Variable sbits : N.
Variable hash : N -> N.

Notation TI := (TI sbits hash).
Notation status_ok := (status_ok sbits hash).
Notation reach_ok := (reach_ok hash).

Lemma abs_nil_of_len0 t : TI t -> len t = 0%N -> abs t = [].
Proof.
  intros HT H0. unfold abs. apply length_zero_iff_nil. pose proof (ti_len _ _ t HT). lia.
Qed.

Lemma iter_abs t : TI t -> iter t = abs t.
Proof. intros HT. unfold iter, abs. rewrite (ti_len _ _ t HT). apply iter_loop_vals. Qed.

Lemma iter_len_spec t : TI t ->
  iter t = abs t /\ NoDup (iter t) /\ len t = N.of_nat (length (abs t)).
Proof.
  intros HT. rewrite (iter_abs t HT). split; [reflexivity|].
  split; [exact (ti_nodup _ _ t HT) | exact (ti_len _ _ t HT)].
Qed.

Lemma clear_spec t : TI t -> TI (clear t) /\ abs (clear t) = [].
Proof.
  intros HT. unfold clear. destruct (N.eqb_spec (len t) 0) as [H0|H0].
  - split; [exact HT | apply abs_nil_of_len0; assumption].
  - rewrite (ti_len _ _ t HT).
    destruct (clear_loop_spec (data t)) as [C1 [C2 C3]].
    split; [|exact C2].
    constructor; cbn [data len free]; unfold size; cbn [data].
    + rewrite C1. exact (ti_size _ _ t HT).
    + rewrite C2. reflexivity.
    + pose proof (ti_free _ _ t HT). lia.
    + rewrite C1. exact (ti_free_pos _ _ t HT).
    + apply status_ok_novals. exact C2.
    + rewrite C2. constructor.
    + apply reach_ok_novals. exact C2.
Qed.

Lemma TI_all_free n : size_ok sbits n -> TI (mkTbl (repeat Free n) 0 (N.of_nat n)).
Proof.
  intros Hs. constructor; cbn [data len free]; unfold size; cbn [data].
  - rewrite repeat_length. exact Hs.
  - rewrite vals_repeat_free. reflexivity.
  - rewrite nfree_repeat_free. lia.
  - rewrite repeat_length. lia.
  - apply status_ok_repeat.
  - rewrite vals_repeat_free. constructor.
  - apply reach_ok_novals, vals_repeat_free.
Qed.

Lemma drain_spec t : TI t ->
  TI (fst (drain t)) /\ abs (fst (drain t)) = [] /\ snd (drain t) = abs t.
Proof.
  intros HT. unfold drain. cbn [fst snd]. split; [|split].
  - unfold sizeN. apply TI_all_free. exact (ti_size _ _ t HT).
  - unfold abs. cbn [data]. apply vals_repeat_free.
  - apply iter_abs. exact HT.
Qed.

Lemma with_capacity_spec c : (next_capacity c <= 2 ^ sbits)%N ->
  TI (with_capacity c) /\ abs (with_capacity c) = [].
Proof.
  intros Hc. unfold with_capacity. split.
  - rewrite <- (N2Nat.id (next_capacity c)) at 2. apply TI_all_free.
    apply next_capacity_size_ok. exact Hc.
  - unfold abs. cbn [data]. apply vals_repeat_free.
Qed.

(** ** retain *)

Lemma size_ok_le_pow n : size_ok sbits n -> n <> 0 -> (N.of_nat n <= 2 ^ sbits)%N.
Proof.
  intros [->|[_ [k [Hk Hn]]]] H0; [contradiction|].
  rewrite Hn. apply N.pow_le_mono_r; [lia | exact Hk].
Qed.

Lemma retain_spec t pred : TI t ->
  exists t' dropped, retain t pred = Some (t', dropped) /\ TI t' /\
    Permutation (abs t') (filter pred (abs t)) /\
    Permutation dropped (filter (npred pred) (abs t)).
Proof.
  intros HT. unfold retain. destruct (N.eqb_spec (len t) 0) as [H0|H0].
  - exists t, []. rewrite (abs_nil_of_len0 t HT H0). cbn [filter].
    split; [reflexivity|]. split; [exact HT|]. split; apply Permutation_refl.
  - destruct (retain_loop (rev (data t)) pred (slot_is_free (get_slot (data t) 0))
                (len t) (len t) (free t) []) as [[[rd ln] fr] dr] eqn:E.
    pose proof (ti_len _ _ t HT) as Hlen.
    assert (Hi : len t = N.of_nat (length (vals (rev (data t)))))
      by (rewrite vals_rev, rev_length; exact Hlen).
    destruct (retain_loop_spec pred _ _ _ _ _ _ _ _ _ _ E Hi ltac:(lia))
      as [L1 [L2 [L3 [L4 [L5 [L6 L7]]]]]].
    rewrite rev_length in L1.
    rewrite vals_rev, filter_rev' in L2, L3. rewrite vals_rev, filter_rev', rev_length in L4.
    rewrite nfree_rev in L5. rewrite app_nil_r in L3.
    pose proof (idx_ok_shrinks (data t) rd L7 L1) as Hsh.
    assert (Hv : vals (rev rd) = filter pred (vals (data t)))
      by (rewrite vals_rev, L2; apply rev_involutive).
    pose proof (filter_partition_length pred (vals (data t))) as Hpl.
    assert (HT1 : TI (mkTbl (rev rd) ln fr)).
    { constructor; cbn [data len free]; unfold size; cbn [data].
      - rewrite rev_length, L1. exact (ti_size _ _ t HT).
      - rewrite Hv. lia.
      - rewrite nfree_rev. pose proof (ti_free _ _ t HT). lia.
      - rewrite rev_length, L1. intros Hn. pose proof (ti_free_pos _ _ t HT Hn). lia.
      - apply (status_ok_shrinks _ _ (data t)); [exact (ti_status _ _ t HT) | exact Hsh].
      - rewrite Hv. apply NoDup_filter. exact (ti_nodup _ _ t HT).
      - apply (reach_ok_shrinks _ (data t)); [exact (ti_reach _ _ t HT) | exact Hsh]. }
    assert (Hdr : Permutation dr (filter (npred pred) (abs t))).
    { eapply Permutation_trans; [exact L3|]. apply Permutation_sym, Permutation_rev. }
    destruct ((ln <? sizeN (mkTbl (rev rd) ln fr) / RATIO_D * (RATIO_D - RATIO_N))%N
              && (MIN_CAP <=? sizeN (mkTbl (rev rd) ln fr))%N) eqn:Esh.
    + (* shrink *)
      apply andb_true_iff in Esh as [S1 S2].
      apply N.ltb_lt in S1. apply N.leb_le in S2. rewrite spare_eq in S1.
      unfold MIN_CAP, sizeN in *.
      assert (Hcap : (next_capacity (len (mkTbl (rev rd) ln fr) + 0) <= 2 ^ sbits)%N).
      { cbn [len]. rewrite N.add_0_r.
        eapply N.le_trans;
          [apply (next_capacity_shrink_le sbits _ ln (ti_size _ _ _ HT1) S2 S1)|].
        apply size_ok_le_pow; [exact (ti_size _ _ _ HT1) | lia]. }
      destruct (reserve_rehash_spec sbits hash (mkTbl (rev rd) ln fr) 0
                  (ti_status _ _ _ HT1) (ti_nodup _ _ _ HT1) (ti_len _ _ _ HT1) Hcap)
        as [t2 [R1 [R2 [R3 _]]]].
      rewrite R1. exists t2, dr. split; [reflexivity|]. split; [exact R2|].
      split; [|exact Hdr].
      eapply Permutation_trans; [exact R3|]. unfold abs. cbn [data]. rewrite Hv.
      apply Permutation_refl.
    + exists (mkTbl (rev rd) ln fr), dr. split; [reflexivity|]. split; [exact HT1|].
      split; [|exact Hdr]. unfold abs. cbn [data]. rewrite Hv. apply Permutation_refl.
Qed.

(** ** Reference-set specification *)

Definition mem (k : N) (s : list N) : bool := existsb (N.eqb k) s.

Lemma mem_in k s : mem k s = true <-> In k s.
Proof.
  unfold mem. rewrite existsb_exists. split.
  - intros [x [Hx He]]. apply N.eqb_eq in He. subst x. exact Hx.
  - intros H. exists k. split; [exact H | apply N.eqb_refl].
Qed.

Lemma mem_not_in k s : mem k s = false <-> ~ In k s.
Proof.
  rewrite <- mem_in. destruct (mem k s); split; intros H.
  - discriminate.
  - exfalso. apply H. reflexivity.
  - discriminate.
  - reflexivity.
Qed.

(** A duplicate-free list plays the role of a finite set. *)
Definition spec_step (s : list N) (o : op) : list N * out :=
  match o with
  | OInsert k => if mem k s then (s, RBool false) else (k :: s, RBool true)
  | ORemove k =>
    if mem k s then (filter (fun x => negb (N.eqb k x)) s, ROpt (Some k)) else (s, ROpt None)
  | OLookup k => (s, ROpt (if mem k s then Some k else None))
  | ORetain m r =>
    (filter (retain_pred m r) s, RList (filter (npred (retain_pred m r)) s))
  | OReserve _ => (s, RUnit)
  | OClear => ([], RUnit)
  | ODrain => ([], RList s)
  | OIter => (s, RList s)
  | OLen => (s, RNum (N.of_nat (length s)))
  | OClone => (s, RUnit)
  | OWithCap _ => ([], RUnit)
  | ODrainPart j => ([], RList (firstn (N.to_nat j) s))
  | OIntoIter => ([], RList s)
  end.

(** results agree; lists are compared up to permutation *)
Definition res_equiv (rs r : out) : Prop :=
  match rs, r with
  | RList a, RList b => Permutation a b
  | _, _ => rs = r
  end.

(** [out_agrees o s r]: [r] is an admissible result of [o] on the set [s].  A
    partially consumed [Drain] may hand out any [min j |s|] distinct elements. *)
Definition out_agrees (o : op) (s : list N) (r : out) : Prop :=
  match o with
  | ODrainPart j =>
    exists l, r = RList l /\ NoDup l /\ incl l s /\
              length l = Nat.min (N.to_nat j) (length s)
  | _ => res_equiv (snd (spec_step s o)) r
  end.

(** the capacity the operation asks for passes [Status::check_capacity]
    (the real code panics otherwise; the model has no panic) *)
Definition op_ok (t : tbl) (o : op) : Prop :=
  match o with
  | OInsert _ => reserve_fits sbits t 1
  | OReserve n => reserve_fits sbits t n
  | OWithCap n => (next_capacity n <= 2 ^ sbits)%N
  | _ => True
  end.

Lemma spec_step_nodup s o : NoDup s -> NoDup (fst (spec_step s o)).
Proof.
  intros H. destruct o; cbn [spec_step fst]; try exact H; try constructor.
  - destruct (mem k s) eqn:E; cbn [fst]; [exact H|].
    constructor; [apply mem_not_in; exact E | exact H].
  - destruct (mem k s); cbn [fst]; [apply NoDup_filter; exact H | exact H].
  - apply NoDup_filter. exact H.
Qed.

Lemma remove_perm (s s' : list N) k : NoDup s -> Permutation s (k :: s') ->
  Permutation s' (filter (fun x => negb (N.eqb k x)) s).
Proof.
  intros Hnd Hp.
  pose proof (Permutation_NoDup Hp Hnd) as Hnd'. inversion Hnd' as [|? ? Hk Hs']; subst.
  apply NoDup_Permutation; [exact Hs' | apply NoDup_filter; exact Hnd|].
  intros x. rewrite filter_In. split.
  - intros Hx. split.
    + apply (Permutation_in _ (Permutation_sym Hp)). right. exact Hx.
    + destruct (N.eqb_spec k x) as [->|Hne]; [contradiction | reflexivity].
  - intros [Hx Hne]. apply (Permutation_in _ Hp) in Hx. destruct Hx as [->|Hx]; [|exact Hx].
    rewrite N.eqb_refl in Hne. discriminate.
Qed.

(** ** The single-step refinement theorem *)

Theorem step_correct t o t' r :
  TI t -> op_ok t o -> step sbits hash t o = (t', r) ->
  r <> RDiverge /\ TI t' /\ NoDup (abs t') /\
  Permutation (abs t') (fst (spec_step (abs t) o)) /\
  out_agrees o (abs t) r.
Proof.
  intros HT Hok Hstep.
  assert (Hgoal : r <> RDiverge /\ TI t' /\
                  Permutation (abs t') (fst (spec_step (abs t) o)) /\
                  out_agrees o (abs t) r).
  2:{ destruct Hgoal as [G1 [G2 [G3 G4]]]. split; [exact G1|]. split; [exact G2|].
      split; [exact (ti_nodup _ _ t' G2)|]. split; [exact G3 | exact G4]. }
  destruct o; cbn [step] in Hstep; cbn [op_ok] in Hok; unfold out_agrees; cbn [spec_step].
  - (* insert *)
    destruct (insert_spec sbits hash t k HT Hok) as [t1 [b [E [HT1 Hb]]]].
    rewrite E in Hstep. injection Hstep as <- <-.
    split; [discriminate|]. split; [exact HT1|].
    destruct Hb as [[-> [Hnin Hp]]|[-> [Hin Hp]]].
    + apply mem_not_in in Hnin. rewrite Hnin. cbn [fst snd res_equiv].
      split; [exact Hp | reflexivity].
    + apply mem_in in Hin. rewrite Hin. cbn [fst snd res_equiv].
      split; [exact Hp | reflexivity].
  - (* remove *)
    destruct (remove_spec sbits hash t k HT) as [t1 [r1 [E [HT1 Hr]]]].
    rewrite E in Hstep. injection Hstep as <- <-.
    split; [discriminate|]. split; [exact HT1|].
    destruct Hr as [[-> [Hin Hp]]|[-> [Hnin ->]]].
    + pose proof (remove_perm _ _ k (ti_nodup _ _ t HT) Hp) as Hp'.
      apply mem_in in Hin. rewrite Hin. cbn [fst snd res_equiv].
      split; [exact Hp' | reflexivity].
    + apply mem_not_in in Hnin. rewrite Hnin. cbn [fst snd res_equiv].
      split; [apply Permutation_refl | reflexivity].
  - (* lookup *)
    destruct (lookup_spec sbits hash t k HT) as [r1 [E Hr]].
    rewrite E in Hstep. injection Hstep as <- <-.
    split; [discriminate|]. split; [exact HT|]. cbn [fst snd res_equiv].
    split; [apply Permutation_refl|].
    destruct Hr as [[-> Hin]|[-> Hnin]].
    + apply mem_in in Hin. rewrite Hin. reflexivity.
    + apply mem_not_in in Hnin. rewrite Hnin. reflexivity.
  - (* retain *)
    destruct (retain_spec t (retain_pred m r0) HT) as [t1 [dr [E [HT1 [Hp Hd]]]]].
    rewrite E in Hstep. injection Hstep as <- <-.
    split; [discriminate|]. split; [exact HT1|]. cbn [fst snd res_equiv].
    split; [exact Hp | apply Permutation_sym; exact Hd].
  - (* reserve *)
    destruct (reserve_spec sbits hash t n HT Hok) as [t1 [E [HT1 [Hp _]]]].
    rewrite E in Hstep. injection Hstep as <- <-.
    split; [discriminate|]. split; [exact HT1|]. cbn [fst snd res_equiv].
    split; [exact Hp | reflexivity].
  - (* clear *)
    injection Hstep as <- <-. destruct (clear_spec t HT) as [HT1 Ha].
    split; [discriminate|]. split; [exact HT1|]. cbn [fst snd res_equiv].
    rewrite Ha. split; [apply Permutation_refl | reflexivity].
  - (* drain *)
    destruct (drain_spec t HT) as [HT1 [Ha Hl]].
    destruct (drain t) as [t1 l]. cbn [fst snd] in *. injection Hstep as <- <-.
    split; [discriminate|]. split; [exact HT1|]. cbn [fst snd res_equiv].
    rewrite Ha, Hl. split; apply Permutation_refl.
  - (* iter *)
    injection Hstep as <- <-.
    split; [discriminate|]. split; [exact HT|]. cbn [fst snd res_equiv].
    rewrite (iter_abs t HT). split; apply Permutation_refl.
  - (* len *)
    injection Hstep as <- <-.
    split; [discriminate|]. split; [exact HT|]. cbn [fst snd res_equiv].
    split; [apply Permutation_refl|]. unfold abs. rewrite (ti_len _ _ t HT). reflexivity.
  - (* clone *)
    injection Hstep as <- <-.
    split; [discriminate|]. split; [exact HT|]. cbn [fst snd res_equiv].
    split; [apply Permutation_refl | reflexivity].
  - (* with_capacity *)
    injection Hstep as <- <-. destruct (with_capacity_spec n Hok) as [HT1 Ha].
    split; [discriminate|]. split; [exact HT1|]. cbn [fst snd res_equiv].
    rewrite Ha. split; [apply Permutation_refl | reflexivity].
  - (* partially consumed drain *)
    destruct (drain_spec t HT) as [HT1 [Ha Hl]].
    destruct (drain t) as [t1 l]. cbn [fst snd] in *. injection Hstep as <- <-.
    split; [discriminate|]. split; [exact HT1|]. cbn [fst].
    rewrite Ha. split; [apply Permutation_refl|].
    exists (firstn (N.to_nat j) l). subst l. split; [reflexivity|].
    split; [apply NoDup_firstn; exact (ti_nodup _ _ t HT)|].
    split; [intros x Hx; apply (firstn_in _ _ _ Hx) | apply firstn_length].
  - (* into_iter *)
    injection Hstep as <- <-.
    split; [discriminate|]. split; [apply TI_empty|]. cbn [fst snd res_equiv].
    rewrite (iter_abs t HT). split; apply Permutation_refl.
Qed.

(** ** Lifting to operation sequences *)

(** every operation of the sequence passes the capacity check in the state in
    which it is executed *)
Fixpoint ops_ok (t : tbl) (ops : list op) : Prop :=
  match ops with
  | [] => True
  | o :: rest => op_ok t o /\ ops_ok (fst (step sbits hash t o)) rest
  end.

(** [sim_trace s ops outs]: starting from the set [s], the reference
    specification admits the outputs [outs] for [ops] (sets are duplicate-free
    lists up to permutation) and none of the outputs is a divergence. *)
Inductive sim_trace : list N -> list op -> list out -> Prop :=
| sim_nil s : sim_trace s [] []
| sim_cons s o ops s' r outs :
    NoDup s' ->
    Permutation s' (fst (spec_step s o)) ->
    out_agrees o s r ->
    r <> RDiverge ->
    sim_trace s' ops outs ->
    sim_trace s (o :: ops) (r :: outs).

Definition final (t : tbl) (ops : list op) : tbl :=
  fold_left (fun t o => fst (step sbits hash t o)) ops t.

Theorem run_correct_from ops : forall t, TI t -> ops_ok t ops ->
  sim_trace (abs t) ops (run sbits hash t ops) /\ TI (final t ops).
Proof.
  induction ops as [|o ops IH]; intros t HT Hok.
  - split; [constructor | exact HT].
  - destruct Hok as [Ho Hrest]. cbn [run final fold_left].
    destruct (step sbits hash t o) as [t' r] eqn:E. cbn [fst] in Hrest.
    destruct (step_correct t o t' r HT Ho E) as [S1 [S2 [S3 [S4 S5]]]].
    destruct (IH t' S2 Hrest) as [I1 I2].
    split; [|exact I2].
    apply (sim_cons (abs t) o ops (abs t') r); assumption.
Qed.

Theorem run_correct ops : ops_ok empty ops ->
  sim_trace [] ops (run sbits hash empty ops) /\ TI (final empty ops).
Proof. intros Hok. apply (run_correct_from ops empty (TI_empty sbits hash) Hok). Qed.

Lemma sim_trace_no_diverge s ops outs : sim_trace s ops outs -> ~ In RDiverge outs.
Proof.
  induction 1 as [|s o ops s' r outs _ _ _ Hr _ IH]; [intros []|].
  intros [H|H]; [apply Hr; exact H | apply IH; exact H].
Qed.

Theorem run_terminates ops : ops_ok empty ops -> ~ In RDiverge (run sbits hash empty ops).
Proof.
  intros Hok. apply (sim_trace_no_diverge [] ops). apply run_correct. exact Hok.
Qed.

(** ** A static sufficient condition for [ops_ok]

    [ops_ok] is phrased over the states of the run.  It follows from a bound on
    the sequence alone: at most [B] operations, every [reserve] / [with_capacity]
    argument at most [B], and a table for [2 * B] elements is still addressable. *)

Lemma next_pow2_mono x y : (x <= y)%N -> (next_pow2 x <= next_pow2 y)%N.
Proof.
  intros H. destruct (next_pow2_is_pow2 y) as [k Hk]. rewrite Hk.
  apply next_pow2_le_pow2. rewrite <- Hk. pose proof (next_pow2_ge y). lia.
Qed.

Lemma next_capacity_mono a b : (a <= b)%N -> (next_capacity a <= next_capacity b)%N.
Proof.
  intros H. unfold next_capacity.
  destruct (N.eqb_spec a 0) as [Ha|Ha]; [lia|].
  destruct (N.eqb_spec b 0) as [Hb|Hb]; [lia|].
  apply N.max_le_compat_r. apply next_pow2_mono.
  unfold RATIO_D, RATIO_N. lia.
Qed.

Definition op_small (B : N) (o : op) : Prop :=
  match o with
  | OReserve n => (n <= B)%N
  | OWithCap n => (n <= B)%N
  | _ => True
  end.

Lemma spec_step_length s o : length (fst (spec_step s o)) <= S (length s).
Proof.
  destruct o; cbn [spec_step fst length]; try lia.
  - destruct (mem k s); cbn [fst length]; lia.
  - destruct (mem k s); cbn [fst]; [|lia].
    pose proof (filter_partition_length (fun x => negb (N.eqb k x)) s). lia.
  - pose proof (filter_partition_length (retain_pred m r) s). lia.
Qed.

Lemma step_len_le t o : TI t -> op_ok t o ->
  TI (fst (step sbits hash t o)) /\ (len (fst (step sbits hash t o)) <= len t + 1)%N.
Proof.
  intros HT Hok. destruct (step sbits hash t o) as [t' r] eqn:E. cbn [fst].
  destruct (step_correct t o t' r HT Hok E) as [_ [HT' [_ [Hp _]]]].
  split; [exact HT'|].
  pose proof (Permutation_length Hp) as Hl. pose proof (spec_step_length (abs t) o) as Hs.
  pose proof (ti_len _ _ t HT). pose proof (ti_len _ _ t' HT'). unfold abs in *. lia.
Qed.

Lemma ops_ok_small_from B ops : (next_capacity (2 * B) <= 2 ^ sbits)%N ->
  Forall (op_small B) ops ->
  forall t, TI t -> (len t + N.of_nat (length ops) <= B)%N -> ops_ok t ops.
Proof.
  intros HB. induction 1 as [|o ops Ho _ IH]; intros t HT Hlen; [exact I|].
  cbn [length] in Hlen.
  assert (Hok : op_ok t o).
  { destruct o; cbn [op_ok op_small] in *; try exact I.
    - intros _. eapply N.le_trans; [apply next_capacity_mono|exact HB]. lia.
    - intros _. eapply N.le_trans; [apply next_capacity_mono|exact HB]. lia.
    - eapply N.le_trans; [apply next_capacity_mono|exact HB]. lia. }
  split; [exact Hok|].
  destruct (step_len_le t o HT Hok) as [HT' Hl]. apply IH; [exact HT' | lia].
Qed.

Theorem run_correct_small B ops :
  (N.of_nat (length ops) <= B)%N -> Forall (op_small B) ops ->
  (next_capacity (2 * B) <= 2 ^ sbits)%N ->
  sim_trace [] ops (run sbits hash empty ops) /\ ~ In RDiverge (run sbits hash empty ops).
Proof.
  intros Hl Hs HB.
  assert (Hok : ops_ok empty ops).
  { apply (ops_ok_small_from B ops HB Hs empty (TI_empty sbits hash)). cbn [len empty]. lia. }
  split; [exact (proj1 (run_correct ops Hok)) | exact (run_terminates ops Hok)].
Qed.

End Refine.

(** ** The hypotheses are satisfiable by a non-trivial reachable state

    31 status bits (Status = u32), total collisions (every key hashes to 0):
    14 insertions (the table grows from 16 to 32 slots on the 13th), three
    removals (3 and 5 leave tombstones, 14 has a free successor and is freed),
    an insertion that reuses the first tombstone, and a lookup. *)
Definition ex_ops : list op :=
  map OInsert [1;2;3;4;5;6;7;8;9;10;11;12;13;14]%N
  ++ [ORemove 3; ORemove 5; ORemove 14; OInsert 20; OLookup 7]%N.

Definition ex_state : tbl := final 31 (hash_fn 0) empty ex_ops.

Example ex_ops_ok : ops_ok 31 (hash_fn 0) empty ex_ops.
Proof. vm_compute. repeat split; intros; discriminate. Qed.

Example ex_state_shape :
  data ex_state =
    [Full 0 1; Full 0 2; Full 0 20; Full 0 4; Tomb; Full 0 6; Full 0 7; Full 0 8;
     Full 0 9; Full 0 10; Full 0 11; Full 0 12; Full 0 13]%N ++ repeat Free 19
  /\ len ex_state = 12%N /\ free ex_state = 19%N.
Proof. vm_compute. repeat split. Qed.

Example ex_state_TI : TI 31 (hash_fn 0) ex_state.
Proof. exact (proj2 (run_correct 31 (hash_fn 0) ex_ops ex_ops_ok)). Qed.

(** ... and the next operation on that state is admissible as well *)
Example ex_state_next_ok : op_ok 31 ex_state (OInsert 99) /\ op_ok 31 ex_state (ORetain 2 0).
Proof. split; [|exact I]. vm_compute. intros; discriminate. Qed.

Example ex_run_outputs :
  run 31 (hash_fn 0) empty ex_ops =
    repeat (RBool true) 14
    ++ [ROpt (Some 3); ROpt (Some 5); ROpt (Some 14); RBool true; ROpt (Some 7)]%N.
Proof. vm_compute. reflexivity. Qed.

Example ex_nonvacuous :
  TI 31 (hash_fn 0) ex_state /\
  op_ok 31 ex_state (OInsert 99) /\ op_ok 31 ex_state (ORetain 2 0) /\
  In Tomb (data ex_state) /\ size ex_state = 32 /\ len ex_state = 12%N.
Proof.
  split; [exact ex_state_TI|]. split; [exact (proj1 ex_state_next_ok)|].
  split; [exact I|]. vm_compute.
  split; [do 4 right; left; reflexivity | split; reflexivity].
Qed.
