(** * C17 proofs, part 1: slot lists, cyclic probing, capacity arithmetic.

    Everything here is independent of the hash function. *)

From Coq Require Import List NArith ZArith Bool Arith Lia Permutation.
From OxiVerif Require Import Tbl.LinearHash.
Import ListNotations.

Ltac Zify.zify_post_hook ::= Z.to_euclidean_division_equations.

Arguments N.add : simpl never.
Arguments N.sub : simpl never.
Arguments N.mul : simpl never.
Arguments N.div : simpl never.
Arguments N.modulo : simpl never.
Arguments N.pow : simpl never.
Arguments Nat.modulo : simpl never.
Arguments Nat.div : simpl never.

(** ** Values and free slots of a slot list *)

Definition sv (s : slot) : list N := match s with Full _ v => [v] | _ => [] end.
Definition vals (d : list slot) : list N := flat_map sv d.
Definition nfree (d : list slot) : nat := length (filter slot_is_free d).

Lemma vals_app a b : vals (a ++ b) = vals a ++ vals b.
Proof. apply flat_map_app. Qed.

Lemma nfree_app a b : nfree (a ++ b) = nfree a + nfree b.
Proof. unfold nfree. rewrite filter_app, app_length. reflexivity. Qed.

Lemma vals_cons s d : vals (s :: d) = sv s ++ vals d.
Proof. reflexivity. Qed.

Lemma nfree_cons s d : nfree (s :: d) = (if slot_is_free s then 1 else 0) + nfree d.
Proof. unfold nfree. cbn [filter]. destruct (slot_is_free s); reflexivity. Qed.

Lemma vals_rev d : vals (rev d) = rev (vals d).
Proof.
  induction d as [|s d IH]; [reflexivity|].
  cbn [rev]. rewrite vals_app, IH, (vals_cons s d), rev_app_distr.
  destruct s; cbn; rewrite ?app_nil_r; reflexivity.
Qed.

Lemma nfree_rev d : nfree (rev d) = nfree d.
Proof.
  induction d as [|s d IH]; [reflexivity|].
  cbn [rev]. rewrite nfree_app, IH, !nfree_cons. cbn. lia.
Qed.

Lemma vals_repeat_free c : vals (repeat Free c) = [].
Proof. induction c; [reflexivity|]. cbn [repeat]. rewrite vals_cons. exact IHc. Qed.

Lemma nfree_repeat_free c : nfree (repeat Free c) = c.
Proof. induction c; [reflexivity|]. cbn [repeat]. rewrite nfree_cons, IHc. reflexivity. Qed.

Lemma vals_nfree_le d : length (vals d) + nfree d <= length d.
Proof.
  induction d as [|s d IH]; [cbn; lia|].
  rewrite vals_cons, nfree_cons, app_length. destruct s; cbn [sv slot_is_free length]; lia.
Qed.

Lemma nfree_pos_ex d : 0 < nfree d -> exists f, f < length d /\ get_slot d f = Free.
Proof.
  induction d as [|s d IH]; intros H.
  - cbn in H. lia.
  - destruct s.
    + exists 0. split; [cbn; lia | reflexivity].
    + rewrite nfree_cons in H. cbn [slot_is_free] in H.
      destruct IH as [f [Hf Hg]]; [lia|]. exists (S f). split; [cbn; lia | exact Hg].
    + rewrite nfree_cons in H. cbn [slot_is_free] in H.
      destruct IH as [f [Hf Hg]]; [lia|]. exists (S f). split; [cbn; lia | exact Hg].
Qed.

Lemma in_vals_iff d v :
  In v (vals d) <-> exists i st, i < length d /\ get_slot d i = Full st v.
Proof.
  unfold vals. rewrite in_flat_map. split.
  - intros [s [Hin Hv]]. destruct s; cbn in Hv; try contradiction.
    destruct Hv as [Hv|[]]. subst v0.
    destruct (In_nth _ _ Free Hin) as [i [Hi Hn]]. exists i, st. split; assumption.
  - intros [i [st [Hi Hg]]]. exists (Full st v). split.
    + unfold get_slot in Hg. rewrite <- Hg. apply nth_In. exact Hi.
    + cbn. left. reflexivity.
Qed.

(** ** [set_slot] *)

Lemma length_set_slot d i s : length (set_slot d i s) = length d.
Proof.
  revert i. induction d as [|x d IH]; intros i; [reflexivity|].
  destruct i; cbn [set_slot length]; [reflexivity|]. rewrite IH. reflexivity.
Qed.

Lemma get_set_same d i s : i < length d -> get_slot (set_slot d i s) i = s.
Proof.
  revert i. induction d as [|x d IH]; intros i Hi; [cbn in Hi; lia|].
  destruct i; [reflexivity|]. cbn [set_slot]. unfold get_slot. cbn [nth].
  apply IH. cbn in Hi. lia.
Qed.

Lemma get_set_other d i i' s : i' <> i -> get_slot (set_slot d i s) i' = get_slot d i'.
Proof.
  revert i i'. induction d as [|x d IH]; intros i i' Hne; [reflexivity|].
  destruct i; destruct i'; try reflexivity; try lia.
  cbn [set_slot]. unfold get_slot. cbn [nth]. apply IH. lia.
Qed.

Lemma set_slot_split d i s : i < length d ->
  exists a b, d = a ++ get_slot d i :: b /\ set_slot d i s = a ++ s :: b /\ length a = i.
Proof.
  revert i. induction d as [|x d IH]; intros i Hi; [cbn in Hi; lia|].
  destruct i.
  - exists [], d. repeat split.
  - destruct (IH i) as [a [b [H1 [H2 H3]]]]; [cbn in Hi; lia|].
    exists (x :: a), b. cbn [set_slot app length]. unfold get_slot in *. cbn [nth].
    repeat split; [f_equal; exact H1 | f_equal; exact H2 | f_equal; exact H3].
Qed.

Lemma get_set_nonfree d i s x : i < length d -> s <> Free ->
  get_slot d x <> Free -> get_slot (set_slot d i s) x <> Free.
Proof.
  intros Hi Hs Hx. destruct (Nat.eq_dec x i) as [->|Hne].
  - rewrite get_set_same; assumption.
  - rewrite get_set_other; assumption.
Qed.

(** ** Cyclic probing *)

Definition probe (n h j : nat) : nat := (h + j) mod n.

Lemma probe_lt n h j : n <> 0 -> probe n h j < n.
Proof. intros Hn. unfold probe. apply Nat.mod_upper_bound. exact Hn. Qed.

Lemma probe_0 n h : h < n -> probe n h 0 = h.
Proof. intros Hh. unfold probe. rewrite Nat.add_0_r. apply Nat.mod_small. exact Hh. Qed.

Lemma next_probe n h j : n <> 0 -> next_idx (probe n h j) n = probe n h (S j).
Proof.
  intros Hn. unfold next_idx, probe.
  replace (S ((h + j) mod n)) with ((h + j) mod n + 1) by lia.
  rewrite Nat.add_mod_idemp_l by exact Hn. f_equal. lia.
Qed.

Lemma probe_surj n h f : h < n -> f < n -> exists j, j < n /\ probe n h j = f.
Proof.
  intros Hh Hf. unfold probe. destruct (le_lt_dec h f) as [Hle|Hlt].
  - exists (f - h). split; [lia|]. replace (h + (f - h)) with f by lia.
    apply Nat.mod_small. exact Hf.
  - exists (f + n - h). split; [lia|]. replace (h + (f + n - h)) with (f + 1 * n) by lia.
    rewrite Nat.mod_add by lia. apply Nat.mod_small. exact Hf.
Qed.

Lemma home_lt x n : n <> 0 -> home x n < n.
Proof.
  intros Hn. unfold home.
  assert (H : (x mod N.of_nat n < N.of_nat n)%N) by (apply N.mod_lt; lia).
  lia.
Qed.

Lemma next_idx_lt i n : n <> 0 -> next_idx i n < n.
Proof. intros Hn. unfold next_idx. apply Nat.mod_upper_bound. exact Hn. Qed.

Lemma next_idx_small i n : S i < n -> next_idx i n = S i.
Proof. intros H. unfold next_idx. apply Nat.mod_small. exact H. Qed.

Lemma next_idx_last n : n <> 0 -> next_idx (n - 1) n = 0.
Proof.
  intros H. unfold next_idx. replace (S (n - 1)) with n by lia. apply Nat.mod_same. exact H.
Qed.

(** first position at which a boolean predicate holds *)
Lemma first_true_aux (P : nat -> bool) : forall m,
  (forall j, j < m -> P j = false) \/
  (exists j1, j1 < m /\ P j1 = true /\ forall j', j' < j1 -> P j' = false).
Proof.
  induction m as [|m IH].
  - left. intros j Hj. lia.
  - destruct IH as [IH|[j1 [H1 [H2 H3]]]].
    + destruct (P m) eqn:E.
      * right. exists m. repeat split; [lia | exact E | exact IH].
      * left. intros j Hj. destruct (Nat.eq_dec j m) as [->|Hne]; [exact E | apply IH; lia].
    + right. exists j1. repeat split; [lia | exact H2 | exact H3].
Qed.

Lemma first_true (P : nat -> bool) m : P m = true ->
  exists j1, j1 <= m /\ P j1 = true /\ forall j', j' < j1 -> P j' = false.
Proof.
  intros Hm. destruct (first_true_aux P m) as [H|[j1 [H1 [H2 H3]]]].
  - exists m. repeat split; [lia | exact Hm | exact H].
  - exists j1. repeat split; [lia | exact H2 | exact H3].
Qed.

(** ** Capacity arithmetic *)

Definition size_ok (sbits : N) (n : nat) : Prop :=
  n = 0 \/ (16 <= n /\ exists k, (k <= sbits)%N /\ N.of_nat n = (2 ^ k)%N).

Lemma next_pow2_ge x : (x <= next_pow2 x)%N.
Proof.
  unfold next_pow2. destruct (N.leb_spec x 1) as [H|H]; [lia|].
  pose proof (N.log2_up_spec x H) as [_ H2]. exact H2.
Qed.

Lemma next_pow2_is_pow2 x : exists k, next_pow2 x = (2 ^ k)%N.
Proof.
  unfold next_pow2. destruct (N.leb x 1).
  - exists 0%N. reflexivity.
  - exists (N.log2_up x). reflexivity.
Qed.

Lemma next_pow2_le_pow2 x k : (x <= 2 ^ k)%N -> (next_pow2 x <= 2 ^ k)%N.
Proof.
  intros H. unfold next_pow2. destruct (N.leb_spec x 1) as [H1|H1].
  - assert (0 < 2 ^ k)%N by (apply N.neq_0_lt_0, N.pow_nonzero; lia). lia.
  - apply N.pow_le_mono_r; [lia|]. apply N.log2_up_le_pow2; [lia | exact H].
Qed.

Lemma spare_eq x : (x / RATIO_D * (RATIO_D - RATIO_N) = x / 4)%N.
Proof. unfold RATIO_D, RATIO_N. change (4 - 3)%N with 1%N. apply N.mul_1_r. Qed.

Lemma div4_bounds x : (4 * (x / 4) <= x < 4 * (x / 4) + 4)%N.
Proof.
  lia.
Qed.

Lemma next_capacity_0 r : next_capacity r = 0%N <-> r = 0%N.
Proof.
  unfold next_capacity, MIN_CAP. destruct (N.eqb_spec r 0) as [->|H].
  - split; reflexivity.
  - split; intros H1; lia.
Qed.

Lemma next_capacity_gt r : r <> 0%N -> (r + 1 <= next_capacity r)%N.
Proof.
  intros Hr. unfold next_capacity, MIN_CAP, RATIO_D, RATIO_N.
  destruct (N.eqb_spec r 0) as [H|_]; [contradiction|].
  pose proof (next_pow2_ge (r * 4 / 3)) as H1.
  lia.
Qed.

Lemma next_capacity_ge16 r : r <> 0%N -> (16 <= next_capacity r)%N.
Proof.
  intros Hr. unfold next_capacity, MIN_CAP.
  destruct (N.eqb_spec r 0) as [H|_]; [contradiction|]. lia.
Qed.

Lemma next_capacity_pow2 r : r <> 0%N -> exists k, next_capacity r = (2 ^ k)%N.
Proof.
  intros Hr. unfold next_capacity, MIN_CAP.
  destruct (N.eqb_spec r 0) as [H|_]; [contradiction|].
  destruct (next_pow2_is_pow2 (r * RATIO_D / RATIO_N)) as [k Hk].
  destruct (N.max_spec (next_pow2 (r * RATIO_D / RATIO_N)) 16) as [[_ ->]|[_ ->]].
  - exists 4%N. reflexivity.
  - exists k. exact Hk.
Qed.

Lemma next_capacity_size_ok sbits r :
  (next_capacity r <= 2 ^ sbits)%N -> size_ok sbits (N.to_nat (next_capacity r)).
Proof.
  intros Hle. destruct (N.eq_dec r 0) as [->|Hr].
  - left. reflexivity.
  - right. pose proof (next_capacity_ge16 r Hr) as H16.
    destruct (next_capacity_pow2 r Hr) as [k Hk].
    split; [lia|]. exists k. split.
    + rewrite Hk in Hle. apply N.pow_le_mono_r_iff in Hle; [exact Hle | lia].
    + rewrite N2Nat.id. exact Hk.
Qed.

(** shrinking never asks for more slots than the table already has *)
Lemma next_capacity_shrink_le sbits n ln :
  size_ok sbits n -> (16 <= N.of_nat n)%N -> (ln < N.of_nat n / 4)%N ->
  (next_capacity ln <= N.of_nat n)%N.
Proof.
  intros [->|[H16 [k [Hk Hn]]]] Hge Hlt; [cbn in Hge; lia|].
  unfold next_capacity, MIN_CAP, RATIO_D, RATIO_N.
  destruct (N.eqb_spec ln 0) as [_|Hne]; [lia|].
  apply N.max_lub; [|exact Hge].
  rewrite Hn. apply next_pow2_le_pow2. rewrite <- Hn.
  pose proof (div4_bounds (N.of_nat n)) as Hd.
  lia.
Qed.

(** the status keeps enough bits to address any admissible table *)
Lemma home_status sbits n x : size_ok sbits n -> n <> 0 -> home (status sbits x) n = home x n.
Proof.
  intros [->|[_ [k [Hk Hn]]]] Hn0; [contradiction|].
  unfold home, status. f_equal. rewrite Hn.
  replace sbits with (k + (sbits - k))%N by lia.
  rewrite N.pow_add_r.
  assert (Ha : (2 ^ k <> 0)%N) by (apply N.pow_nonzero; lia).
  assert (Hb : (2 ^ (sbits - k) <> 0)%N) by (apply N.pow_nonzero; lia).
  rewrite N.mod_mul_r by assumption.
  rewrite (N.mul_comm (2 ^ k)), N.mod_add by exact Ha.
  apply N.mod_mod. exact Ha.
Qed.
