(** * C17 proofs, part 2: the table invariant and the probing operations
    (find, find_or_find_insert_slot, insert, remove, reserve / rehash). *)

From Coq Require Import List NArith ZArith Bool Arith Lia Permutation.
From OxiVerif Require Import Tbl.LinearHash Tbl.LinearHashProofsBase.
Import ListNotations.

Ltac Zify.zify_post_hook ::= Z.to_euclidean_division_equations.

Arguments N.add : simpl never.
Arguments N.sub : simpl never.
Arguments N.mul : simpl never.
Arguments N.div : simpl never.
Arguments N.modulo : simpl never.
Arguments N.pow : simpl never.
Arguments Nat.modulo : simpl never.
Arguments Nat.div : simpl never.

(** ** More facts about [set_slot] *)

Lemma vals_set_slot d i s : i < length d ->
  exists a b, vals d = a ++ sv (get_slot d i) ++ b /\ vals (set_slot d i s) = a ++ sv s ++ b.
Proof.
  intros Hi. destruct (set_slot_split d i s Hi) as [a [b [H1 [H2 _]]]].
  exists (vals a), (vals b). split.
  - rewrite H1 at 1. rewrite vals_app, vals_cons. reflexivity.
  - rewrite H2. rewrite vals_app, vals_cons. reflexivity.
Qed.

Lemma nfree_set_slot d i s : i < length d ->
  nfree (set_slot d i s) + (if slot_is_free (get_slot d i) then 1 else 0)
  = nfree d + (if slot_is_free s then 1 else 0).
Proof.
  intros Hi. destruct (set_slot_split d i s Hi) as [a [b [H1 [H2 _]]]].
  rewrite H2. rewrite H1 at 2. rewrite !nfree_app, !nfree_cons. lia.
Qed.

Lemma in_set_slot d i s x : In x (set_slot d i s) -> x = s \/ In x d.
Proof.
  revert i. induction d as [|y d IH]; intros i H; [contradiction|].
  destruct i; cbn [set_slot] in H; destruct H as [H|H].
  - left. symmetry. exact H.
  - right. right. exact H.
  - right. left. exact H.
  - destruct (IH i H) as [H1|H1]; [left; exact H1 | right; right; exact H1].
Qed.

Lemma get_slot_in d i : i < length d -> In (get_slot d i) d.
Proof. intros Hi. apply nth_In. exact Hi. Qed.

(** first probe position at which a slot predicate holds *)
Lemma first_hit (P : slot -> bool) d h : P Free = true -> h < length d ->
  (exists f, f < length d /\ get_slot d f = Free) ->
  exists j1, j1 < length d /\ P (get_slot d (probe (length d) h j1)) = true /\
    forall j', j' < j1 -> P (get_slot d (probe (length d) h j')) = false.
Proof.
  intros HP Hh [f [Hf Hg]]. destruct (probe_surj _ h f Hh Hf) as [jf [Hjf Hp]].
  destruct (first_true (fun j => P (get_slot d (probe (length d) h j))) jf) as [j1 [H1 [H2 H3]]].
  - cbn beta. rewrite Hp, Hg. exact HP.
  - exists j1. repeat split; [lia | exact H2 | exact H3].
Qed.

Definition stop (hs : N) (eq : N -> bool) (s : slot) : bool :=
  match s with Free => true | Tomb => false | Full st v => N.eqb st hs && eq v end.

Lemma stop_false_nonfree hs eq s : stop hs eq s = false -> s <> Free.
Proof. intros H ->. discriminate. Qed.

(** ** The three probing loops *)

Lemma find_loop_spec d hs eq h : length d <> 0 -> forall m j fuel, m < fuel ->
  (forall j', j <= j' < j + m -> stop hs eq (get_slot d (probe (length d) h j')) = false) ->
  stop hs eq (get_slot d (probe (length d) h (j + m))) = true ->
  find_loop fuel d (probe (length d) h j) hs eq =
    Some (match get_slot d (probe (length d) h (j + m)) with
          | Free => None | _ => Some (probe (length d) h (j + m)) end).
Proof.
  intros Hn. induction m as [|m IH]; intros j fuel Hf Hns Hs.
  - destruct fuel as [|f]; [lia|]. rewrite Nat.add_0_r in *. cbn [find_loop].
    destruct (get_slot d (probe (length d) h j)) as [| |st v] eqn:E; cbn [stop] in Hs.
    + reflexivity.
    + discriminate.
    + rewrite Hs. reflexivity.
  - destruct fuel as [|f]; [lia|]. cbn [find_loop].
    assert (H0 := Hns j ltac:(lia)).
    replace (j + S m) with (S j + m) in * by lia.
    destruct (get_slot d (probe (length d) h j)) as [| |st v] eqn:E; cbn [stop] in H0.
    + discriminate.
    + rewrite next_probe by exact Hn.
      apply IH; [lia | intros j' Hj'; apply Hns; lia | exact Hs].
    + rewrite H0. rewrite next_probe by exact Hn.
      apply IH; [lia | intros j' Hj'; apply Hns; lia | exact Hs].
Qed.

Lemma fofis_loop_spec d hs eq h : length d <> 0 -> forall m j fuel ft, m < fuel ->
  (forall j', j <= j' < j + m -> stop hs eq (get_slot d (probe (length d) h j')) = false) ->
  stop hs eq (get_slot d (probe (length d) h (j + m))) = true ->
  (forall t, ft = Some t -> exists jt, jt < j /\ probe (length d) h jt = t /\ get_slot d t = Tomb) ->
  exists r, fofis_loop fuel d (probe (length d) h j) hs eq ft = Some r /\
    match r with
    | inl i => i = probe (length d) h (j + m) /\ get_slot d i <> Free
    | inr i => get_slot d (probe (length d) h (j + m)) = Free /\
               exists jt, jt <= j + m /\ probe (length d) h jt = i /\
                          (get_slot d i = Tomb \/ get_slot d i = Free)
    end.
Proof.
  intros Hn. induction m as [|m IH]; intros j fuel ft Hf Hns Hs Hft.
  - destruct fuel as [|f]; [lia|]. rewrite Nat.add_0_r in *. cbn [fofis_loop].
    destruct (get_slot d (probe (length d) h j)) as [| |st v] eqn:E; cbn [stop] in Hs.
    + eexists. split; [reflexivity|]. cbn beta iota. split; [reflexivity|].
      destruct ft as [t|].
      * destruct (Hft t eq_refl) as [jt [H1 [H2 H3]]].
        exists jt. repeat split; [lia | exact H2 | left; exact H3].
      * exists j. repeat split; [lia | right; exact E].
    + discriminate.
    + rewrite Hs. eexists. split; [reflexivity|]. cbn beta iota.
      split; [reflexivity | rewrite E; discriminate].
  - destruct fuel as [|f]; [lia|]. cbn [fofis_loop].
    assert (H0 := Hns j ltac:(lia)).
    replace (j + S m) with (S j + m) in * by lia.
    destruct (get_slot d (probe (length d) h j)) as [| |st v] eqn:E; cbn [stop] in H0.
    + discriminate.
    + rewrite next_probe by exact Hn.
      apply IH; [lia | intros j' Hj'; apply Hns; lia | exact Hs |].
      intros t Ht. destruct ft as [t0|].
      * destruct (Hft t0 eq_refl) as [jt [H1 [H2 H3]]].
        injection Ht as <-. exists jt. repeat split; [lia | exact H2 | exact H3].
      * injection Ht as <-. exists j. repeat split; [lia | exact E].
    + rewrite H0. rewrite next_probe by exact Hn.
      apply IH; [lia | intros j' Hj'; apply Hns; lia | exact Hs |].
      intros t Ht. destruct (Hft t Ht) as [jt [H1 [H2 H3]]].
      exists jt. repeat split; [lia | exact H2 | exact H3].
Qed.

Lemma place_spec d st v h : length d <> 0 -> forall m j fuel, m < fuel ->
  (forall j', j <= j' < j + m -> get_slot d (probe (length d) h j') <> Free) ->
  get_slot d (probe (length d) h (j + m)) = Free ->
  place fuel d (probe (length d) h j) st v
  = Some (set_slot d (probe (length d) h (j + m)) (Full st v)).
Proof.
  intros Hn. induction m as [|m IH]; intros j fuel Hf Hns Hs.
  - destruct fuel as [|f]; [lia|]. rewrite Nat.add_0_r in *. cbn [place].
    rewrite Hs. reflexivity.
  - destruct fuel as [|f]; [lia|]. cbn [place].
    assert (H0 := Hns j ltac:(lia)).
    replace (j + S m) with (S j + m) in * by lia.
    destruct (get_slot d (probe (length d) h j)) as [| |st0 v0] eqn:E.
    + contradiction.
    + rewrite next_probe by exact Hn.
      apply IH; [lia | intros j' Hj'; apply Hns; lia | exact Hs].
    + rewrite next_probe by exact Hn.
      apply IH; [lia | intros j' Hj'; apply Hns; lia | exact Hs].
Qed.

Section Core.
Variable sbits : N.
Variable hash : N -> N.

(** ** The invariant *)

Definition status_ok (d : list slot) : Prop :=
  forall st v, In (Full st v) d -> st = status sbits (hash v).

(** slot [i] is reached from [h] by cyclic probing without crossing a FREE slot *)
Definition path (d : list slot) (h i : nat) : Prop :=
  exists j, probe (length d) h j = i /\
    forall j', j' < j -> get_slot d (probe (length d) h j') <> Free.

Definition reach_ok (d : list slot) : Prop :=
  forall i st v, i < length d -> get_slot d i = Full st v ->
    path d (home (hash v) (length d)) i.

Record TI (t : tbl) : Prop := mkTI {
  ti_size : size_ok sbits (size t);
  ti_len : len t = N.of_nat (length (vals (data t)));
  ti_free : (free t <= N.of_nat (nfree (data t)))%N;
  ti_free_pos : size t <> 0 -> (1 <= free t)%N;
  ti_status : status_ok (data t);
  ti_nodup : NoDup (vals (data t));
  ti_reach : reach_ok (data t)
}.

Definition abs (t : tbl) : list N := vals (data t).

Lemma status_ok_nil : status_ok [].
Proof. intros st v []. Qed.

Lemma reach_ok_nil : reach_ok [].
Proof. intros i st v Hi. cbn in Hi. lia. Qed.

Lemma TI_empty : TI empty.
Proof.
  constructor; cbn.
  - left. reflexivity.
  - reflexivity.
  - lia.
  - intros H. contradiction.
  - apply status_ok_nil.
  - constructor.
  - apply reach_ok_nil.
Qed.

Lemma status_ok_repeat c : status_ok (repeat Free c).
Proof. intros st v H. apply repeat_spec in H. discriminate. Qed.

Lemma reach_ok_novals d : vals d = [] -> reach_ok d.
Proof.
  intros Hv i st v Hi Hg.
  assert (H : In v (vals d)) by (apply in_vals_iff; exists i, st; split; assumption).
  rewrite Hv in H. contradiction.
Qed.

Lemma status_ok_novals d : vals d = [] -> status_ok d.
Proof.
  intros Hv st v Hin. destruct (In_nth _ _ Free Hin) as [i [Hi Hn]].
  assert (H : In v (vals d)) by (apply in_vals_iff; exists i, st; split; assumption).
  rewrite Hv in H. contradiction.
Qed.

Lemma status_ok_set d i s : status_ok d ->
  (forall st v, s = Full st v -> st = status sbits (hash v)) -> status_ok (set_slot d i s).
Proof.
  intros Hd Hs st v Hin. apply in_set_slot in Hin as [H|H].
  - apply Hs. symmetry. exact H.
  - apply Hd. exact H.
Qed.

Lemma status_ok_get d i st v : status_ok d -> i < length d -> get_slot d i = Full st v ->
  st = status sbits (hash v).
Proof. intros Hd Hi Hg. apply Hd. rewrite <- Hg. apply get_slot_in. exact Hi. Qed.

Lemma TI_size_pos t : TI t -> size t <> 0 ->
  exists f, f < length (data t) /\ get_slot (data t) f = Free.
Proof.
  intros HT Hn. apply nfree_pos_ex.
  pose proof (ti_free_pos t HT Hn). pose proof (ti_free t HT). lia.
Qed.

Lemma TI_len_size t : TI t -> len t <> 0%N -> size t <> 0.
Proof.
  intros HT Hl. pose proof (ti_len t HT). pose proof (vals_nfree_le (data t)).
  unfold size. lia.
Qed.

(** ** Filling a non-full slot *)

Lemma path_fill d i s h x : i < length d -> s <> Free -> path d h x -> path (set_slot d i s) h x.
Proof.
  intros Hi Hs [j [Hj Hp]]. exists j. rewrite length_set_slot. split; [exact Hj|].
  intros j' Hj'. apply get_set_nonfree; [exact Hi | exact Hs | apply Hp; exact Hj'].
Qed.

Lemma reach_ok_fill d i st v : i < length d -> reach_ok d ->
  path d (home (hash v) (length d)) i -> reach_ok (set_slot d i (Full st v)).
Proof.
  intros Hi Hr Hp i0 st0 v0 Hi0 Hg. rewrite length_set_slot in *.
  destruct (Nat.eq_dec i0 i) as [->|Hne].
  - rewrite get_set_same in Hg by exact Hi. injection Hg as <- <-.
    apply path_fill; [exact Hi | discriminate | exact Hp].
  - rewrite get_set_other in Hg by exact Hne.
    apply path_fill; [exact Hi | discriminate | apply (Hr i0 st0 v0 Hi0 Hg)].
Qed.

Lemma reach_ok_tomb d i : i < length d -> reach_ok d -> reach_ok (set_slot d i Tomb).
Proof.
  intros Hi Hr i0 st0 v0 Hi0 Hg. rewrite length_set_slot in *.
  destruct (Nat.eq_dec i0 i) as [->|Hne].
  - rewrite get_set_same in Hg by exact Hi. discriminate.
  - rewrite get_set_other in Hg by exact Hne.
    apply path_fill; [exact Hi | discriminate | apply (Hr i0 st0 v0 Hi0 Hg)].
Qed.

(** ** Freeing slots whose successor is free *)

Definition shrinks (d d' : list slot) : Prop :=
  length d' = length d /\
  forall i, i < length d ->
    (forall st v, get_slot d' i = Full st v -> get_slot d i = Full st v) /\
    (get_slot d' i = Free ->
       get_slot d i = Free \/ get_slot d' (next_idx i (length d)) = Free).

Lemma reach_ok_shrinks d d' : reach_ok d -> shrinks d d' -> reach_ok d'.
Proof.
  intros Hr [Hlen Hs] i st v Hi Hg. rewrite Hlen in *.
  assert (Hn : length d <> 0) by lia.
  destruct (Hs i Hi) as [Hfull _]. pose proof (Hfull st v Hg) as Hg0.
  destruct (Hr i st v Hi Hg0) as [j [Hj Hp]].
  exists j. rewrite Hlen. split; [exact Hj|].
  set (h := home (hash v) (length d)) in *.
  assert (Hback : forall m j', j' + S m = j -> get_slot d' (probe (length d) h j') = Free -> False).
  { induction m as [|m IH]; intros j' Hjm Hf.
    - destruct (Hs (probe (length d) h j') (probe_lt _ _ _ Hn)) as [_ H2].
      destruct (H2 Hf) as [H3|H3].
      + apply (Hp j'); [lia | exact H3].
      + rewrite next_probe in H3 by exact Hn. replace (S j') with j in H3 by lia.
        rewrite Hj in H3. congruence.
    - destruct (Hs (probe (length d) h j') (probe_lt _ _ _ Hn)) as [_ H2].
      destruct (H2 Hf) as [H3|H3].
      + apply (Hp j'); [lia | exact H3].
      + rewrite next_probe in H3 by exact Hn. apply (IH (S j')); [lia | exact H3]. }
  intros j' Hj' Hf. apply (Hback (j - j' - 1) j'); [lia | exact Hf].
Qed.

Lemma status_ok_shrinks d d' : status_ok d -> shrinks d d' -> status_ok d'.
Proof.
  intros Hd [Hlen Hs] st v Hin. destruct (In_nth _ _ Free Hin) as [i [Hi Hn]].
  rewrite Hlen in Hi. destruct (Hs i Hi) as [Hfull _].
  apply (status_ok_get d i st v Hd Hi). apply Hfull. exact Hn.
Qed.

(** ** find / get *)

Lemma stop_free_not_in d k j1 :
  status_ok d -> reach_ok d ->
  get_slot d (probe (length d) (home (hash k) (length d)) j1) = Free ->
  (forall j', j' < j1 ->
     stop (status sbits (hash k)) (N.eqb k)
          (get_slot d (probe (length d) (home (hash k) (length d)) j')) = false) ->
  ~ In k (vals d).
Proof.
  intros Hst Hr Hfree Hns Hin. apply in_vals_iff in Hin as [i [st [Hi Hg]]].
  destruct (Hr i st k Hi Hg) as [j [Hj Hp]].
  pose proof (status_ok_get d i st k Hst Hi Hg) as ->.
  destruct (lt_eq_lt_dec j j1) as [[Hlt|Heq]|Hgt].
  - specialize (Hns j Hlt). rewrite Hj, Hg in Hns. cbn [stop] in Hns.
    rewrite !N.eqb_refl in Hns. discriminate.
  - subst j1. rewrite Hj in Hfree. congruence.
  - apply (Hp j1 Hgt). exact Hfree.
Qed.

Lemma stop_full hs k st v : stop hs (N.eqb k) (Full st v) = true -> st = hs /\ v = k.
Proof.
  cbn [stop]. intros H. apply andb_true_iff in H as [H1 H2].
  apply N.eqb_eq in H1. apply N.eqb_eq in H2. split; congruence.
Qed.

Lemma find_spec t k : TI t ->
  exists r, find sbits t (hash k) (N.eqb k) = Some r /\
    match r with
    | Some i => i < size t /\ exists st, get_slot (data t) i = Full st k
    | None => ~ In k (vals (data t))
    end.
Proof.
  intros HT. unfold find. destruct (N.eqb_spec (len t) 0) as [H0|H0].
  - exists None. split; [reflexivity|]. intros Hin.
    pose proof (ti_len t HT) as Hl. destruct (vals (data t)); [contradiction | cbn in Hl; lia].
  - pose proof (TI_len_size t HT H0) as Hn. unfold size in *.
    destruct (first_hit (stop (status sbits (hash k)) (N.eqb k)) (data t)
                (home (hash k) (length (data t))) eq_refl (home_lt _ _ Hn)
                (TI_size_pos t HT Hn)) as [j1 [Hj1 [Hs Hns]]].
    pose proof (find_loop_spec (data t) (status sbits (hash k)) (N.eqb k)
                  (home (hash k) (length (data t))) Hn j1 0 (length (data t)) Hj1) as HF.
    rewrite probe_0 in HF by (apply home_lt; exact Hn). cbn [Nat.add] in HF.
    rewrite HF; [|intros j' Hj'; apply Hns; lia | exact Hs].
    eexists. split; [reflexivity|].
    destruct (get_slot (data t) (probe (length (data t)) (home (hash k) (length (data t))) j1))
      as [| |st v] eqn:E.
    + apply (stop_free_not_in (data t) k j1 (ti_status t HT) (ti_reach t HT) E Hns).
    + discriminate.
    + apply stop_full in Hs as [-> ->]. split; [apply probe_lt; exact Hn|].
      eexists. exact E.
Qed.

Lemma lookup_spec t k : TI t ->
  exists r, lookup sbits hash t k = Some r /\
    ((r = Some k /\ In k (abs t)) \/ (r = None /\ ~ In k (abs t))).
Proof.
  intros HT. unfold lookup, get. destruct (find_spec t k HT) as [r [-> Hr]].
  destruct r as [i|].
  - destruct Hr as [Hi [st Hg]]. rewrite Hg. eexists. split; [reflexivity|]. left.
    split; [reflexivity|]. apply in_vals_iff. exists i, st. split; assumption.
  - eexists. split; [reflexivity|]. right. split; [reflexivity | exact Hr].
Qed.

(** ** remove *)

Lemma remove_at_slot_spec t i st k : TI t -> i < size t -> get_slot (data t) i = Full st k ->
  snd (remove_at_slot t i) = Some k /\ TI (fst (remove_at_slot t i)) /\
  Permutation (abs t) (k :: abs (fst (remove_at_slot t i))).
Proof.
  intros HT Hi Hg. unfold remove_at_slot, abs. rewrite Hg. unfold size in *.
  assert (Hn : length (data t) <> 0) by lia.
  pose proof (ti_len t HT) as Hlen. pose proof (ti_free t HT) as Hfree.
  pose proof (ti_free_pos t HT Hn) as Hfp. pose proof (ti_nodup t HT) as Hnd.
  destruct (slot_is_free (get_slot (data t) (next_idx i (length (data t))))) eqn:En;
    cbn [fst snd data len free].
  - (* successor free: the slot becomes FREE *)
    destruct (vals_set_slot (data t) i Free Hi) as [a [b [Hv Hv']]].
    pose proof (nfree_set_slot (data t) i Free Hi) as Hnf.
    rewrite Hg in Hv, Hnf. cbn [sv slot_is_free app] in Hv, Hv', Hnf.
    split; [reflexivity|]. split.
    + constructor; cbn [data len free]; unfold size; cbn [data].
      * rewrite length_set_slot. exact (ti_size t HT).
      * rewrite Hv', Hlen, Hv, !app_length. cbn [length]. lia.
      * lia.
      * intros _. lia.
      * apply status_ok_set; [exact (ti_status t HT) | discriminate].
      * rewrite Hv'. rewrite Hv in Hnd. apply NoDup_remove_1 in Hnd. exact Hnd.
      * apply (reach_ok_shrinks (data t)); [exact (ti_reach t HT)|].
        split; [apply length_set_slot|]. intros i0 Hi0.
        destruct (Nat.eq_dec i0 i) as [->|Hne].
        -- rewrite get_set_same by exact Hi. split; [discriminate|]. intros _. right.
           destruct (Nat.eq_dec (next_idx i (length (data t))) i) as [He|Hne].
           ++ rewrite He. apply get_set_same. exact Hi.
           ++ rewrite get_set_other by exact Hne.
              destruct (get_slot (data t) (next_idx i (length (data t)))); try discriminate.
              reflexivity.
        -- rewrite get_set_other by exact Hne. split; [intros st0 v0 H; exact H|].
           intros H. left. exact H.
    + rewrite Hv, Hv'. apply Permutation_sym, Permutation_middle.
  - (* otherwise a tombstone *)
    destruct (vals_set_slot (data t) i Tomb Hi) as [a [b [Hv Hv']]].
    pose proof (nfree_set_slot (data t) i Tomb Hi) as Hnf.
    rewrite Hg in Hv, Hnf. cbn [sv slot_is_free app] in Hv, Hv', Hnf.
    split; [reflexivity|]. split.
    + constructor; cbn [data len free]; unfold size; cbn [data].
      * rewrite length_set_slot. exact (ti_size t HT).
      * rewrite Hv', Hlen, Hv, !app_length. cbn [length]. lia.
      * lia.
      * intros _. lia.
      * apply status_ok_set; [exact (ti_status t HT) | discriminate].
      * rewrite Hv'. rewrite Hv in Hnd. apply NoDup_remove_1 in Hnd. exact Hnd.
      * apply reach_ok_tomb; [exact Hi | exact (ti_reach t HT)].
    + rewrite Hv, Hv'. apply Permutation_sym, Permutation_middle.
Qed.

Lemma remove_spec t k : TI t ->
  exists t' r, remove sbits hash t k = Some (t', r) /\ TI t' /\
    ((r = Some k /\ In k (abs t) /\ Permutation (abs t) (k :: abs t')) \/
     (r = None /\ ~ In k (abs t) /\ t' = t)).
Proof.
  intros HT. unfold remove, remove_entry. destruct (find_spec t k HT) as [r [-> Hr]].
  destruct r as [i|].
  - destruct Hr as [Hi [st Hg]].
    destruct (remove_at_slot_spec t i st k HT Hi Hg) as [H1 [H2 H3]].
    destruct (remove_at_slot t i) as [t' r] eqn:E. cbn [fst snd] in *.
    exists t', r. split; [reflexivity|]. split; [exact H2|]. left.
    split; [exact H1|]. split; [|exact H3].
    apply in_vals_iff. exists i, st. split; assumption.
  - exists t, None. split; [reflexivity|]. split; [exact HT|]. right.
    split; [reflexivity|]. split; [exact Hr | reflexivity].
Qed.

(** ** rehash *)

Definition notomb (d : list slot) : Prop := length (vals d) + nfree d = length d.

Lemma rehash_into_spec n : size_ok sbits n -> n <> 0 -> forall old nd,
  length nd = n -> status_ok old -> status_ok nd -> reach_ok nd -> notomb nd ->
  length (vals nd) + length (vals old) < n ->
  exists nd', rehash_into old nd = Some nd' /\ length nd' = n /\ status_ok nd' /\
    reach_ok nd' /\ notomb nd' /\ Permutation (vals nd') (vals old ++ vals nd).
Proof.
  intros Hsz Hn. induction old as [|x old IH]; intros nd Hlen Hso Hsn Hrn Hnt Hcnt.
  - exists nd. cbn [rehash_into]. repeat split; try assumption. apply Permutation_refl.
  - assert (Hso' : status_ok old) by (intros st v H; apply Hso; right; exact H).
    destruct x as [| |st v].
    + cbn [rehash_into]. rewrite vals_cons in *. cbn [sv app] in *. apply IH; assumption.
    + cbn [rehash_into]. rewrite vals_cons in *. cbn [sv app] in *. apply IH; assumption.
    + cbn [rehash_into]. rewrite vals_cons in Hcnt. cbn [sv app length] in Hcnt.
      assert (Hst : st = status sbits (hash v)) by (apply Hso; left; reflexivity).
      assert (Hhome : home st (length nd) = home (hash v) (length nd)).
      { rewrite Hst, Hlen. apply home_status; assumption. }
      rewrite Hhome.
      assert (Hfree : exists f, f < length nd /\ get_slot nd f = Free).
      { apply nfree_pos_ex. unfold notomb in Hnt. lia. }
      assert (Hh : home (hash v) (length nd) < length nd) by (apply home_lt; lia).
      destruct (first_hit slot_is_free nd (home (hash v) (length nd)) eq_refl Hh Hfree)
        as [j1 [Hj1 [Hs Hns]]].
      assert (Hn' : length nd <> 0) by lia.
      pose proof (place_spec nd st v (home (hash v) (length nd)) Hn' j1 0 (length nd) Hj1) as HP.
      rewrite probe_0 in HP by exact Hh. cbn [Nat.add] in HP.
      assert (Hnf : forall j', j' < j1 ->
                get_slot nd (probe (length nd) (home (hash v) (length nd)) j') <> Free).
      { intros j' Hj' Hf. specialize (Hns j' Hj'). rewrite Hf in Hns. discriminate. }
      assert (Hf1 : get_slot nd (probe (length nd) (home (hash v) (length nd)) j1) = Free).
      { destruct (get_slot nd (probe (length nd) (home (hash v) (length nd)) j1));
          [reflexivity | discriminate | discriminate]. }
      rewrite HP; [|intros j' Hj'; apply Hnf; lia | exact Hf1].
      set (i1 := probe (length nd) (home (hash v) (length nd)) j1) in *.
      assert (Hi1 : i1 < length nd) by (apply probe_lt; exact Hn').
      destruct (vals_set_slot nd i1 (Full st v) Hi1) as [a [b [Hv Hv']]].
      pose proof (nfree_set_slot nd i1 (Full st v) Hi1) as Hnfr.
      rewrite Hf1 in Hv, Hnfr. cbn [sv slot_is_free app] in Hv, Hv', Hnfr.
      destruct (IH (set_slot nd i1 (Full st v))) as [nd' [H1 [H2 [H3 [H4 [H5 H6]]]]]].
      * rewrite length_set_slot. exact Hlen.
      * exact Hso'.
      * apply status_ok_set; [exact Hsn|]. intros st0 v0 He. injection He as <- <-. exact Hst.
      * apply reach_ok_fill; [exact Hi1 | exact Hrn |].
        exists j1. split; [reflexivity | exact Hnf].
      * unfold notomb in *. rewrite length_set_slot, Hv', app_length. cbn [length].
        rewrite Hv, app_length in Hnt. lia.
      * rewrite Hv', app_length. cbn [length]. rewrite Hv, app_length in Hcnt. lia.
      * exists nd'. repeat split; try assumption.
        rewrite vals_cons. cbn [sv app].
        eapply Permutation_trans; [exact H6|]. rewrite Hv', Hv.
        rewrite app_assoc. eapply Permutation_trans; [apply Permutation_sym, Permutation_middle|].
        rewrite <- app_assoc. apply Permutation_refl.
Qed.

Lemma reserve_rehash_spec t a :
  status_ok (data t) -> NoDup (vals (data t)) -> len t = N.of_nat (length (vals (data t))) ->
  (next_capacity (len t + a) <= 2 ^ sbits)%N ->
  exists t', reserve_rehash t a = Some t' /\ TI t' /\ Permutation (abs t') (abs t) /\
    (((len t + a)%N = 0%N /\ size t' = 0) \/ (a + 1 <= free t')%N).
Proof.
  intros Hso Hnd Hlen Hcap. unfold reserve_rehash, abs.
  destruct (N.eqb_spec (next_capacity (len t + a)) 0) as [H0|H0].
  - apply (proj1 (next_capacity_0 _)) in H0.
    assert (Hv : vals (data t) = []) by (apply length_zero_iff_nil; lia).
    eexists. split; [reflexivity|]. split; [|split].
    + constructor; cbn [data len free size length vals flat_map nfree filter].
      * left. reflexivity.
      * lia.
      * lia.
      * intros H. contradiction.
      * apply status_ok_nil.
      * constructor.
      * apply reach_ok_nil.
    + cbn [data]. rewrite Hv. apply Permutation_refl.
    + left. split; [exact H0 | reflexivity].
  - set (c := next_capacity (len t + a)) in *.
    assert (Hr : (len t + a <> 0)%N) by (intros H; apply H0, next_capacity_0; exact H).
    pose proof (next_capacity_gt _ Hr) as Hgt. fold c in Hgt.
    pose proof (next_capacity_size_ok sbits _ Hcap) as Hsz. fold c in Hsz.
    destruct (rehash_into_spec (N.to_nat c) Hsz ltac:(lia) (data t) (repeat Free (N.to_nat c)))
      as [nd' [H1 [H2 [H3 [H4 [H5 H6]]]]]].
    + apply repeat_length.
    + exact Hso.
    + apply status_ok_repeat.
    + apply reach_ok_novals, vals_repeat_free.
    + unfold notomb. rewrite vals_repeat_free, nfree_repeat_free, repeat_length. reflexivity.
    + rewrite vals_repeat_free. cbn [length]. lia.
    + rewrite H1. eexists. split; [reflexivity|].
      rewrite vals_repeat_free, app_nil_r in H6.
      pose proof (Permutation_length H6) as Hpl. unfold notomb in H5.
      split; [|split].
      * constructor; cbn [data len free]; unfold size; cbn [data].
        -- rewrite H2. exact Hsz.
        -- lia.
        -- lia.
        -- intros _. lia.
        -- exact H3.
        -- apply (Permutation_NoDup (Permutation_sym H6)). exact Hnd.
        -- exact H4.
      * cbn [data]. exact H6.
      * right. cbn [free]. lia.
Qed.

Definition reserve_fits (t : tbl) (a : N) : Prop :=
  (free t <? a + sizeN t / RATIO_D * (RATIO_D - RATIO_N))%N = true ->
  (next_capacity (len t + a) <= 2 ^ sbits)%N.

Lemma reserve_spec t a : TI t -> reserve_fits t a ->
  exists t', reserve t a = Some t' /\ TI t' /\ Permutation (abs t') (abs t) /\
    ((a = 0%N /\ size t' = 0) \/ (a + 1 <= free t')%N).
Proof.
  intros HT Hfit. unfold reserve, reserve_fits in *.
  destruct (N.ltb_spec (free t) (a + sizeN t / RATIO_D * (RATIO_D - RATIO_N))) as [Hlt|Hge].
  - destruct (reserve_rehash_spec t a (ti_status t HT) (ti_nodup t HT) (ti_len t HT)
                (Hfit eq_refl)) as [t' [H1 [H2 [H3 H4]]]].
    exists t'. split; [exact H1|]. split; [exact H2|]. split; [exact H3|].
    destruct H4 as [[H4 H5]|H4]; [left; split; [lia | exact H5] | right; exact H4].
  - exists t. split; [reflexivity|]. split; [exact HT|]. split; [apply Permutation_refl|].
    rewrite spare_eq in Hge. unfold sizeN in Hge.
    pose proof (ti_free t HT) as Hf. pose proof (vals_nfree_le (data t)) as Hle.
    destruct (ti_size t HT) as [Hz|[H16 _]].
    + left. unfold size in *. split; [lia | exact Hz].
    + right. unfold size in *. lia.
Qed.

(** ** insert *)

Lemma insert_spec t k : TI t -> reserve_fits t 1 ->
  exists t' b, insert sbits hash t k = Some (t', b) /\ TI t' /\
    ((b = true /\ ~ In k (abs t) /\ Permutation (abs t') (k :: abs t)) \/
     (b = false /\ In k (abs t) /\ Permutation (abs t') (abs t))).
Proof.
  intros HT Hfit. unfold insert, find_or_find_insert_slot.
  destruct (reserve_spec t 1 HT Hfit) as [t1 [-> [HT1 [Hperm Hfr]]]].
  destruct Hfr as [[Hfr _]|Hfr]; [lia|].
  pose proof (ti_free t1 HT1) as Hf1. pose proof (vals_nfree_le (data t1)) as Hle.
  assert (Hn : length (data t1) <> 0) by lia.
  unfold size.
  destruct (first_hit (stop (status sbits (hash k)) (N.eqb k)) (data t1)
              (home (hash k) (length (data t1))) eq_refl (home_lt _ _ Hn)
              (TI_size_pos t1 HT1 Hn)) as [j1 [Hj1 [Hs Hns]]].
  destruct (fofis_loop_spec (data t1) (status sbits (hash k)) (N.eqb k)
              (home (hash k) (length (data t1))) Hn j1 0 (length (data t1)) None Hj1)
    as [r [HF Hr]].
  { intros j' Hj'. apply Hns. lia. }
  { exact Hs. }
  { intros t0 Ht0. discriminate. }
  rewrite probe_0 in HF by (apply home_lt; exact Hn). cbn [Nat.add] in Hr.
  rewrite HF. destruct r as [i|i].
  - (* already present *)
    destruct Hr as [-> Hnf]. exists t1, false. split; [reflexivity|]. split; [exact HT1|].
    right. split; [reflexivity|]. split; [|exact Hperm].
    apply (Permutation_in _ Hperm).
    destruct (get_slot (data t1) (probe (length (data t1)) (home (hash k) (length (data t1))) j1))
      as [| |st v] eqn:E; [contradiction | discriminate |].
    apply stop_full in Hs as [-> ->]. apply in_vals_iff.
    eexists _, _. split; [|exact E]. apply probe_lt. exact Hn.
  - (* new element *)
    destruct Hr as [Hfree [jt [Hjt [Hpi Hsl]]]].
    assert (Hnin : ~ In k (abs t1)).
    { apply (stop_free_not_in (data t1) k j1 (ti_status t1 HT1) (ti_reach t1 HT1) Hfree Hns). }
    assert (Hi : i < length (data t1)) by (subst i; apply probe_lt; exact Hn).
    exists (insert_in_slot sbits t1 (hash k) i k), true. split; [reflexivity|].
    destruct (vals_set_slot (data t1) i (Full (status sbits (hash k)) k) Hi) as [a [b [Hv Hv']]].
    pose proof (nfree_set_slot (data t1) i (Full (status sbits (hash k)) k) Hi) as Hnfr.
    assert (Hsv : sv (get_slot (data t1) i) = []) by (destruct Hsl as [-> | ->]; reflexivity).
    rewrite Hsv in Hv. cbn [sv slot_is_free app] in Hv, Hv', Hnfr.
    pose proof (ti_len t1 HT1) as Hlen. pose proof (ti_nodup t1 HT1) as Hnd.
    assert (HP : Permutation (vals (set_slot (data t1) i (Full (status sbits (hash k)) k)))
                             (k :: vals (data t1))).
    { rewrite Hv, Hv'. apply Permutation_sym, Permutation_middle. }
    split.
    + unfold insert_in_slot.
      constructor; cbn [data len free]; unfold size; cbn [data].
      * rewrite length_set_slot. exact (ti_size t1 HT1).
      * rewrite (Permutation_length HP). cbn [length]. lia.
      * destruct Hsl as [Hsl|Hsl]; rewrite Hsl in *; cbn [slot_is_free] in Hnfr; lia.
      * intros _. destruct (get_slot (data t1) i); lia.
      * apply status_ok_set; [exact (ti_status t1 HT1)|].
        intros st0 v0 He. injection He as <- <-. reflexivity.
      * apply (Permutation_NoDup (Permutation_sym HP)). constructor; assumption.
      * apply reach_ok_fill; [exact Hi | exact (ti_reach t1 HT1) |].
        exists jt. split; [exact Hpi|]. intros j' Hj'.
        apply (stop_false_nonfree (status sbits (hash k)) (N.eqb k)). apply Hns. lia.
    + left. split; [reflexivity|]. split.
      * intros Hin. apply Hnin. apply (Permutation_in _ (Permutation_sym Hperm)). exact Hin.
      * unfold abs, insert_in_slot. cbn [data].
        eapply Permutation_trans; [exact HP|]. constructor. exact Hperm.
Qed.

End Core.
