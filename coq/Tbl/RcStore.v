(** * The abstract node store: a map  id -> (payload, count)  with fresh ids

    What a node store is to its clients, whatever its ids are (slab addresses in the
    pointer-based manager, slot indices in the index-based one): [AAdd] puts a payload under ANY
    id that is not in use, with count 1; [AClone] / [AEnd] of a handle count up / down; the
    payload leaves the store exactly when the count reaches 0.  The client's handle variables
    are part of the state ([a_hs]).

    [astep] is a relation (the id of a new entry is not determined).  Theorems: the counting
    invariant [AInv] (count = number of handle variables, never 0) is kept by every step, and
    the RESULTS of a script do not depend on the ids: two stores with different id types /
    allocation policies that run the same script from related states return the same results
    ([astep_id_independent], [aruns_id_independent]). *)

From Coq Require Import List NArith Bool Arith Lia.
Import ListNotations.

Local Open Scope N_scope.

Arguments N.add : simpl never.
Arguments N.sub : simpl never.

Inductive aop := AAdd (h : nat) (p : N) | AClone (h h2 : nat) | AEnd (h : nat) | AGet (h : nat).

Inductive ares :=
  | ARAdded                 (* a new entry *)
  | ARCount (rc : N)        (* the count after a clone *)
  | ARGone (p : N)          (* the handle was the last one: the payload leaves the store *)
  | ARKept                  (* other handles remain *)
  | ARVal (p rc : N).       (* payload and count *)

Section Store.
Variable I : Type.
Variable ieqb : I -> I -> bool.
Hypothesis ieqb_eq : forall a b, ieqb a b = true <-> a = b.

Record astate := mkA { a_map : I -> option (N * N); a_hs : list (nat * I) }.

Fixpoint afind (h : nat) (hs : list (nat * I)) : option I :=
  match hs with
  | [] => None
  | (k, v) :: r => if (k =? h)%nat then Some v else afind h r
  end.

Fixpoint aremove (h : nat) (hs : list (nat * I)) : list (nat * I) :=
  match hs with
  | [] => []
  | (k, v) :: r => if (k =? h)%nat then aremove h r else (k, v) :: aremove h r
  end.

Definition acount (id : I) (hs : list (nat * I)) : nat :=
  length (filter (fun e => ieqb (snd e) id) hs).

Definition astep (s : astate) (o : aop) (r : ares) (s' : astate) : Prop :=
  match o with
  | AAdd h p =>
      afind h (a_hs s) = None /\
      exists id, a_map s id = None /\ r = ARAdded /\ a_hs s' = (h, id) :: a_hs s /\
                 forall j, a_map s' j = if ieqb id j then Some (p, 1) else a_map s j
  | AClone h h2 =>
      exists id p rc, afind h (a_hs s) = Some id /\ afind h2 (a_hs s) = None /\
                      a_map s id = Some (p, rc) /\ r = ARCount (rc + 1) /\
                      a_hs s' = (h2, id) :: a_hs s /\
                      forall j, a_map s' j = if ieqb id j then Some (p, rc + 1) else a_map s j
  | AEnd h =>
      exists id p rc, afind h (a_hs s) = Some id /\ a_map s id = Some (p, rc) /\
                      a_hs s' = aremove h (a_hs s) /\
                      ((rc = 1 /\ r = ARGone p /\ forall j, a_map s' j = if ieqb id j then None else a_map s j) \/
                       (rc <> 1 /\ r = ARKept /\ forall j, a_map s' j = if ieqb id j then Some (p, rc - 1) else a_map s j))
  | AGet h =>
      exists id p rc, afind h (a_hs s) = Some id /\ a_map s id = Some (p, rc) /\ r = ARVal p rc /\
                      a_hs s' = a_hs s /\ forall j, a_map s' j = a_map s j
  end.

(** the count of an entry = the number of handle variables that refer to it, never 0 *)
Definition AInv (s : astate) : Prop :=
  NoDup (map fst (a_hs s)) /\
  forall id, match a_map s id with
             | Some (p, rc) => rc = N.of_nat (acount id (a_hs s)) /\ (1 <= acount id (a_hs s))%nat
             | None => acount id (a_hs s) = 0%nat
             end.

(** ** handle lists *)

Lemma ieqb_refl a : ieqb a a = true.
Proof. apply ieqb_eq. reflexivity. Qed.

Lemma ieqb_neq a b : ieqb a b = false <-> a <> b.
Proof.
  split.
  - intros H E. apply ieqb_eq in E. congruence.
  - intros H. destruct (ieqb a b) eqn:E; [apply ieqb_eq in E; contradiction | reflexivity].
Qed.

Lemma acount_cons id h v hs :
  acount id ((h, v) :: hs) = ((if ieqb v id then 1 else 0) + acount id hs)%nat.
Proof. unfold acount. cbn. destruct (ieqb v id); reflexivity. Qed.

Lemma afind_In h hs v : afind h hs = Some v -> In (h, v) hs.
Proof.
  induction hs as [|[k x] r IH]; cbn; [discriminate|].
  destruct (Nat.eqb_spec k h) as [->|Hne]; [intros H; inversion H; auto | auto].
Qed.

Lemma afind_None h hs : afind h hs = None <-> ~ In h (map fst hs).
Proof.
  induction hs as [|[k x] r IH]; cbn; [tauto|].
  destruct (Nat.eqb_spec k h) as [->|Hne]; [split; [discriminate | tauto]|].
  rewrite IH. tauto.
Qed.

Lemma afind_aremove h hs h' :
  afind h' (aremove h hs) = if (h =? h')%nat then None else afind h' hs.
Proof.
  induction hs as [|[k x] r IH]; cbn [aremove afind]; [destruct (h =? h')%nat; reflexivity|].
  destruct (Nat.eqb_spec k h) as [->|Hne].
  - rewrite IH. destruct (Nat.eqb_spec h h') as [->|Hne']; [reflexivity|].
    destruct (Nat.eqb_spec h h'); [contradiction | reflexivity].
  - cbn [afind]. rewrite IH. destruct (Nat.eqb_spec k h') as [->|Hne'].
    + destruct (Nat.eqb_spec h h'); [congruence | reflexivity].
    + reflexivity.
Qed.

Lemma aremove_keys h hs :
  map fst (aremove h hs) = filter (fun k => negb (k =? h)%nat) (map fst hs).
Proof.
  induction hs as [|[k x] r IH]; cbn; [reflexivity|].
  destruct (k =? h)%nat; cbn; rewrite IH; reflexivity.
Qed.

Lemma aremove_NoDup h hs : NoDup (map fst hs) -> NoDup (map fst (aremove h hs)).
Proof. intros H. rewrite aremove_keys. apply NoDup_filter. exact H. Qed.

Lemma aremove_notin h hs : ~ In h (map fst hs) -> aremove h hs = hs.
Proof.
  induction hs as [|[k x] r IH]; cbn; [auto|]. intros H.
  destruct (Nat.eqb_spec k h); [tauto|]. f_equal. apply IH. tauto.
Qed.

Lemma aremove_acount h hs v id :
  NoDup (map fst hs) -> afind h hs = Some v ->
  acount id hs = ((if ieqb v id then 1 else 0) + acount id (aremove h hs))%nat.
Proof.
  induction hs as [|[k x] r IH]; cbn [afind aremove map]; [discriminate|]. intros Hnd Hf.
  inversion Hnd; subst. rewrite acount_cons. cbn [fst] in *.
  destruct (Nat.eqb_spec k h) as [->|Hne].
  - inversion Hf; subst x. rewrite aremove_notin by assumption. reflexivity.
  - rewrite acount_cons, (IH H2 Hf). lia.
Qed.

Lemma acount_pos id hs : (1 <= acount id hs)%nat <-> exists h, In (h, id) hs.
Proof.
  induction hs as [|[k x] r IH].
  - unfold acount; cbn. split; [lia | intros [h []]].
  - rewrite acount_cons. destruct (ieqb x id) eqn:E.
    + apply ieqb_eq in E. subst x. split; [|lia]. intros _. exists k. cbn; auto.
    + rewrite Nat.add_0_l, IH. split.
      * intros [h H]. exists h. cbn; auto.
      * intros [h [H|H]]; [|eauto]. inversion H; subst. apply ieqb_neq in E. congruence.
Qed.

Lemma AInv_live s h id : AInv s -> afind h (a_hs s) = Some id -> a_map s id <> None.
Proof.
  intros [_ H] Hf. specialize (H id).
  assert (Hp : (1 <= acount id (a_hs s))%nat) by (apply acount_pos; exists h; apply afind_In; exact Hf).
  destruct (a_map s id) as [[p rc]|]; [discriminate | lia].
Qed.

(** ** every step keeps the counting invariant *)
Theorem astep_inv s o r s' : AInv s -> astep s o r s' -> AInv s'.
Proof.
  intros [Hnd Hc] Hst. destruct o as [h p|h h2|h|h]; cbn [astep] in Hst.
  - destruct Hst as (Hf & id & Hm & _ & Hhs & Hmap). split.
    + rewrite Hhs. cbn. constructor; [apply afind_None; exact Hf | exact Hnd].
    + intros j. rewrite Hmap, Hhs, acount_cons. destruct (ieqb id j) eqn:E.
      * apply ieqb_eq in E. subst j. specialize (Hc id). rewrite Hm in Hc. rewrite Hc. cbn. split; [reflexivity | lia].
      * cbn. apply Hc.
  - destruct Hst as (id & p & rc & Hf & Hf2 & Hm & _ & Hhs & Hmap). split.
    + rewrite Hhs. cbn. constructor; [apply afind_None; exact Hf2 | exact Hnd].
    + intros j. rewrite Hmap, Hhs, acount_cons. destruct (ieqb id j) eqn:E.
      * apply ieqb_eq in E. subst j. specialize (Hc id). rewrite Hm in Hc. split; lia.
      * cbn. apply Hc.
  - destruct Hst as (id & p & rc & Hf & Hm & Hhs & Hcase). split.
    + rewrite Hhs. apply aremove_NoDup. exact Hnd.
    + intros j. rewrite Hhs. pose proof (aremove_acount h (a_hs s) id j Hnd Hf) as Hcnt.
      pose proof (Hc id) as Hid. rewrite Hm in Hid.
      destruct Hcase as [(E & _ & Hmap)|(E & _ & Hmap)]; rewrite Hmap; destruct (ieqb id j) eqn:Ej.
      * apply ieqb_eq in Ej. subst j. lia.
      * specialize (Hc j). cbn in Hcnt. rewrite <- Hcnt. exact Hc.
      * apply ieqb_eq in Ej. subst j. split; lia.
      * specialize (Hc j). cbn in Hcnt. rewrite <- Hcnt. exact Hc.
  - destruct Hst as (id & p & rc & _ & _ & _ & Hhs & Hmap). split.
    + rewrite Hhs. exact Hnd.
    + intros j. rewrite Hmap, Hhs. apply Hc.
Qed.

(** [astep] only looks at the handle list and at the map pointwise *)
Lemma astep_ext s o r s1 s2 :
  astep s o r s1 -> a_hs s2 = a_hs s1 -> (forall j, a_map s2 j = a_map s1 j) -> astep s o r s2.
Proof.
  intros H Eh Em. destruct o as [h p|h h2|h|h]; cbn [astep] in *.
  - destruct H as (Hf & id & Hm & Hr & Hhs & Hmap). split; [exact Hf|]. exists id.
    repeat (split; [assumption || congruence|]). intros j. rewrite Em. apply Hmap.
  - destruct H as (id & p & rc & Hf & Hf2 & Hm & Hr & Hhs & Hmap). exists id, p, rc.
    repeat (split; [assumption || congruence|]). intros j. rewrite Em. apply Hmap.
  - destruct H as (id & p & rc & Hf & Hm & Hhs & Hc). exists id, p, rc.
    repeat (split; [assumption || congruence|]).
    destruct Hc as [(E & Hr & Hmap)|(E & Hr & Hmap)]; [left | right]; (split; [exact E|]); (split; [exact Hr|]);
      intros j; rewrite Em; apply Hmap.
  - destruct H as (id & p & rc & Hf & Hm & Hr & Hhs & Hmap). exists id, p, rc.
    repeat (split; [assumption || congruence|]). intros j. rewrite Em. apply Hmap.
Qed.

(** whole scripts *)
Inductive aruns : astate -> list aop -> list ares -> astate -> Prop :=
  | aruns_nil s : aruns s [] [] s
  | aruns_cons s o r s1 os rs s2 : astep s o r s1 -> aruns s1 os rs s2 -> aruns s (o :: os) (r :: rs) s2.

Theorem aruns_inv s os rs s' : AInv s -> aruns s os rs s' -> AInv s'.
Proof. intros H R. induction R; [exact H | apply IHR; eapply astep_inv; eauto]. Qed.

End Store.

Arguments mkA {I}.
Arguments a_map {I}.
Arguments a_hs {I}.
Arguments afind {I}.
Arguments aremove {I}.

(** ** the results do not depend on the ids *)
Section Independent.
Variables I1 I2 : Type.
Variable eqb1 : I1 -> I1 -> bool.
Variable eqb2 : I2 -> I2 -> bool.
Hypothesis eqb1_eq : forall a b, eqb1 a b = true <-> a = b.
Hypothesis eqb2_eq : forall a b, eqb2 a b = true <-> a = b.

(** same handle variables; corresponding handles see the same (payload, count); two handle
    variables refer to the same entry in one store iff they do in the other *)
Definition sim (s1 : astate I1) (s2 : astate I2) : Prop :=
  map fst (a_hs s1) = map fst (a_hs s2) /\
  (forall h id1 id2, afind h (a_hs s1) = Some id1 -> afind h (a_hs s2) = Some id2 ->
     a_map s1 id1 = a_map s2 id2) /\
  (forall h h' id1 id1' id2 id2',
     afind h (a_hs s1) = Some id1 -> afind h' (a_hs s1) = Some id1' ->
     afind h (a_hs s2) = Some id2 -> afind h' (a_hs s2) = Some id2' ->
     (id1 = id1' <-> id2 = id2')).

Lemma if_eqb1 {A} a b (x y : A) : (if eqb1 a b then x else y) = x \/ a <> b.
Proof. destruct (eqb1 a b) eqn:E; [auto | right; intros H; apply eqb1_eq in H; congruence]. Qed.

Lemma sim_bound s1 s2 h :
  sim s1 s2 -> (afind h (a_hs s1) = None <-> afind h (a_hs s2) = None).
Proof. intros (Hk & _). rewrite !afind_None, Hk. tauto. Qed.

Theorem astep_id_independent s1 s2 o r1 r2 s1' s2' :
  AInv I1 eqb1 s1 -> AInv I2 eqb2 s2 -> sim s1 s2 ->
  astep I1 eqb1 s1 o r1 s1' -> astep I2 eqb2 s2 o r2 s2' ->
  r1 = r2 /\ sim s1' s2'.
Proof.
  intros HI1 HI2 (Hk & Hv & Hal) H1 H2.
  assert (D1 : forall a b : I1, {a = b} + {a <> b}).
  { intros a b. destruct (eqb1 a b) eqn:E; [left; apply eqb1_eq; exact E | right; intros H; apply eqb1_eq in H; congruence]. }
  assert (D2 : forall a b : I2, {a = b} + {a <> b}).
  { intros a b. destruct (eqb2 a b) eqn:E; [left; apply eqb2_eq; exact E | right; intros H; apply eqb2_eq in H; congruence]. }
  assert (T1 : forall a b, eqb1 a b = if D1 a b then true else false).
  { intros a b. destruct (D1 a b) as [->|N]; [apply eqb1_eq; reflexivity|]. destruct (eqb1 a b) eqn:E; [apply eqb1_eq in E; contradiction | reflexivity]. }
  assert (T2 : forall a b, eqb2 a b = if D2 a b then true else false).
  { intros a b. destruct (D2 a b) as [->|N]; [apply eqb2_eq; reflexivity|]. destruct (eqb2 a b) eqn:E; [apply eqb2_eq in E; contradiction | reflexivity]. }
  destruct o as [h p|h h2|h|h]; cbn [astep] in H1, H2.
  - (* AAdd *)
    destruct H1 as (Hf1 & id1 & Hm1 & -> & Hhs1 & Hmap1). destruct H2 as (Hf2 & id2 & Hm2 & -> & Hhs2 & Hmap2).
    split; [reflexivity|].
    assert (Fr1 : forall h0 idA, afind h0 (a_hs s1) = Some idA -> id1 <> idA).
    { intros h0 idA Hf E. subst idA. apply (AInv_live I1 eqb1 eqb1_eq s1 h0 id1 HI1 Hf). exact Hm1. }
    assert (Fr2 : forall h0 idB, afind h0 (a_hs s2) = Some idB -> id2 <> idB).
    { intros h0 idB Hf E. subst idB. apply (AInv_live I2 eqb2 eqb2_eq s2 h0 id2 HI2 Hf). exact Hm2. }
    split; [rewrite Hhs1, Hhs2; cbn; f_equal; exact Hk|]. split.
    + intros h0 a b. rewrite Hhs1, Hhs2. cbn [afind]. destruct (Nat.eqb_spec h h0) as [<-|Hne].
      * intros E1 E2. inversion E1; inversion E2; subst. rewrite Hmap1, Hmap2, T1, T2.
        destruct (D1 a a); [|congruence]. destruct (D2 b b); [reflexivity | congruence].
      * intros E1 E2. rewrite Hmap1, Hmap2, T1, T2.
        destruct (D1 id1 a) as [E|_]; [exfalso; exact (Fr1 _ _ E1 E)|].
        destruct (D2 id2 b) as [E|_]; [exfalso; exact (Fr2 _ _ E2 E)|]. eapply Hv; eauto.
    + intros h0 h0' a a' b b'. rewrite Hhs1, Hhs2. cbn [afind].
      destruct (Nat.eqb_spec h h0) as [<-|Hne]; destruct (Nat.eqb_spec h h0') as [<-|Hne']; intros E1 E1' E2 E2'.
      * inversion E1; inversion E1'; inversion E2; inversion E2'; subst. tauto.
      * inversion E1; inversion E2; subst. split; intros E; exfalso; [exact (Fr1 _ _ E1' E) | exact (Fr2 _ _ E2' E)].
      * inversion E1'; inversion E2'; subst. split; intros E; exfalso; [exact (Fr1 _ _ E1 (eq_sym E)) | exact (Fr2 _ _ E2 (eq_sym E))].
      * eapply Hal; eauto.
  - (* AClone *)
    destruct H1 as (id1 & p1 & rc1 & Hf1 & Hn1 & Hm1 & -> & Hhs1 & Hmap1).
    destruct H2 as (id2 & p2 & rc2 & Hf2 & Hn2 & Hm2 & -> & Hhs2 & Hmap2).
    pose proof (Hv h id1 id2 Hf1 Hf2) as E. rewrite Hm1, Hm2 in E. inversion E; subst p2 rc2.
    split; [reflexivity|].
    split; [rewrite Hhs1, Hhs2; cbn; f_equal; exact Hk|]. split.
    + intros h0 a b. rewrite Hhs1, Hhs2. cbn [afind]. destruct (Nat.eqb_spec h2 h0) as [<-|Hne].
      * intros E1 E2. inversion E1; inversion E2; subst. rewrite Hmap1, Hmap2, T1, T2.
        destruct (D1 a a); [|congruence]. destruct (D2 b b); [reflexivity | congruence].
      * intros E1 E2. rewrite Hmap1, Hmap2, T1, T2.
        pose proof (Hal h h0 id1 a id2 b Hf1 E1 Hf2 E2) as Hiff.
        destruct (D1 id1 a) as [Ea|Na]; destruct (D2 id2 b) as [Eb|Nb]; try tauto.
        eapply Hv; eauto.
    + intros h0 h0' a a' b b'. rewrite Hhs1, Hhs2. cbn [afind].
      destruct (Nat.eqb_spec h2 h0) as [<-|Hne]; destruct (Nat.eqb_spec h2 h0') as [<-|Hne']; intros E1 E1' E2 E2'.
      * inversion E1; inversion E1'; inversion E2; inversion E2'; subst. tauto.
      * inversion E1; inversion E2; subst. eapply Hal; eauto.
      * inversion E1'; inversion E2'; subst. eapply Hal; eauto.
      * eapply Hal; eauto.
  - (* AEnd *)
    destruct H1 as (id1 & p1 & rc1 & Hf1 & Hm1 & Hhs1 & Hc1).
    destruct H2 as (id2 & p2 & rc2 & Hf2 & Hm2 & Hhs2 & Hc2).
    pose proof (Hv h id1 id2 Hf1 Hf2) as E. rewrite Hm1, Hm2 in E. inversion E; subst p2 rc2.
    assert (Hsim : forall v1 v2 : option (N * N), v1 = v2 ->
              (forall j, a_map s1' j = if eqb1 id1 j then v1 else a_map s1 j) ->
              (forall j, a_map s2' j = if eqb2 id2 j then v2 else a_map s2 j) -> sim s1' s2').
    { intros v1 v2 Ev Hmap1 Hmap2.
      split; [rewrite Hhs1, Hhs2, !aremove_keys, Hk; reflexivity|]. split.
      - intros h0 a b. rewrite Hhs1, Hhs2, !afind_aremove. destruct (h =? h0)%nat; [discriminate|].
        intros E1 E2. rewrite Hmap1, Hmap2, T1, T2.
        pose proof (Hal h h0 id1 a id2 b Hf1 E1 Hf2 E2) as Hiff.
        destruct (D1 id1 a) as [Ea|Na]; destruct (D2 id2 b) as [Eb|Nb]; try tauto.
        eapply Hv; eauto.
      - intros h0 h0' a a' b b'. rewrite Hhs1, Hhs2, !afind_aremove.
        destruct (h =? h0)%nat; [discriminate|]. destruct (h =? h0')%nat; [discriminate|].
        intros. eapply Hal; eauto. }
    destruct Hc1 as [(Erc & -> & Hmap1)|(Erc & -> & Hmap1)]; destruct Hc2 as [(Erc2 & -> & Hmap2)|(Erc2 & -> & Hmap2)]; try congruence.
    + split; [reflexivity|]. exact (Hsim _ _ eq_refl Hmap1 Hmap2).
    + split; [reflexivity|]. exact (Hsim _ _ eq_refl Hmap1 Hmap2).
  - (* AGet *)
    destruct H1 as (id1 & p1 & rc1 & Hf1 & Hm1 & -> & Hhs1 & Hmap1).
    destruct H2 as (id2 & p2 & rc2 & Hf2 & Hm2 & -> & Hhs2 & Hmap2).
    pose proof (Hv h id1 id2 Hf1 Hf2) as E. rewrite Hm1, Hm2 in E. inversion E; subst p2 rc2.
    split; [reflexivity|].
    split; [rewrite Hhs1, Hhs2; exact Hk|]. split.
    + intros h0 a b. rewrite Hhs1, Hhs2, Hmap1, Hmap2. apply Hv.
    + intros h0 h0' a a' b b'. rewrite Hhs1, Hhs2. apply Hal.
Qed.

Theorem aruns_id_independent os : forall s1 s2 rs1 rs2 s1' s2',
  AInv I1 eqb1 s1 -> AInv I2 eqb2 s2 -> sim s1 s2 ->
  aruns I1 eqb1 s1 os rs1 s1' -> aruns I2 eqb2 s2 os rs2 s2' ->
  rs1 = rs2 /\ sim s1' s2'.
Proof.
  induction os as [|o os IH]; intros s1 s2 rs1 rs2 s1' s2' HI1 HI2 Hs R1 R2; inversion R1; inversion R2; subst.
  - auto.
  - destruct (astep_id_independent _ _ _ _ _ _ _ HI1 HI2 Hs H2 H9) as [-> Hs'].
    destruct (IH _ _ _ _ _ _ (astep_inv I1 eqb1 eqb1_eq _ _ _ _ HI1 H2) (astep_inv I2 eqb2 eqb2_eq _ _ _ _ HI2 H9) Hs' H5 H12) as [-> Hs''].
    auto.
Qed.

End Independent.
