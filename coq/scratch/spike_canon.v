
From Coq Require Import List Arith Lia Bool PArith FMapPositive.
Import ListNotations.

Inductive ref := T (b : bool) | I (id : positive).
Record node := { lvl : nat; hi : ref; lo : ref }.
Definition table := PositiveMap.t node.

Lemma ref_eq_dec : forall a b : ref, {a = b} + {a <> b}.
Proof. decide equality. apply bool_dec. apply Pos.eq_dec. Defined.

Section S.
Variable t : table.
Variable n : nat.  (* number of levels; terminals live at level n *)

Definition rlevel (r : ref) : nat :=
  match r with T _ => n | I id => match PositiveMap.find id t with Some nd => lvl nd | None => n end end.

Fixpoint sem (fuel : nat) (r : ref) (a : nat -> bool) : bool :=
  match r with
  | T b => b
  | I id =>
    match fuel with
    | 0 => false
    | S f =>
      match PositiveMap.find id t with
      | None => false
      | Some nd => if a (lvl nd) then sem f (hi nd) a else sem f (lo nd) a
      end
    end
  end.

Lemma sem_S : forall f id a, sem (S f) (I id) a =
  match PositiveMap.find id t with None => false
  | Some nd => if a (lvl nd) then sem f (hi nd) a else sem f (lo nd) a end.
Proof. reflexivity. Qed.
Lemma sem_T : forall f b a, sem f (T b) a = b.
Proof. destruct f; reflexivity. Qed.

Definition ok (r : ref) : Prop :=
  match r with T _ => True | I id => exists nd, PositiveMap.find id t = Some nd end.

Record WF : Prop := {
  wf_lvl : forall id nd, PositiveMap.find id t = Some nd -> lvl nd < n;
  wf_hi : forall id nd, PositiveMap.find id t = Some nd -> ok (hi nd) /\ lvl nd < rlevel (hi nd);
  wf_lo : forall id nd, PositiveMap.find id t = Some nd -> ok (lo nd) /\ lvl nd < rlevel (lo nd);
  wf_red : forall id nd, PositiveMap.find id t = Some nd -> hi nd <> lo nd;
  wf_uniq : forall id1 id2 n1 n2, PositiveMap.find id1 t = Some n1 -> PositiveMap.find id2 t = Some n2 ->
      lvl n1 = lvl n2 -> hi n1 = hi n2 -> lo n1 = lo n2 -> id1 = id2
}.

Hypothesis H : WF.

Lemma rlevel_le : forall r, rlevel r <= n.
Proof. intros [b|id]; simpl; [lia|]. destruct (PositiveMap.find id t) eqn:E; [|lia].
  pose proof (wf_lvl H _ _ E). lia. Qed.

(* fuel adequacy: any fuel > n - rlevel r gives the same result *)
Lemma sem_fuel : forall f1 f2 r a, ok r -> n - rlevel r < f1 -> n - rlevel r < f2 -> sem f1 r a = sem f2 r a.
Proof.
  induction f1 as [|f1 IH]; intros f2 r a Hok H1 H2.
  - lia.
  - destruct r as [b|id]; [rewrite !sem_T; reflexivity|].
    destruct f2 as [|f2]; [lia|]. rewrite !sem_S.
    destruct (PositiveMap.find id t) as [nd|] eqn:E; [|reflexivity].
    unfold rlevel in H1, H2. rewrite E in H1, H2.
    destruct (wf_hi H _ _ E) as [Oh Lh]. destruct (wf_lo H _ _ E) as [Ol Ll].
    pose proof (rlevel_le (hi nd)). pose proof (rlevel_le (lo nd)). pose proof (wf_lvl H _ _ E).
    destruct (a (lvl nd)); apply IH; auto; lia.
Qed.

Definition semn r a := sem (S n) r a.

Lemma semn_node : forall id nd a, PositiveMap.find id t = Some nd ->
  semn (I id) a = if a (lvl nd) then semn (hi nd) a else semn (lo nd) a.
Proof.
  intros id nd a E. unfold semn. rewrite sem_S, E.
  destruct (wf_hi H _ _ E) as [Oh Lh]. destruct (wf_lo H _ _ E) as [Ol Ll].
  pose proof (wf_lvl H _ _ E).
  destruct (a (lvl nd)); apply sem_fuel; auto; lia.
Qed.

Arguments sem : simpl never.
Definition upd (a : nat -> bool) (l : nat) (b : bool) : nat -> bool := fun x => if Nat.eqb x l then b else a x.

Lemma upd_same : forall a l b, upd a l b l = b.
Proof. intros. unfold upd. now rewrite Nat.eqb_refl. Qed.

(* semantics does not depend on variables strictly above the ref's level *)
Lemma semn_indep : forall k r a l b, ok r -> n - rlevel r <= k -> l < rlevel r -> semn r (upd a l b) = semn r a.
Proof.
  induction k as [|k IH]; intros r a l b Hok Hk Hl.
  - destruct r as [c|id]; [reflexivity|].
    simpl in Hok. destruct Hok as [nd E]. simpl in Hk, Hl. rewrite E in Hk, Hl.
    pose proof (wf_lvl H _ _ E). lia.
  - destruct r as [c|id]; [reflexivity|].
    simpl in Hok. destruct Hok as [nd E]. simpl in Hk, Hl. rewrite E in Hk, Hl.
    rewrite !(semn_node _ _ _ E).
    destruct (wf_hi H _ _ E) as [Oh Lh]. destruct (wf_lo H _ _ E) as [Ol Ll].
    unfold upd at 1. destruct (Nat.eqb_spec (lvl nd) l); [lia|].
    destruct (a (lvl nd)); apply IH; auto; lia.
Qed.

Theorem canon : forall k r1 r2, ok r1 -> ok r2 ->
  Nat.max (n - rlevel r1) (n - rlevel r2) <= k ->
  (forall a, semn r1 a = semn r2 a) -> r1 = r2.
Proof.
  induction k as [k IH] using lt_wf_ind. intros r1 r2 O1 O2 Hk Heq.
  destruct r1 as [b1|id1], r2 as [b2|id2].
  - specialize (Heq (fun _ => false)). unfold semn in Heq. rewrite !sem_T in Heq. congruence.
  - exfalso. destruct O2 as [nd E].
    destruct (wf_hi H _ _ E) as [Oh Lh]. destruct (wf_lo H _ _ E) as [Ol Ll].
    pose proof (wf_lvl H _ _ E) as Hl.
    apply (wf_red H _ _ E).
    apply (IH (Nat.max (n - rlevel (hi nd)) (n - rlevel (lo nd)))); auto.
    + simpl in Hk. rewrite E in Hk. lia.
    + intros a.
      pose proof (Heq (upd a (lvl nd) true)) as Ht. pose proof (Heq (upd a (lvl nd) false)) as Hf.
      rewrite (semn_node _ _ _ E) in Ht. rewrite (semn_node _ _ _ E) in Hf. unfold upd at 2 in Ht. unfold upd at 2 in Hf.
      rewrite Nat.eqb_refl in Ht, Hf.
      rewrite (semn_indep (n - rlevel (hi nd)) (hi nd)) in Ht by (auto; lia).
      rewrite (semn_indep (n - rlevel (lo nd)) (lo nd)) in Hf by (auto; lia).
      unfold semn in Ht, Hf. rewrite !sem_T in Ht, Hf. unfold semn. congruence.
  - exfalso. destruct O1 as [nd E].
    destruct (wf_hi H _ _ E) as [Oh Lh]. destruct (wf_lo H _ _ E) as [Ol Ll].
    apply (wf_red H _ _ E).
    apply (IH (Nat.max (n - rlevel (hi nd)) (n - rlevel (lo nd)))); auto.
    + pose proof (wf_lvl H _ _ E). simpl in Hk. rewrite E in Hk. lia.
    + intros a.
      pose proof (Heq (upd a (lvl nd) true)) as Ht. pose proof (Heq (upd a (lvl nd) false)) as Hf.
      rewrite (semn_node _ _ _ E) in Ht. rewrite (semn_node _ _ _ E) in Hf. unfold upd at 1 in Ht. unfold upd at 1 in Hf.
      rewrite Nat.eqb_refl in Ht, Hf.
      rewrite (semn_indep (n - rlevel (hi nd)) (hi nd)) in Ht by (auto; lia).
      rewrite (semn_indep (n - rlevel (lo nd)) (lo nd)) in Hf by (auto; lia).
      unfold semn in Ht, Hf. rewrite !sem_T in Ht, Hf. unfold semn. congruence.
  - destruct O1 as [n1 E1]. destruct O2 as [n2 E2].
    destruct (wf_hi H _ _ E1) as [Oh1 Lh1]. destruct (wf_lo H _ _ E1) as [Ol1 Ll1].
    destruct (wf_hi H _ _ E2) as [Oh2 Lh2]. destruct (wf_lo H _ _ E2) as [Ol2 Ll2].
    pose proof (wf_lvl H _ _ E1) as Hl1. pose proof (wf_lvl H _ _ E2) as Hl2.
    simpl in Hk. rewrite E1, E2 in Hk.
    destruct (lt_eq_lt_dec (lvl n1) (lvl n2)) as [[Hlt|Heql]|Hgt].
    + (* n1 strictly above n2: n1 would be redundant *)
      exfalso. apply (wf_red H _ _ E1).
      apply (IH (Nat.max (n - rlevel (hi n1)) (n - rlevel (lo n1)))); auto; [lia|].
      intros a.
      pose proof (Heq (upd a (lvl n1) true)) as Ht. pose proof (Heq (upd a (lvl n1) false)) as Hf.
      rewrite (semn_node _ _ _ E1) in Ht. rewrite (semn_node _ _ _ E1) in Hf. unfold upd at 1 in Ht. unfold upd at 1 in Hf.
      rewrite Nat.eqb_refl in Ht, Hf.
      rewrite (semn_indep (n - rlevel (hi n1)) (hi n1)) in Ht by (auto; lia).
      rewrite (semn_indep (n - rlevel (lo n1)) (lo n1)) in Hf by (auto; lia).
      rewrite (semn_indep (n - rlevel (I id2)) (I id2)) in Ht by (simpl; try rewrite E2; eauto; lia).
      rewrite (semn_indep (n - rlevel (I id2)) (I id2)) in Hf by (simpl; try rewrite E2; eauto; lia).
      congruence.
    + assert (hi n1 = hi n2).
      { apply (IH (Nat.max (n - rlevel (hi n1)) (n - rlevel (hi n2)))); auto; [lia|].
        intros a. pose proof (Heq (upd a (lvl n1) true)) as Ht.
        rewrite (semn_node _ _ _ E1), (semn_node _ _ _ E2) in Ht.
        rewrite <- Heql in Ht. rewrite !upd_same in Ht.
        rewrite (semn_indep (n - rlevel (hi n1)) (hi n1)) in Ht by (auto; lia).
        rewrite (semn_indep (n - rlevel (hi n2)) (hi n2)) in Ht by (auto; lia). exact Ht. }
      assert (lo n1 = lo n2).
      { apply (IH (Nat.max (n - rlevel (lo n1)) (n - rlevel (lo n2)))); auto; [lia|].
        intros a. pose proof (Heq (upd a (lvl n1) false)) as Ht.
        rewrite (semn_node _ _ _ E1), (semn_node _ _ _ E2) in Ht.
        rewrite <- Heql in Ht. rewrite !upd_same in Ht.
        rewrite (semn_indep (n - rlevel (lo n1)) (lo n1)) in Ht by (auto; lia).
        rewrite (semn_indep (n - rlevel (lo n2)) (lo n2)) in Ht by (auto; lia). exact Ht. }
      f_equal. eapply (wf_uniq H); eauto.
    + exfalso. apply (wf_red H _ _ E2).
      apply (IH (Nat.max (n - rlevel (hi n2)) (n - rlevel (lo n2)))); auto; [lia|].
      intros a.
      pose proof (Heq (upd a (lvl n2) true)) as Ht. pose proof (Heq (upd a (lvl n2) false)) as Hf.
      rewrite (semn_node _ _ _ E2) in Ht. rewrite (semn_node _ _ _ E2) in Hf. unfold upd at 2 in Ht. unfold upd at 2 in Hf.
      rewrite Nat.eqb_refl in Ht, Hf.
      rewrite (semn_indep (n - rlevel (hi n2)) (hi n2)) in Ht by (auto; lia).
      rewrite (semn_indep (n - rlevel (lo n2)) (lo n2)) in Hf by (auto; lia).
      rewrite (semn_indep (n - rlevel (I id1)) (I id1)) in Ht by (simpl; try rewrite E1; eauto; lia).
      rewrite (semn_indep (n - rlevel (I id1)) (I id1)) in Hf by (simpl; try rewrite E1; eauto; lia).
      congruence.
Qed.
End S.
