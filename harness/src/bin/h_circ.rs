//! C18: drives `oxidd_parser::Circuit::simplify` and the DIMACS / AIGER / NNF
//! parsers.
//!
//! `h_circ gen <tier> <seed> [shard nshards]` prints a case file,
//! `h_circ run [file]` executes a case file on the real code.
//!
//! Case kinds (one op line each unless noted):
//!   `C <n> | <gate> ; <gate> ... | <root> <root> ...`
//!        build the circuit through the public API and call `simplify(roots)`
//!        -> `OK | <new gates> | <gate map> | <mapped roots>`  or  `ERR <lit>`
//!   `P <fmt> <opts> <via> <hex>`   parse one input -> `OK <summary>` | `DIAG`
//!   `B <fmt> <opts> <via> <family> <hex seed>`  batch of mutations of one seed,
//!        enumerated inside the harness -> `n=.. ok=.. diag=..` (+ `PANIC <hex> msg`)
//!   `Q <opts> <hex aag> <hex aig>`  both must parse to the same problem
//!        -> `SAME` | `DIFF ..` | `ERR1` | `ERR2` | `ERRBOTH`
//!   `A <opts> <hex>`  parse one AIGER input -> `OK <field-by-field dump>` | `DIAG` | `PANIC ..`
//!        (compared with the extracted model parser of coq/IO/AigerParse.v)
//!   `D <opts> <family> <hex seed> <rseed>`  mutations of one AIGER seed, one `A` line each
//!   `N <opts> <hex>`  parse one DIMACS input -> `OK <dump>` | `DIAG` | `PANIC ..`
//!        (compared with the extracted model of coq/IO/DimacsParse.v when it is a `p cnf` file)
//!   `M <opts> <family> <hex seed> <rseed>`  mutations of one DIMACS seed, one `N` line each
//!   `X <fmt> <opts> <hex>`  parse one NNF / DIMACS input (all options) -> `OK <dump_full>` | `DIAG` | `PANIC ..`
//!        (every field incl. variable order, order tree, names; compared with the extracted models of
//!        coq/IO/NnfParse.v / DimacsSatParse.v / TreeParse.v)
//!   `Y <fmt> <opts> <family> <hex seed> <rseed>`  mutations of one seed, one `X` line each
//!   `S <opts> <n> [chain|vo|sat]`  input of processing depth <n> (AIGER gate chain, DIMACS order tree,
//!        SAT formula), parsed in a thread with the default stack size -> `OK` | `DIAG` (a stack
//!        overflow kills the process)
//!   `V <inputs> <d1> <d2>`  binary AIGER file with one AND gate whose deltas are
//!        d1, d2 (7-bit varint codec) -> `<hex of the two varints> <in1> <in2>` | `.. DIAG`
//!
//! Literal syntax: `F` `T` `+U` `-U` `+i3` `-i3` `+g1` `-g1`; gate: kind letter
//! `A`/`O`/`X` followed by its literals.

use hcommon::*;
use oxidd_parser::{Circuit, GateKind, Literal, ParseOptions, ParseOptionsBuilder, Problem, ProblemDetails, VarSet};
use std::fmt::Write as _;
use std::time::Duration;

// ---------------------------------------------------------------------------
// literals / circuits in text form
// ---------------------------------------------------------------------------

fn parse_lit(t: &str) -> Literal {
    match t {
        "F" => Literal::FALSE,
        "T" => Literal::TRUE,
        "+U" => Literal::UNDEF,
        "-U" => !Literal::UNDEF,
        _ => {
            let neg = match &t[0..1] {
                "+" => false,
                "-" => true,
                _ => panic!("bad literal {t}"),
            };
            let k: usize = t[2..].parse().unwrap_or_else(|_| panic!("bad literal {t}"));
            match &t[1..2] {
                "i" => Literal::from_input(neg, k),
                "g" => Literal::from_gate(neg, k),
                _ => panic!("bad literal {t}"),
            }
        }
    }
}

fn fmt_lit(l: Literal) -> String {
    if l == Literal::FALSE {
        return "F".into();
    }
    if l == Literal::TRUE {
        return "T".into();
    }
    if l == Literal::UNDEF {
        return "+U".into();
    }
    if l == !Literal::UNDEF {
        return "-U".into();
    }
    let s = if l.is_negative() { '-' } else { '+' };
    if let Some(g) = l.get_gate_no() {
        format!("{s}g{g}")
    } else if let Some(i) = l.get_input() {
        format!("{s}i{i}")
    } else {
        format!("?{l}")
    }
}

fn kind_of(t: &str) -> GateKind {
    match t {
        "A" => GateKind::And,
        "O" => GateKind::Or,
        "X" => GateKind::Xor,
        _ => panic!("bad gate kind {t}"),
    }
}

fn kind_letter(k: GateKind) -> char {
    match k {
        GateKind::And => 'A',
        GateKind::Or => 'O',
        GateKind::Xor => 'X',
    }
}

fn fmt_gates(c: &Circuit) -> String {
    let mut s = String::new();
    for (i, g) in c.iter_gates().enumerate() {
        if i > 0 {
            s.push_str(" ; ");
        }
        s.push(kind_letter(g.kind));
        for &l in g.inputs {
            s.push(' ');
            s.push_str(&fmt_lit(l));
        }
    }
    s
}

fn fmt_lits(ls: &[Literal]) -> String {
    ls.iter().map(|&l| fmt_lit(l)).collect::<Vec<_>>().join(" ")
}

/// `C <n> | gates | roots`
fn run_circ(line: &str) -> String {
    let body = line[1..].trim();
    let parts: Vec<&str> = body.split('|').collect();
    assert!(parts.len() == 3, "C line needs 3 sections");
    let n: usize = parts[0].trim().parse().expect("n");
    let mut c = Circuit::new(VarSet::new(n));
    for g in parts[1].split(';') {
        let toks: Vec<&str> = g.split_whitespace().collect();
        if toks.is_empty() {
            continue;
        }
        c.push_gate(kind_of(toks[0]));
        c.push_gate_inputs(toks[1..].iter().map(|t| parse_lit(t)));
    }
    let roots: Vec<Literal> = parts[2].split_whitespace().map(parse_lit).collect();
    match c.simplify(roots.iter().copied()) {
        Ok((nc, map)) => {
            assert_eq!(nc.inputs().len(), n, "simplify changed the number of inputs");
            let mapped: Vec<Literal> = roots.iter().map(|r| r.apply_gate_map(&map)).collect();
            format!("OK | {} | {} | {}", fmt_gates(&nc), fmt_lits(&map), fmt_lits(&mapped))
        }
        Err(l) => format!("ERR {}", fmt_lit(l)),
    }
}

// ---------------------------------------------------------------------------
// parsers
// ---------------------------------------------------------------------------

fn hex(b: &[u8]) -> String {
    let mut s = String::with_capacity(b.len() * 2 + 1);
    if b.is_empty() {
        s.push('-');
    }
    for x in b {
        write!(s, "{x:02x}").unwrap();
    }
    s
}

fn unhex(s: &str) -> Vec<u8> {
    if s == "-" {
        return Vec::new();
    }
    (0..s.len() / 2).map(|i| u8::from_str_radix(&s[2 * i..2 * i + 2], 16).unwrap()).collect()
}

fn opts(mask: u64) -> ParseOptions {
    ParseOptionsBuilder::default()
        .var_order(mask & 1 != 0)
        .clause_tree(mask & 2 != 0)
        .check_acyclic(mask & 4 != 0)
        .build()
        .unwrap()
}

fn summary(p: &Problem) -> String {
    let root = match &p.details {
        ProblemDetails::Root(l) => fmt_lit(*l),
        ProblemDetails::AIGER(a) => format!("aig:{}+{}o{}", a.inputs(), a.latches().len(), a.outputs().len()),
    };
    format!("n={} g={} root={}", p.circuit.inputs().len(), p.circuit.num_gates(), root)
}

/// parse through the nom entry points with the unit error type
fn parse_direct(fmt: &str, o: &ParseOptions, data: &[u8]) -> Option<Problem> {
    match fmt {
        "dimacs" => oxidd_parser::dimacs::parse::<()>(o)(data).ok().map(|x| x.1),
        "aiger" => oxidd_parser::aiger::parse::<()>(o)(data).ok().map(|x| x.1),
        "nnf" => oxidd_parser::nnf::parse::<()>(o)(data).ok().map(|x| x.1),
        _ => panic!("unknown format {fmt}"),
    }
}

/// parse through `load_file` (renders the diagnostic to stderr)
fn parse_file(fmt: &str, o: &ParseOptions, data: &[u8]) -> Option<Problem> {
    let dir = std::env::var("VERIF_WORK").map(std::path::PathBuf::from).unwrap_or_else(|_| std::env::temp_dir());
    let ext = match fmt {
        "dimacs" => "cnf",
        "aiger" => "aig",
        "nnf" => "nnf",
        _ => panic!("unknown format {fmt}"),
    };
    let path = dir.join(format!("h_circ_{}.{ext}", std::process::id()));
    std::fs::write(&path, data).expect("write temp input");
    oxidd_parser::load_file(&path, o)
}

fn parse_via(via: &str, fmt: &str, o: &ParseOptions, data: &[u8]) -> Option<Problem> {
    if via == "file" {
        parse_file(fmt, o, data)
    } else {
        parse_direct(fmt, o, data)
    }
}

/// A successfully parsed problem must also survive `Problem::simplify` without
/// panicking (the parsers promise in-range literals).
fn post_ok(p: &Problem) {
    let _ = p.simplify();
}

const INTERESTING: &[u8] = b"0123456789 \n\t\r-+*()[],=xXcpaAoOlLbB\x00\x01\x02\x7f\x80\x81\xff";

fn mutations(family: &str, seed: &[u8], rseed: u64, f: &mut dyn FnMut(&[u8])) {
    let mut rng = Rng::new(rseed);
    let mut buf: Vec<u8> = Vec::new();
    match family {
        "trunc" => {
            for i in 0..=seed.len() {
                f(&seed[..i]);
            }
            for i in 0..=seed.len() {
                f(&seed[i..]);
            }
        }
        "subst" => {
            for i in 0..seed.len() {
                for &b in INTERESTING {
                    if b != seed[i] {
                        buf.clear();
                        buf.extend_from_slice(seed);
                        buf[i] = b;
                        f(&buf);
                    }
                }
            }
        }
        "substall" => {
            for i in 0..seed.len() {
                for b in 0..=255u8 {
                    if b != seed[i] {
                        buf.clear();
                        buf.extend_from_slice(seed);
                        buf[i] = b;
                        f(&buf);
                    }
                }
            }
        }
        "delins" => {
            for i in 0..seed.len() {
                buf.clear();
                buf.extend_from_slice(&seed[..i]);
                buf.extend_from_slice(&seed[i + 1..]);
                f(&buf);
            }
            for i in 0..=seed.len() {
                for &b in INTERESTING {
                    buf.clear();
                    buf.extend_from_slice(&seed[..i]);
                    buf.push(b);
                    buf.extend_from_slice(&seed[i..]);
                    f(&buf);
                }
            }
        }
        _ => {
            // "multi<k>": k random inputs with 1..4 stacked random edits
            let k: u64 = family.strip_prefix("multi").and_then(|x| x.parse().ok()).unwrap_or(1000);
            for _ in 0..k {
                buf.clear();
                buf.extend_from_slice(seed);
                for _ in 0..rng.range(1, 4) {
                    let len = buf.len();
                    match rng.below(6) {
                        0 | 1 if len > 0 => {
                            let i = rng.below(len as u64) as usize;
                            buf[i] = if rng.chance(3, 4) { *rng.pick(INTERESTING) } else { rng.below(256) as u8 };
                        }
                        2 if len > 0 => {
                            let i = rng.below(len as u64) as usize;
                            buf.remove(i);
                        }
                        3 => {
                            let i = rng.below(len as u64 + 1) as usize;
                            buf.insert(i, *rng.pick(INTERESTING));
                        }
                        4 if len > 1 => {
                            // duplicate / move a chunk (line-ish)
                            let a = rng.below(len as u64) as usize;
                            let b = (a + 1 + rng.below(12) as usize).min(len);
                            let chunk: Vec<u8> = buf[a..b].to_vec();
                            let at = rng.below(len as u64 + 1) as usize;
                            for (j, x) in chunk.into_iter().enumerate() {
                                buf.insert(at + j, x);
                            }
                        }
                        _ => {
                            let i = rng.below(len as u64 + 1) as usize;
                            buf.truncate(i);
                        }
                    }
                }
                f(&buf);
            }
        }
    }
}

fn has_digit_run(data: &[u8], k: usize) -> bool {
    let mut run = 0;
    for b in data {
        if b.is_ascii_digit() {
            run += 1;
            if run >= k {
                return true;
            }
        } else {
            run = 0;
        }
    }
    false
}

fn panic_msg(e: Box<dyn std::any::Any + Send>) -> String {
    if let Some(s) = e.downcast_ref::<&str>() {
        s.to_string()
    } else if let Some(s) = e.downcast_ref::<String>() {
        s.clone()
    } else {
        "?".into()
    }
    .replace('\n', " ")
}

fn run_batch(line: &str, out: &mut dyn FnMut(String)) {
    let t: Vec<&str> = line.split_whitespace().collect();
    let (fmt, mask, via, family, seedhex) = (t[1], t[2].parse::<u64>().unwrap(), t[3], t[4], t[5]);
    let rseed: u64 = t.get(6).and_then(|x| x.parse().ok()).unwrap_or(1);
    let o = opts(mask);
    let seed = unhex(seedhex);
    let (mut n, mut ok, mut diag, mut panics) = (0u64, 0u64, 0u64, 0u64);
    let mut panic_lines: Vec<String> = Vec::new();
    let mut skipped = 0u64;
    mutations(family, &seed, rseed, &mut |data: &[u8]| {
        // Numbers of 8 and more digits are outside the search: the parsers size
        // their allocations by the counts of the header, so an absurd count is an
        // allocation failure (process abort), see the `oom` probe / known finding.
        if has_digit_run(data, 8) {
            skipped += 1;
            return;
        }
        n += 1;
        let r = std::panic::catch_unwind(std::panic::AssertUnwindSafe(|| {
            let p = parse_via(via, fmt, &o, data);
            if let Some(p) = &p {
                post_ok(p);
            }
            p.is_some()
        }));
        match r {
            Ok(true) => ok += 1,
            Ok(false) => diag += 1,
            Err(e) => {
                panics += 1;
                if panic_lines.len() < 3 {
                    panic_lines.push(format!("PANIC input={} {}", hex(data), panic_msg(e)));
                }
            }
        }
    });
    out(format!("{line} -> n={n} ok={ok} diag={diag} panics={panics} skipped={skipped}"));
    for l in panic_lines {
        out(l);
    }
}

fn run_parse(line: &str) -> String {
    let t: Vec<&str> = line.split_whitespace().collect();
    let (fmt, mask, via, data) = (t[1], t[2].parse::<u64>().unwrap(), t[3], unhex(t[4]));
    let o = opts(mask);
    match parse_via(via, fmt, &o, &data) {
        Some(p) => {
            post_ok(&p);
            format!("OK {}", summary(&p))
        }
        None => "DIAG".into(),
    }
}

fn run_pair(line: &str) -> String {
    let t: Vec<&str> = line.split_whitespace().collect();
    let o = opts(t[1].parse::<u64>().unwrap());
    let a = parse_direct("aiger", &o, &unhex(t[2]));
    let b = parse_direct("aiger", &o, &unhex(t[3]));
    match (a, b) {
        (Some(a), Some(b)) => {
            if a == b {
                // the simplified problems must agree as well
                let (sa, sb) = (a.simplify(), b.simplify());
                if sa == sb { format!("SAME {}", summary(&a)) } else { "DIFF after simplify".into() }
            } else {
                format!("DIFF {:?} <> {:?}", a, b).replace('\n', " ")
            }
        }
        (None, Some(_)) => "ERR1".into(),
        (Some(_), None) => "ERR2".into(),
        (None, None) => "ERRBOTH".into(),
    }
}

/// `S <opts> <n> [chain|vo|sat]`: inputs whose processing depth is <n>, parsed in a thread with the
/// default stack size.  chain: ASCII AIGER, gate k = AND(gate k+1, true), the last one AND(true, true)
/// (valid and acyclic; depth of `Circuit::find_cycle`); vo: DIMACS with the order tree `[[[..1..]]]`;
/// sat: DIMACS SAT formula `*(*(*(..1..)))`.
fn run_stack_probe(line: &str) -> String {
    let t: Vec<&str> = line.split_whitespace().collect();
    let (mask, n): (u64, usize) = (t[1].parse().unwrap(), t[2].parse().unwrap());
    let kind = t.get(3).copied().unwrap_or("chain");
    let (fmt, s) = match kind {
        "vo" => ("dimacs", format!("c vo {}1{}\np cnf 1 0\n", "[".repeat(n), "]".repeat(n))),
        "sat" => ("dimacs", format!("p sat 1\n{}1{}\n", "*(".repeat(n), ")".repeat(n))),
        _ => {
            let mut s = format!("aag {n} 0 0 1 {n}\n2\n");
            for k in 0..n {
                let r = if k + 1 < n { 2 * (k + 2) } else { 1 };
                writeln!(s, "{} {r} 1", 2 * (k + 1)).unwrap();
            }
            ("aiger", s)
        }
    };
    let h = std::thread::spawn(move || parse_direct(fmt, &opts(mask), s.as_bytes()).is_some());
    match h.join() {
        Ok(true) => "OK".into(),
        Ok(false) => "DIAG".into(),
        Err(e) => format!("PANIC {}", panic_msg(e)),
    }
}

fn enc7(mut x: u64, out: &mut Vec<u8>) {
    // encoder of the AIGER FORMAT document
    while x & !0x7f != 0 {
        out.push(((x & 0x7f) | 0x80) as u8);
        x >>= 7;
    }
    out.push(x as u8);
}

/// `V <inputs> <d1> <d2>`
fn run_varint(line: &str) -> String {
    let t: Vec<&str> = line.split_whitespace().collect();
    let (i, d1, d2): (u64, u64, u64) = (t[1].parse().unwrap(), t[2].parse().unwrap(), t[3].parse().unwrap());
    let mut data = format!("aig {} {} 0 0 1\n", i + 1, i).into_bytes();
    let mut enc = Vec::new();
    enc7(d1, &mut enc);
    enc7(d2, &mut enc);
    data.extend_from_slice(&enc);
    let o = opts(4);
    match parse_direct("aiger", &o, &data) {
        Some(p) => {
            let g = p.circuit.gate_for_no(0).expect("one gate");
            // back to AIGER literal numbers (variable 0 = false, inputs 1..=i)
            let aig_no = |l: Literal| -> u64 {
                let v = if l == Literal::FALSE || l == Literal::TRUE {
                    0
                } else if let Some(k) = l.get_input() {
                    k as u64 + 1
                } else {
                    i + 1 + l.get_gate_no().unwrap() as u64
                };
                2 * v + l.is_negative() as u64
            };
            format!("{} {} {}", hex(&enc), aig_no(g.inputs[0]), aig_no(g.inputs[1]))
        }
        None => format!("{} DIAG", hex(&enc)),
    }
}

// ---------------------------------------------------------------------------
// field-by-field dump of a parsed AIGER problem (C18p: compared with the model)
// ---------------------------------------------------------------------------

/// Parses the `{:?}` text of a `Vec<Option<String>>` starting at `pos` (which
/// must point at `[`); returns the entries and the position after `]`.
fn parse_debug_names(b: &[u8], mut pos: usize) -> Option<(Vec<Option<Vec<u8>>>, usize)> {
    if b.get(pos) != Some(&b'[') {
        return None;
    }
    pos += 1;
    let mut res = Vec::new();
    loop {
        match b.get(pos)? {
            b']' => return Some((res, pos + 1)),
            b',' | b' ' => pos += 1,
            b'N' => {
                // None
                if !b[pos..].starts_with(b"None") {
                    return None;
                }
                res.push(None);
                pos += 4;
            }
            b'S' => {
                if !b[pos..].starts_with(b"Some(\"") {
                    return None;
                }
                pos += 6;
                let mut name: Vec<u8> = Vec::new();
                loop {
                    let c = *b.get(pos)?;
                    if c == b'"' {
                        pos += 1;
                        break;
                    }
                    if c != b'\\' {
                        name.push(c);
                        pos += 1;
                        continue;
                    }
                    let e = *b.get(pos + 1)?;
                    pos += 2;
                    match e {
                        b'n' => name.push(b'\n'),
                        b'r' => name.push(b'\r'),
                        b't' => name.push(b'\t'),
                        b'0' => name.push(0),
                        b'\\' | b'"' | b'\'' => name.push(e),
                        b'u' => {
                            // \u{hex}
                            if b.get(pos) != Some(&b'{') {
                                return None;
                            }
                            let end = pos + b[pos..].iter().position(|&x| x == b'}')?;
                            let cp = u32::from_str_radix(std::str::from_utf8(&b[pos + 1..end]).ok()?, 16).ok()?;
                            let ch = char::from_u32(cp)?;
                            let mut buf = [0u8; 4];
                            name.extend_from_slice(ch.encode_utf8(&mut buf).as_bytes());
                            pos = end + 1;
                        }
                        _ => return None,
                    }
                }
                if b.get(pos) != Some(&b')') {
                    return None;
                }
                pos += 1;
                res.push(Some(name));
            }
            _ => return None,
        }
    }
}

/// text of the bracketed list that follows `key` (first occurrence), brackets included
fn debug_field<'a>(dbg: &'a str, key: &str) -> Option<&'a str> {
    let start = dbg.find(key)? + key.len();
    let b = dbg.as_bytes();
    if b.get(start) != Some(&b'[') {
        return None;
    }
    let mut depth = 0usize;
    for (i, &c) in b[start..].iter().enumerate() {
        match c {
            b'[' => depth += 1,
            b']' => {
                depth -= 1;
                if depth == 0 {
                    return Some(&dbg[start..start + i + 1]);
                }
            }
            _ => {}
        }
    }
    None
}

/// `[+i0, -g1, ⊥]` -> `+i0 -g1 F`; nested lists: inner lists separated by `;`
fn debug_lits(field: &str) -> String {
    let inner = &field[1..field.len() - 1];
    let conv = |t: &str| -> String {
        t.split(',')
            .map(|x| x.trim())
            .filter(|x| !x.is_empty())
            .map(|x| match x {
                "⊥" => "F".to_string(),
                "⊤" => "T".to_string(),
                _ => x.to_string(),
            })
            .collect::<Vec<_>>()
            .join(" ")
    };
    if inner.trim_start().starts_with('[') {
        // list of lists
        let mut parts = Vec::new();
        let mut rest = inner;
        while let Some(a) = rest.find('[') {
            let b = rest[a..].find(']').unwrap() + a;
            parts.push(conv(&rest[a + 1..b]));
            rest = &rest[b + 1..];
        }
        parts.iter().map(|p| format!("{p};")).collect::<Vec<_>>().join(" ")
    } else {
        conv(inner)
    }
}

fn fmt_names(names: &[Option<Vec<u8>>], count: usize) -> String {
    // one token per object: `-` (no name) or `=<hex of the UTF-8 bytes>`
    (0..count)
        .map(|i| match names.get(i) {
            Some(Some(n)) => format!("={}", if n.is_empty() { String::new() } else { hex(n) }),
            _ => "-".to_string(),
        })
        .collect::<Vec<_>>()
        .join(" ")
}

/// Every field of `Problem { circuit, details: AIGER(..) }` in a canonical text
/// form.  Fields without a public accessor (bad, invariants, justice, fairness
/// and the name vectors) are taken from the `Debug` text of `AIGERDetails`.
fn dump_aiger(p: &Problem) -> String {
    let a = match &p.details {
        ProblemDetails::AIGER(a) => a,
        _ => return "NOT-AIGER".into(),
    };
    let nl = a.latches().len();
    let resets: Vec<&str> = (0..nl)
        .map(|i| match a.latch_init_value(i) {
            Some(false) => "0",
            Some(true) => "1",
            None => "x",
        })
        .collect();
    let dbg = format!("{:?}", a);
    let get = |key: &str| -> String { debug_field(&dbg, key).map(debug_lits).unwrap_or_else(|| "?".into()) };
    let mut map = Vec::new();
    let mut v = 0usize;
    while let Some(l) = a.map_aiger_literal(2 * v) {
        map.push(l);
        v += 1;
    }
    let mut ands = Vec::new();
    for g in p.circuit.iter_gates() {
        let ins: Vec<String> = g.inputs.iter().map(|&l| fmt_lit(l)).collect();
        ands.push(format!("{}:{}", kind_letter(g.kind), ins.join("&")));
    }
    // name vectors: sequentially from the Debug text (after the literal fields)
    let b = dbg.as_bytes();
    let mut lists: Vec<Vec<Option<Vec<u8>>>> = Vec::new();
    let mut pos = dbg.find(", output_names: ").map(|x| x + ", output_names: ".len());
    for next in [", bad_names: ", ", invariant_names: ", ", justice_names: ", ", fairness_names: ", ""] {
        let Some(p0) = pos else { break };
        let Some((l, p1)) = parse_debug_names(b, p0) else { break };
        lists.push(l);
        pos = if !next.is_empty() && dbg[p1..].starts_with(next) { Some(p1 + next.len()) } else { None };
    }
    let nvars = p.circuit.inputs().len();
    let in_names: Vec<Option<Vec<u8>>> =
        (0..nvars).map(|i| p.circuit.inputs().name(i).map(|s| s.as_bytes().to_vec())).collect();
    let names = if lists.len() == 5 {
        let cnt = |key: &str| -> usize {
            let f = get(key);
            if key == "justice: " { f.matches(';').count() } else { f.split_whitespace().count() }
        };
        format!(
            "i[{}] o[{}] b[{}] c[{}] j[{}] f[{}]",
            fmt_names(&in_names, nvars),
            fmt_names(&lists[0], a.outputs().len()),
            fmt_names(&lists[1], cnt(", bad: ")),
            fmt_names(&lists[2], cnt(", invariants: ")),
            fmt_names(&lists[3], cnt("justice: ")),
            fmt_names(&lists[4], cnt(", fairness: "))
        )
    } else {
        "?".into()
    };
    // cross-check of the accessors against the Debug text
    for (i, l) in lists.iter().enumerate().take(4) {
        for (k, n) in l.iter().enumerate() {
            let acc = match i {
                0 => a.output_name(k),
                1 => a.bad_name(k),
                2 => a.invariant_name(k),
                _ => a.justice_name(k),
            };
            assert_eq!(acc.map(|s| s.as_bytes().to_vec()), *n, "name accessor differs from the Debug text");
        }
    }
    format!(
        "in={} nv={} | lat {} | res {} | out {} | bad {} | inv {} | just {} | fair {} | ands {} | map {} | names {}",
        a.inputs(),
        nvars,
        fmt_lits(a.latches()),
        resets.join(" "),
        fmt_lits(a.outputs()),
        get(", bad: "),
        get(", invariants: "),
        get("justice: "),
        get(", fairness: "),
        ands.join(" "),
        fmt_lits(&map),
        names
    )
}

/// `A <opts> <hex>`: result text for one AIGER input (panics are caught here so
/// that a batch goes on)
fn aiger_result(mask: u64, data: &[u8]) -> String {
    let o = opts(mask);
    let r = std::panic::catch_unwind(std::panic::AssertUnwindSafe(|| match parse_direct("aiger", &o, data) {
        Some(p) => {
            post_ok(&p);
            format!("OK {}", dump_aiger(&p))
        }
        None => "DIAG".into(),
    }));
    match r {
        Ok(s) => s,
        Err(e) => format!("PANIC {}", panic_msg(e)),
    }
}

/// `D <opts> <family> <hex seed> <rseed>`
fn run_aiger_mut(line: &str, out: &mut dyn FnMut(String)) {
    let t: Vec<&str> = line.split_whitespace().collect();
    let (mask, family, seed) = (t[1].parse::<u64>().unwrap(), t[2], unhex(t[3]));
    let rseed: u64 = t.get(4).and_then(|x| x.parse().ok()).unwrap_or(1);
    let (mut n, mut skipped) = (0u64, 0u64);
    let mut seen = std::collections::HashSet::new();
    mutations(family, &seed, rseed, &mut |data: &[u8]| {
        // header counts size allocations (known finding) and the model's variable map:
        // numbers of 6 and more digits are outside this stream
        if has_digit_run(data, 6) {
            skipped += 1;
            return;
        }
        if !seen.insert(data.to_vec()) {
            return;
        }
        n += 1;
        out(format!("A {mask} {} -> {}", hex(data), aiger_result(mask, data)));
    });
    out(format!("{line} -> n={n} skipped={skipped}"));
}

/// every field of a DIMACS problem (`details: Root(..)`) in canonical text form
fn dump_root(p: &Problem) -> String {
    let root = match &p.details {
        ProblemDetails::Root(l) => fmt_lit(*l),
        _ => return "NOT-ROOT".into(),
    };
    let mut gates = Vec::new();
    for g in p.circuit.iter_gates() {
        let ins: Vec<String> = g.inputs.iter().map(|&l| fmt_lit(l)).collect();
        gates.push(format!("{}:{}", kind_letter(g.kind), ins.join("&")));
    }
    let vars = p.circuit.inputs();
    format!(
        "nv={} | gates {} | root {} | names={} order={}",
        vars.len(),
        gates.join(" "),
        root,
        vars.has_names(),
        vars.order().map(|o| o.len()).unwrap_or(0)
    )
}

fn dimacs_result(mask: u64, data: &[u8]) -> String {
    let o = opts(mask);
    let r = std::panic::catch_unwind(std::panic::AssertUnwindSafe(|| match parse_direct("dimacs", &o, data) {
        Some(p) => {
            post_ok(&p);
            format!("OK {}", dump_root(&p))
        }
        None => "DIAG".into(),
    }));
    match r {
        Ok(s) => s,
        Err(e) => format!("PANIC {}", panic_msg(e)),
    }
}

/// `M <opts> <family> <hex seed> <rseed>`
fn run_dimacs_mut(line: &str, out: &mut dyn FnMut(String)) {
    let t: Vec<&str> = line.split_whitespace().collect();
    let (mask, family, seed) = (t[1].parse::<u64>().unwrap(), t[2], unhex(t[3]));
    let rseed: u64 = t.get(4).and_then(|x| x.parse().ok()).unwrap_or(1);
    let (mut n, mut skipped) = (0u64, 0u64);
    let mut seen = std::collections::HashSet::new();
    mutations(family, &seed, rseed, &mut |data: &[u8]| {
        if has_digit_run(data, 6) {
            skipped += 1;
            return;
        }
        if !seen.insert(data.to_vec()) {
            return;
        }
        n += 1;
        out(format!("N {mask} {} -> {}", hex(data), dimacs_result(mask, data)));
    });
    out(format!("{line} -> n={n} skipped={skipped}"));
}

// ---------------------------------------------------------------------------
// C18q: NNF and the complete DIMACS reader, every field of the problem
// ---------------------------------------------------------------------------

fn fmt_tree(t: &oxidd_parser::Tree<usize>, out: &mut String) {
    match t {
        oxidd_parser::Tree::Leaf(n) => write!(out, "{n}").unwrap(),
        oxidd_parser::Tree::Inner(ch) => {
            out.push('[');
            for (i, c) in ch.iter().enumerate() {
                if i > 0 {
                    out.push(',');
                }
                fmt_tree(c, out);
            }
            out.push(']');
        }
    }
}

/// every field of a problem with `details: Root(..)` in canonical text form: the variable set
/// through its public accessors (len, order, order_tree, name of every variable), gates, root
fn dump_full(p: &Problem) -> String {
    let root = match &p.details {
        ProblemDetails::Root(l) => fmt_lit(*l),
        _ => return "NOT-ROOT".into(),
    };
    let vars = p.circuit.inputs();
    let order = match vars.order() {
        Some(o) => format!("[{}]", o.iter().map(|v| v.to_string()).collect::<Vec<_>>().join(",")),
        None => "none".into(),
    };
    let mut tree = String::new();
    match vars.order_tree() {
        Some(t) => fmt_tree(t, &mut tree),
        None => tree.push_str("none"),
    }
    let mut names = Vec::new();
    if vars.has_names() {
        for i in 0..vars.len() {
            if let Some(n) = vars.name(i) {
                names.push(format!("{i}={}", hex(n.as_bytes())));
            }
        }
    }
    let mut gates = Vec::new();
    for g in p.circuit.iter_gates() {
        let ins: Vec<String> = g.inputs.iter().map(|&l| fmt_lit(l)).collect();
        gates.push(format!("{}:{}", kind_letter(g.kind), ins.join("&")));
    }
    format!(
        "nv={} | order {} | tree {} | names {} {} | gates {} | root {}",
        vars.len(),
        order,
        tree,
        vars.has_names(),
        names.join(" "),
        gates.join(" "),
        root
    )
}

fn full_result(fmt: &str, mask: u64, data: &[u8]) -> String {
    let o = opts(mask);
    let r = std::panic::catch_unwind(std::panic::AssertUnwindSafe(|| match parse_direct(fmt, &o, data) {
        Some(p) => {
            post_ok(&p);
            format!("OK {}", dump_full(&p))
        }
        None => "DIAG".into(),
    }));
    match r {
        Ok(s) => s,
        Err(e) => format!("PANIC {}", panic_msg(e)),
    }
}

/// `Y <fmt> <opts> <family> <hex seed> <rseed>`
fn run_full_mut(line: &str, out: &mut dyn FnMut(String)) {
    let t: Vec<&str> = line.split_whitespace().collect();
    let (fmt, mask, family, seed) = (t[1], t[2].parse::<u64>().unwrap(), t[3], unhex(t[4]));
    let rseed: u64 = t.get(5).and_then(|x| x.parse().ok()).unwrap_or(1);
    let (mut n, mut skipped) = (0u64, 0u64);
    let mut seen = std::collections::HashSet::new();
    mutations(family, &seed, rseed, &mut |data: &[u8]| {
        // numbers size allocations (known finding) and the model's lists: 6 and more digits are
        // outside this stream
        if has_digit_run(data, 6) {
            skipped += 1;
            return;
        }
        if !seen.insert(data.to_vec()) {
            return;
        }
        n += 1;
        out(format!("X {fmt} {mask} {} -> {}", hex(data), full_result(fmt, mask, data)));
    });
    out(format!("{line} -> n={n} skipped={skipped}"));
}

/// further seeds for the order / clause-tree / SAT / NNF streams of C18q
fn treeq_seeds() -> Vec<(&'static str, &'static [u8])> {
    vec![
        ("dimacs", b"c vo [[2, 3], [], [[1], 4,],]\nc 2 beta\nc 4 \xc3\xa4\np sat 4\n*(1 -2 +(3 4))\n"),
        ("dimacs", b"c 3 z\nc 1\nc 2 y y\nc co [[0, 2], 1, 1]\np cnf 3 3\n1 2 0 -3 0 x 1 2 3 0\n"),
        ("dimacs", b"c 2 b\nc vo [2,1]\nc 1 a\nc co [ 1 , [0 ] ]\np cnf 2 2\n1 0\n-1 2\n"),
        ("dimacs", b"p satex 3\n=(1 2 3 xor(1 -(2)) (3) -(*()) +() =() xor())\n"),
        ("dimacs", b"p sat 2\n*(1 ( ) +(2 -( )\n"),
        ("dimacs", b"c co [0]\nc vo [1]\nc 1 \tv  1 \t\np cnf 1 1\n-1 0\n"),
        ("dimacs", b"p satx 2\nxor(1 2)xor (1)\n"),
        ("nnf", b"c vo [[2], 1, [3]]\nc 3 c\nc 1 a\nnnf 7 6 3\nL +1\nL -2\nl 3\nX 3 0 1 2\nO 2 2 0 1\no 0 1 4\nA 3 3 4 5\n"),
        ("nnf", b"c 2\nc 1 n\nnnf 4 2 2\nA 1 3\nL 1\nL -2\nO 0 2 1 2 \r\n\n"),
        ("nnf", b"nnf 3 2 1\nA 1 1\nA 1 0\nL 1\n"),
        ("nnf", b"nnf 2 0 1\nb 0\nL -1\n"),
    ]
}

/// C18q: mutations of the NNF seeds and of the DIMACS seeds under every option mask, every
/// mutated input compared with the model readers
fn gen_treeq_mut(tier: &str, rng: &mut Rng, em: &mut Emit) {
    let thorough = tier == "thorough";
    let mut all: Vec<(&str, &'static [u8])> = Vec::new();
    for s in nnf_seeds() {
        all.push(("nnf", s));
    }
    for s in dimacs_seeds() {
        all.push(("dimacs", s));
    }
    all.extend(treeq_seeds());
    for (fmt, s) in all {
        // the unmodified seed under every option mask
        for mask in 0..8u64 {
            em.case("fullmut", &[format!("X {fmt} {mask} {}", hex(s))]);
        }
        for family in ["trunc", "subst", "delins", if thorough { "multi20000" } else { "multi600" }] {
            // NNF looks at var_order (1) and check_acyclic (4), DIMACS at var_order (1) and clause_tree (2)
            let masks: Vec<u64> = if thorough {
                if fmt == "nnf" { vec![0, 1, 4, 5] } else { vec![0, 1, 2, 3] }
            } else if family == "trunc" {
                vec![7, 0]
            } else {
                vec![if fmt == "nnf" { *rng.pick(&[0u64, 1, 4, 5, 5, 5]) } else { *rng.pick(&[0u64, 1, 2, 3, 3, 3]) }]
            };
            for mask in masks {
                em.case("fullmut", &[format!("Y {fmt} {mask} {family} {} {}", hex(s), rng.below(1 << 30))]);
            }
        }
        if thorough {
            em.case("fullmut", &[format!("Y {fmt} 7 substall {} 1", hex(s))]);
        }
    }
}

// ---------------------------------------------------------------------------
// generators
// ---------------------------------------------------------------------------

/// literal alphabet of a circuit with `n` inputs and `g` gates
fn alphabet(n: usize, g: usize, dangling: bool) -> Vec<String> {
    let mut a = vec!["F".to_string(), "T".to_string()];
    for i in 0..=n {
        // i == n: the first unknown input
        a.push(format!("+i{i}"));
        a.push(format!("-i{i}"));
    }
    a.push("+U".into());
    for k in 0..g {
        a.push(format!("+g{k}"));
        a.push(format!("-g{k}"));
    }
    if dangling {
        a.push(format!("+g{g}"));
        a.push(format!("-g{}", g + 3));
    }
    a
}

/// all gates with up to `maxl` literals over `alpha`
fn gate_shapes(alpha: &[String], maxl: usize) -> Vec<String> {
    let mut res = Vec::new();
    for k in ["A", "O", "X"] {
        let mut cur: Vec<String> = vec![k.to_string()];
        res.extend(cur.iter().cloned());
        for _ in 0..maxl {
            let mut nxt = Vec::with_capacity(cur.len() * alpha.len());
            for c in &cur {
                for l in alpha {
                    nxt.push(format!("{c} {l}"));
                }
            }
            res.extend(nxt.iter().cloned());
            cur = nxt;
        }
    }
    res
}

fn roots_variant(v: u64, g: usize, n: usize) -> String {
    let last = g.saturating_sub(1);
    match v % 4 {
        0 => format!("+g{last}"),
        1 => (0..g).map(|k| format!("+g{k}")).collect::<Vec<_>>().join(" "),
        2 => format!("-g{last} +g0 T +i0 -i{n}"),
        _ => (0..g).rev().map(|k| format!("-g{k}")).collect::<Vec<_>>().join(" "),
    }
}

struct Emit {
    id: u64,
    shard: u64,
    nshards: u64,
    prefix: String,
}
impl Emit {
    fn case(&mut self, tag: &str, ops: &[String]) {
        let mine = self.id % self.nshards == self.shard;
        if mine {
            println!("CASE {}{} t={tag}", self.prefix, self.id);
            for o in ops {
                println!("{o}");
            }
            println!("END");
        }
        self.id += 1;
    }
}

fn random_gate(rng: &mut Rng, alpha: &[String], maxl: u64) -> String {
    let k = *rng.pick(&["A", "O", "X"]);
    let len = rng.below(maxl + 1);
    let mut s = k.to_string();
    for _ in 0..len {
        s.push(' ');
        s.push_str(rng.pick(alpha).as_str());
    }
    s
}

fn gen_circ(tier: &str, rng: &mut Rng, em: &mut Emit) {
    let thorough = tier == "thorough";
    // S1: one gate, n = 0..3 inputs, <= 3 literals: exhaustive
    for n in 0..=3usize {
        let alpha = alphabet(n, 1, false);
        for (j, g) in gate_shapes(&alpha, 3).iter().enumerate() {
            let roots = if j % 5 == 4 { "-g0 +i0 F" } else { "+g0" };
            em.case("circ1", &[format!("C {n} | {g} | {roots}")]);
        }
    }
    // S2: two gates, <= 2 literals, n = 1 (thorough: n = 1, 2): exhaustive in
    // thorough, a seed-dependent residue class in quick
    let stride: u64 = if thorough { 1 } else { 5 };
    let off = rng.below(stride);
    for n in if thorough { 1..=2usize } else { 1..=1usize } {
        let alpha = alphabet(n, 2, false);
        let shapes = gate_shapes(&alpha, 2);
        let mut k = 0u64;
        for g0 in &shapes {
            for g1 in &shapes {
                if k % stride == off {
                    em.case("circ2", &[format!("C {n} | {g0} ; {g1} | {}", roots_variant(k / stride, 2, n))]);
                }
                k += 1;
            }
        }
    }
    // S3: three gates, <= 3 literals, n <= 3: uniform sample of the full space
    let n3 = if thorough { 3_000_000 } else { 45_000 };
    for k in 0..n3 {
        let n = rng.below(4) as usize;
        let alpha = alphabet(n, 3, false);
        let gs: Vec<String> = (0..3).map(|_| random_gate(rng, &alpha, 3)).collect();
        em.case("circ3", &[format!("C {n} | {} | {}", gs.join(" ; "), roots_variant(k, 3, n))]);
    }
    // S3b: three gates, mostly well-formed (acyclic, in-scope) so that the Ok
    // branch with structural hashing / collapses is hit often
    let n3b = if thorough { 1_000_000 } else { 25_000 };
    for k in 0..n3b {
        let n = 1 + rng.below(3) as usize;
        let mut gs = Vec::new();
        for gi in 0..3usize {
            let mut alpha: Vec<String> = Vec::new();
            for i in 0..n {
                alpha.push(format!("+i{i}"));
                alpha.push(format!("-i{i}"));
            }
            for j in 0..gi {
                for _ in 0..2 {
                    alpha.push(format!("+g{j}"));
                    alpha.push(format!("-g{j}"));
                }
            }
            if rng.chance(1, 4) {
                alpha.push("F".into());
                alpha.push("T".into());
            }
            if rng.chance(1, 40) {
                alpha.push(format!("+g{}", rng.below(3)));
                alpha.push(format!("-i{n}"));
            }
            gs.push(random_gate(rng, &alpha, 3));
        }
        em.case("circ3w", &[format!("C {n} | {} | {}", gs.join(" ; "), roots_variant(k, 3, n))]);
    }
    // S4: larger random circuits (<= 8 inputs, <= 20 gates, <= 6 literals)
    let n4 = if thorough { 300_000 } else { 8_000 };
    for _ in 0..n4 {
        let n = rng.range(1, 8) as usize;
        let g = rng.range(1, 20) as usize;
        let wild = rng.chance(1, 6); // forward references / unknown inputs allowed
        let pconst = rng.below(4);
        let mut gs = Vec::new();
        for gi in 0..g {
            let k = *rng.pick(&["A", "O", "X"]);
            let len = *rng.pick(&[0u64, 1, 2, 2, 2, 3, 3, 4, 6]);
            let mut s = k.to_string();
            // a small local pool makes repeated / complementary literals likely
            let pool_n = rng.range(1, n as u64) as usize;
            for _ in 0..len {
                let r = rng.below(100);
                let neg = if rng.chance(1, 2) { '-' } else { '+' };
                let l = if r < 5 * pconst {
                    (if rng.chance(1, 2) { "F" } else { "T" }).to_string()
                } else if r < 50 || gi == 0 {
                    format!("{neg}i{}", rng.below(pool_n as u64))
                } else if wild && r < 54 {
                    format!("{neg}g{}", rng.below(g as u64))
                } else if wild && r < 56 {
                    format!("{neg}i{}", n as u64 + rng.below(3))
                } else {
                    // prefer recent gates: deep circuits
                    let lo = gi.saturating_sub(4);
                    format!("{neg}g{}", rng.range(lo as u64, gi as u64 - 1))
                };
                s.push(' ');
                s.push_str(&l);
            }
            gs.push(s);
        }
        let mut roots = Vec::new();
        for _ in 0..rng.range(1, 3) {
            let neg = if rng.chance(1, 2) { '-' } else { '+' };
            roots.push(format!("{neg}g{}", if rng.chance(2, 3) { g as u64 - 1 } else { rng.below(g as u64) }));
        }
        if rng.chance(1, 8) {
            roots.push("+i0".into());
        }
        em.case("circL", &[format!("C {n} | {} | {}", gs.join(" ; "), roots.join(" "))]);
    }
    // S5: dangling gate references (outside the documented domain: recorded only)
    let n5 = if thorough { 2000 } else { 300 };
    for k in 0..n5 {
        let n = rng.below(3) as usize;
        let g = 1 + rng.below(2) as usize;
        let alpha = alphabet(n, g, true);
        let gs: Vec<String> = (0..g).map(|_| random_gate(rng, &alpha, 3)).collect();
        let roots = if k % 3 == 0 { format!("+g{}", g + 1) } else { roots_variant(k, g, n) };
        em.case("dangling", &[format!("C {n} | {} | {roots}", gs.join(" ; "))]);
    }
}

fn dimacs_seeds() -> Vec<&'static [u8]> {
    vec![
        // unit tests of dimacs.rs
        b"c Example CNF format file\nc\np cnf 4 3\n1 3 -4 0\n4 0 2\n-3",
        b"c Example CNF format file\nc\np cnf 4 3\n1 3 -4 0\n4 0 2\n-3 0",
        b"p cnf 0 0\n",
        b"c Sample SAT format\nc\np sat 4\n(*(+(1 3 -4)\n    +(4)\n    +(2 3)))",
        b"p satx 1337 \n",
        b"p sate 1\n",
        b"p satex 42 \n",
        // further well-formed inputs after the module documentation
        b"p cnf 3 4\nx 1 2 0\n-1 -2 3 0\nx -3 1 0\n2 0\n",
        b"c 1 a\nc 3 c\nc 2 b\np cnf 3 2\n1 -2 0\n2 3 0\n",
        b"c vo [[1, 2], [3]]\nc 1 a\nc 2 b\nc 3\np cnf 3 2\n1 -2 0\n2 3 0\n",
        b"c co [[0, 1], [2, 3, 4]]\np cnf 3 5\n1 2 0\n-1 3 0\n2 3 0\n-2 -3 0\n1 -3 0\n",
        b"c co [0]\np cnf 1 1\n1 -1 0\n",
        b"c co []\np cnf 0 0\n",
        b"c vo [1]\np cnf 1 0\n",
        b"c 1 x\nc 2 y\nc co [1, 0]\np cnf 2 2\n1 2 0\n-1 -2 0\n",
        b"p satex 3\n=(xor(1 -2) *(2 3 +()) -(+(1 3)))\n",
        b"p satx 2\nxor(1 2 -(xor(1 2)))\n",
        b"p sate 2\n=(1 2 =())\n",
        b"c 2\nc 1 n\np sat 2\n*(1 -2)\n",
        b"p cnf 2 1\n0\n",
        b"p cnf 2 2\n1 0 2 0\n",
    ]
}

fn aiger_seeds() -> Vec<&'static [u8]> {
    vec![
        b"aag 0 0 0 0 0\n",
        b"aig 0 0 0 0 0\n",
        b"aag 0 0 0 1 0\n0\n",
        b"aig 0 0 0 1 0\n0\n",
        b"aag 0 0 0 1 0\n1\n",
        b"aag 1 1 0 1 0\n2\n2\n",
        b"aig 1 1 0 1 0\n2\n",
        b"aag 1 1 0 1 0\n2\n3\n",
        b"aig 1 1 0 1 0\n3\n",
        b"aag 3 2 0 1 1\n2\n4\n6\n6 4 2\n",
        b"aig 3 2 0 1 1\n6\n\x02\x02",
        b"aag 3 2 0 1 1\n2\n4\n7\n6 5 3\n",
        b"aig 3 2 0 1 1\n7\n\x01\x02",
        b"aag 7 2 0 2 3\n2\n4\n6\n12\n6 13 15\n12 2 4\n14 3 5\ni0 x\ni1 y\no0 s\no1 c\nc\nhalf adder\n",
        b"aig 5 2 0 2 3\n10\n6\n\x02\x02\x03\x02\x01\x02i0 x\ni1 y\no0 s\no1 c\nc\nhalf adder\n",
        b"aag 1 0 1 2 0\n2 3\n2\n3\n",
        b"aig 1 0 1 2 0\n3\n2\n3\n",
        b"aag 7 2 1 2 4\n2\n4\n6 8\n6\n7\n8 4 10\n10 13 15\n12 2 6\n14 3 7\ni0 toggle\ni1 ~reset\no0 q\no1 ~q\nl0 q\nc foobar\n",
        b"aig 7 2 1 2 4\n14\n6\n7\n\x02\x04\x03\x04\x01\x02\x02\x08",
        b"aag 5 1 1 0 3 1 1\n2\n4 10 0\n4\n3\n6 5 3\n8 4 2\n10 9 7\n",
        b"aig 5 1 1 0 3 1 1\n10 0\n4\n3\n\x01\x02\x04\x02\x01\x02",
        b"aag 3 2 0 1 1 1 1 2 1\n2\n4\n6\n2\n3\n1\n2\n1\n4\n5\n6\n6 4 2\n",
        b"aig 3 2 0 1 1 1 1 2 1\n6\n2\n3\n1\n2\n1\n4\n5\n6\n\x02\x02",
        // own: latch with init = itself / 1, names for every section, cycle
        b"aag 3 1 1 1 1 1 1 1 1\n2\n4 6 4\n6\n3\n5\n1\n6\n2\n6 2 4\ni0 a\nl0 b\no0 c\nb0 d\nc0 e\nj0 f\nf0 g\nc\n",
        b"aag 2 0 0 1 2\n2\n2 4 1\n4 2 1\n",
    ]
}

fn nnf_seeds() -> Vec<&'static [u8]> {
    vec![
        b"nnf 15 17 4\nL -3\nL -2\nL 1\nA 3 2 1 0\nL 3\nO 3 2 4 3\nL -4\nA 2 6 5\nL 4\nA 2 2 8\nA 2 1 4\nL 2\nO 2 2 11 10\nA 2 12 9\nO 4 2 13 7\n",
        b"c 2 b\nc 1 a\nnnf 6 6 2\nL 1\nL -2\nX 2 0 1\nB 0\nO 0 3 0 2 3\nA 2 4 4\n",
        b"c vo [[2], 1]\nnnf 4 2 2\nl 1\nl 2\no 1 2 0 1\na 1 2\n",
        b"nnf 2 2 1\nA 1 1\nO 0 1 0\n",
        b"nnf 1 0 0\nO 0 0\n",
        b"c\nnnf 3 1 1\nA 0\nx 0\nX 1 0\n",
    ]
}

/// random AIG written as an equivalent aag / aig pair
fn gen_aig_pair(rng: &mut Rng) -> (Vec<u8>, Vec<u8>) {
    let i = rng.below(4);
    let l = rng.below(3);
    let a = rng.below(7);
    let m = i + l + a;
    let o = rng.below(3);
    let ext = rng.chance(1, 2);
    let (b, c, j, f) = if ext { (rng.below(3), rng.below(2), rng.below(3), rng.below(2)) } else { (0, 0, 0, 0) };
    let any_lit = |rng: &mut Rng| rng.below(2 * m + 2);
    let mut aag = String::new();
    let mut aig: Vec<u8> = Vec::new();
    let hdr = if ext { format!("{m} {i} {l} {o} {a} {b} {c} {j} {f}\n") } else { format!("{m} {i} {l} {o} {a}\n") };
    aag.push_str("aag ");
    aag.push_str(&hdr);
    aig.extend_from_slice(b"aig ");
    aig.extend_from_slice(hdr.as_bytes());
    for k in 0..i {
        writeln!(aag, "{}", 2 * (k + 1)).unwrap();
    }
    for k in 0..l {
        let lit = 2 * (i + k + 1);
        let next = any_lit(rng);
        let init = match rng.below(4) {
            0 => String::new(),
            1 => " 0".into(),
            2 => " 1".into(),
            _ => format!(" {lit}"),
        };
        writeln!(aag, "{lit} {next}{init}").unwrap();
        aig.extend_from_slice(format!("{next}{init}\n").as_bytes());
    }
    let both = |aag: &mut String, aig: &mut Vec<u8>, s: String| {
        aag.push_str(&s);
        aig.extend_from_slice(s.as_bytes());
    };
    for _ in 0..o + b + c {
        let x = any_lit(rng);
        both(&mut aag, &mut aig, format!("{x}\n"));
    }
    let jl: Vec<u64> = (0..j).map(|_| rng.below(3)).collect();
    for x in &jl {
        both(&mut aag, &mut aig, format!("{x}\n"));
    }
    for x in &jl {
        for _ in 0..*x {
            let y = any_lit(rng);
            both(&mut aag, &mut aig, format!("{y}\n"));
        }
    }
    for _ in 0..f {
        let x = any_lit(rng);
        both(&mut aag, &mut aig, format!("{x}\n"));
    }
    for k in 0..a {
        let lhs = 2 * (i + l + k + 1);
        let r0 = rng.below(lhs);
        let r1 = rng.below(r0 + 1);
        writeln!(aag, "{lhs} {r0} {r1}").unwrap();
        enc7(lhs - r0, &mut aig);
        enc7(r0 - r1, &mut aig);
    }
    if rng.chance(1, 3) {
        let mut sym = String::new();
        if i > 0 {
            sym.push_str("i0 in zero\n");
        }
        if l > 0 {
            sym.push_str("l0 latch\n");
        }
        if o > 0 {
            sym.push_str(&format!("o{} out\n", o - 1));
        }
        if b > 0 {
            sym.push_str("b0 bad\n");
        }
        if j > 0 {
            sym.push_str("j0 just\n");
        }
        sym.push_str("c\ncomment \x01\n");
        both(&mut aag, &mut aig, sym);
    }
    (aag.into_bytes(), aig)
}

fn gen_parse(tier: &str, rng: &mut Rng, em: &mut Emit) {
    let thorough = tier == "thorough";
    let all: Vec<(&str, Vec<&'static [u8]>)> =
        vec![("dimacs", dimacs_seeds()), ("aiger", aiger_seeds()), ("nnf", nnf_seeds())];
    // the unmodified seeds, one case each, under every option mask
    for (fmt, seeds) in &all {
        for s in seeds {
            for mask in 0..8u64 {
                em.case("parse", &[format!("P {fmt} {mask} {} {}", if mask % 2 == 0 { "direct" } else { "file" }, hex(s))]);
            }
        }
    }
    // mutation batches
    for (fmt, seeds) in &all {
        for s in seeds {
            for (fi, family) in ["trunc", "subst", "delins", if thorough { "multi20000" } else { "multi1500" }]
                .iter()
                .enumerate()
            {
                let masks: Vec<u64> = if thorough { (0..8).collect() } else { vec![4, 7, rng.below(8)] };
                for mask in masks {
                    let via = if *family == "trunc" || (thorough && fi == 1 && mask == 7) { "file" } else { "direct" };
                    em.case("batch", &[format!("B {fmt} {mask} {via} {family} {} {}", hex(s), rng.below(1 << 30))]);
                }
            }
            if thorough {
                em.case("batch", &[format!("B {fmt} 7 direct substall {} 1", hex(s))]);
            }
            // diagnostics rendering on a sample of random edits
            em.case("batch", &[format!("B {fmt} 7 file multi{} {} {}", if thorough { 3000 } else { 250 }, hex(s), rng.below(1 << 30))]);
        }
    }
    // allocation sizes come from the header: one probe, run in a process of its own
    em.case("oom", &[format!("P dimacs 4 direct {}", hex(b"p sat 100000000000000\n(1)\n"))]);
    // recursion depth proportional to the input: one probe, run in a process of its own
    em.case("stack", &["S 4 100000".to_string()]);
    em.case("stack", &["S 5 100000 vo".to_string()]);
    em.case("stack", &["S 4 100000 sat".to_string()]);
    // equivalent aag / aig pairs: the pairs of the unit tests + random ones
    let ai = aiger_seeds();
    for (x, y) in [(0usize, 1usize), (2, 3), (5, 6), (7, 8), (9, 10), (11, 12), (15, 16), (19, 20), (21, 22)] {
        em.case("pair", &[format!("Q 4 {} {}", hex(ai[x]), hex(ai[y]))]);
    }
    let npairs = if thorough { 60_000 } else { 4_000 };
    for _ in 0..npairs {
        let (a, b) = gen_aig_pair(rng);
        em.case("pair", &[format!("Q {} {} {}", rng.below(8), hex(&a), hex(&b))]);
    }
    // 7-bit varint / delta codec through a one-gate binary file
    let mut ops = Vec::new();
    for i in [0u64, 1, 2, 63, 64, 8191, 8192, 70000] {
        let lhs = 2 * (i + 1);
        for d1 in [0u64, 1, 2, 127, 128, 129, 255, 256, 16383, 16384, 16385, lhs - 1, lhs, lhs + 1] {
            for d2 in [0u64, 1, 127, 128, 16384, lhs.saturating_sub(d1), lhs.saturating_sub(d1) + 1] {
                ops.push(format!("V {i} {d1} {d2}"));
            }
        }
    }
    for _ in 0..(if thorough { 20000 } else { 2000 }) {
        let sh = rng.range(0, 20);
        let i = rng.below(1 << sh);
        let lhs = 2 * (i + 1);
        let d1 = rng.below(lhs + 3);
        let d2 = rng.below(lhs.saturating_sub(d1) + 3);
        ops.push(format!("V {i} {d1} {d2}"));
    }
    for chunk in ops.chunks(50) {
        em.case("varint", chunk);
    }
}

/// C18p: mutations of the AIGER seeds, every mutated input compared with the model parser
fn gen_aiger_mut(tier: &str, rng: &mut Rng, em: &mut Emit) {
    let thorough = tier == "thorough";
    for s in aiger_seeds() {
        for family in ["trunc", "subst", "delins", if thorough { "multi20000" } else { "multi1200" }] {
            // bit 2 of the option mask = check_acyclic (the only option the AIGER reader looks at)
            let masks: Vec<u64> = if thorough || family == "trunc" { vec![4, 0] } else { vec![if rng.chance(3, 4) { 4 } else { 0 }] };
            for mask in masks {
                em.case("aigmut", &[format!("D {mask} {family} {} {}", hex(s), rng.below(1 << 30))]);
            }
        }
        if thorough {
            em.case("aigmut", &[format!("D 4 substall {} 1", hex(s))]);
        }
    }
}

/// C18p: mutations of the DIMACS seeds (options without variable order / clause tree), every
/// mutated input compared with the model of the CNF reader
fn gen_dimacs_mut(tier: &str, rng: &mut Rng, em: &mut Emit) {
    let thorough = tier == "thorough";
    for s in dimacs_seeds() {
        for family in ["trunc", "subst", "delins", if thorough { "multi20000" } else { "multi1200" }] {
            let mask = if rng.chance(1, 2) { 4 } else { 0 };
            em.case("cnfmut", &[format!("M {mask} {family} {} {}", hex(s), rng.below(1 << 30))]);
        }
        if thorough {
            em.case("cnfmut", &[format!("M 4 substall {} 1", hex(s))]);
        }
    }
}

fn main() {
    let args: Vec<String> = std::env::args().collect();
    match mode().as_str() {
        "gen" => {
            let tier = args.get(2).map(|s| s.as_str()).unwrap_or("quick").to_string();
            let seed: u64 = args.get(3).and_then(|s| s.parse().ok()).unwrap_or(1);
            let shard: u64 = args.get(4).and_then(|s| s.parse().ok()).unwrap_or(0);
            let nshards: u64 = args.get(5).and_then(|s| s.parse().ok()).unwrap_or(1);
            let what = args.get(6).map(|s| s.as_str()).unwrap_or("all").to_string();
            let mut rng = Rng::new(seed);
            let mut em = Emit { id: 0, shard, nshards, prefix: "c".into() };
            if what == "all" || what == "circ" {
                gen_circ(&tier, &mut rng, &mut em);
            }
            let mut rng = Rng::new(seed ^ 0x5eed);
            let mut em = Emit { id: 0, shard, nshards, prefix: "p".into() };
            if what == "all" || what == "parse" {
                gen_parse(&tier, &mut rng, &mut em);
            }
            let mut rng = Rng::new(seed ^ 0xa16e5);
            let mut em = Emit { id: 0, shard, nshards, prefix: "m".into() };
            if what == "aiger" {
                gen_aiger_mut(&tier, &mut rng, &mut em);
                gen_dimacs_mut(&tier, &mut rng, &mut em);
            }
            let mut rng = Rng::new(seed ^ 0xc18c);
            let mut em = Emit { id: 0, shard, nshards, prefix: "q".into() };
            if what == "treeq" {
                gen_treeq_mut(&tier, &mut rng, &mut em);
            }
        }
        _ => {
            // keep panic messages of caught panics off stderr (they are reported in the trace)
            std::panic::set_hook(Box::new(|_| {}));
            let cases = read_cases_from_args();
            let ms = env_u64("VERIF_HANG_MS", 60_000);
            run_cases_watchdog(cases, Duration::from_millis(ms), |case, out| {
                for line in &case.ops {
                    match &line[0..1] {
                        "C" => {
                            // a panic is an answer of its own here (the driver decides
                            // whether the circuit is inside the documented domain)
                            let r = std::panic::catch_unwind(|| run_circ(line))
                                .unwrap_or_else(|e| format!("PANIC {}", panic_msg(e)));
                            out(format!("{line} -> {r}"));
                        }
                        "P" => {
                            let r = run_parse(line);
                            out(format!("{line} -> {r}"));
                        }
                        "B" => run_batch(line, out),
                        "Q" => {
                            let r = run_pair(line);
                            out(format!("{line} -> {r}"));
                        }
                        "V" => {
                            let r = run_varint(line);
                            out(format!("{line} -> {r}"));
                        }
                        "S" => {
                            let r = run_stack_probe(line);
                            out(format!("{line} -> {r}"));
                        }
                        "A" => {
                            let t: Vec<&str> = line.split_whitespace().collect();
                            let r = aiger_result(t[1].parse::<u64>().unwrap(), &unhex(t[2]));
                            out(format!("{line} -> {r}"));
                        }
                        "D" => run_aiger_mut(line, out),
                        "N" => {
                            let t: Vec<&str> = line.split_whitespace().collect();
                            let r = dimacs_result(t[1].parse::<u64>().unwrap(), &unhex(t[2]));
                            out(format!("{line} -> {r}"));
                        }
                        "M" => run_dimacs_mut(line, out),
                        "X" => {
                            let t: Vec<&str> = line.split_whitespace().collect();
                            let r = full_result(t[1], t[2].parse::<u64>().unwrap(), &unhex(t[3]));
                            out(format!("{line} -> {r}"));
                        }
                        "Y" => run_full_mut(line, out),
                        _ => panic!("unknown op line {line}"),
                    }
                }
            });
        }
    }
}
