//! Generic decision-diagram harness (C01-C06, C08, C09, C12 counting, C13, C14, C20).
//!
//! `h_dd run [file]` interprets op scripts on real managers built from /repo
//! and prints, per op, the result and (on `SNAP` or with `snap=each`) a
//! snapshot of the whole manager lifted through the public API only.
//!
//! Case header: `CASE <id> kind=<bdd|bcdd|zbdd|mtbdd|tdd> cap=<inner nodes>
//! cache=<apply cache cap> threads=<n> [snap=each]`.

#![allow(clippy::type_complexity)]

use hcommon::*;
use oxidd::util::{num::Saturating, AllocResult, OptBool, SatCountCache};
use oxidd::{
    BooleanFunction, BooleanFunctionQuant, BooleanOperator, BooleanVecSet, Edge, Function,
    FunctionSubst, HasLevel, InnerNode, LevelNo, Manager, ManagerRef, Node, Subst,
    VarNo,
};
use oxidd_core::{Countable, LevelView};
use std::collections::hash_map::DefaultHasher;
use std::collections::BTreeMap;
use std::fmt::Write as _;
use std::hash::{BuildHasherDefault, Hash, Hasher};
use std::time::Duration;

type BH = BuildHasherDefault<DefaultHasher>;

// ---------------------------------------------------------------------------
// snapshot
// ---------------------------------------------------------------------------

fn fmt_edge<M: Manager>(m: &M, e: &M::Edge) -> String {
    // every tag type is `Countable`: 0 is the default (no tag)
    let c = if e.tag().as_usize() != 0 { "~" } else { "" };
    match m.get_node(e) {
        Node::Inner(_) => format!("n{}{}", e.node_id(), c),
        Node::Terminal(_) => format!("t{}{}", e.node_id(), c),
    }
}

/// Lift the whole manager: variable order, every stored node (listed level,
/// id, stored level, reference count, children), terminals, handles, counters.
fn snapshot<M: Manager>(
    m: &M,
    handles: &[(usize, &M::Edge)],
    fmt_term: &dyn Fn(&M::Terminal) -> String,
) -> String
where
    M::InnerNode: HasLevel,
{
    use std::borrow::Borrow;
    let mut s = String::new();
    let n = m.num_levels();
    s.push_str("V2L");
    for v in 0..n {
        write!(s, " {}", m.var_to_level(v)).unwrap();
    }
    s.push_str(" | L2V");
    for l in 0..n {
        write!(s, " {}", m.level_to_var(l)).unwrap();
    }
    let mut listed = 0usize;
    let mut lines: Vec<String> = Vec::new();
    for level in m.levels() {
        let lno = level.level_no();
        for e in level.iter() {
            listed += 1;
            let node = m.get_node(e).unwrap_inner();
            let mut l = format!("N {} {} {} {}", lno, e.node_id(), node.level(), node.ref_count());
            for c in node.children() {
                l.push(' ');
                l.push_str(&fmt_edge(m, &c));
            }
            lines.push(l);
        }
    }
    lines.sort();
    for l in lines {
        s.push_str(" | ");
        s.push_str(&l);
    }
    let mut tl: Vec<String> = Vec::new();
    for t in m.terminals() {
        if let Node::Terminal(tv) = m.get_node(&t) {
            tl.push(format!("T {} {}", t.node_id(), fmt_term(tv.borrow())));
        }
        m.drop_edge(t);
    }
    tl.sort();
    for l in tl {
        s.push_str(" | ");
        s.push_str(&l);
    }
    for (slot, e) in handles {
        write!(s, " | H {} {}", slot, fmt_edge(m, e)).unwrap();
    }
    write!(
        s,
        " | C inner={} listed={} terms={} gc={} reorder={} levels={}",
        m.num_inner_nodes(),
        listed,
        m.num_terminals(),
        m.gc_count(),
        m.reorder_count(),
        n
    )
    .unwrap();
    s
}

fn hash_of<T: Hash>(t: &T) -> u64 {
    let mut h = DefaultHasher::new();
    t.hash(&mut h);
    h.finish()
}

fn parse_slot(t: &str) -> usize {
    t.trim_start_matches('h').parse().expect("slot")
}

fn oom<T>(r: AllocResult<T>) -> Result<T, String> {
    r.map_err(|_| "oom".to_string())
}

fn bool_op(name: &str) -> Option<BooleanOperator> {
    Some(match name {
        "AND" => BooleanOperator::And,
        "OR" => BooleanOperator::Or,
        "XOR" => BooleanOperator::Xor,
        "EQUIV" => BooleanOperator::Equiv,
        "NAND" => BooleanOperator::Nand,
        "NOR" => BooleanOperator::Nor,
        "IMP" => BooleanOperator::Imp,
        "IMPS" => BooleanOperator::ImpStrict,
        _ => return None,
    })
}

fn fmt_cube(c: &Option<Vec<OptBool>>) -> String {
    match c {
        None => "none".into(),
        Some(v) => {
            let mut s = String::from("cube:");
            for x in v {
                s.push(match x {
                    OptBool::None => '-',
                    OptBool::False => '0',
                    OptBool::True => '1',
                });
            }
            s
        }
    }
}


// ---------------------------------------------------------------------------
// ops common to all kinds
// ---------------------------------------------------------------------------

/// how `VARS` declares variables (case parameter `addvars`): 0 add_vars, 1 add_named_vars, 2 add_named_vars_from_map
static ADDVARS_MODE: std::sync::atomic::AtomicU8 = std::sync::atomic::AtomicU8::new(0);

struct Core<F: Function> {
    mref: F::ManagerRef,
    slots: BTreeMap<usize, F>,
}

impl<F: Function + Clone + Eq + Ord + Hash + Send + 'static> Core<F>
where
    for<'id> F::Manager<'id>: Manager + oxidd::HasWorkers,
    for<'id> <F::Manager<'id> as Manager>::InnerNode: HasLevel,
{
    fn get(&self, t: &str) -> Result<&F, String> {
        self.slots.get(&parse_slot(t)).ok_or_else(|| "skip".to_string())
    }
    fn nvars(&self) -> VarNo {
        self.mref.with_manager_shared(|m| m.num_vars())
    }
    fn put(&mut self, t: &str, f: F) -> String {
        self.slots.insert(parse_slot(t), f);
        "ok".to_string()
    }

    fn snapshot(
        &self,
        extra: &[(usize, &F)],
        fmt_term: &dyn for<'id> Fn(&<F::Manager<'id> as Manager>::Terminal) -> String,
    ) -> String {
        // exclusive access: a background garbage collection (which runs under
        // the shared lock) can not interleave with the dump
        self.mref.with_manager_exclusive(|m| {
            let m = &*m;
            let mut hs: Vec<(usize, &<F::Manager<'_> as Manager>::Edge)> =
                self.slots.iter().map(|(k, f)| (*k, f.as_edge(m))).collect();
            for (k, f) in extra {
                hs.push((*k, f.as_edge(m)));
            }
            snapshot(m, &hs, &|t| fmt_term(t))
        })
    }

    /// ops that do not depend on the function family; `None` = not handled here
    fn exec(&mut self, tok: &[&str]) -> Option<Result<String, String>> {
        Some(match tok[0] {
            "VARS" => {
                let k: u32 = tok[1].parse().unwrap();
                // case parameter addvars=plain|named|map: which of the three entry points declares the variables
                // (add_vars / add_named_vars / add_named_vars_from_map, the last one with some unnamed variables;
                // on a manager without variables it takes the "adopt the map" path)
                let mode = ADDVARS_MODE.load(std::sync::atomic::Ordering::Relaxed);
                let r = self.mref.with_manager_exclusive(|m| {
                    let start = m.num_vars();
                    match mode {
                        1 => m
                            .add_named_vars((0..k).map(|i| format!("v{}", start + i)))
                            .expect("fresh names"),
                        2 => {
                            let mut map = oxidd_core::util::VarNameMap::new();
                            for i in 0..k {
                                if (start + i) % 3 == 1 {
                                    map.add_unnamed(1);
                                } else {
                                    map.add_named([format!("v{}", start + i)]).expect("fresh names");
                                }
                            }
                            m.add_named_vars_from_map(map).expect("fresh names")
                        }
                        _ => m.add_vars(k),
                    }
                });
                Ok(format!("range {} {}", r.start, r.end))
            }
            "GCR" => {
                // a collection issued from inside a reorder() closure (custom reordering code may do this; gc()
                // supports being called while a reordering is prepared)
                let n = self.mref.with_manager_exclusive(|m| m.reorder(|m| m.gc()));
                Ok(format!("collected {n}"))
            }
            "NC" => self.get(tok[1]).map(|f| format!("n {}", f.node_count())),
            "COUNTS" => {
                // package ALLOC: the exact and the approximate (shared counter) number of inner nodes
                let (e, a) = self.mref.with_manager_shared(|m| (m.num_inner_nodes(), m.approx_num_inner_nodes()));
                Ok(format!("exact={e} approx={a}"))
            }
            "CLONE" => match self.get(tok[2]) {
                Ok(f) => {
                    let f = f.clone();
                    Ok(self.put(tok[1], f))
                }
                Err(e) => Err(e),
            },
            "DROP" => {
                self.slots.remove(&parse_slot(tok[1]));
                Ok("ok".into())
            }
            "DROPT" => {
                // drop on another thread
                if let Some(f) = self.slots.remove(&parse_slot(tok[1])) {
                    std::thread::scope(|s| {
                        s.spawn(move || drop(f));
                    });
                }
                Ok("ok".into())
            }
            "GC" => {
                // Under the exclusive lock: the manager's background collector (woken when the
                // node count passes the high-water mark of a small manager) holds the shared
                // lock while it runs, and `Manager::gc` returns 0 without collecting when another
                // collection is in progress.  With the exclusive lock this explicit collection
                // can neither be skipped nor overlap with the background one, so "GC; SNAP"
                // observes a completed collection (the concurrent case belongs to C07).
                let n = self.mref.with_manager_exclusive(|m| m.gc());
                Ok(format!("collected {n}"))
            }
            "PGC" => {
                // collection under the *shared* lock (as the background collector does): used inside
                // parallel blocks (C07), where it runs next to the operations of the other threads
                let n = self.mref.with_manager_shared(|m| m.gc());
                Ok(format!("collected {n}"))
            }
            "ORDER" | "ORDERSEQ" => {
                let order: Vec<VarNo> = tok[1..].iter().map(|t| t.parse().unwrap()).collect();
                let n = self.nvars();
                if order.iter().any(|&v| v >= n) {
                    return Some(Err("skip".into()));
                }
                self.mref.with_manager_exclusive(|m| {
                    if tok[0] == "ORDER" {
                        oxidd_reorder::set_var_order(m, &order)
                    } else {
                        oxidd_reorder::set_var_order_seq(m, &order)
                    }
                });
                Ok("ok".into())
            }
            "LEVELDOWN" => {
                // C08: one adjacent level swap (levels i and i+1) through the public
                // `oxidd_reorder::level_down`, bracketed by `Manager::reorder` as its contract demands
                let i: LevelNo = tok[1].parse().unwrap();
                let n = self.mref.with_manager_shared(|m| m.num_levels());
                if i + 1 >= n {
                    return Some(Err("skip".into()));
                }
                self.mref.with_manager_exclusive(|m| {
                    // SAFETY: inside the closure of `reorder`, `m` derives from `&mut M`, no concurrent access
                    m.reorder(|m| unsafe { oxidd_reorder::level_down(&*m, i) })
                });
                Ok("ok".into())
            }
            "EQ" => match (self.get(tok[1]), self.get(tok[2])) {
                (Ok(a), Ok(b)) => Ok(format!(
                    "eq={} cmp={:?} hasheq={} cmprev={:?}",
                    (a == b) as u8,
                    a.cmp(b),
                    (hash_of(a) == hash_of(b)) as u8,
                    b.cmp(a)
                )),
                _ => Err("skip".into()),
            },
            _ => return None,
        })
    }
}

// ---------------------------------------------------------------------------
// Boolean family (BDD, BCDD, ZBDD)
// ---------------------------------------------------------------------------

/// Optional capabilities that differ between the kinds.
trait BoolExt: BooleanFunction + Clone + Eq + Ord + Hash + Send + 'static {
    fn quant(&self, _q: &str, _vars: &Self) -> Option<AllocResult<Self>> {
        None
    }
    fn apply_quant(&self, _q: &str, _op: BooleanOperator, _rhs: &Self, _vars: &Self) -> Option<AllocResult<Self>> {
        None
    }
    fn subst(&self, _s: &Subst<Self>) -> Option<AllocResult<Self>> {
        None
    }
    fn setop(_mref: &Self::ManagerRef, _op: &str, _a: Option<&Self>, _b: Option<&Self>, _v: VarNo) -> Option<AllocResult<Self>> {
        None
    }
    fn fmt_term<'id>(t: &<Self::Manager<'id> as Manager>::Terminal) -> String;
    /// DDDMP export (ASCII, or binary where supported) of the given roots into a buffer: its length
    fn export_len(_mref: &Self::ManagerRef, _roots: &[&Self], _ascii: bool) -> Option<Result<usize, String>> {
        None
    }
    /// a fresh manager of this kind (BIGORDER); `None` = not supported
    fn new_mgr(_cap: usize, _cache: usize, _threads: u32) -> Option<Self::ManagerRef> {
        None
    }
}

macro_rules! impl_export_ext {
    () => {
        fn export_len(mref: &Self::ManagerRef, roots: &[&Self], ascii: bool) -> Option<Result<usize, String>> {
            let mut buf: Vec<u8> = Vec::new();
            let st = oxidd_dump::dddmp::ExportSettings::default().diagram_name("d");
            let st = if ascii { st.ascii() } else { st.binary() };
            let r = mref.with_manager_shared(|m| st.export(&mut buf, m, roots.iter().copied()));
            Some(r.map(|()| buf.len()).map_err(|e| format!("{:?}", e.kind())))
        }
    };
}

macro_rules! impl_quant_ext {
    ($F:ty) => {
        fn quant(&self, q: &str, vars: &Self) -> Option<AllocResult<Self>> {
            Some(match q {
                "EXISTS" => self.exists(vars),
                "FORALL" => self.forall(vars),
                "UNIQUE" => self.unique(vars),
                _ => return None,
            })
        }
        fn apply_quant(&self, q: &str, op: BooleanOperator, rhs: &Self, vars: &Self) -> Option<AllocResult<Self>> {
            Some(match q {
                "AEX" => self.apply_exists(op, rhs, vars),
                "AFA" => self.apply_forall(op, rhs, vars),
                "AUQ" => self.apply_unique(op, rhs, vars),
                _ => return None,
            })
        }
        fn subst(&self, s: &Subst<Self>) -> Option<AllocResult<Self>> {
            Some(self.substitute(s))
        }
    };
}

impl BoolExt for oxidd::bdd::BDDFunction {
    impl_quant_ext!(oxidd::bdd::BDDFunction);
    impl_export_ext!();
    fn new_mgr(cap: usize, cache: usize, threads: u32) -> Option<Self::ManagerRef> {
        Some(oxidd::bdd::new_manager(cap, cache, threads))
    }
    fn fmt_term<'id>(t: &<Self::Manager<'id> as Manager>::Terminal) -> String {
        format!("{t:?}")
    }
}
impl BoolExt for oxidd::bcdd::BCDDFunction {
    impl_quant_ext!(oxidd::bcdd::BCDDFunction);
    impl_export_ext!();
    fn new_mgr(cap: usize, cache: usize, threads: u32) -> Option<Self::ManagerRef> {
        Some(oxidd::bcdd::new_manager(cap, cache, threads))
    }
    fn fmt_term<'id>(_t: &<Self::Manager<'id> as Manager>::Terminal) -> String {
        "True".into()
    }
}
impl BoolExt for oxidd::zbdd::ZBDDFunction {
    impl_export_ext!();
    fn new_mgr(cap: usize, cache: usize, threads: u32) -> Option<Self::ManagerRef> {
        Some(oxidd::zbdd::new_manager(cap, cache, threads))
    }
    fn setop(mref: &Self::ManagerRef, op: &str, a: Option<&Self>, b: Option<&Self>, v: VarNo) -> Option<AllocResult<Self>> {
        Some(match op {
            "SINGLETON" => mref.with_manager_shared(|m| Self::singleton(m, v)),
            "EMPTY" => Ok(mref.with_manager_shared(|m| Self::empty(m))),
            "BASE" => Ok(mref.with_manager_shared(|m| Self::base(m))),
            "SUBSET0" => a.unwrap().subset0(v),
            "SUBSET1" => a.unwrap().subset1(v),
            "CHANGE" => a.unwrap().change(v),
            "UNION" => a.unwrap().union(b.unwrap()),
            "INTSEC" => a.unwrap().intsec(b.unwrap()),
            "DIFF" => a.unwrap().diff(b.unwrap()),
            "MAKENODE" => {
                // make_node(var_singleton, hi, lo)
                let var = match mref.with_manager_shared(|m| Self::singleton(m, v)) {
                    Ok(x) => x,
                    Err(e) => return Some(Err(e)),
                };
                mref.with_manager_shared(|m| {
                    let hi = m.clone_edge(a.unwrap().as_edge(m));
                    let lo = m.clone_edge(b.unwrap().as_edge(m));
                    oxidd::zbdd::make_node(m, var.as_edge(m), hi, lo).map(|e| Self::from_edge(m, e))
                })
            }
            _ => return None,
        })
    }
    fn fmt_term<'id>(t: &<Self::Manager<'id> as Manager>::Terminal) -> String {
        format!("{t:?}")
    }
}

struct BoolInterp<F: BoolExt> {
    core: Core<F>,
    substs: BTreeMap<usize, Subst<F>>,
    sat_u64: SatCountCache<Saturating<u64>, BH>,
    sat_u128: SatCountCache<Saturating<u128>, BH>,
    sat_f64: SatCountCache<oxidd::util::num::F64, BH>,
    sat_nat: SatCountCache<oxidd::util::num::Natural, BH>,
    /// C12s: caches kept in a table across operations (`SATC` / `PICKUNIC <cacheid> ...`)
    kept: KeptCaches,
}

/// C12s: `SatCountCache` objects addressed by a cache id, one table per number type; they live as long as
/// the case (across GC, ORDER, VARS, DROP and other handles).  A cache with an odd id has `cache_all = true`.
#[derive(Default)]
struct KeptCaches {
    u64: BTreeMap<usize, SatCountCache<Saturating<u64>, BH>>,
    u128: BTreeMap<usize, SatCountCache<Saturating<u128>, BH>>,
    f64: BTreeMap<usize, SatCountCache<oxidd::util::num::F64, BH>>,
    nat: BTreeMap<usize, SatCountCache<oxidd::util::num::Natural, BH>>,
}

/// the content of `cache.map` (public field), sorted by key: ` | M <node id>[~]=<value> ...`
/// (`~` = the most significant bit of the key, which the BCDD version sets for a complemented edge)
fn fmt_cache_map<N: oxidd::util::SatCountNumber>(c: &SatCountCache<N, BH>, show: &dyn Fn(&N) -> String) -> String {
    let msb = 1usize << (usize::BITS - 1);
    let mut v: Vec<(usize, bool, String)> = c.map.iter().map(|(k, n)| (*k & !msb, *k & msb != 0, show(n))).collect();
    v.sort();
    let mut s = String::from(" | M");
    for (id, tag, val) in v {
        write!(s, " {}{}={}", id, if tag { "~" } else { "" }, val).unwrap();
    }
    s
}

fn kept_cache<N: oxidd::util::SatCountNumber>(t: &mut BTreeMap<usize, SatCountCache<N, BH>>, cid: usize) -> &mut SatCountCache<N, BH> {
    t.entry(cid).or_insert_with(|| {
        let mut c = SatCountCache::<N, BH>::default();
        c.cache_all = cid % 2 == 1;
        c
    })
}

impl<F: BoolExt> BoolInterp<F>
where
    for<'id> F::Manager<'id>: Manager + oxidd::HasWorkers,
    for<'id> <F::Manager<'id> as Manager>::InnerNode: HasLevel,
{
    fn get(&self, t: &str) -> Result<&F, String> {
        self.core.slots.get(&parse_slot(t)).ok_or_else(|| "skip".to_string())
    }

    fn nvars(&self) -> VarNo {
        self.core.mref.with_manager_shared(|m| m.num_vars())
    }

    /// cube (conjunction of positive literals) of the variables in `mask`
    fn cube(&self, pos: u64, neg: u64) -> Result<F, String> {
        let n = self.nvars();
        self.core.mref.with_manager_shared(|m| {
            let mut acc = F::t(m);
            for v in (0..n).rev() {
                if pos >> v & 1 == 1 {
                    acc = oom(oom(F::var(m, v))?.and(&acc))?;
                } else if neg >> v & 1 == 1 {
                    acc = oom(oom(F::not_var(m, v))?.and(&acc))?;
                }
            }
            Ok(acc)
        })
    }

    /// route A: disjunction of minterms
    fn from_tt_minterms(&self, nv: u32, tt: u128) -> Result<F, String> {
        self.core.mref.with_manager_shared(|m| {
            let mut acc = F::f(m);
            for a in 0..(1u32 << nv) {
                if tt >> a & 1 == 0 {
                    continue;
                }
                let mut term = F::t(m);
                for v in (0..nv).rev() {
                    let lit = if a >> v & 1 == 1 { oom(F::var(m, v))? } else { oom(F::not_var(m, v))? };
                    term = oom(lit.and(&term))?;
                }
                acc = oom(acc.or(&term))?;
            }
            Ok(acc)
        })
    }

    /// route B: Shannon expansion with ite, top variable = highest number
    fn from_tt_ite(&self, nv: u32, tt: u128) -> Result<F, String> {
        fn rec<F: BoolExt>(m: &F::Manager<'_>, nv: u32, tt: u128) -> Result<F, String> {
            if nv == 0 {
                return Ok(if tt & 1 == 1 { F::t(m) } else { F::f(m) });
            }
            let half = 1u32 << (nv - 1);
            let mask: u128 = if half >= 128 { u128::MAX } else { (1u128 << half) - 1 };
            let lo = rec::<F>(m, nv - 1, tt & mask)?; // var nv-1 = 0
            let hi = rec::<F>(m, nv - 1, (tt >> half) & mask)?;
            let x = oom(F::var(m, nv - 1))?;
            oom(x.ite(&hi, &lo))
        }
        self.core.mref.with_manager_shared(|m| rec::<F>(m, nv, tt))
    }

    fn snapshot(&self) -> String {
        // the replacement functions held by live substitution objects are handles, too
        let mut extra: Vec<(usize, &F)> = Vec::new();
        for (sid, s) in &self.substs {
            use oxidd::Substitution;
            for (i, (_, r)) in s.pairs().enumerate() {
                extra.push((1_000_000 + sid * 100 + i, r));
            }
        }
        self.core.snapshot(&extra, &|t| F::fmt_term(t))
    }

    fn exec(&mut self, tok: &[&str]) -> Result<String, String> {
        if let Some(r) = self.core.exec(tok) {
            return r;
        }
        let put = |this: &mut Self, t: &str, f: F| {
            this.core.slots.insert(parse_slot(t), f);
            "ok".to_string()
        };
        match tok[0] {
            "TT" | "TTI" => {
                let nv: u32 = tok[2].parse().unwrap();
                let tt = u128::from_str_radix(tok[3].trim_start_matches("0x"), 16).unwrap();
                let f = if tok[0] == "TT" { self.from_tt_minterms(nv, tt)? } else { self.from_tt_ite(nv, tt)? };
                Ok(put(self, tok[1], f))
            }
            "VAR" | "NVAR" => {
                let v: VarNo = tok[2].parse().unwrap();
                if v >= self.nvars() {
                    return Err("skip".into());
                }
                let f = self.core.mref.with_manager_shared(|m| if tok[0] == "VAR" { F::var(m, v) } else { F::not_var(m, v) });
                Ok(put(self, tok[1], oom(f)?))
            }
            "CONST" => {
                let f = self.core.mref.with_manager_shared(|m| if tok[2] == "1" { F::t(m) } else { F::f(m) });
                Ok(put(self, tok[1], f))
            }
            "NOT" => {
                let r = oom(self.get(tok[2])?.not())?;
                Ok(put(self, tok[1], r))
            }
            "NOTO" => {
                let r = oom(self.get(tok[2])?.clone().not_owned())?;
                Ok(put(self, tok[1], r))
            }
            "AND" | "OR" | "NAND" | "NOR" | "XOR" | "EQUIV" | "IMP" | "IMPS" => {
                let (a, b) = (self.get(tok[2])?, self.get(tok[3])?);
                let r = match tok[0] {
                    "AND" => a.and(b),
                    "OR" => a.or(b),
                    "NAND" => a.nand(b),
                    "NOR" => a.nor(b),
                    "XOR" => a.xor(b),
                    "EQUIV" => a.equiv(b),
                    "IMP" => a.imp(b),
                    _ => a.imp_strict(b),
                };
                let r = oom(r)?;
                Ok(put(self, tok[1], r))
            }
            "ITE" => {
                let r = oom(self.get(tok[2])?.ite(self.get(tok[3])?, self.get(tok[4])?))?;
                Ok(put(self, tok[1], r))
            }
            "COF" => {
                // COF dstT dstE src
                match self.get(tok[3])?.cofactors() {
                    None => Ok("none".into()),
                    Some((t, e)) => {
                        let ct = self.get(tok[3])?.cofactor_true();
                        let ce = self.get(tok[3])?.cofactor_false();
                        let agree = ct.as_ref() == Some(&t) && ce.as_ref() == Some(&e);
                        self.core.slots.insert(parse_slot(tok[1]), t);
                        self.core.slots.insert(parse_slot(tok[2]), e);
                        Ok(format!("some single_agree={}", agree as u8))
                    }
                }
            }
            "EXISTS" | "FORALL" | "UNIQUE" => {
                let mask: u64 = tok[3].parse().unwrap();
                let vars = self.cube(mask, 0)?;
                let r = self.get(tok[2])?.quant(tok[0], &vars).ok_or("unsupported")?;
                let r = oom(r)?;
                Ok(put(self, tok[1], r))
            }
            "AEX" | "AFA" | "AUQ" => {
                // AEX <op> dst a b mask
                let op = bool_op(tok[1]).ok_or("badop")?;
                let mask: u64 = tok[5].parse().unwrap();
                let vars = self.cube(mask, 0)?;
                let r = self.get(tok[3])?.apply_quant(tok[0], op, self.get(tok[4])?, &vars).ok_or("unsupported")?;
                let r = oom(r)?;
                Ok(put(self, tok[2], r))
            }
            "RESTRICT" => {
                let (pos, neg): (u64, u64) = (tok[3].parse().unwrap(), tok[4].parse().unwrap());
                let vars = self.cube(pos, neg)?;
                let r = oom(self.get(tok[2])?.restrict(&vars))?;
                Ok(put(self, tok[1], r))
            }
            "EVALA" => {
                // EVALA h <bits>: eval under the assignment given as one character (0 / 1) per variable; any
                // number of variables (the value tables of EVAL stop at 7)
                let n = self.nvars() as usize;
                let a = tok[2].as_bytes();
                if a.len() != n {
                    return Err("skip".into());
                }
                let f = self.get(tok[1])?;
                let v = f.eval((0..n).map(|v| (v as VarNo, a[v] == b'1')));
                Ok(format!("ev {}", v as u8))
            }
            "EXPORT" => {
                // EXPORT a|b <handles...> : DDDMP export of the listed handles (shared nodes are visited repeatedly)
                let ascii = tok[1] == "a";
                let mut roots: Vec<&F> = Vec::new();
                for t in &tok[2..] {
                    roots.push(self.get(t)?);
                }
                match F::export_len(&self.core.mref, &roots, ascii) {
                    Some(Ok(n)) => Ok(format!("exported {}", (n > 0) as u8)),
                    Some(Err(e)) => Ok(format!("experr {e}")),
                    None => Err("skip".into()),
                }
            }
            "RESTRICTH" => {
                // RESTRICTH dst a c : the literal cube is the function of handle c (kept across VARS / GC / ORDER)
                let c = self.get(tok[3])?.clone();
                let r = oom(self.get(tok[2])?.restrict(&c))?;
                Ok(put(self, tok[1], r))
            }
            "MKSUBST" => {
                // MKSUBST sid v=hK v=hK ...
                let sid: usize = tok[1].parse().unwrap();
                let mut vars = Vec::new();
                let mut reps = Vec::new();
                for p in &tok[2..] {
                    let (v, h) = p.split_once('=').unwrap();
                    vars.push(v.parse::<VarNo>().unwrap());
                    reps.push(self.get(h)?.clone());
                }
                self.substs.insert(sid, Subst::new(vars, reps));
                Ok("ok".into())
            }
            "DROPSUBST" => {
                self.substs.remove(&tok[1].parse().unwrap());
                Ok("ok".into())
            }
            "SUBST" => {
                // SUBST dst a sid
                let s = self.substs.get(&tok[3].parse().unwrap()).ok_or("skip")?;
                let r = self.get(tok[2])?.subst(s).ok_or("unsupported")?;
                let r = oom(r)?;
                Ok(put(self, tok[1], r))
            }
            "SINGLETON" | "EMPTY" | "BASE" | "SUBSET0" | "SUBSET1" | "CHANGE" | "UNION" | "INTSEC" | "DIFF" | "MAKENODE" => {
                // <op> dst [a] [b] [v]
                let (a, b, v): (Option<&F>, Option<&F>, VarNo) = match tok[0] {
                    "SINGLETON" => (None, None, tok[2].parse().unwrap()),
                    "EMPTY" | "BASE" => (None, None, 0),
                    "SUBSET0" | "SUBSET1" | "CHANGE" => (Some(self.get(tok[2])?), None, tok[3].parse().unwrap()),
                    "MAKENODE" => (Some(self.get(tok[3])?), Some(self.get(tok[4])?), tok[2].parse().unwrap()),
                    _ => (Some(self.get(tok[2])?), Some(self.get(tok[3])?), 0),
                };
                if v >= self.nvars() && !matches!(tok[0], "EMPTY" | "BASE" | "UNION" | "INTSEC" | "DIFF") {
                    return Err("skip".into());
                }
                let r = F::setop(&self.core.mref, tok[0], a, b, v).ok_or("unsupported")?;
                let r = oom(r)?;
                Ok(put(self, tok[1], r))
            }
            "EVAL" => {
                // truth table by the implementation's own eval over all assignments (hex, bit a = value)
                let n = self.nvars();
                if n > 7 {
                    return Ok("toolarge".into());
                }
                let f = self.get(tok[1])?;
                let mut tt: u128 = 0;
                // "if the valuation for a variable is given multiple times, the last value counts": every
                // assignment is evaluated a second time with each variable listed twice (first the opposite
                // value, in descending order, then the intended one)
                let mut dup_ok = true;
                for a in 0..(1u32 << n) {
                    let r = f.eval((0..n).map(|v| (v, a >> v & 1 == 1)));
                    if r {
                        tt |= 1 << a;
                    }
                    let twice = (0..n).rev().map(|v| (v, a >> v & 1 == 0)).chain((0..n).map(|v| (v, a >> v & 1 == 1)));
                    if f.eval(twice) != r {
                        dup_ok = false;
                    }
                }
                Ok(format!("tt {n} {tt:x} dup={}", dup_ok as u8))
            }
            "SATVALID" => {
                let f = self.get(tok[1])?;
                Ok(format!("sat={} valid={}", f.satisfiable() as u8, f.valid() as u8))
            }
            "SAT" => {
                // SAT a vars type
                let vars: LevelNo = tok[2].parse().unwrap();
                let f = self.core.slots.get(&parse_slot(tok[1])).ok_or("skip")?.clone();
                Ok(match tok[3] {
                    "u64" => format!("u64 {}", f.sat_count(vars, &mut self.sat_u64).0),
                    "u128" => format!("u128 {}", f.sat_count(vars, &mut self.sat_u128).0),
                    "f64" => format!("f64 {:016x}", f.sat_count(vars, &mut self.sat_f64).0.to_bits()),
                    "nat" => format!("nat {}", f.sat_count(vars, &mut self.sat_nat)),
                    "nat_fresh" => format!("nat {}", f.sat_count(vars, &mut SatCountCache::<oxidd::util::num::Natural, BH>::default())),
                    _ => return Err("badtype".into()),
                })
            }
            "SATC" => {
                // SATC <cacheid> a vars type: sat_count on the kept cache <cacheid> of the number type (no clone of
                // the handle: the reference counts during the call are those of the next snapshot); prints the
                // result and the cache's map after the call
                let cid: usize = tok[1].parse().unwrap();
                let vars: LevelNo = tok[3].parse().unwrap();
                let f = self.core.slots.get(&parse_slot(tok[2])).ok_or("skip")?;
                Ok(match tok[4] {
                    "u64" => {
                        let c = kept_cache(&mut self.kept.u64, cid);
                        let r = f.sat_count(vars, c).0;
                        format!("u64 {}{}", r, fmt_cache_map(c, &|n| n.0.to_string()))
                    }
                    "u128" => {
                        let c = kept_cache(&mut self.kept.u128, cid);
                        let r = f.sat_count(vars, c).0;
                        format!("u128 {}{}", r, fmt_cache_map(c, &|n| n.0.to_string()))
                    }
                    "f64" => {
                        let c = kept_cache(&mut self.kept.f64, cid);
                        let r = f.sat_count(vars, c).0;
                        format!("f64 {:016x}{}", r.to_bits(), fmt_cache_map(c, &|n| format!("{:016x}", n.0.to_bits())))
                    }
                    "nat" => {
                        let c = kept_cache(&mut self.kept.nat, cid);
                        let r = f.sat_count(vars, c);
                        format!("nat {}{}", r, fmt_cache_map(c, &|n| n.to_string()))
                    }
                    _ => return Err("badtype".into()),
                })
            }
            "PICKUNIC" => {
                // PICKUNIC <cacheid> a seed count -> histogram of cubes; pick_cube_uniform on the kept F64 cache
                // <cacheid> (the same object `SATC <cacheid> .. f64` uses); prints the cache's map after the draws
                let cid: usize = tok[1].parse().unwrap();
                let seed: u64 = tok[3].parse().unwrap();
                let cnt: u32 = tok[4].parse().unwrap();
                let f = self.core.slots.get(&parse_slot(tok[2])).ok_or("skip")?;
                let mut rng = oxidd::util::Rng::new_seed(seed);
                let c = kept_cache(&mut self.kept.f64, cid);
                let mut hist: BTreeMap<String, u32> = BTreeMap::new();
                for _ in 0..cnt {
                    let cube = f.pick_cube_uniform(c, &mut rng);
                    *hist.entry(fmt_cube(&cube)).or_insert(0) += 1;
                }
                let mut s = String::from("hist");
                for (k, v) in hist {
                    write!(s, " {k}={v}").unwrap();
                }
                s.push_str(&fmt_cache_map(c, &|n| format!("{:016x}", n.0.to_bits())));
                Ok(s)
            }
            "PICK" => {
                // PICK a choicemask  -> cube + trace of choice calls (level:nodeid)
                let cm: u64 = tok[2].parse().unwrap();
                let f = self.get(tok[1])?;
                let mut trace = String::new();
                let c = f.pick_cube(|m, e, l| {
                    let ok = matches!(m.get_node(e), Node::Inner(n) if n.level() == l);
                    write!(trace, " {}:{}", l, if ok { "ok" } else { "BADNODE" }).unwrap();
                    cm >> l & 1 == 1
                });
                Ok(format!("{} calls{}", fmt_cube(&c), trace))
            }
            "PICKDD" => {
                // PICKDD dst a choicemask
                let cm: u64 = tok[3].parse().unwrap();
                let mut trace = String::new();
                let r = self.get(tok[2])?.pick_cube_dd(|m, e, l| {
                    let ok = matches!(m.get_node(e), Node::Inner(n) if n.level() == l);
                    write!(trace, " {}:{}", l, if ok { "ok" } else { "BADNODE" }).unwrap();
                    cm >> l & 1 == 1
                });
                let r = oom(r)?;
                put(self, tok[1], r);
                Ok(format!("ok calls{trace}"))
            }
            "PICKSET" => {
                // PICKSET dst a posmask negmask
                let (pos, neg): (u64, u64) = (tok[3].parse().unwrap(), tok[4].parse().unwrap());
                let lits = self.cube(pos, neg)?;
                let r = oom(self.get(tok[2])?.pick_cube_dd_set(&lits))?;
                Ok(put(self, tok[1], r))
            }
            "PICKUNI" => {
                // PICKUNI a seed count -> histogram of cubes
                let seed: u64 = tok[2].parse().unwrap();
                let cnt: u32 = tok[3].parse().unwrap();
                let f = self.core.slots.get(&parse_slot(tok[1])).ok_or("skip")?.clone();
                let mut rng = oxidd::util::Rng::new_seed(seed);
                let mut cache = SatCountCache::<oxidd::util::num::F64, BH>::default();
                cache.cache_all = true;
                let mut hist: BTreeMap<String, u32> = BTreeMap::new();
                for _ in 0..cnt {
                    let c = f.pick_cube_uniform(&mut cache, &mut rng);
                    *hist.entry(fmt_cube(&c)).or_insert(0) += 1;
                }
                let mut s = String::from("hist");
                for (k, v) in hist {
                    write!(s, " {k}={v}").unwrap();
                }
                Ok(s)
            }
            "FILL" => {
                // capacity probe: create single-node functions x0 ? a : b (a, b
                // independent of x0, all kept alive) until the manager reports
                // out-of-memory; needs >= 4 variables
                if self.nvars() < 4 {
                    return Err("skip".into());
                }
                let res: Result<(usize, usize, usize, bool), String> = self.core.mref.with_manager_shared(|m| {
                    // the operands of the probe (about 16 nodes); an out-of-memory here (retried like the
                    // probe's own allocations, see below) already is the probe's out-of-memory point: the
                    // store must then be completely full as well
                    let prep = || -> Result<(F, Vec<F>), String> {
                        let x = |v: VarNo| oom(F::var(m, v));
                        let (x0, x1, x2, x3) = (x(0)?, x(1)?, x(2)?, x(3)?);
                        let mut base: Vec<F> = vec![F::f(m), F::t(m), x1.clone(), x2.clone(), x3.clone()];
                        for (a, b) in [(&x1, &x2), (&x2, &x3), (&x1, &x3)] {
                            base.push(oom(a.and(b))?);
                            base.push(oom(a.or(b))?);
                            base.push(oom(a.xor(b))?);
                        }
                        for v in [&x1, &x2, &x3] {
                            base.push(oom(v.not())?);
                        }
                        Ok((x0, base))
                    };
                    let mut tries = 0;
                    let (x0, base) = loop {
                        match prep() {
                            Ok(r) => break r,
                            Err(_) if tries < 40 => {
                                tries += 1;
                                std::thread::sleep(Duration::from_millis(3));
                            }
                            Err(_) => {
                                let n = m.num_inner_nodes();
                                return Ok((n, 0, n, true));
                            }
                        }
                    };
                    let before = m.num_inner_nodes();
                    let mut keep: Vec<F> = Vec::new();
                    let mut hit = false;
                    'outer: for i in 0..base.len() {
                        for j in 0..base.len() {
                            if i == j {
                                continue;
                            }
                            // A background collection running right now holds the slots it
                            // frees in its thread-local list until it is done; an allocation
                            // failure in that window is transient.  Retry for a while: only a
                            // failure that persists although nothing else runs is the probe's
                            // out-of-memory point.
                            let mut tries = 0;
                            let r = loop {
                                match x0.ite(&base[i], &base[j]) {
                                    Ok(f) => break Some(f),
                                    Err(_) if tries < 40 => {
                                        tries += 1;
                                        std::thread::sleep(Duration::from_millis(3));
                                    }
                                    Err(_) => break None,
                                }
                            };
                            match r {
                                Some(f) => keep.push(f),
                                None => {
                                    hit = true;
                                    break 'outer;
                                }
                            }
                        }
                    }
                    Ok((before, keep.len(), m.num_inner_nodes(), hit))
                });
                let (before, created, at_end, hit) = res?;
                Ok(format!("before={before} created={created} inner_at_end={at_end} oom={}", hit as u8))
            }
            "BIGORDER" => {
                // BIGORDER <pairs> <threads> <seed> <order...>: a manager of its own with the function
                // OR_i (x_i AND x_{i+pairs}) (2^(pairs+1) nodes under the identity order), so that
                // set_var_order takes the *concurrent* bubble sort (>= 2^16 nodes and > 1 worker);
                // reports the resulting variable order and whether 64 sampled evaluations are unchanged
                if cfg!(debug_assertions) {
                    return Err("skip".into());
                }
                let pairs: u32 = tok[1].parse().unwrap();
                let threads: u32 = tok[2].parse().unwrap();
                let seed: u64 = tok[3].parse().unwrap();
                let mut rng = Rng::new(seed);
                let order: Vec<VarNo> = tok[4..].iter().map(|t| t.parse().unwrap()).collect();
                // two more variables (2*pairs, 2*pairs+1) that the function does not use: levels without nodes
                // (set_var_order treats managers with and without empty levels differently: both occur)
                let n = if seed % 2 == 0 || order.iter().any(|&v| v >= 2 * pairs) { 2 * pairs + 2 } else { 2 * pairs };
                let mref = F::new_mgr(1 << 22, 1 << 16, threads).ok_or("skip")?;
                mref.with_manager_exclusive(|m| m.add_vars(n));
                let f: F = mref.with_manager_shared(|m| {
                    let mut acc = F::f(m);
                    for i in 0..pairs {
                        let t = oom(oom(F::var(m, i))?.and(&oom(F::var(m, i + pairs))?))?;
                        acc = oom(acc.or(&t))?;
                    }
                    Ok::<F, String>(acc)
                })?;
                let nodes = f.node_count();
                // 256 sampled assignments with each variable true with probability 1/5 (the function is then true
                // for about half of them; uniform samples would nearly all satisfy it)
                let samples: Vec<Vec<bool>> = (0..256).map(|_| (0..n).map(|_| rng.next() % 5 == 0).collect()).collect();
                let ev = |f: &F| -> Vec<bool> {
                    samples.iter().map(|a| f.eval(a.iter().enumerate().map(|(v, b)| (v as VarNo, *b)))).collect()
                };
                let before = ev(&f);
                mref.with_manager_exclusive(|m| oxidd_reorder::set_var_order(m, &order));
                let after = ev(&f);
                let v2l: Vec<String> = mref.with_manager_shared(|m| (0..n).map(|v| m.var_to_level(v).to_string()).collect());
                let nodes_after = f.node_count();
                // canonicity after the reordering: the same construction must arrive at the same handle, and
                // after a collection the manager holds exactly the nodes of the live handle
                let again: F = mref.with_manager_shared(|m| {
                    let mut acc = F::f(m);
                    for i in 0..pairs {
                        let t = oom(oom(F::var(m, i))?.and(&oom(F::var(m, i + pairs))?))?;
                        acc = oom(acc.or(&t))?;
                    }
                    Ok::<F, String>(acc)
                })?;
                let rebuilt = (again == f) as u8;
                drop(again);
                let inner_after_gc = mref.with_manager_shared(|m| {
                    m.gc();
                    m.num_inner_nodes()
                });
                Ok(format!(
                    "big nodes={nodes} nodes_after={nodes_after} evals_ok={} rebuilt={rebuilt} inner_after_gc={inner_after_gc} v2l {}",
                    (before == after) as u8,
                    v2l.join(" ")
                ))
            }
            "SESSION" => {
                // SESSION <k>: ONE manager session (one with_manager_shared) that creates k variable nodes,
                // drops them again and collects -- allocation, drop and gc() of the same thread without
                // leaving the manager in between (needs >= k variables)
                let k: VarNo = tok[1].parse().unwrap();
                if self.nvars() < k {
                    return Err("skip".into());
                }
                let r: Result<(usize, usize), String> = self.core.mref.with_manager_shared(|m| {
                    let before = m.num_inner_nodes();
                    let mut keep: Vec<F> = Vec::with_capacity(k as usize);
                    for v in 0..k {
                        keep.push(oom(F::var(m, v))?);
                    }
                    let peak = m.num_inner_nodes();
                    drop(keep);
                    let collected = m.gc();
                    let _ = before;
                    Ok((peak, collected))
                });
                let (peak, collected) = r?;
                Ok(format!("peak={peak} collected={collected}"))
            }
            "BIGFILL" => {
                // capacity probe for large managers (several allocation chunks): nodes x0 ? v_i : v_j over the
                // variable nodes v_1.. as children, all kept alive, until the manager reports out-of-memory
                let n = self.nvars();
                if n < 64 {
                    return Err("skip".into());
                }
                let res: Result<(usize, usize, usize, bool), String> = self.core.mref.with_manager_shared(|m| {
                    let x0 = oom(F::var(m, 0))?;
                    let mut base: Vec<F> = Vec::with_capacity(n as usize);
                    for v in 1..n {
                        base.push(oom(F::var(m, v))?);
                    }
                    let before = m.num_inner_nodes();
                    let mut keep: Vec<F> = Vec::new();
                    let mut hit = false;
                    'outer: for i in 0..base.len() {
                        for j in 0..base.len() {
                            if i == j {
                                continue;
                            }
                            let mut tries = 0;
                            let r = loop {
                                match x0.ite(&base[i], &base[j]) {
                                    Ok(f) => break Some(f),
                                    Err(_) if tries < 10 => {
                                        tries += 1;
                                        std::thread::sleep(Duration::from_millis(3));
                                    }
                                    Err(_) => break None,
                                }
                            };
                            match r {
                                Some(f) => keep.push(f),
                                None => {
                                    hit = true;
                                    break 'outer;
                                }
                            }
                        }
                    }
                    Ok((before, keep.len(), m.num_inner_nodes(), hit))
                });
                let (before, created, at_end, hit) = res?;
                Ok(format!("before={before} created={created} inner_at_end={at_end} oom={}", hit as u8))
            }
            "DROPALL" => {
                self.core.slots.clear();
                self.substs.clear();
                Ok("ok".into())
            }
            "SNAP" => Ok(self.snapshot()),
            other => Err(format!("unknown-op-{other}")),
        }
    }
}

fn run_bool<F: BoolExt>(case: &Case, mref: F::ManagerRef, out: &mut dyn FnMut(String))
where
    for<'id> F::Manager<'id>: Manager + oxidd::HasWorkers,
    for<'id> <F::Manager<'id> as Manager>::InnerNode: HasLevel,
    F::ManagerRef: Send,
{
    // nested=1: the whole case runs inside a session of ANOTHER manager.  The index-based manager keeps
    // per-thread store state (free-slot list, node-count delta) for one store only: inside the foreign
    // session this thread has no local state for the case's manager and takes the shared allocation and
    // release paths.
    if case.param("nested") == Some("1") {
        let other = oxidd::bdd::new_manager(64, 16, 1);
        other.with_manager_shared(|_| run_bool_inner::<F>(case, mref, out));
    } else {
        run_bool_inner::<F>(case, mref, out)
    }
}

fn run_bool_inner<F: BoolExt>(case: &Case, mref: F::ManagerRef, out: &mut dyn FnMut(String))
where
    for<'id> F::Manager<'id>: Manager + oxidd::HasWorkers,
    for<'id> <F::Manager<'id> as Manager>::InnerNode: HasLevel,
    F::ManagerRef: Send,
{
    let snap_each = case.param("snap") == Some("each");
    let mut it = BoolInterp::<F> {
        core: Core { mref, slots: BTreeMap::new() },
        substs: BTreeMap::new(),
        sat_u64: Default::default(),
        sat_u128: Default::default(),
        sat_f64: Default::default(),
        sat_nat: Default::default(),
        kept: Default::default(),
    };
    // gcall=1: a collection (which clears the apply cache) before every operation, so that no
    // memoised result can be served: the cache-free reference run of C06
    let gcall = case.param("gcall") == Some("1");
    vtrace::set_rendezvous(case.param_u64("rdv", 0));
    // split=<d>: recursion depth up to which the parallel recursor forks (default: chosen by the pool)
    if let Some(d) = case.param("split") {
        let d: u32 = d.parse().unwrap();
        it.core.mref.with_manager_shared(|m| oxidd::WorkerPool::set_split_depth(oxidd::HasWorkers::workers(m), Some(d)));
    }
    let mut idx = 0;
    let mut par_no = 0u64;
    while idx < case.ops.len() {
        let line = &case.ops[idx];
        idx += 1;
        let tok: Vec<&str> = line.split_whitespace().collect();
        if tok[0] == "PAR" {
            // PAR <k> ... ENDPAR: the lines `T<i> <op>` in between are executed by k OS threads
            // concurrently on the one manager (C07)
            let end = (idx..case.ops.len()).find(|&j| case.ops[j] == "ENDPAR").expect("ENDPAR");
            let k: usize = tok[1].parse().unwrap();
            par_no += 1;
            run_par_block(&mut it, k, &case.ops[idx..end], case.param_u64("seed", 1) ^ (par_no << 32), case.param_u64("yield", 0), out);
            atrace::drain().into_iter().for_each(&mut *out);
            idx = end + 1;
            continue;
        }
        if gcall && tok[0] != "SNAP" {
            it.core.mref.with_manager_exclusive(|m| m.gc());
        }
        let res = match it.exec(&tok) {
            Ok(r) => r,
            Err(e) => format!("err {e}"),
        };
        atrace::drain().into_iter().for_each(&mut *out);
        out(format!("{line} -> {res}"));
        if snap_each && tok[0] != "SNAP" {
            out(format!("SNAP -> {}", it.snapshot()));
        }
    }
}

/// One parallel block: thread i executes its lines in order on a private interpreter that starts
/// from a copy of the current slots; afterwards the op lines are printed in script order and the
/// slots written / dropped by the threads are merged back (the generator keeps the destination
/// slots of different threads disjoint).
fn run_par_block<F: BoolExt>(
    it: &mut BoolInterp<F>,
    k: usize,
    lines: &[String],
    seed: u64,
    yield_permille: u64,
    out: &mut dyn FnMut(String),
) where
    for<'id> F::Manager<'id>: Manager + oxidd::HasWorkers,
    for<'id> <F::Manager<'id> as Manager>::InnerNode: HasLevel,
    F::ManagerRef: Send,
{
    let mut per: Vec<Vec<(usize, String)>> = vec![Vec::new(); k];
    for (i, l) in lines.iter().enumerate() {
        let (t, op) = l.split_once(' ').expect("T<i> op");
        let ti: usize = t.trim_start_matches('T').parse().expect("thread index");
        per[ti].push((i, op.to_string()));
    }
    out(format!("PAR {k} -> begin"));
    vtrace::begin(seed, yield_permille);
    let base = it.core.slots.clone();
    let mref = it.core.mref.clone();
    let barrier = std::sync::Barrier::new(k);
    let done = std::sync::atomic::AtomicUsize::new(0);
    let results: Vec<(Vec<(usize, String, String)>, BTreeMap<usize, F>)> = std::thread::scope(|sc| {
        let hs: Vec<_> = per
            .iter()
            .enumerate()
            .map(|(ti, ops)| {
                let (barrier, done) = (&barrier, &done);
                let (my_mref, my_slots) = (mref.clone(), base.clone());
                sc.spawn(move || {
                    vtrace::enter_thread(ti, seed);
                    let mut t = BoolInterp::<F> {
                        core: Core { mref: my_mref, slots: my_slots },
                        substs: BTreeMap::new(),
                        sat_u64: Default::default(),
                        sat_u128: Default::default(),
                        sat_f64: Default::default(),
                        sat_nat: Default::default(),
                        kept: Default::default(),
                    };
                    let mut res = Vec::new();
                    barrier.wait();
                    for (i, op) in ops {
                        let tok: Vec<&str> = op.split_whitespace().collect();
                        if tok[0] == "PGC" && tok.len() == 2 {
                            // `PGC <max>`: one collection after the other for as long as another thread of
                            // the block is still working, at most <max>
                            let max: usize = tok[1].parse().expect("PGC <max>");
                            let mut n = 0;
                            while n < max && done.load(std::sync::atomic::Ordering::Relaxed) + 1 < k {
                                let _ = t.exec(&["PGC"]);
                                n += 1;
                            }
                            res.push((*i, op.clone(), format!("collections {n}")));
                            continue;
                        }
                        let r = match t.exec(&tok) {
                            Ok(r) => r,
                            Err(e) => format!("err {e}"),
                        };
                        res.push((*i, op.clone(), r));
                    }
                    done.fetch_add(1, std::sync::atomic::Ordering::Relaxed);
                    t.substs.clear();
                    (res, t.core.slots)
                })
            })
            .collect();
        hs.into_iter().map(|h| h.join().expect("thread of a parallel block panicked")).collect()
    });
    let events = vtrace::end();
    let mut all: Vec<(usize, String, String)> = Vec::new();
    for (res, slots) in results {
        all.extend(res);
        // merge: new or changed slots are written back, slots the thread dropped are removed
        for (k2, f) in &slots {
            if base.get(k2) != Some(f) {
                it.core.slots.insert(*k2, f.clone());
            }
        }
        for k2 in base.keys() {
            if !slots.contains_key(k2) {
                it.core.slots.remove(k2);
            }
        }
    }
    all.sort_by_key(|x| x.0);
    for (_, op, r) in all {
        out(format!("{op} -> {r}"));
    }
    for e in events {
        out(e);
    }
    out("ENDPAR -> ok".to_string());
}

/// C07m: the parallel block of `run_par_block` for the interpreters that are not `BoolInterp`
/// (MTBDD, TDD): thread i executes its lines in order through `exec` on a private `Core` that
/// starts from a copy of the current slots; output and merge exactly as in `run_par_block`.
fn run_par_core<F>(
    core: &mut Core<F>,
    k: usize,
    lines: &[String],
    seed: u64,
    yield_permille: u64,
    out: &mut dyn FnMut(String),
    exec: &(dyn Fn(&mut Core<F>, &[&str]) -> Result<String, String> + Sync),
) where
    F: Function + Clone + Eq + Ord + Hash + Send + 'static,
    for<'id> F::Manager<'id>: Manager + oxidd::HasWorkers,
    for<'id> <F::Manager<'id> as Manager>::InnerNode: HasLevel,
    F::ManagerRef: Send,
{
    let mut per: Vec<Vec<(usize, String)>> = vec![Vec::new(); k];
    for (i, l) in lines.iter().enumerate() {
        let (t, op) = l.split_once(' ').expect("T<i> op");
        let ti: usize = t.trim_start_matches('T').parse().expect("thread index");
        per[ti].push((i, op.to_string()));
    }
    out(format!("PAR {k} -> begin"));
    vtrace::begin(seed, yield_permille);
    let base = core.slots.clone();
    let mref = core.mref.clone();
    let barrier = std::sync::Barrier::new(k);
    let done = std::sync::atomic::AtomicUsize::new(0);
    let results: Vec<(Vec<(usize, String, String)>, BTreeMap<usize, F>)> = std::thread::scope(|sc| {
        let hs: Vec<_> = per
            .iter()
            .enumerate()
            .map(|(ti, ops)| {
                let (barrier, done) = (&barrier, &done);
                let (my_mref, my_slots) = (mref.clone(), base.clone());
                sc.spawn(move || {
                    vtrace::enter_thread(ti, seed);
                    let mut t = Core::<F> { mref: my_mref, slots: my_slots };
                    let mut res = Vec::new();
                    barrier.wait();
                    for (i, op) in ops {
                        let tok: Vec<&str> = op.split_whitespace().collect();
                        if tok[0] == "PGC" && tok.len() == 2 {
                            // `PGC <max>`: collections for as long as another thread of the block works
                            let max: usize = tok[1].parse().expect("PGC <max>");
                            let mut n = 0;
                            while n < max && done.load(std::sync::atomic::Ordering::Relaxed) + 1 < k {
                                let _ = exec(&mut t, &["PGC"]);
                                n += 1;
                            }
                            res.push((*i, op.clone(), format!("collections {n}")));
                            continue;
                        }
                        let r = match exec(&mut t, &tok) {
                            Ok(r) => r,
                            Err(e) => format!("err {e}"),
                        };
                        res.push((*i, op.clone(), r));
                    }
                    done.fetch_add(1, std::sync::atomic::Ordering::Relaxed);
                    (res, t.slots)
                })
            })
            .collect();
        hs.into_iter().map(|h| h.join().expect("thread of a parallel block panicked")).collect()
    });
    let events = vtrace::end();
    let mut all: Vec<(usize, String, String)> = Vec::new();
    for (res, slots) in results {
        all.extend(res);
        for (k2, f) in &slots {
            if base.get(k2) != Some(f) {
                core.slots.insert(*k2, f.clone());
            }
        }
        for k2 in base.keys() {
            if !slots.contains_key(k2) {
                core.slots.remove(k2);
            }
        }
    }
    all.sort_by_key(|x| x.0);
    for (_, op, r) in all {
        out(format!("{op} -> {r}"));
    }
    for e in events {
        out(e);
    }
    out("ENDPAR -> ok".to_string());
}

/// Event trace and schedule perturbation through the hooks of /repo (`--cfg oxidd_verif`);
/// without the flag the functions do nothing.
mod vtrace {
    #[cfg(oxidd_verif)]
    mod imp {
        use oxidd_core::verif::site;
        use std::cell::Cell;
        use std::sync::atomic::{AtomicBool, AtomicU64, Ordering::Relaxed};
        use std::sync::Mutex;

        thread_local! {
            static TID: Cell<usize> = const { Cell::new(99) };
            static LEVEL: Cell<usize> = const { Cell::new(usize::MAX) };
            static RNG: Cell<u64> = const { Cell::new(0x9e3779b97f4a7c15) };
        }
        static ON: AtomicBool = AtomicBool::new(false);
        /// Package C07t (case parameter `tt=1`, kinds mtbdd / mtbddf): the events of the dynamic terminal
        /// manager (hook sites 19..27) and the collector's phase events (pre_gc, bucket runs, sweep begin,
        /// post_gc, end) are logged for the WHOLE case, also outside parallel blocks; outside the blocks
        /// the lines are written out after every operation (`drain`)
        static SEQ: AtomicBool = AtomicBool::new(false);
        static NEXT_UID: AtomicU64 = AtomicU64::new(0);
        thread_local! {
            /// a number per OS thread (the thread field of the terminal events; `TID` is 99 for
            /// every thread that is not a thread of a parallel block)
            static UID: Cell<u64> = const { Cell::new(u64::MAX) };
        }
        fn uid() -> u64 {
            UID.with(|u| {
                if u.get() == u64::MAX {
                    u.set(NEXT_UID.fetch_add(1, Relaxed));
                }
                u.get()
            })
        }
        /// the thread field of the terminal events and of the apply cache insertion / hit events: the
        /// index of a thread of a parallel block, 1000 + a number per OS thread for every other thread
        fn tkey() -> usize {
            let t = TID.with(|t| t.get());
            if t != 99 {
                t
            } else {
                1000 + uid() as usize
            }
        }
        static PERMILLE: AtomicU64 = AtomicU64::new(0);
        /// The event log.  `pending` = a run of consecutive apply-cache buckets the collector has
        /// locked (`L`) / is unlocking (`U`): (kind, thread, address of the first bucket, count); it is
        /// written out as ONE line before any other event is logged, so the order of the lines is
        /// the order in which the events were reported (every cache event is reported with the
        /// bucket's lock held).  `geom` = (address of bucket 0, number of buckets, bucket size).
        struct LogState {
            lines: Vec<String>,
            pending: Option<(char, usize, usize, usize)>,
            geom: Option<(usize, usize, usize)>,
        }
        impl LogState {
            fn flush(&mut self) {
                if let Some((kind, tid, first, count)) = self.pending.take() {
                    self.lines.push(format!("EV C{kind} {tid} @{first} {count}"));
                }
            }
            fn push(&mut self, e: String) {
                self.flush();
                self.lines.push(e);
            }
            fn run(&mut self, kind: char, tid: usize, addr: usize) {
                let stride = self.geom.map_or(0, |g| g.2);
                match &mut self.pending {
                    Some((k, t, first, count)) if *k == kind && *t == tid && stride != 0 && addr == *first + *count * stride => {
                        *count += 1
                    }
                    _ => {
                        self.flush();
                        self.pending = Some((kind, tid, addr, 1));
                    }
                }
            }
        }
        static LOG: Mutex<LogState> = Mutex::new(LogState { lines: Vec::new(), pending: None, geom: None });
        static COUNTS: [AtomicU64; 32] = [const { AtomicU64::new(0) }; 32];
        /// rendezvous perturbation (case parameter `rdv=<permille>`): with this probability a thread
        /// about to access the apply cache waits (bounded) for the next collection to enter `pre_gc`,
        /// so that its `try_lock` and the collector's `lock()` of the first buckets coincide
        static RDV: AtomicU64 = AtomicU64::new(0);
        /// collector perturbation (case parameter `gcyield=<permille>`, C07m): with this probability
        /// the collector yields / spins after a bucket of `pre_gc` resp. before a bucket of `post_gc`,
        /// i.e. it is preempted in the middle of locking / unlocking the apply cache
        static GCYIELD: AtomicU64 = AtomicU64::new(0);
        static GC_EPOCH: AtomicU64 = AtomicU64::new(0);
        static INSTALLED: AtomicBool = AtomicBool::new(false);
        thread_local! {
            /// the apply-cache bucket this thread locked last with the blocking `lock()`
            static LAST_BUCKET: Cell<usize> = const { Cell::new(0) };
        }

        fn next_rand() -> u64 {
            RNG.with(|r| {
                let mut x = r.get();
                x ^= x << 13;
                x ^= x >> 7;
                x ^= x << 17;
                r.set(x);
                x
            })
        }

        fn gc_yield() {
            let q = GCYIELD.load(Relaxed);
            if q > 0 {
                let r = next_rand();
                if r % 1000 < q {
                    if (r >> 20) % 4 == 0 {
                        for _ in 0..((r >> 24) % 2000) {
                            std::hint::spin_loop();
                        }
                    } else {
                        std::thread::yield_now();
                    }
                }
            }
        }

        /// `EV CA|CH <tid> @<bucket address> <operand edges> <value edges> (<node id> <tag>)*`
        fn cache_event(kind: &str, data: &[usize]) -> String {
            let mut e = format!("EV {kind} {} @{}", tkey(), data[0]);
            for d in &data[1..] {
                e.push(' ');
                e.push_str(&d.to_string());
            }
            e
        }

        fn hook(s: u32, data: &[usize]) {
            if s >= 32 {
                // slot allocator events (package ALLOC): own log, see `atrace`
                crate::atrace::event(s, data);
                return;
            }
            // package CORETIE (case parameter core=1): table / count events into the allocator's log
            crate::atrace::core_event(s, data);
            let on = ON.load(Relaxed);
            if !on {
                if !SEQ.load(Relaxed) {
                    return;
                }
                // C07t, outside a parallel block: terminal events, apply cache hits (their value edges
                // are cloned) and the collector's phases only
                match s {
                    19..=27
                    | site::CACHE_HIT
                    | site::CACHE_BUCKET_LOCK
                    | site::CACHE_PRE_GC
                    | site::CACHE_PRE_GC_BUCKET
                    | site::CACHE_POST_GC_BUCKET
                    | site::GC_BEGIN
                    | site::GC_END => {}
                    _ => return,
                }
            }
            COUNTS[(s as usize).min(31)].fetch_add(1, Relaxed);
            match s {
                // ---- dynamic terminal manager (C07t): `EV T<e> <thread> <data>`; found / new / oom / the
                // iterator item / the collector's events are reported with the terminal manager's state
                // mutex held, the increment after `fetch_add`, the decrement before `fetch_sub`
                19..=27 => {
                    let name = match s {
                        19 => "TF",
                        20 => "TN",
                        21 => "TO",
                        22 => "TR",
                        23 => "TD",
                        24 => "TB",
                        25 => "TX",
                        26 => "TE",
                        _ => "TI",
                    };
                    let mut e = format!("EV {name} {}", tkey());
                    for d in data {
                        e.push(' ');
                        e.push_str(&d.to_string());
                    }
                    LOG.lock().unwrap().push(e);
                    if s != 23 {
                        return; // (perturbation only where no lock is held: before a decrement)
                    }
                }
                site::GOI_LEVEL => LEVEL.with(|l| l.set(data[0])),
                site::GOI_FOUND | site::GOI_NEW => {
                    // the level mutex is held: the order of these entries is the order in which the
                    // accesses to this level's unique table happened
                    let mut e = format!(
                        "EV G {} {} {} {}",
                        TID.with(|t| t.get()),
                        LEVEL.with(|l| l.get()),
                        if s == site::GOI_NEW { "new" } else { "found" },
                        data[0]
                    );
                    for d in &data[1..] {
                        e.push(' ');
                        e.push_str(&d.to_string());
                    }
                    LOG.lock().unwrap().push(e);
                }
                site::GC_REMOVE => {
                    let e = format!("EV R {} {}", TID.with(|t| t.get()), data[0]);
                    LOG.lock().unwrap().push(e);
                }
                // ---- apply cache protocol (C07k): all of these are reported with the bucket locked ----
                site::CACHE_BUCKET_LOCK => LAST_BUCKET.with(|b| b.set(data[0])),
                site::CACHE_PRE_GC => {
                    {
                        let mut log = LOG.lock().unwrap();
                        log.geom = Some((data[0], data[1], data[2]));
                        let e = format!("EV CP {} {}", TID.with(|t| t.get()), data[1]);
                        log.push(e);
                    }
                    GC_EPOCH.fetch_add(1, Relaxed);
                }
                site::CACHE_GET | site::CACHE_ADD => {
                    let q = RDV.load(Relaxed);
                    if q > 0 && next_rand() % 1000 < q {
                        let e0 = GC_EPOCH.load(Relaxed);
                        let mut n = 0u32;
                        while GC_EPOCH.load(Relaxed) == e0 && n < 20_000 {
                            std::hint::spin_loop();
                            n += 1;
                        }
                        return;
                    }
                }
                site::CACHE_PRE_GC_BUCKET => {
                    let (tid, addr) = (TID.with(|t| t.get()), LAST_BUCKET.with(|b| b.get()));
                    LOG.lock().unwrap().run('L', tid, addr);
                    gc_yield();
                }
                site::CACHE_POST_GC_BUCKET => {
                    let tid = TID.with(|t| t.get());
                    LOG.lock().unwrap().run('U', tid, data[0]);
                    gc_yield();
                }
                site::GC_BEGIN => {
                    let e = format!("EV GB {}", TID.with(|t| t.get()));
                    LOG.lock().unwrap().push(e);
                }
                site::GC_END => {
                    let e = format!("EV GE {}", TID.with(|t| t.get()));
                    LOG.lock().unwrap().push(e);
                }
                site::CACHE_ADD_DONE => {
                    let e = cache_event("CA", data);
                    LOG.lock().unwrap().push(e);
                }
                site::CACHE_HIT => {
                    let e = cache_event("CH", data);
                    LOG.lock().unwrap().push(e);
                }
                _ => {}
            }
            // schedule perturbation (never while the event is being logged; not at the collector's
            // per-bucket events: there are millions of them)
            let p = if on { PERMILLE.load(Relaxed) } else { 0 };
            if p > 0
                && s != site::GOI_FOUND
                && s != site::GOI_NEW
                && s != site::GC_REMOVE
                && s != site::CACHE_BUCKET_LOCK
                && s != site::CACHE_PRE_GC_BUCKET
                && s != site::CACHE_POST_GC_BUCKET
            {
                let r = next_rand();
                if r % 1000 < p {
                    if (r >> 20) % 4 == 0 {
                        let spins = (r >> 24) % 4000;
                        for _ in 0..spins {
                            std::hint::spin_loop();
                        }
                    } else {
                        std::thread::yield_now();
                    }
                }
            }
        }

        pub fn install() {
            if !INSTALLED.swap(true, Relaxed) {
                oxidd_core::verif::set_hook(Some(Box::new(hook)));
            }
        }
        pub fn begin(seed: u64, permille: u64) {
            if !INSTALLED.swap(true, Relaxed) {
                oxidd_core::verif::set_hook(Some(Box::new(hook)));
            }
            let _ = seed;
            {
                let mut log = LOG.lock().unwrap();
                log.lines.clear();
                log.pending = None;
                log.geom = None;
            }
            for c in &COUNTS {
                c.store(0, Relaxed);
            }
            PERMILLE.store(permille, Relaxed);
            ON.store(true, Relaxed);
        }
        pub fn set_rendezvous(permille: u64) {
            RDV.store(permille, Relaxed);
        }
        pub fn set_gc_yield(permille: u64) {
            GCYIELD.store(permille, Relaxed);
        }
        pub fn enter_thread(ti: usize, seed: u64) {
            TID.with(|t| t.set(ti));
            RNG.with(|r| r.set((seed ^ ((ti as u64 + 1) * 0x9e3779b97f4a7c15)) | 1));
        }
        /// C07t: `tt=1` switches the whole-case log of the terminal manager on (off otherwise)
        pub fn seq_set(on: bool) {
            if on {
                install();
                let mut log = LOG.lock().unwrap();
                log.lines.clear();
                log.pending = None;
                log.geom = None;
            }
            SEQ.store(on, Relaxed);
        }
        /// C07t: the lines logged since the last call (outside parallel blocks)
        pub fn drain() -> Vec<String> {
            if !SEQ.load(Relaxed) {
                return Vec::new();
            }
            let (mut v, geom) = {
                let mut log = LOG.lock().unwrap();
                log.flush();
                (std::mem::take(&mut log.lines), log.geom)
            };
            // (every bucket run follows the CACHE_PRE_GC event of its collection: the geometry is known)
            for l in v.iter_mut() {
                if l.starts_with("EV C") && l.contains('@') {
                    let toks: Vec<String> = l
                        .split(' ')
                        .map(|t| match (t.strip_prefix('@'), geom) {
                            (Some(a), Some((base, _, stride))) => {
                                (a.parse::<usize>().unwrap().wrapping_sub(base) / stride.max(1)).to_string()
                            }
                            _ => t.to_string(),
                        })
                        .collect();
                    *l = toks.join(" ");
                }
            }
            v
        }
        pub fn end() -> Vec<String> {
            ON.store(false, Relaxed);
            let (mut v, geom) = {
                let mut log = LOG.lock().unwrap();
                log.flush();
                (std::mem::take(&mut log.lines), log.geom)
            };
            // bucket addresses -> bucket numbers (if no collection ran in the block the cache geometry
            // is unknown: rank among the addresses seen)
            let mut addrs: Vec<usize> = Vec::new();
            if geom.is_none() {
                for l in &v {
                    if let Some(t) = l.split(' ').find(|t| t.starts_with('@')) {
                        addrs.push(t[1..].parse().unwrap());
                    }
                }
                addrs.sort_unstable();
                addrs.dedup();
            }
            for l in v.iter_mut() {
                if l.starts_with("EV C") && l.contains('@') {
                    let toks: Vec<String> = l
                        .split(' ')
                        .map(|t| match t.strip_prefix('@') {
                            Some(a) => {
                                let a: usize = a.parse().unwrap();
                                match geom {
                                    Some((base, _, stride)) => (a.wrapping_sub(base) / stride.max(1)).to_string(),
                                    None => addrs.binary_search(&a).unwrap().to_string(),
                                }
                            }
                            None => t.to_string(),
                        })
                        .collect();
                    *l = toks.join(" ");
                }
            }
            let mut c = String::from("EVSTAT");
            for (i, n) in COUNTS.iter().enumerate() {
                let n = n.load(Relaxed);
                if n > 0 {
                    c.push_str(&format!(" s{i}={n}"));
                }
            }
            v.push(c);
            v
        }
    }
    #[cfg(not(oxidd_verif))]
    mod imp {
        #[allow(dead_code)]
        pub fn install() {}
        pub fn begin(_seed: u64, _permille: u64) {}
        pub fn set_rendezvous(_permille: u64) {}
        pub fn set_gc_yield(_permille: u64) {}
        pub fn seq_set(_on: bool) {}
        pub fn drain() -> Vec<String> {
            Vec::new()
        }
        pub fn enter_thread(_ti: usize, _seed: u64) {}
        pub fn end() -> Vec<String> {
            Vec::new()
        }
    }
    pub use imp::*;
}

/// Package ALLOC: log of the slot allocator events of the index-based manager (hook sites >= 32 of
/// /repo, `--cfg oxidd_verif`), switched on for a whole case by the case parameter `alloc=1` and
/// written out after every operation as lines `EV A <thread> <event> <data ...>` (replayed by
/// ocaml/alloc_main.ml against the extracted model coq/Mgr/Alloc.v).  Threads are numbered in the
/// order of their first event within the case.  Without the flag the functions do nothing.
mod atrace {
    #[cfg(oxidd_verif)]
    mod imp {
        use std::cell::Cell;
        use std::sync::atomic::{AtomicBool, AtomicU64, AtomicUsize, Ordering::Relaxed};
        use std::sync::Mutex;

        static AON: AtomicBool = AtomicBool::new(false);
        static EPOCH: AtomicU64 = AtomicU64::new(0);
        static NEXT: AtomicUsize = AtomicUsize::new(0);
        static ALOG: Mutex<Vec<String>> = Mutex::new(Vec::new());
        thread_local! {
            static ATID: Cell<(u64, usize)> = const { Cell::new((0, 0)) };
        }

        fn tid() -> usize {
            ATID.with(|t| {
                let (e, i) = t.get();
                let now = EPOCH.load(Relaxed);
                if e == now {
                    i
                } else {
                    let i = NEXT.fetch_add(1, Relaxed);
                    t.set((now, i));
                    i
                }
            })
        }

        pub fn event(s: u32, data: &[usize]) {
            if !AON.load(Relaxed) {
                return;
            }
            let name = match s {
                32 => "N",
                33 => "B",
                34 => "P",
                35 => "S",
                36 => "R",
                37 => "F",
                38 => "L",
                39 => "D",
                40 => "T",
                41 => "G",
                42 => "C",
                _ => return,
            };
            // the log's mutex is taken while the event's critical section (if any) is still held:
            // the order of the lines is the order of the critical sections
            let mut log = ALOG.lock().unwrap();
            let mut e = format!("EV A {} {name}", tid());
            for d in data {
                e.push(' ');
                e.push_str(&(*d as i64).to_string());
            }
            log.push(e);
        }
        /// Package CORETIE (case parameter `core=1`, together with `alloc=1`): the unique table's and
        /// the reference counts' events (sites GOI_LEVEL 2, GOI_FOUND 3, GOI_NEW 4, GC_REMOVE 6,
        /// RETAIN 11, RELEASE 12) go into the SAME mutex-ordered log as the allocator events, for the
        /// whole case (inside and outside parallel blocks), as `EV K <thread> <site> <data ...>` with
        /// the allocator log's thread numbers (replayed by ocaml/core_main.ml on coq/Mgr/Core.v)
        static CORE: AtomicBool = AtomicBool::new(false);
        pub fn core_event(s: u32, data: &[usize]) {
            if !CORE.load(Relaxed) || !AON.load(Relaxed) || !matches!(s, 2 | 3 | 4 | 6 | 11 | 12) {
                return;
            }
            let mut log = ALOG.lock().unwrap();
            let mut e = format!("EV K {} {s}", tid());
            for d in data {
                e.push(' ');
                e.push_str(&d.to_string());
            }
            log.push(e);
        }
        pub fn core_set(on: bool) {
            CORE.store(on, Relaxed);
        }
        pub fn begin() {
            super::super::vtrace::install();
            EPOCH.fetch_add(1, Relaxed);
            NEXT.store(0, Relaxed);
            ALOG.lock().unwrap().clear();
            AON.store(true, Relaxed);
        }
        pub fn drain() -> Vec<String> {
            if !AON.load(Relaxed) {
                return Vec::new();
            }
            std::mem::take(&mut *ALOG.lock().unwrap())
        }
        pub fn end() -> Vec<String> {
            let v = drain();
            AON.store(false, Relaxed);
            v
        }
    }
    #[cfg(not(oxidd_verif))]
    mod imp {
        pub fn begin() {}
        pub fn core_set(_on: bool) {}
        pub fn drain() -> Vec<String> {
            Vec::new()
        }
        pub fn end() -> Vec<String> {
            Vec::new()
        }
    }
    pub use imp::*;
}

// ---------------------------------------------------------------------------
// MTBDD family (pseudo-Boolean functions over I64 / F64 terminals)
// ---------------------------------------------------------------------------

#[cfg(feature = "mtbdd")]
mod mt {
    use super::*;
    use oxidd::mtbdd::terminal::{F64, I64};
    use oxidd::mtbdd::MTBDDFunction;
    use oxidd::PseudoBooleanFunction;
    use oxidd_core::function::NumberBase;

    pub trait Num: oxidd_core::function::NumberBase + Send + Sync + 'static + std::fmt::Debug + Clone {
        fn parse(s: &str) -> Self;
        fn show(&self) -> String;
        /// pairwise distinct values for the terminal capacity probe (TFILL)
        fn from_index(i: u64) -> Self;
        /// the value dddmp's `import_ascii` obtains from a terminal description (`M::Terminal::parse`)
        fn parse_text(s: &str) -> Option<Self>;
    }
    impl Num for I64 {
        fn parse(s: &str) -> Self {
            match s {
                "nan" => I64::NaN,
                "+inf" => I64::PlusInf,
                "-inf" => I64::MinusInf,
                _ => I64::Num(s.parse().unwrap()),
            }
        }
        fn from_index(i: u64) -> Self {
            I64::Num(1_000_000 + i as i64)
        }
        fn parse_text(s: &str) -> Option<Self> {
            <I64 as oxidd_dump::ParseTagged<()>>::parse(s).map(|p| p.0)
        }
        fn show(&self) -> String {
            match self {
                I64::NaN => "nan".into(),
                I64::PlusInf => "+inf".into(),
                I64::MinusInf => "-inf".into(),
                I64::Num(n) => n.to_string(),
            }
        }
    }
    impl Num for F64 {
        fn parse(s: &str) -> Self {
            F64::from(f64::from_bits(u64::from_str_radix(s, 16).unwrap()))
        }
        fn from_index(i: u64) -> Self {
            F64::from(1.0e6 + i as f64)
        }
        fn parse_text(s: &str) -> Option<Self> {
            <F64 as oxidd_dump::ParseTagged<()>>::parse(s).map(|p| p.0)
        }
        fn show(&self) -> String {
            format!("{:016x}", f64::from(*self).to_bits())
        }
    }

    macro_rules! mt_run {
        ($name:ident, $T:ty) => {
            pub fn $name(case: &Case, out: &mut dyn FnMut(String)) {
        type Fun<X> = MTBDDFunction<X>;
            type T = $T;
        let cap = case.param_u64("cap", 1 << 16) as usize;
        let tcap = case.param_u64("tcap", 1 << 12) as usize;
        let cache = case.param_u64("cache", 1 << 12) as usize;
        let threads = case.param_u64("threads", 1) as u32;
        let snap_each = case.param("snap") == Some("each");
        // C07t: tt=1 logs the terminal manager's events of the whole case (hooks build only)
        vtrace::seq_set(case.param("tt") == Some("1"));
        let mref = oxidd::mtbdd::new_manager::<T>(cap, tcap, cache, threads);
        let mut core: Core<Fun<T>> = Core { mref, slots: BTreeMap::new() };
        let gcall = case.param("gcall") == Some("1");
        // one operation (also executed by the threads of a parallel block, C07m)
        fn exec1(core: &mut Core<Fun<T>>, tok: &[&str], tcap: usize) -> Result<String, String> {
                if let Some(r) = core.exec(tok) {
                    return r;
                }
                match tok[0] {
                    "CONSTN" => {
                        let v = T::parse(tok[2]);
                        let f = oom(core.mref.with_manager_shared(|m| Fun::<T>::constant(m, v)))?;
                        Ok(core.put(tok[1], f))
                    }
                    "PARSEC" => {
                        // PARSEC dst text : the constant whose value is parsed from a terminal description
                        // the way dddmp's import_ascii does (`M::Terminal::parse(text)`, then get_terminal)
                        let Some(v) = T::parse_text(tok[2]) else {
                            return Err("skip".into());
                        };
                        let f = oom(core.mref.with_manager_shared(|m| Fun::<T>::constant(m, v)))?;
                        Ok(core.put(tok[1], f))
                    }
                    "VT" => {
                        // VT dst nv v0 v1 ... : function from its value table, by Shannon
                        // expansion with ite on the 0-1-valued variable functions
                        let nv: u32 = tok[2].parse().unwrap();
                        if nv > core.nvars() || tok.len() != 3 + (1usize << nv) {
                            return Err("skip".into());
                        }
                        let vals: Vec<T> = tok[3..].iter().map(|t| T::parse(t)).collect();
                        fn rec<T: Num>(
                            m: &<MTBDDFunction<T> as Function>::Manager<'_>,
                            nv: u32,
                            vals: &[T],
                        ) -> Result<MTBDDFunction<T>, String>
                        where
                            MTBDDFunction<T>: PseudoBooleanFunction<Number = T>,
                        {
                            if nv == 0 {
                                return oom(MTBDDFunction::<T>::constant(m, vals[0].clone()));
                            }
                            let half = 1usize << (nv - 1);
                            let lo = rec::<T>(m, nv - 1, &vals[..half])?;
                            let hi = rec::<T>(m, nv - 1, &vals[half..])?;
                            let x = oom(<MTBDDFunction<T> as PseudoBooleanFunction>::var(m, nv - 1))?;
                            oom(x.ite(&hi, &lo))
                        }
                        let f = core.mref.with_manager_shared(|m| rec::<T>(m, nv, &vals))?;
                        Ok(core.put(tok[1], f))
                    }
                    "VAR" => {
                        let v: VarNo = tok[2].parse().unwrap();
                        if v >= core.nvars() {
                            return Err("skip".into());
                        }
                        let f = oom(core.mref.with_manager_shared(|m| <Fun<T> as PseudoBooleanFunction>::var(m, v)))?;
                        Ok(core.put(tok[1], f))
                    }
                    "ADD" | "SUB" | "MUL" | "DIV" | "MIN" | "MAX" => {
                        let (a, b) = (core.get(tok[2])?, core.get(tok[3])?);
                        let r = match tok[0] {
                            "ADD" => a.add(b),
                            "SUB" => a.sub(b),
                            "MUL" => a.mul(b),
                            "DIV" => a.div(b),
                            "MIN" => PseudoBooleanFunction::min(a, b),
                            _ => PseudoBooleanFunction::max(a, b),
                        };
                        let r = oom(r)?;
                        Ok(core.put(tok[1], r))
                    }
                    "ITE" => {
                        let r = oom(core.get(tok[2])?.ite(core.get(tok[3])?, core.get(tok[4])?))?;
                        Ok(core.put(tok[1], r))
                    }
                    "RESTRICT" => {
                        // RESTRICT dst a posmask negmask : cube = product of literals (x resp. 1 - x)
                        let (pos, neg): (u64, u64) = (tok[3].parse().unwrap(), tok[4].parse().unwrap());
                        let n = core.nvars();
                        let cube: Result<Fun<T>, String> = core.mref.with_manager_shared(|m| {
                            let one = oom(Fun::<T>::constant(m, T::one()))?;
                            let mut acc = one.clone();
                            for v in (0..n).rev() {
                                let x = oom(<Fun<T> as PseudoBooleanFunction>::var(m, v))?;
                                if pos >> v & 1 == 1 {
                                    acc = oom(x.mul(&acc))?;
                                } else if neg >> v & 1 == 1 {
                                    let nx = oom(one.sub(&x))?;
                                    acc = oom(nx.mul(&acc))?;
                                }
                            }
                            Ok(acc)
                        });
                        let r = oom(core.get(tok[2])?.restrict(&cube?))?;
                        Ok(core.put(tok[1], r))
                    }
                    "EVAL" => {
                        let n = core.nvars();
                        if n > 7 {
                            return Ok("toolarge".into());
                        }
                        let f = core.get(tok[1])?;
                        let mut s = format!("vt {n}");
                        for a in 0..(1u32 << n) {
                            let v = f.eval((0..n).map(|v| (v, a >> v & 1 == 1)));
                            s.push(' ');
                            s.push_str(&v.show());
                        }
                        Ok(s)
                    }
                    "TFILL" => {
                        // terminal capacity probe: distinct constants, all kept alive, until the
                        // terminal manager reports OutOfMemory (at most tcap + 8 attempts)
                        let mut kept: Vec<Fun<T>> = Vec::new();
                        let mut oomed = 0;
                        for i in 0..(tcap as u64 + 8) {
                            match core.mref.with_manager_shared(|m| Fun::<T>::constant(m, T::from_index(i))) {
                                Ok(f) => kept.push(f),
                                Err(_) => {
                                    oomed = 1;
                                    break;
                                }
                            }
                        }
                        let n = core.mref.with_manager_shared(|m| m.num_terminals());
                        let r = format!("terms_at_end={} oom={} kept={}", n, oomed, kept.len());
                        drop(kept);
                        Ok(r)
                    }
                    "DROPALL" => {
                        core.slots.clear();
                        Ok("ok".into())
                    }
                    "SNAP" => Ok(core.snapshot(&[], &|t: &T| t.show())),
                    other => Err(format!("unknown-op-{other}")),
                }
        }
        vtrace::set_rendezvous(case.param_u64("rdv", 0));
        let mut idx = 0;
        let mut par_no = 0u64;
        while idx < case.ops.len() {
            let line = &case.ops[idx];
            idx += 1;
            let tok: Vec<&str> = line.split_whitespace().collect();
            if tok[0] == "PAR" {
                // PAR <k> ... ENDPAR: the lines `T<i> <op>` in between are executed by k OS threads
                // concurrently on the one manager (C07m)
                let end = (idx..case.ops.len()).find(|&j| case.ops[j] == "ENDPAR").expect("ENDPAR");
                let k: usize = tok[1].parse().unwrap();
                par_no += 1;
                run_par_core(&mut core, k, &case.ops[idx..end], case.param_u64("seed", 1) ^ (par_no << 32),
                             case.param_u64("yield", 0), out, &|c, t| exec1(c, t, tcap));
                atrace::drain().into_iter().for_each(&mut *out);
                vtrace::drain().into_iter().for_each(&mut *out);
                idx = end + 1;
                continue;
            }
            if gcall && tok[0] != "SNAP" {
                core.mref.with_manager_exclusive(|m| m.gc());
            }
            let res = match exec1(&mut core, &tok, tcap) {
                Ok(r) => r,
                Err(e) => format!("err {e}"),
            };
            atrace::drain().into_iter().for_each(&mut *out);
            // (C07t: the terminal events of an operation precede its line; those of a snapshot - the
            // terminal iterator - precede the SNAP line)
            vtrace::drain().into_iter().for_each(&mut *out);
            out(format!("{line} -> {res}"));
            if snap_each && tok[0] != "SNAP" {
                let snap = core.snapshot(&[], &|t: &T| t.show());
                vtrace::drain().into_iter().for_each(&mut *out);
                out(format!("SNAP -> {snap}"));
            }
        }
        // (the handles and the manager die here: their events belong to no snapshot)
        vtrace::seq_set(false);
    }
        };
    }
    mt_run!(run_i64, I64);
    mt_run!(run_f64, F64);
}

// ---------------------------------------------------------------------------
// TDD (ternary nodes): structures for the level-swap / reordering replay of C08.  Functions are
// built from variables and constants by the three-valued operators; `T3EVAL` prints the value
// table over all 3^n ternary assignments (digit v of the index in base 3: 0 = true, 1 = unknown,
// 2 = false, i.e. the child index; value codes 0 = False, 1 = Unknown, 2 = True).
// ---------------------------------------------------------------------------
mod tv {
    use super::*;
    use oxidd::tdd::TDDFunction;
    use oxidd::TVLFunction;
    use oxidd_rules_tdd::TDDTerminal;

    fn show(t: &TDDTerminal) -> String {
        format!("{t:?}")
    }

    pub fn run_tdd(case: &Case, out: &mut dyn FnMut(String)) {
        let cap = case.param_u64("cap", 1 << 16) as usize;
        let cache = case.param_u64("cache", 1 << 12) as usize;
        let threads = case.param_u64("threads", 1) as u32;
        let snap_each = case.param("snap") == Some("each");
        let gcall = case.param("gcall") == Some("1");
        let mref = oxidd::tdd::new_manager(cap, cache, threads);
        let mut core: Core<TDDFunction> = Core { mref, slots: BTreeMap::new() };
        // one operation (also executed by the threads of a parallel block, C07m)
        fn exec1(core: &mut Core<TDDFunction>, tok: &[&str]) -> Result<String, String> {
                if let Some(r) = core.exec(tok) {
                    return r;
                }
                match tok[0] {
                    "T3CONST" => {
                        let f = core.mref.with_manager_shared(|m| match tok[2] {
                            "f" => TDDFunction::f(m),
                            "u" => TDDFunction::u(m),
                            _ => TDDFunction::t(m),
                        });
                        Ok(core.put(tok[1], f))
                    }
                    "T3VAR" => {
                        let v: VarNo = tok[2].parse().unwrap();
                        if v >= core.nvars() {
                            return Err("skip".into());
                        }
                        let f = oom(core.mref.with_manager_shared(|m| TDDFunction::var(m, v)))?;
                        Ok(core.put(tok[1], f))
                    }
                    "T3NOT" => {
                        let r = oom(core.get(tok[2])?.not())?;
                        Ok(core.put(tok[1], r))
                    }
                    "T3AND" | "T3OR" | "T3XOR" | "T3EQUIV" | "T3NAND" | "T3NOR" | "T3IMP" | "T3IMPS" => {
                        let (a, b) = (core.get(tok[2])?, core.get(tok[3])?);
                        let r = match tok[0] {
                            "T3AND" => a.and(b),
                            "T3OR" => a.or(b),
                            "T3XOR" => a.xor(b),
                            "T3EQUIV" => a.equiv(b),
                            "T3NAND" => a.nand(b),
                            "T3NOR" => a.nor(b),
                            "T3IMP" => a.imp(b),
                            _ => a.imp_strict(b),
                        };
                        let r = oom(r)?;
                        Ok(core.put(tok[1], r))
                    }
                    "T3ITE" => {
                        let r = oom(core.get(tok[2])?.ite(core.get(tok[3])?, core.get(tok[4])?))?;
                        Ok(core.put(tok[1], r))
                    }
                    "T3COF" => {
                        // C11 (table-level model): the three cofactors (true, unknown, false) of tok[4]
                        match core.get(tok[4])?.cofactors() {
                            Some((t, u, e)) => {
                                core.put(tok[1], t);
                                core.put(tok[2], u);
                                core.put(tok[3], e);
                                Ok("ok".into())
                            }
                            None => Ok("none".into()),
                        }
                    }
                    "T3EVAL" => {
                        let n = core.nvars();
                        if n > 6 {
                            return Ok("toolarge".into());
                        }
                        let f = core.get(tok[1])?;
                        let mut s = format!("vt3 {n}");
                        for a in 0..3u32.pow(n) {
                            let v = f.eval((0..n).map(|v| {
                                (v, match a / 3u32.pow(v) % 3 {
                                    0 => Some(true),
                                    1 => None,
                                    _ => Some(false),
                                })
                            }));
                            s.push(' ');
                            s.push(match v {
                                Some(false) => '0',
                                None => '1',
                                Some(true) => '2',
                            });
                        }
                        Ok(s)
                    }
                    "T3EVALA" => {
                        // T3EVALA h <assignment>: one letter per variable (t / u / f); any number of variables
                        let n = core.nvars() as usize;
                        let a = tok[2].as_bytes();
                        if a.len() != n {
                            return Err("skip".into());
                        }
                        let f = core.get(tok[1])?;
                        let v = f.eval((0..n).map(|v| {
                            (v as VarNo, match a[v] {
                                b't' => Some(true),
                                b'u' => None,
                                _ => Some(false),
                            })
                        }));
                        Ok(format!("ev3 {}", match v {
                            Some(false) => 'F',
                            None => 'U',
                            Some(true) => 'T',
                        }))
                    }
                    "T3FILL" => {
                        // TDDx (C05, C14): capacity probe for ternary nodes: every step creates exactly ONE
                        // node and leaves no garbage; all results are kept alive until the manager reports
                        // out-of-memory (then every slot must be in use).
                        // Phase A, per variable v: the 12 nodes with terminal children that one connective
                        // makes of x_v and the constant u:  x (T,U,F)  not x (F,U,T)  x and u (U,U,F)
                        // x or u (T,U,U)  x equiv u (U,T,U)  x xor u (U,F,U)  x imp u (U,T,T)  u imp x (T,T,U)
                        // x nand u (U,U,T)  x nor u (F,U,U)  x imp_strict u (F,F,U)  u imp_strict x (U,F,F).
                        // Phase B (`T3FILL <k>`, k >= 1; needs >= 4 variables in identity order): a base of k
                        // two-valued functions g of x1..x3 (closed under negation; building it leaves dead
                        // intermediate nodes behind), gl = g AND u, gh = g OR u, then single nodes at level 0:
                        //   x0 AND gl = (gl, gl, F)   NOT x0 AND gl = (F, gl, gl)   x0 OR gh = (T, gh, gh)
                        //   NOT x0 OR gh = (gh, gh, T)   x0 EQUIV g = (g, U, NOT g)
                        let lim = tok.get(1).and_then(|t| t.parse::<usize>().ok()).unwrap_or(14);
                        let nv = core.nvars();
                        let res: Result<(usize, usize, usize, bool), String> = core.mref.with_manager_shared(|m| {
                            let u = TDDFunction::u(m);
                            let before = m.num_inner_nodes();
                            let mut keep: Vec<TDDFunction> = Vec::new();
                            // one probe step (transient failures while a background collection holds freed slots: retry)
                            let step = |keep: &mut Vec<TDDFunction>, f: &dyn Fn() -> AllocResult<TDDFunction>| -> bool {
                                let mut tries = 0;
                                loop {
                                    match f() {
                                        Ok(r) => {
                                            keep.push(r);
                                            return true;
                                        }
                                        Err(_) if tries < 40 => {
                                            tries += 1;
                                            std::thread::sleep(Duration::from_millis(3));
                                        }
                                        Err(_) => return false,
                                    }
                                }
                            };
                            for v in 0..nv {
                                if !step(&mut keep, &|| TDDFunction::var(m, v)) {
                                    return Ok((before, keep.len(), m.num_inner_nodes(), true));
                                }
                                let x = keep.last().unwrap().clone();
                                for k in 0..11 {
                                    let ok = step(&mut keep, &|| match k {
                                        0 => x.not(),
                                        1 => x.and(&u),
                                        2 => x.or(&u),
                                        3 => x.equiv(&u),
                                        4 => x.xor(&u),
                                        5 => x.imp(&u),
                                        6 => u.imp(&x),
                                        7 => x.nand(&u),
                                        8 => x.nor(&u),
                                        9 => x.imp_strict(&u),
                                        _ => u.imp_strict(&x),
                                    });
                                    if !ok {
                                        return Ok((before, keep.len(), m.num_inner_nodes(), true));
                                    }
                                }
                            }
                            if lim == 0 || nv < 4 || (0..4).any(|v| m.var_to_level(v) != v) {
                                return Ok((before, keep.len(), m.num_inner_nodes(), false));
                            }
                            let x = |v: VarNo| oom(TDDFunction::var(m, v));
                            let (x0, x1, x2, x3) = (x(0)?, x(1)?, x(2)?, x(3)?);
                            let nx0 = oom(x0.not())?;
                            // two-valued functions: built from two-valued operands by connectives that keep F/T
                            let ind = |v: &TDDFunction| -> Result<TDDFunction, String> {
                                // I_T(v) = NOT (v IMP NOT v): true iff v is true, false otherwise
                                oom(oom(v.imp(&oom(v.not())?))?.not())
                            };
                            let b1 = ind(&x1)?;
                            let mut two: Vec<TDDFunction> = vec![b1.clone()];
                            if lim > 1 {
                                let (b2, b3) = (ind(&x2)?, ind(&x3)?);
                                two.push(b2.clone());
                                two.push(b3.clone());
                                for (a, b) in [(&b1, &b2), (&b2, &b3), (&b1, &b3)] {
                                    for k in 0..3 {
                                        if two.len() < lim {
                                            two.push(oom(match k {
                                                0 => a.and(b),
                                                1 => a.or(b),
                                                _ => a.xor(b),
                                            })?);
                                        }
                                    }
                                }
                                if two.len() < lim {
                                    two.push(oom(oom(b1.and(&b2))?.and(&b3))?);
                                }
                                if two.len() < lim {
                                    two.push(oom(oom(b1.xor(&b2))?.xor(&b3))?);
                                }
                                two.truncate(lim);
                            }
                            let negs: Vec<TDDFunction> = two.iter().map(|g| oom(g.not())).collect::<Result<_, _>>()?;
                            two.extend(negs);
                            let lo: Vec<TDDFunction> = two.iter().map(|g| oom(g.and(&u))).collect::<Result<_, _>>()?;
                            let hi: Vec<TDDFunction> = two.iter().map(|g| oom(g.or(&u))).collect::<Result<_, _>>()?;
                            for k in 0..5 {
                                for i in 0..two.len() {
                                    let ok = step(&mut keep, &|| match k {
                                        0 => x0.and(&lo[i]),
                                        1 => nx0.and(&lo[i]),
                                        2 => x0.or(&hi[i]),
                                        3 => nx0.or(&hi[i]),
                                        _ => x0.equiv(&two[i]),
                                    });
                                    if !ok {
                                        return Ok((before, keep.len(), m.num_inner_nodes(), true));
                                    }
                                }
                            }
                            Ok((before, keep.len(), m.num_inner_nodes(), false))
                        });
                        let (before, created, at_end, hit) = res?;
                        Ok(format!("before={before} created={created} inner_at_end={at_end} oom={}", hit as u8))
                    }
                    "DROPALL" => {
                        core.slots.clear();
                        Ok("ok".into())
                    }
                    "SNAP" => Ok(core.snapshot(&[], &|t: &TDDTerminal| show(t))),
                    other => Err(format!("unknown-op-{other}")),
                }
        }
        vtrace::set_rendezvous(case.param_u64("rdv", 0));
        let mut idx = 0;
        let mut par_no = 0u64;
        while idx < case.ops.len() {
            let line = &case.ops[idx];
            idx += 1;
            let tok: Vec<&str> = line.split_whitespace().collect();
            if tok[0] == "PAR" {
                let end = (idx..case.ops.len()).find(|&j| case.ops[j] == "ENDPAR").expect("ENDPAR");
                let k: usize = tok[1].parse().unwrap();
                par_no += 1;
                run_par_core(&mut core, k, &case.ops[idx..end], case.param_u64("seed", 1) ^ (par_no << 32),
                             case.param_u64("yield", 0), out, &|c, t| exec1(c, t));
                atrace::drain().into_iter().for_each(&mut *out);
                idx = end + 1;
                continue;
            }
            // gcall=1 (TDDx, C06): a collection (which clears the apply cache) before every operation
            if gcall && tok[0] != "SNAP" {
                core.mref.with_manager_exclusive(|m| m.gc());
            }
            let res = match exec1(&mut core, &tok) {
                Ok(r) => r,
                Err(e) => format!("err {e}"),
            };
            atrace::drain().into_iter().for_each(&mut *out);
            out(format!("{line} -> {res}"));
            if snap_each && tok[0] != "SNAP" {
                out(format!("SNAP -> {}", core.snapshot(&[], &|t: &TDDTerminal| show(t))));
            }
        }
    }
}

fn main() {
    match mode().as_str() {
        "run" => {
            let cases = read_cases_from_args();
            run_cases_watchdog(cases, Duration::from_millis(env_u64("VERIF_HANG_MS", 20000)), |case, out| {
                let cap = case.param_u64("cap", 1 << 16) as usize;
                let cache = case.param_u64("cache", 1 << 12) as usize;
                let threads = case.param_u64("threads", 1) as u32;
                vtrace::set_gc_yield(case.param_u64("gcyield", 0));
                vtrace::seq_set(false);
                ADDVARS_MODE.store(
                    match case.param("addvars") {
                        Some("named") => 1,
                        Some("map") => 2,
                        _ => 0,
                    },
                    std::sync::atomic::Ordering::Relaxed,
                );
                // package ALLOC: alloc=1 logs the slot allocator events of the whole case (hooks build only)
                if case.param("alloc") == Some("1") {
                    atrace::begin();
                }
                // package CORETIE: core=1 (with alloc=1) adds the table / count events to that log
                atrace::core_set(case.param("core") == Some("1"));
                match case.param("kind").unwrap_or("bdd") {
                    "bdd" => run_bool::<oxidd::bdd::BDDFunction>(case, oxidd::bdd::new_manager(cap, cache, threads), out),
                    "bcdd" => run_bool::<oxidd::bcdd::BCDDFunction>(case, oxidd::bcdd::new_manager(cap, cache, threads), out),
                    "zbdd" => run_bool::<oxidd::zbdd::ZBDDFunction>(case, oxidd::zbdd::new_manager(cap, cache, threads), out),
                    #[cfg(feature = "mtbdd")]
                    "mtbdd" => mt::run_i64(case, out),
                    #[cfg(feature = "mtbdd")]
                    "mtbddf" => mt::run_f64(case, out),
                    "tdd" => tv::run_tdd(case, out),
                    k => panic!("unknown kind {k}"),
                }
                atrace::end().into_iter().for_each(&mut *out);
            });
        }
        m => panic!("unknown mode {m}"),
    }
}
