//! C15: DDDMP export/import round trips and rejection of malformed input.
//!
//! `h_dddmp gen <tier> <seed>` prints a case file, `h_dddmp run [file]` executes
//! it against `oxidd_dump::dddmp` and prints the observations.
//!
//! Case header: `CASE <id> k=<valid|mal> dd=<bdd|bcdd|zbdd|mtbdd|tdd> nv=<n>`
//! Op lines (names are hex-encoded UTF-8, `-` = unnamed / absent, `e` = empty):
//!   `V <name> ...`            one token per variable: set the variable names
//!   `F <table>`               define a function from its value table (index =
//!                             assignment, bit v of the index = variable v);
//!                             Boolean kinds: hex nibbles (bit j of nibble k =
//!                             index 4k+j); mtbdd: comma separated values
//!   `O <v0> <v1> ...`         `oxidd_reorder::set_var_order` (not generated
//!                             when VERIF_C15_REORDER=0)
//!   `X ver=<2|3> mode=<a|b> strict=<0|1> dd=<name> rn=<0|1> roots=<i[:name],..> [chain=<c,..>]`
//!                             export, load, import (same manager, fresh
//!                             manager, embedding), dump; `.set` reports
//!                             `ExportSettings::binary_supported` and the getters of
//!                             the settings used and of the settings built by the
//!                             builder calls `chain` (a = ascii(), b = binary(), v2 / v3 =
//!                             version(..), s0 / s1 = strict(..), n<name> = diagram_name(..))
//!                             on `ExportSettings::default()`; tdd: tables are comma
//!                             separated values 0 / 1 / u, `.orig3` = tables over all
//!                             three-valued assignments (digit j of the index in base 3 =
//!                             variable j: 0 false, 1 unknown, 2 true)
//!   `M <t|r|i|d> <pos> [byte]`  mutation of the last exported file (truncate,
//!                             replace, insert, delete), load + import
//!   `M raw <hex>`             import of the given bytes
//!   `L <cap> raw <hex>`       import of the given bytes into a manager with
//!                             `cap` inner nodes (out-of-memory behaviour)
//! Output: `<op> -> <result>`; the `X` op is followed by auxiliary lines
//! starting with `.`.

use hcommon::*;
use oxidd::{BooleanFunction, Function, Manager, ManagerRef, PseudoBooleanFunction, TVLFunction};
use oxidd_core::{Edge, HasLevel, InnerNode, Node};
use oxidd_dump::dddmp::{self, DDDMPVersion, DumpHeader, ExportSettings};
use std::collections::HashMap;
use std::fmt;
use std::sync::Mutex;
use std::time::Duration;

// ---------------------------------------------------------------------------
// small helpers
// ---------------------------------------------------------------------------

fn hex(b: &[u8]) -> String {
    const D: &[u8; 16] = b"0123456789abcdef";
    let mut s = String::with_capacity(2 * b.len());
    for &x in b {
        s.push(D[(x >> 4) as usize] as char);
        s.push(D[(x & 15) as usize] as char);
    }
    s
}

fn unhex(s: &str) -> Vec<u8> {
    let b = s.as_bytes();
    (0..b.len() / 2)
        .map(|i| {
            let h = (b[2 * i] as char).to_digit(16).unwrap() as u8;
            let l = (b[2 * i + 1] as char).to_digit(16).unwrap() as u8;
            (h << 4) | l
        })
        .collect()
}

/// name token: `-` absent, `e` empty, otherwise hex
fn name_tok(s: Option<&str>) -> String {
    match s {
        None => "-".into(),
        Some("") => "e".into(),
        Some(x) => hex(x.as_bytes()),
    }
}

fn tok_name(t: &str) -> Option<String> {
    match t {
        "-" => None,
        "e" => Some(String::new()),
        x => Some(String::from_utf8(unhex(x)).expect("names in case files are UTF-8")),
    }
}

fn join<T: fmt::Display>(xs: impl IntoIterator<Item = T>) -> String {
    let v: Vec<String> = xs.into_iter().map(|x| x.to_string()).collect();
    if v.is_empty() {
        "-".into()
    } else {
        v.join(",")
    }
}

/// Boolean value table -> hex nibbles
fn bits_to_hex(bits: &[bool]) -> String {
    let mut s = String::new();
    for ch in bits.chunks(4) {
        let mut n = 0u32;
        for (j, &b) in ch.iter().enumerate() {
            if b {
                n |= 1 << j;
            }
        }
        s.push(std::char::from_digit(n, 16).unwrap());
    }
    s
}

fn hex_to_bits(s: &str, len: usize) -> Vec<bool> {
    let mut v = Vec::with_capacity(len);
    for c in s.chars() {
        let n = c.to_digit(16).unwrap();
        for j in 0..4 {
            if v.len() < len {
                v.push(n & (1 << j) != 0);
            }
        }
    }
    while v.len() < len {
        v.push(false);
    }
    v
}

fn fmt_table(boolean: bool, t: &[String]) -> String {
    if boolean {
        bits_to_hex(&t.iter().map(|s| s == "1").collect::<Vec<_>>())
    } else {
        t.join(",")
    }
}

fn parse_table(boolean: bool, s: &str, nv: u32) -> Vec<String> {
    if boolean {
        hex_to_bits(s, 1usize << nv).into_iter().map(|b| if b { "1".to_string() } else { "0".to_string() }).collect()
    } else {
        s.split(',').map(|x| x.to_string()).collect()
    }
}

static LAST_PANIC_LOC: Mutex<String> = Mutex::new(String::new());

fn panic_text(e: Box<dyn std::any::Any + Send>) -> String {
    let msg = if let Some(s) = e.downcast_ref::<&str>() {
        s.to_string()
    } else if let Some(s) = e.downcast_ref::<String>() {
        s.clone()
    } else {
        "?".into()
    };
    let loc = LAST_PANIC_LOC.lock().unwrap().clone();
    format!("{} @{}", msg.replace('\n', " "), loc)
}

struct AsciiD<'a, T>(&'a T);
impl<T: oxidd_dump::AsciiDisplay> fmt::Display for AsciiD<'_, T> {
    fn fmt(&self, f: &mut fmt::Formatter<'_>) -> fmt::Result {
        self.0.fmt(f)
    }
}

/// Dump of the sub-diagram reachable from `roots`: post-order ids starting at 1,
/// `id:T<desc>` for terminals, `id:L<level>:<child>:<child>[:<child>]` for inner
/// nodes (negative child = tagged edge), then the root references.
fn dump_dag<M: Manager>(manager: &M, roots: &[&M::Edge]) -> String
where
    M::InnerNode: HasLevel,
    M::Terminal: oxidd_dump::AsciiDisplay,
{
    fn visit<M: Manager>(
        manager: &M,
        e: &M::Edge,
        ids: &mut HashMap<(bool, usize), i64>,
        out: &mut Vec<String>,
    ) -> i64
    where
        M::InnerNode: HasLevel,
        M::Terminal: oxidd_dump::AsciiDisplay,
    {
        let tagged = e.tag() != Default::default();
        let sign = |id: i64| if tagged { -id } else { id };
        match manager.get_node(e) {
            Node::Terminal(t) => {
                let key = (true, e.node_id());
                if let Some(&id) = ids.get(&key) {
                    return sign(id);
                }
                let id = ids.len() as i64 + 1;
                ids.insert(key, id);
                use std::borrow::Borrow;
                let tt: &M::Terminal = t.borrow();
                out.push(format!("{id}:T{}", AsciiD(tt)));
                sign(id)
            }
            Node::Inner(n) => {
                let key = (false, e.node_id());
                if let Some(&id) = ids.get(&key) {
                    return sign(id);
                }
                let cs: Vec<i64> = n.children().map(|c| visit(manager, &*c, ids, out)).collect();
                let id = ids.len() as i64 + 1;
                ids.insert(key, id);
                let mut s = format!("{id}:L{}", n.level());
                for c in cs {
                    s.push_str(&format!(":{c}"));
                }
                out.push(s);
                sign(id)
            }
        }
    }
    let mut ids = HashMap::new();
    let mut out = Vec::new();
    let rs: Vec<i64> = roots.iter().map(|r| visit(manager, r, &mut ids, &mut out)).collect();
    format!("n={} nodes={} roots={}", out.len(), join(out.iter()), join(rs))
}

// ---------------------------------------------------------------------------
// kinds
// ---------------------------------------------------------------------------

#[derive(Clone, Debug)]
struct XOpts {
    ver3: bool,
    ascii: bool,
    strict: bool,
    ddname: Option<String>,
    named_roots: bool,
    roots: Vec<(usize, String)>,
    /// builder calls applied to `ExportSettings::default()` for the getter probe
    chain: Vec<String>,
}

#[derive(Clone, Debug, Default)]
struct HdrInfo {
    dd: Option<String>,
    nnodes: usize,
    nvars: u32,
    nsupp: u32,
    ids: Vec<u32>,
    order: Vec<u32>,
    permids: Vec<u32>,
    aux: Vec<u32>,
    names: Option<Vec<String>>,
    nroots: usize,
    rootnames: Option<Vec<String>>,
    off: u64,
}

impl HdrInfo {
    fn of(h: &DumpHeader, off: u64) -> Self {
        HdrInfo {
            dd: h.diagram_name().map(|s| s.to_string()),
            nnodes: h.num_nodes(),
            nvars: h.num_vars(),
            nsupp: h.num_support_vars(),
            ids: h.support_vars().to_vec(),
            order: h.support_var_order().to_vec(),
            permids: h.support_var_to_level().to_vec(),
            aux: h.auxiliary_var_ids().to_vec(),
            names: h.var_names().map(|v| v.to_vec()),
            nroots: h.num_roots(),
            rootnames: h.root_names().map(|v| v.to_vec()),
            off,
        }
    }
    fn show(&self) -> String {
        format!(
            "off={} dd={} nnodes={} nvars={} nsupp={} ids={} order={} permids={} aux={} names={} nroots={} rootnames={}",
            self.off,
            name_tok(self.dd.as_deref()),
            self.nnodes,
            self.nvars,
            self.nsupp,
            join(&self.ids),
            join(&self.order),
            join(&self.permids),
            join(&self.aux),
            match &self.names {
                None => "-".to_string(),
                Some(v) => join(v.iter().map(|s| name_tok(Some(s)))),
            },
            self.nroots,
            match &self.rootnames {
                None => "-".to_string(),
                Some(v) => join(v.iter().map(|s| name_tok(Some(s)))),
            },
        )
    }
}

/// How the support variables of the file are mapped to manager variables
#[derive(Clone, Debug)]
enum SvMode {
    /// `header.support_var_order()`
    Order,
    /// `header.support_var_order()`, sorted (manager in creation order)
    Sorted,
    /// position i -> map[order[i]]
    Map(Vec<u32>),
}

enum Imported<F> {
    HdrErr(String),
    Skipped(HdrInfo, String),
    Done(HdrInfo, Vec<u32>, Result<Vec<F>, String>),
}

/// largest number of manager variables the harness creates for a (mutated) file
const MAX_MGR_VARS: u32 = 4096;
/// header numbers above this bound are not handed to `DumpHeader::load`: the
/// loader allocates `.nvars` words by design
const MAX_NVARS_FIELD: u64 = 1 << 22;

/// value of the last `.nvars` line when it is a plain decimal number
fn prescan_nvars(data: &[u8]) -> Option<u64> {
    let mut res = None;
    for line in data.split(|&b| b == b'\n') {
        if line == b".nodes" || line.starts_with(b".nodes\r") {
            break;
        }
        if let Some(rest) = line.strip_prefix(b".nvars") {
            let s: Vec<u8> = rest.iter().copied().filter(|b| b.is_ascii_digit()).collect();
            if s.len() > 19 {
                res = Some(u64::MAX);
            } else if let Ok(v) = String::from_utf8(s).unwrap().parse::<u64>() {
                res = Some(v);
            }
        }
    }
    res
}

trait Kind {
    type F: Clone + Eq + 'static;
    type MR: Clone;
    const NAME: &'static str;
    const BOOLEAN: bool;
    const IMPORT: bool;
    fn new_mgr(cap: usize, nv: u32) -> Self::MR;
    fn num_vars(m: &Self::MR) -> u32;
    fn num_terminals(m: &Self::MR) -> usize;
    fn ensure_vars(m: &Self::MR, n: u32);
    fn set_name(m: &Self::MR, v: u32, name: &str) -> bool;
    fn v2l(m: &Self::MR) -> Vec<u32>;
    fn reorder(m: &Self::MR, order: &[u32]);
    fn build(m: &Self::MR, nv: u32, table: &[String]) -> Option<Self::F>;
    fn eval(f: &Self::F, args: &[(u32, bool)]) -> String;
    /// file bytes, result, `.set` probe text
    fn export(m: &Self::MR, o: &XOpts, funcs: &[Self::F]) -> (Vec<u8>, Result<(), String>, String);
    fn import(m: &Self::MR, data: &[u8], sv: &SvMode, grow: bool) -> Imported<Self::F>;
    fn dump(m: &Self::MR, roots: &[&Self::F]) -> String;
}

fn io_err(e: &std::io::Error) -> String {
    let msg: String = e.to_string().chars().map(|c| if c.is_ascii_graphic() || c == ' ' { c } else { '?' }).collect();
    format!("{:?}:{}", e.kind(), msg)
}


macro_rules! bool_fns {
    ($build:ident, $eval:ident, $F:ty) => {
        fn $build(m: &<$F as Function>::ManagerRef, nv: u32, table: &[String]) -> Option<$F> {
            fn rec<'id>(manager: &<$F as Function>::Manager<'id>, table: &[String], var: u32) -> Option<$F> {
                if table.iter().all(|x| x == &table[0]) {
                    return Some(if table[0] == "1" { <$F>::t(manager) } else { <$F>::f(manager) });
                }
                let half = table.len() / 2;
                let lo = rec(manager, &table[..half], var - 1)?;
                let hi = rec(manager, &table[half..], var - 1)?;
                let x = <$F>::var(manager, var - 1).ok()?;
                x.ite(&hi, &lo).ok()
            }
            assert_eq!(table.len(), 1usize << nv);
            m.with_manager_shared(|manager| rec(manager, table, nv))
        }
        fn $eval(f: &$F, args: &[(u32, bool)]) -> String {
            if BooleanFunction::eval(f, args.iter().copied()) { "1".into() } else { "0".into() }
        }
    };
}
bool_fns!(build_bdd, eval_bdd, oxidd::bdd::BDDFunction);
bool_fns!(build_bcdd, eval_bcdd, oxidd::bcdd::BCDDFunction);
bool_fns!(build_zbdd, eval_zbdd, oxidd::zbdd::ZBDDFunction);

type MtF = oxidd::mtbdd::MTBDDFunction<oxidd::mtbdd::terminal::I64>;
type MtMR = oxidd::mtbdd::MTBDDManagerRef<oxidd::mtbdd::terminal::I64>;
use oxidd::mtbdd::terminal::I64;

fn i64_of_str(s: &str) -> I64 {
    match s {
        "NaN" => I64::NaN,
        "+Inf" => I64::PlusInf,
        "-Inf" => I64::MinusInf,
        x => I64::Num(x.parse().expect("mtbdd value")),
    }
}
fn str_of_i64(v: I64) -> String {
    match v {
        I64::NaN => "NaN".into(),
        I64::PlusInf => "+Inf".into(),
        I64::MinusInf => "-Inf".into(),
        I64::Num(n) => n.to_string(),
    }
}

fn build_mtbdd(m: &MtMR, nv: u32, table: &[String]) -> Option<MtF> {
    fn rec<'id>(manager: &<MtF as Function>::Manager<'id>, table: &[String], var: u32) -> Option<MtF> {
        if table.iter().all(|x| x == &table[0]) {
            return MtF::constant(manager, i64_of_str(&table[0])).ok();
        }
        let half = table.len() / 2;
        let lo = rec(manager, &table[..half], var - 1)?;
        let hi = rec(manager, &table[half..], var - 1)?;
        let x = <MtF as PseudoBooleanFunction>::var(manager, var - 1).ok()?;
        PseudoBooleanFunction::ite(&x, &hi, &lo).ok()
    }
    assert_eq!(table.len(), 1usize << nv);
    m.with_manager_shared(|manager| rec(manager, table, nv))
}
fn eval_mtbdd(f: &MtF, args: &[(u32, bool)]) -> String {
    str_of_i64(PseudoBooleanFunction::eval(f, args.iter().copied()))
}

type TdF = oxidd::tdd::TDDFunction;
fn build_tdd(m: &<TdF as Function>::ManagerRef, nv: u32, table: &[String]) -> Option<TdF> {
    fn rec<'id>(manager: &<TdF as Function>::Manager<'id>, table: &[String], var: u32) -> Option<TdF> {
        if table.iter().all(|x| x == &table[0]) {
            return Some(match table[0].as_str() {
                "1" => TdF::t(manager),
                "u" => TdF::u(manager),
                _ => TdF::f(manager),
            });
        }
        let half = table.len() / 2;
        let lo = rec(manager, &table[..half], var - 1)?;
        let hi = rec(manager, &table[half..], var - 1)?;
        let x = <TdF as TVLFunction>::var(manager, var - 1).ok()?;
        TVLFunction::ite(&x, &hi, &lo).ok()
    }
    assert_eq!(table.len(), 1usize << nv);
    m.with_manager_shared(|manager| rec(manager, table, nv))
}
/// table of a TDD over all three-valued assignments of the variables 0..nv (digit j of the
/// index in base 3 = variable j: 0 false, 1 unknown, 2 true); one character per entry
fn tdd_table3(f: &TdF, nv: u32) -> String {
    let n = 3usize.pow(nv);
    let mut s = String::with_capacity(n);
    for a in 0..n {
        let mut x = a;
        let args: Vec<(u32, Option<bool>)> = (0..nv)
            .map(|v| {
                let d = x % 3;
                x /= 3;
                (v, match d { 0 => Some(false), 1 => None, _ => Some(true) })
            })
            .collect();
        s.push(match TVLFunction::eval(f, args) {
            Some(true) => '1',
            Some(false) => '0',
            None => 'u',
        });
    }
    s
}
fn eval_tdd(f: &TdF, args: &[(u32, bool)]) -> String {
    match TVLFunction::eval(f, args.iter().map(|&(v, b)| (v, Some(b)))) {
        Some(true) => "1".into(),
        Some(false) => "0".into(),
        None => "u".into(),
    }
}

macro_rules! import_body {
    (yes, $F:ty, $complement:expr, $m:ident, $data:ident, $sv:ident, $grow:ident) => {{
        let mut cur = std::io::Cursor::new($data);
        let header = match DumpHeader::load(&mut cur) {
            Ok(h) => h,
            Err(e) => return Imported::HdrErr(io_err(&e)),
        };
        let info = HdrInfo::of(&header, cur.position());
        let mut svs: Vec<u32> = match $sv {
            SvMode::Order => info.order.clone(),
            SvMode::Sorted => {
                let mut v = info.order.clone();
                v.sort_unstable();
                v
            }
            SvMode::Map(map) => info.order.iter().map(|&v| map[v as usize]).collect(),
        };
        if $grow {
            if info.nvars > MAX_MGR_VARS {
                return Imported::Skipped(info, "nvars".into());
            }
            Self::ensure_vars($m, info.nvars);
        }
        let have = Self::num_vars($m);
        if svs.iter().any(|&v| v >= have) {
            return Imported::Skipped(info, "sv-range".into());
        }
        {
            // precondition of import(): sorted by current level
            let l = Self::v2l($m);
            if !svs.windows(2).all(|w| l[w[0] as usize] < l[w[1] as usize]) {
                svs.sort_by_key(|&v| l[v as usize]);
                svs.dedup();
                if svs.len() != info.order.len() {
                    return Imported::Skipped(info, "sv-dup".into());
                }
            }
        }
        let res = $m.with_manager_shared(|manager| {
            dddmp::import::<$F>(&mut cur, &header, manager, svs.iter().copied(), $complement)
        });
        Imported::Done(info, svs, res.map_err(|e| io_err(&e)))
    }};
    (no, $F:ty, $complement:expr, $m:ident, $data:ident, $sv:ident, $grow:ident) => {{
        // import::<TDDFunction> does not compile (binary importer asserts ARITY == 2 at
        // compile time): header only
        let _ = ($m, $sv, $grow);
        let mut cur = std::io::Cursor::new($data);
        match DumpHeader::load(&mut cur) {
            Ok(h) => Imported::Skipped(HdrInfo::of(&h, cur.position()), "no-importer".into()),
            Err(e) => Imported::HdrErr(io_err(&e)),
        }
    }};
}

macro_rules! impl_kind {
    ($K:ident, $name:expr, $boolean:expr, $imp:ident, $F:ty, $MR:ty, $newmgr:expr, $build:ident, $eval:ident, $complement:expr) => {
        struct $K;
        impl Kind for $K {
            type F = $F;
            type MR = $MR;
            const NAME: &'static str = $name;
            const BOOLEAN: bool = $boolean;
            const IMPORT: bool = stringify!($imp).len() == 3;
            fn new_mgr(cap: usize, nv: u32) -> Self::MR {
                let m: $MR = ($newmgr)(cap);
                Self::ensure_vars(&m, nv);
                m
            }
            fn num_vars(m: &Self::MR) -> u32 {
                m.with_manager_shared(|m| m.num_vars())
            }
            fn num_terminals(m: &Self::MR) -> usize {
                m.with_manager_shared(|m| m.num_terminals())
            }
            fn ensure_vars(m: &Self::MR, n: u32) {
                m.with_manager_exclusive(|m| {
                    let have = m.num_vars();
                    if have < n {
                        m.add_vars(n - have);
                    }
                })
            }
            fn set_name(m: &Self::MR, v: u32, name: &str) -> bool {
                m.with_manager_exclusive(|m| m.set_var_name(v, name).is_ok())
            }
            fn v2l(m: &Self::MR) -> Vec<u32> {
                m.with_manager_shared(|m| (0..m.num_vars()).map(|v| m.var_to_level(v)).collect())
            }
            fn reorder(m: &Self::MR, order: &[u32]) {
                m.with_manager_exclusive(|m| oxidd_reorder::set_var_order(m, order))
            }
            fn build(m: &Self::MR, nv: u32, table: &[String]) -> Option<Self::F> {
                $build(m, nv, table)
            }
            fn eval(f: &Self::F, args: &[(u32, bool)]) -> String {
                $eval(f, args)
            }
            fn export(m: &Self::MR, o: &XOpts, funcs: &[Self::F]) -> (Vec<u8>, Result<(), String>, String) {
                let mut buf: Vec<u8> = Vec::new();
                let dd = o.ddname.clone().unwrap_or_default();
                let mut st = ExportSettings::default()
                    .version(if o.ver3 { DDDMPVersion::V3_0 } else { DDDMPVersion::V2_0 })
                    .strict(o.strict)
                    .diagram_name(&dd);
                st = if o.ascii { st.ascii() } else { st.binary() };
                // getters of the settings in use and of the chain of builder calls
                fn getters(st: &ExportSettings) -> String {
                    format!(
                        "ver={} ascii={} strict={} ddn={}",
                        match st.get_version() {
                            DDDMPVersion::V3_0 => 3,
                            DDDMPVersion::V2_0 => 2,
                            _ => 0,
                        },
                        st.is_ascii() as u8,
                        st.is_strict() as u8,
                        name_tok(Some(st.get_diagram_name()))
                    )
                }
                let chain_names: Vec<String> =
                    o.chain.iter().map(|c| if let Some(n) = c.strip_prefix('n') { tok_name(n).unwrap_or_default() } else { String::new() }).collect();
                let mut cs = ExportSettings::default();
                for (c, n) in o.chain.iter().zip(&chain_names) {
                    cs = match c.as_str() {
                        "a" => cs.ascii(),
                        "b" => cs.binary(),
                        "v2" => cs.version(DDDMPVersion::V2_0),
                        "v3" => cs.version(DDDMPVersion::V3_0),
                        "s0" => cs.strict(false),
                        "s1" => cs.strict(true),
                        _ => cs.diagram_name(n),
                    };
                }
                let bs = m.with_manager_shared(|manager| ExportSettings::binary_supported(manager));
                let probe = format!("bs={} {} | {}", bs as u8, getters(&st), getters(&cs));
                let res = m.with_manager_shared(|manager| {
                    if o.named_roots {
                        st.export_with_names(&mut buf, manager, o.roots.iter().map(|(i, n)| (&funcs[*i], n.as_str())))
                    } else {
                        st.export(&mut buf, manager, o.roots.iter().map(|(i, _)| &funcs[*i]))
                    }
                });
                (buf, res.map_err(|e| io_err(&e)), probe)
            }
            fn import(m: &Self::MR, data: &[u8], sv: &SvMode, grow: bool) -> Imported<Self::F> {
                import_body!($imp, $F, $complement, m, data, sv, grow)
            }
            fn dump(m: &Self::MR, roots: &[&Self::F]) -> String {
                m.with_manager_shared(|manager| {
                    let es: Vec<_> = roots.iter().map(|f| f.as_edge(manager)).collect();
                    dump_dag(manager, &es)
                })
            }
        }
    };
}

/// complement function for kinds without complement edges in the format: reject
macro_rules! reject_complement {
    () => {
        |manager, e| {
            manager.drop_edge(e);
            Err(oxidd_core::error::OutOfMemory)
        }
    };
}

impl_kind!(KBdd, "bdd", true, yes, oxidd::bdd::BDDFunction, oxidd::bdd::BDDManagerRef,
    |cap| oxidd::bdd::new_manager(cap, 1 << 10, 1), build_bdd, eval_bdd,
    <oxidd::bdd::BDDFunction as BooleanFunction>::not_edge_owned);
impl_kind!(KBcdd, "bcdd", true, yes, oxidd::bcdd::BCDDFunction, oxidd::bcdd::BCDDManagerRef,
    |cap| oxidd::bcdd::new_manager(cap, 1 << 10, 1), build_bcdd, eval_bcdd,
    <oxidd::bcdd::BCDDFunction as BooleanFunction>::not_edge_owned);
impl_kind!(KZbdd, "zbdd", true, yes, oxidd::zbdd::ZBDDFunction, oxidd::zbdd::ZBDDManagerRef,
    |cap| oxidd::zbdd::new_manager(cap, 1 << 10, 1), build_zbdd, eval_zbdd, reject_complement!());
impl_kind!(KMtbdd, "mtbdd", false, yes, MtF, MtMR,
    |cap| oxidd::mtbdd::new_manager(cap, 1 << 12, 1 << 10, 1), build_mtbdd, eval_mtbdd, reject_complement!());
impl_kind!(KTdd, "tdd", false, no, TdF, oxidd::tdd::TDDManagerRef,
    |cap| oxidd::tdd::new_manager(cap, 1 << 10, 1), build_tdd, eval_tdd, reject_complement!());


// ---------------------------------------------------------------------------
// running a case
// ---------------------------------------------------------------------------

fn all_assignments(vars: &[u32]) -> impl Iterator<Item = Vec<(u32, bool)>> + '_ {
    (0..(1usize << vars.len())).map(move |a| vars.iter().enumerate().map(|(j, &v)| (v, (a >> j) & 1 != 0)).collect())
}

/// table of `f` over the variables `vars` (bit j of the index = vars[j]), all other
/// variables of the manager (`nv_mgr` many) false
fn table_of<K: Kind>(f: &K::F, vars: &[u32], nv_mgr: u32) -> String {
    if vars.len() > 14 {
        return "skip".into();
    }
    let mut t = Vec::with_capacity(1 << vars.len());
    for a in all_assignments(vars) {
        let mut full: Vec<(u32, bool)> = (0..nv_mgr).map(|v| (v, false)).collect();
        for (v, b) in a {
            full[v as usize].1 = b;
        }
        t.push(K::eval(f, &full));
    }
    fmt_table(K::BOOLEAN, &t)
}

fn parse_xopts(tok: &[&str]) -> XOpts {
    let mut o = XOpts { ver3: false, ascii: false, strict: false, ddname: None, named_roots: false, roots: Vec::new(), chain: Vec::new() };
    for t in &tok[1..] {
        let (k, v) = t.split_once('=').expect("key=value");
        match k {
            "ver" => o.ver3 = v == "3",
            "mode" => o.ascii = v == "a",
            "strict" => o.strict = v == "1",
            "dd" => o.ddname = tok_name(v),
            "rn" => o.named_roots = v == "1",
            "roots" => {
                if v != "-" {
                    for r in v.split(',') {
                        let (i, n) = match r.split_once(':') {
                            Some((i, n)) => (i, tok_name(n).unwrap_or_default()),
                            None => (r, String::new()),
                        };
                        o.roots.push((i.parse().unwrap(), n));
                    }
                }
            }
            "chain" => {
                if v != "-" {
                    o.chain = v.split(',').map(|c| c.to_string()).collect();
                }
            }
            _ => panic!("unknown export option {k}"),
        }
    }
    o
}

fn apply_mutation(base: &[u8], tok: &[&str]) -> Vec<u8> {
    let byte = |i: usize| u8::from_str_radix(tok[i], 16).unwrap();
    let pos = |i: usize| tok[i].parse::<usize>().unwrap().min(base.len());
    match tok[1] {
        "raw" => unhex(tok.get(2).copied().unwrap_or("")),
        "t" => base[..pos(2)].to_vec(),
        "r" => {
            let mut v = base.to_vec();
            let p = pos(2);
            if p < v.len() {
                v[p] = byte(3);
            }
            v
        }
        "i" => {
            let mut v = base.to_vec();
            v.insert(pos(2), byte(3));
            v
        }
        "d" => {
            let mut v = base.to_vec();
            let p = pos(2);
            if p < v.len() {
                v.remove(p);
            }
            v
        }
        m => panic!("unknown mutation {m}"),
    }
}

fn guarded<T>(f: impl FnOnce() -> T) -> Result<T, String> {
    std::panic::catch_unwind(std::panic::AssertUnwindSafe(f)).map_err(panic_text)
}

fn import_line<K: Kind>(m: &K::MR, data: &[u8]) -> String {
    if let Some(n) = prescan_nvars(data) {
        if n > MAX_NVARS_FIELD {
            return "skip=nvars-field".into();
        }
    }
    match guarded(|| K::import(m, data, &SvMode::Order, true)) {
        Err(p) => format!("PANIC {p}"),
        Ok(Imported::HdrErr(e)) => format!("hdr=err:{e}"),
        Ok(Imported::Skipped(h, why)) => format!("hdr=ok {} skip={why}", h.show()),
        Ok(Imported::Done(h, svs, Err(e))) => format!("hdr=ok {} sv={} mv={} imp=err:{e}", h.show(), join(&svs), K::num_vars(m)),
        Ok(Imported::Done(h, svs, Ok(fs))) => {
            let nvm = K::num_vars(m);
            let r = guarded(|| {
                let tts: Vec<String> = fs.iter().map(|f| table_of::<K>(f, &svs, nvm)).collect();
                let d = K::dump(m, &fs.iter().collect::<Vec<_>>());
                (tts, d)
            });
            match r {
                Ok((tts, d)) => format!(
                    "hdr=ok {} sv={} imp=ok mv={} tt={} dump:{}",
                    h.show(),
                    join(&svs),
                    nvm,
                    if tts.is_empty() { "-".to_string() } else { tts.join("|") },
                    d
                ),
                Err(p) => format!("PANIC(after import) {p}"),
            }
        }
    }
}

fn run_case<K: Kind>(case: &Case, out: &mut dyn FnMut(String)) {
    let nv = case.param_u64("nv", 3) as u32;
    let cap = case.param_u64("cap", 1 << 14) as usize;
    let m = K::new_mgr(cap, nv);
    let mut funcs: Vec<K::F> = Vec::new();
    let mut base: Vec<u8> = Vec::new();
    let mut malm: Option<K::MR> = None;
    let vars: Vec<u32> = (0..nv).collect();
    for line in &case.ops {
        let tok: Vec<&str> = line.split_whitespace().collect();
        let res: String = match tok[0] {
            "V" => {
                let mut r = String::from("ok");
                for (i, t) in tok[1..].iter().enumerate() {
                    if let Some(n) = tok_name(t) {
                        if !K::set_name(&m, i as u32, &n) {
                            r = format!("dup {i}");
                        }
                    }
                }
                r
            }
            "F" => {
                let table = parse_table(K::BOOLEAN, tok[1], nv);
                match K::build(&m, nv, &table) {
                    Some(f) => {
                        let t = table_of::<K>(&f, &vars, nv);
                        funcs.push(f);
                        format!("ok tt={t}")
                    }
                    None => "oom".into(),
                }
            }
            "O" => {
                let order: Vec<u32> = tok[1..].iter().map(|x| x.parse().unwrap()).collect();
                K::reorder(&m, &order);
                format!("ok v2l={}", join(K::v2l(&m)))
            }
            "X" => {
                let o = parse_xopts(&tok);
                match guarded(|| K::export(&m, &o, &funcs)) {
                    Err(p) => format!("PANIC {p}"),
                    Ok((buf, res, probe)) => {
                        base = buf;
                        let mut aux: Vec<String> = Vec::new();
                        aux.push(format!(".file {}", hex(&base)));
                        aux.push(format!(".set {probe}"));
                        aux.push(format!(".src v2l={} nvars={} nterm={}", join(K::v2l(&m)), K::num_vars(&m), K::num_terminals(&m)));
                        let roots: Vec<&K::F> = o.roots.iter().map(|(i, _)| &funcs[*i]).collect();
                        aux.push(format!(".dump {}", K::dump(&m, &roots)));
                        aux.push(format!(
                            ".orig tt={}",
                            if roots.is_empty() { "-".to_string() } else { roots.iter().map(|f| table_of::<K>(f, &vars, nv)).collect::<Vec<_>>().join("|") }
                        ));
                        if K::NAME == "tdd" && nv <= 6 {
                            let t3: Vec<String> = roots
                                .iter()
                                .map(|f| match (*f as &dyn std::any::Any).downcast_ref::<TdF>() {
                                    Some(t) => tdd_table3(t, nv),
                                    None => "?".to_string(),
                                })
                                .collect();
                            aux.push(format!(".orig3 tt={}", if t3.is_empty() { "-".to_string() } else { t3.join("|") }));
                        }
                        // same manager
                        match guarded(|| K::import(&m, &base, &SvMode::Order, false)) {
                            Err(p) => aux.push(format!(".same PANIC {p}")),
                            Ok(Imported::HdrErr(e)) => aux.push(format!(".hdr err:{e}")),
                            Ok(Imported::Skipped(h, why)) => {
                                aux.push(format!(".hdr ok {}", h.show()));
                                aux.push(format!(".same skip={why}"));
                            }
                            Ok(Imported::Done(h, svs, r)) => {
                                aux.push(format!(".hdr ok {}", h.show()));
                                match r {
                                    Err(e) => aux.push(format!(".same sv={} err:{e}", join(&svs))),
                                    Ok(fs) => aux.push(format!(
                                        ".same sv={} ok n={} eq={}",
                                        join(&svs),
                                        fs.len(),
                                        join(fs.iter().zip(roots.iter()).map(|(a, b)| if a == *b { 1 } else { 0 }))
                                    )),
                                }
                            }
                        }
                        if K::IMPORT {
                            // fresh manager, same number of variables, creation order
                            let fm = K::new_mgr(cap, nv);
                            // "compatible order": the fresh manager gets the order of the source
                            let v2l = K::v2l(&m);
                            let identity = v2l.iter().enumerate().all(|(v, &l)| v as u32 == l);
                            if !identity {
                                let mut l2v = vec![0u32; v2l.len()];
                                for (v, &l) in v2l.iter().enumerate() {
                                    l2v[l as usize] = v as u32;
                                }
                                K::reorder(&fm, &l2v);
                            }
                            match guarded(|| K::import(&fm, &base, &SvMode::Order, false)) {
                                Err(p) => aux.push(format!(".fresh PANIC {p}")),
                                Ok(Imported::Done(_, svs, Ok(fs))) => aux.push(format!(
                                    ".fresh sv={} ok tt={}",
                                    join(&svs),
                                    if fs.is_empty() { "-".to_string() } else { fs.iter().map(|f| table_of::<K>(f, &vars, nv)).collect::<Vec<_>>().join("|") }
                                )),
                                Ok(Imported::Done(_, svs, Err(e))) => aux.push(format!(".fresh sv={} err:{e}", join(&svs))),
                                Ok(Imported::HdrErr(e)) => aux.push(format!(".fresh hdrerr:{e}")),
                                Ok(Imported::Skipped(_, why)) => aux.push(format!(".fresh skip={why}")),
                            }
                            // embedding into a larger manager: variable v -> 2v+1
                            if nv <= 5 && K::NAME != "zbdd" && identity {
                                let nv2 = 2 * nv + 1;
                                let em = K::new_mgr(cap, nv2);
                                let map: Vec<u32> = (0..nv).map(|v| 2 * v + 1).collect();
                                let all2: Vec<u32> = (0..nv2).collect();
                                match guarded(|| K::import(&em, &base, &SvMode::Map(map.clone()), false)) {
                                    Err(p) => aux.push(format!(".embed PANIC {p}")),
                                    Ok(Imported::Done(_, svs, Ok(fs))) => aux.push(format!(
                                        ".embed map={} sv={} ok tt={}",
                                        join(&map),
                                        join(&svs),
                                        if fs.is_empty() { "-".to_string() } else { fs.iter().map(|f| table_of::<K>(f, &all2, nv2)).collect::<Vec<_>>().join("|") }
                                    )),
                                    Ok(Imported::Done(_, svs, Err(e))) => aux.push(format!(".embed sv={} err:{e}", join(&svs))),
                                    Ok(Imported::HdrErr(e)) => aux.push(format!(".embed hdrerr:{e}")),
                                    Ok(Imported::Skipped(_, why)) => aux.push(format!(".embed skip={why}")),
                                }
                            }
                        }
                        let r = match res {
                            Ok(()) => format!("export=ok len={}", base.len()),
                            Err(e) => format!("export=err:{e} len={}", base.len()),
                        };
                        out(format!("{line} -> {r}"));
                        for a in aux {
                            out(a);
                        }
                        continue;
                    }
                }
            }
            "M" => {
                let data = apply_mutation(&base, &tok);
                if malm.is_none() {
                    malm = Some(K::new_mgr(1 << 16, nv));
                }
                import_line::<K>(malm.as_ref().unwrap(), &data)
            }
            "L" => {
                // import into a manager with a small node capacity
                let c: usize = tok[1].parse().unwrap();
                let data = apply_mutation(&base, &tok[1..]);
                let lm = K::new_mgr(c, nv);
                import_line::<K>(&lm, &data)
            }
            other => panic!("unknown op {other}"),
        };
        out(format!("{line} -> {res}"));
    }
}


// ---------------------------------------------------------------------------
// generator
// ---------------------------------------------------------------------------

struct Gen {
    rng: Rng,
    id: u64,
    reorder: bool,
}

const NAME_POOL: &[&str] = &[
    "x", "y", "z", "x0", "x1", "x2", "v_1", "a b", "a_b", "a\tb", "a\nb", " a", "a ", "a  b", "\t", " ", "\n", "_", "__",
    "_x0", "_x1", "__x2", "___x3", "_x0_a_b", "_f0", "ü", "⊤", "日本", "a\u{7f}b", "\u{1}", "q\r", "name", ".ids", "0", "-1",
    "_a", "__a", "a\u{a0}b", "T", "F",
];
const DD_NAMES: &[&str] = &["dd", "my diagram", "a\nb", " lead", "trail ", "\t", " ", "x\ty\n", "ü⊤", ".nodes", "d"];
const TDD_VALUES: &[&str] = &["0", "1", "u"];
const MT_VALUES: &[&str] = &["0", "1", "2", "-1", "-3", "5", "7", "100", "-9223372036854775808", "9223372036854775807", "+Inf", "-Inf", "NaN"];

impl Gen {
    fn emit(&mut self, k: &str, dd: &str, nv: u32, extra: &str, ops: &[String]) {
        println!("CASE {} k={k} dd={dd} nv={nv}{extra}", self.id);
        for o in ops {
            println!("{o}");
        }
        println!("END");
        self.id += 1;
    }

    /// distinct variable names (or unnamed), one token per variable
    fn var_names(&mut self, nv: u32, style: u64) -> Option<String> {
        // 0: none, 1: clean all, 2: clean partial, 3: nasty all, 4: nasty partial
        if style == 0 {
            return None;
        }
        let mut used: Vec<String> = Vec::new();
        let mut toks = Vec::new();
        for i in 0..nv {
            let unnamed = (style == 2 || style == 4) && self.rng.chance(1, 3);
            if unnamed {
                toks.push("-".to_string());
                continue;
            }
            let mut name = if style <= 2 { format!("v{i}") } else { self.rng.pick(NAME_POOL).to_string() };
            let mut tries = 0;
            while used.contains(&name) {
                tries += 1;
                name = if tries > 8 { format!("{name}{i}") } else { self.rng.pick(NAME_POOL).to_string() };
            }
            used.push(name.clone());
            toks.push(name_tok(Some(&name)));
        }
        if toks.iter().all(|t| t == "-") {
            return None;
        }
        Some(format!("V {}", toks.join(" ")))
    }

    fn bool_table(&mut self, nv: u32, support: &[u32], sparse: bool) -> String {
        // random function of the support variables, lifted to nv variables
        let k = support.len();
        let sub: Vec<bool> = (0..(1usize << k))
            .map(|_| if sparse { self.rng.chance(1, 6) } else { self.rng.chance(1, 2) })
            .collect();
        let bits: Vec<bool> = (0..(1usize << nv))
            .map(|a| {
                let mut idx = 0;
                for (j, &v) in support.iter().enumerate() {
                    if (a >> v) & 1 != 0 {
                        idx |= 1 << j;
                    }
                }
                sub[idx]
            })
            .collect();
        bits_to_hex(&bits)
    }

    fn mt_table(&mut self, nv: u32, support: &[u32]) -> String {
        let k = support.len();
        let nvals = self.rng.range(1, 5) as usize;
        let vals: Vec<&str> = (0..nvals).map(|_| *self.rng.pick(MT_VALUES)).collect();
        let sub: Vec<&str> = (0..(1usize << k)).map(|_| *self.rng.pick(&vals)).collect();
        let t: Vec<&str> = (0..(1usize << nv))
            .map(|a| {
                let mut idx = 0;
                for (j, &v) in support.iter().enumerate() {
                    if (a >> v) & 1 != 0 {
                        idx |= 1 << j;
                    }
                }
                sub[idx]
            })
            .collect();
        t.join(",")
    }

    /// three-valued table (values 0 / 1 / u) of a function of the support variables
    fn tdd_table(&mut self, nv: u32, support: &[u32]) -> String {
        let k = support.len();
        // Boolean-valued, mostly Boolean, or uniformly three-valued
        let style = self.rng.below(3);
        let sub: Vec<&str> = (0..(1usize << k))
            .map(|_| match style {
                0 => *self.rng.pick(&TDD_VALUES[..2]),
                1 => if self.rng.chance(1, 6) { "u" } else { *self.rng.pick(&TDD_VALUES[..2]) },
                _ => *self.rng.pick(TDD_VALUES),
            })
            .collect();
        let t: Vec<&str> = (0..(1usize << nv))
            .map(|a| {
                let mut idx = 0;
                for (j, &v) in support.iter().enumerate() {
                    if (a >> v) & 1 != 0 {
                        idx |= 1 << j;
                    }
                }
                sub[idx]
            })
            .collect();
        t.join(",")
    }

    /// random builder calls for the getter probe
    fn chain(&mut self) -> String {
        let n = self.rng.below(6);
        if n == 0 {
            return "-".to_string();
        }
        (0..n)
            .map(|_| match self.rng.below(7) {
                0 => "a".to_string(),
                1 => "b".to_string(),
                2 => "v2".to_string(),
                3 => "v3".to_string(),
                4 => "s0".to_string(),
                5 => "s1".to_string(),
                _ => format!("n{}", name_tok(Some(*self.rng.pick(DD_NAMES)))),
            })
            .collect::<Vec<_>>()
            .join(",")
    }

    fn x_op(&mut self, nfuncs: usize, ver3: bool, ascii: bool, rn: bool, strict: bool, nasty: bool) -> String {
        // root names that need sanitising also with clean variable names; now and then more than ten
        // roots (generated names `_f10`, ..)
        let nasty_roots = nasty || self.rng.chance(1, 3);
        let nroots = if self.rng.chance(1, 12) {
            0
        } else if rn && nasty_roots && self.rng.chance(1, 8) {
            self.rng.range(10, 14) as usize
        } else {
            self.rng.range(1, (nfuncs as u64).min(6)) as usize
        };
        let mut roots = Vec::new();
        for _ in 0..nroots {
            let i = self.rng.below(nfuncs as u64);
            if rn {
                let name: String = if nasty_roots {
                    if self.rng.chance(1, 5) { String::new() } else { self.rng.pick(NAME_POOL).to_string() }
                } else {
                    format!("f{i}")
                };
                roots.push(format!("{i}:{}", name_tok(Some(&name))));
            } else {
                roots.push(format!("{i}"));
            }
        }
        let dd = if self.rng.chance(1, 3) {
            "-".to_string()
        } else if nasty {
            name_tok(Some(*self.rng.pick(DD_NAMES)))
        } else {
            name_tok(Some("dd"))
        };
        let chain = self.chain();
        format!(
            "X ver={} mode={} strict={} dd={} rn={} roots={} chain={}",
            if ver3 { 3 } else { 2 },
            if ascii { "a" } else { "b" },
            strict as u8,
            dd,
            rn as u8,
            if roots.is_empty() { "-".to_string() } else { roots.join(",") },
            chain
        )
    }

    fn all_x_ops(&mut self, nfuncs: usize, nasty: bool) -> Vec<String> {
        let mut ops = Vec::new();
        for ascii in [false, true] {
            for ver3 in [false, true] {
                for rn in [false, true] {
                    let strict = self.rng.chance(1, 2);
                    ops.push(self.x_op(nfuncs, ver3, ascii, rn, strict, nasty));
                }
            }
        }
        ops
    }

    fn perm(&mut self, n: u32) -> Vec<u32> {
        let mut p: Vec<u32> = (0..n).collect();
        for i in (1..n as usize).rev() {
            let j = self.rng.below(i as u64 + 1) as usize;
            p.swap(i, j);
        }
        p
    }

    /// (A) the 256 functions of three variables, 8 per case, under the six orders
    fn three_var_cases(&mut self, dd: &str) {
        const PERMS: [[u32; 3]; 6] = [[0, 1, 2], [0, 2, 1], [1, 0, 2], [1, 2, 0], [2, 0, 1], [2, 1, 0]];
        let mut funcs: Vec<u32> = (0..256).collect();
        for i in (1..256usize).rev() {
            let j = self.rng.below(i as u64 + 1) as usize;
            funcs.swap(i, j);
        }
        for (ci, chunk) in funcs.chunks(8).enumerate() {
            let p = PERMS[ci % 6];
            let mut ops = Vec::new();
            let style = (ci as u64) % 5;
            if let Some(v) = self.var_names(3, style) {
                ops.push(v);
            }
            for &f in chunk {
                if dd == "mtbdd" || dd == "tdd" {
                    // the Boolean function selects between two values
                    let pool = if dd == "tdd" { TDD_VALUES } else { MT_VALUES };
                    let (lo, hi) = if dd == "tdd" && self.rng.chance(1, 2) {
                        // the function itself, under the identity numbering
                        ("0", "1")
                    } else {
                        (*self.rng.pick(pool), *self.rng.pick(pool))
                    };
                    let t: Vec<&str> = (0..8u32).map(|a| if (f >> a) & 1 != 0 { hi } else { lo }).collect();
                    ops.push(format!("F {}", t.join(",")));
                } else {
                    // function under the variable numbering p: bit a of g = bit (a permuted) of f
                    let bits: Vec<bool> = (0..8u32)
                        .map(|a| {
                            let mut b = 0;
                            for v in 0..3 {
                                if (a >> v) & 1 != 0 {
                                    b |= 1 << p[v as usize];
                                }
                            }
                            (f >> b) & 1 != 0
                        })
                        .collect();
                    ops.push(format!("F {}", bits_to_hex(&bits)));
                }
            }
            if self.reorder {
                ops.push(format!("O {}", p.iter().map(|x| x.to_string()).collect::<Vec<_>>().join(" ")));
            }
            ops.extend(self.all_x_ops(8, style >= 3));
            self.emit("valid", dd, 3, "", &ops);
        }
    }

    /// (B) random diagrams with up to 10 variables, some of them unused
    /// large diagrams (thousands of nodes): node ids and id distances need two and three bytes in the binary
    /// node stream, so that every escape sequence of the byte codec occurs
    fn big_cases(&mut self, dd: &str, n: usize) {
        for _ in 0..n {
            let nv = self.rng.range(12, 14) as u32;
            let all: Vec<u32> = (0..nv).collect();
            let mut ops = Vec::new();
            for _ in 0..2 {
                ops.push(format!("F {}", self.bool_table(nv, &all, false)));
            }
            if self.reorder && self.rng.chance(1, 2) {
                ops.push(format!("O {}", self.perm(nv).iter().map(|x| x.to_string()).collect::<Vec<_>>().join(" ")));
            }
            for ascii in [false, true] {
                let ver3 = self.rng.chance(1, 2);
                let strict = self.rng.chance(1, 2);
                ops.push(self.x_op(2, ver3, ascii, false, strict, false));
            }
            self.emit("valid", dd, nv, " cap=262144", &ops);
        }
    }

    fn random_cases(&mut self, dd: &str, n: usize) {
        for ci in 0..n {
            let nv = self.rng.range(0, 10) as u32;
            let mut ops = Vec::new();
            let style = self.rng.below(5);
            if let Some(v) = self.var_names(nv, style) {
                ops.push(v);
            }
            let nf = self.rng.range(1, 5) as usize;
            for _ in 0..nf {
                let k = self.rng.range(0, (nv as u64).min(7)) as usize;
                let mut support = self.perm(nv);
                support.truncate(k);
                support.sort_unstable();
                if dd == "mtbdd" {
                    ops.push(format!("F {}", self.mt_table(nv, &support)));
                } else if dd == "tdd" {
                    ops.push(format!("F {}", self.tdd_table(nv, &support)));
                } else {
                    let sparse = self.rng.chance(1, 3);
                    let all: Vec<u32> = (0..nv).collect();
                    let sup = if sparse && nv <= 10 && self.rng.chance(1, 2) { &all[..] } else { &support[..] };
                    ops.push(format!("F {}", self.bool_table(nv, sup, sparse)));
                }
            }
            if self.reorder && nv >= 2 {
                ops.push(format!("O {}", self.perm(nv).iter().map(|x| x.to_string()).collect::<Vec<_>>().join(" ")));
            }
            if ci % 3 == 0 {
                ops.extend(self.all_x_ops(nf, style >= 3));
            } else {
                for _ in 0..3 {
                    let (v, a, r, s) = (self.rng.chance(1, 2), self.rng.chance(1, 2), self.rng.chance(1, 2), self.rng.chance(1, 2));
                    ops.push(self.x_op(nf, v, a, r, s, style >= 3));
                }
            }
            self.emit("valid", dd, nv, "", &ops);
        }
    }

    /// bytes of the file that the ops of a case produce for its first X op
    fn base_file(dd: &str, nv: u32, ops: &[String]) -> Vec<u8> {
        fn go<K: Kind>(nv: u32, ops: &[String]) -> Vec<u8> {
            let m = K::new_mgr(1 << 14, nv);
            let mut funcs = Vec::new();
            for line in ops {
                let tok: Vec<&str> = line.split_whitespace().collect();
                match tok[0] {
                    "V" => {
                        for (i, t) in tok[1..].iter().enumerate() {
                            if let Some(n) = tok_name(t) {
                                K::set_name(&m, i as u32, &n);
                            }
                        }
                    }
                    "F" => funcs.push(K::build(&m, nv, &parse_table(K::BOOLEAN, tok[1], nv)).unwrap()),
                    "X" => return K::export(&m, &parse_xopts(&tok), &funcs).0,
                    _ => {}
                }
            }
            Vec::new()
        }
        match dd {
            "bdd" => go::<KBdd>(nv, ops),
            "bcdd" => go::<KBcdd>(nv, ops),
            "zbdd" => go::<KZbdd>(nv, ops),
            "mtbdd" => go::<KMtbdd>(nv, ops),
            _ => go::<KTdd>(nv, ops),
        }
    }

    fn mutation(&mut self, file: &[u8]) -> String {
        let len = file.len() as u64;
        // half of the mutations hit the node section
        let nodes_at = file.windows(7).position(|w| w == b".nodes\n").map(|p| p as u64 + 7).unwrap_or(0);
        let pos = if self.rng.chance(1, 2) && nodes_at < len { nodes_at + self.rng.below(len - nodes_at) } else { self.rng.below(len) };
        let interesting: &[u8] = b"0123456789AB -\n\r\t.\x00\x01\x02\x03\x04\xff\x80\x7f\x20\x40\x60TFEB";
        let byte = match self.rng.below(4) {
            0 => self.rng.below(256) as u8,
            1 => *self.rng.pick(interesting),
            2 => file[self.rng.below(len) as usize],
            _ => file[pos as usize] ^ (1 << self.rng.below(8)),
        };
        match self.rng.below(10) {
            0..=5 => format!("M r {pos} {byte:02x}"),
            6..=7 => format!("M i {pos} {byte:02x}"),
            _ => format!("M d {pos}"),
        }
    }

    /// malformed stream for one base file: every truncation point, `nmut` mutations
    fn mal_cases(&mut self, dd: &str, ascii: bool, nmut: usize) {
        let nv = self.rng.range(2, 4) as u32;
        let mut base_ops = Vec::new();
        let style = *self.rng.pick(&[0u64, 1, 1, 3]);
        if let Some(v) = self.var_names(nv, style) {
            base_ops.push(v);
        }
        let nf = self.rng.range(1, 3) as usize;
        for _ in 0..nf {
            let all: Vec<u32> = (0..nv).collect();
            if dd == "mtbdd" {
                base_ops.push(format!("F {}", self.mt_table(nv, &all)));
            } else if dd == "tdd" {
                base_ops.push(format!("F {}", self.tdd_table(nv, &all)));
            } else {
                base_ops.push(format!("F {}", self.bool_table(nv, &all, false)));
            }
        }
        let rn = self.rng.chance(1, 2);
        let ver3 = self.rng.chance(1, 2);
        base_ops.push(self.x_op(nf, ver3, ascii, rn, false, false));
        let file = Self::base_file(dd, nv, &base_ops);
        let mut mops: Vec<String> = (0..file.len()).map(|p| format!("M t {p}")).collect();
        for _ in 0..nmut {
            mops.push(self.mutation(&file));
        }
        // exhaustive replacement of the bytes of the mode line and of the node section start
        for chunk in mops.chunks(250) {
            let mut ops = base_ops.clone();
            ops.extend(chunk.iter().cloned());
            self.emit("mal", dd, nv, "", &ops);
        }
    }

    /// one structured mutation of the header lines `lines` (without the `.nodes` line)
    fn hdr_mutate(&mut self, lines: &mut Vec<Vec<u8>>) {
        const NUMS: &[&str] = &[
            "0", "1", "2", "3", "4", "5", "7", "8", "63", "4095", "4096", "4097", "4294967295", "4294967296", "9223372036854775807",
            "9223372036854775808", "18446744073709551615", "18446744073709551616", "99999999999999999999", "", "03", "+3", "-3", "-0", "-",
            "--1", "1-", "3a", "a", "0x1", "1.0", "１",
        ];
        const BAD_UTF8: &[&[u8]] = &[
            b"\xff", b"\xfe", b"\xc3", b"\xc3\x28", b"\xe2\x82", b"\xe2\x28\xa1", b"\xc0\x80", b"\xed\xa0\x80", b"\xf4\x90\x80\x80",
            b"\xf0\x9f\x98", b"\xf0\x9f", b"\x80", b"\xbf", b"a\xffb", b"\xe0\x9f\x80", b"\xf0\x8f\x80\x80", b"\xf5", b"\xc1\xbf",
            b"\xe2\x82\xac", b"\xc3\xbc", b"\xf0\x9f\x98\x80", b"\xef\xbf\xbd",
        ];
        if lines.is_empty() {
            return;
        }
        let li = self.rng.below(lines.len() as u64) as usize;
        let split = |l: &[u8]| -> (Vec<u8>, Vec<Vec<u8>>) {
            let mut it = l.split(|&b| b == b' ' || b == b'\t').filter(|t| !t.is_empty());
            let key = it.next().map(|k| k.to_vec()).unwrap_or_default();
            (key, it.map(|t| t.to_vec()).collect())
        };
        let joinl = |key: &[u8], toks: &[Vec<u8>], sep: &[u8]| -> Vec<u8> {
            let mut v = key.to_vec();
            for t in toks {
                v.extend_from_slice(sep);
                v.extend_from_slice(t);
            }
            v
        };
        match self.rng.below(16) {
            0 => {
                // replace one token of the line by an interesting number
                let (key, mut toks) = split(&lines[li]);
                let n = self.rng.pick(NUMS).as_bytes().to_vec();
                if toks.is_empty() {
                    toks.push(n);
                } else {
                    let i = self.rng.below(toks.len() as u64) as usize;
                    toks[i] = n;
                }
                lines[li] = joinl(&key, &toks, b" ");
            }
            1 => {
                // increment / decrement one numeric token
                let (key, mut toks) = split(&lines[li]);
                if !toks.is_empty() {
                    let i = self.rng.below(toks.len() as u64) as usize;
                    if let Ok(v) = String::from_utf8_lossy(&toks[i]).parse::<i64>() {
                        let d = *self.rng.pick(&[-2i64, -1, 1, 2]);
                        toks[i] = (v + d).to_string().into_bytes();
                    }
                }
                lines[li] = joinl(&key, &toks, b" ");
            }
            2 => {
                // delete a token
                let (key, mut toks) = split(&lines[li]);
                if !toks.is_empty() {
                    let i = self.rng.below(toks.len() as u64) as usize;
                    toks.remove(i);
                }
                lines[li] = joinl(&key, &toks, b" ");
            }
            3 => {
                // duplicate a token / append a token of the line
                let (key, mut toks) = split(&lines[li]);
                if !toks.is_empty() {
                    let i = self.rng.below(toks.len() as u64) as usize;
                    let t = toks[i].clone();
                    let j = self.rng.below(toks.len() as u64 + 1) as usize;
                    toks.insert(j, t);
                }
                lines[li] = joinl(&key, &toks, b" ");
            }
            4 => {
                // swap two tokens
                let (key, mut toks) = split(&lines[li]);
                if toks.len() >= 2 {
                    let i = self.rng.below(toks.len() as u64) as usize;
                    let j = self.rng.below(toks.len() as u64) as usize;
                    toks.swap(i, j);
                }
                lines[li] = joinl(&key, &toks, b" ");
            }
            5 => {
                // other separators: tabs, double spaces, trailing blanks
                let (key, toks) = split(&lines[li]);
                let sep: &[u8] = *self.rng.pick(&[&b"\t"[..], b"  ", b" \t ", b"\t\t"]);
                let mut l = joinl(&key, &toks, sep);
                if self.rng.chance(1, 2) {
                    l.extend_from_slice(*self.rng.pick(&[&b" "[..], b"\t", b" \t  "]));
                }
                lines[li] = l;
            }
            6 => {
                // line ends: CR, CR CR, blank before the key, empty line
                match self.rng.below(5) {
                    0 => lines[li].push(b'\r'),
                    1 => lines[li].extend_from_slice(b"\r\r"),
                    2 => lines[li].insert(0, *self.rng.pick(&[b' ', b'\t'])),
                    3 => lines.insert(li, Vec::new()),
                    _ => lines[li].extend_from_slice(b" \r"),
                }
            }
            7 => {
                lines.remove(li);
            }
            8 => {
                // duplicate the line at another position (the last one counts)
                let l = lines[li].clone();
                let j = self.rng.below(lines.len() as u64 + 1) as usize;
                lines.insert(j, l);
            }
            9 => {
                let j = self.rng.below(lines.len() as u64) as usize;
                lines.swap(li, j);
            }
            10 => {
                // a new line: unknown key, .auxids, other .varinfo / .mode / .ver, name lists
                let nsupp = lines
                    .iter()
                    .find(|l| l.starts_with(b".ids"))
                    .map(|l| split(l).1.len())
                    .unwrap_or(0);
                let nvars = lines
                    .iter()
                    .find(|l| l.starts_with(b".nvars"))
                    .and_then(|l| String::from_utf8_lossy(&split(l).1.concat()).parse::<usize>().ok())
                    .unwrap_or(0);
                let nl: Vec<u8> = match self.rng.below(9) {
                    0 => b".foo 1".to_vec(),
                    1 => {
                        let n = if self.rng.chance(2, 3) { nsupp } else { self.rng.below(5) as usize };
                        let toks: Vec<Vec<u8>> = (0..n).map(|i| (i * 7).to_string().into_bytes()).collect();
                        joinl(b".auxids", &toks, b" ")
                    }
                    2 => format!(".varinfo {}", self.rng.below(6)).into_bytes(),
                    3 => format!(".mode {}", self.rng.pick(&["A", "B", "a", "", "AB"])).into_bytes(),
                    4 => format!(".ver {}", self.rng.pick(&["DDDMP-2.0", "DDDMP-3.0", "DDDMP-1.0", "", "DDDMP-2.0 x"])).into_bytes(),
                    5 => {
                        let key: &[u8] = *self.rng.pick(&[&b".varnames"[..], b".orderedvarnames", b".suppvarnames", b".rootnames"]);
                        let n = if key == b".suppvarnames" { nsupp } else { nvars };
                        let n = if self.rng.chance(3, 4) { n.min(64) } else { self.rng.below(6) as usize };
                        let toks: Vec<Vec<u8>> = (0..n).map(|i| format!("n{i}").into_bytes()).collect();
                        joinl(key, &toks, b" ")
                    }
                    6 => b".dd \xffname\tx  ".to_vec(),
                    7 => b".nodes".to_vec(),
                    _ => format!("{} {}", self.rng.pick(&[".nnodes", ".nvars", ".nsuppvars", ".nroots"]), self.rng.pick(NUMS)).into_bytes(),
                };
                let j = self.rng.below(lines.len() as u64 + 1) as usize;
                lines.insert(j, nl);
            }
            11 => {
                // invalid / unusual UTF-8 inside one token
                let (key, mut toks) = split(&lines[li]);
                let b = self.rng.pick(BAD_UTF8).to_vec();
                if toks.is_empty() {
                    toks.push(b);
                } else {
                    let i = self.rng.below(toks.len() as u64) as usize;
                    match self.rng.below(3) {
                        0 => toks[i] = b,
                        1 => toks[i].extend_from_slice(&b),
                        _ => {
                            let mut t = b;
                            t.extend_from_slice(&toks[i]);
                            toks[i] = t;
                        }
                    }
                }
                lines[li] = joinl(&key, &toks, b" ");
            }
            12 => {
                // the same name token replaced in all name lines by (different) invalid byte
                // sequences: equal after from_utf8_lossy or not
                let a = self.rng.pick(BAD_UTF8).to_vec();
                let b = if self.rng.chance(1, 2) { a.clone() } else { self.rng.pick(BAD_UTF8).to_vec() };
                let mut first = true;
                let mut target: Option<Vec<u8>> = None;
                for l in lines.iter_mut() {
                    if l.starts_with(b".varnames") || l.starts_with(b".orderedvarnames") || l.starts_with(b".suppvarnames") {
                        let (key, mut toks) = split(l);
                        if toks.is_empty() {
                            continue;
                        }
                        if target.is_none() {
                            target = Some(toks[self.rng.below(toks.len() as u64) as usize].clone());
                        }
                        for t in toks.iter_mut() {
                            if Some(&*t) == target.as_ref() {
                                *t = if first { a.clone() } else { b.clone() };
                            }
                        }
                        first = false;
                        *l = joinl(&key, &toks, b" ");
                    }
                }
            }
            13 => {
                // permute .permids (another order of the support) / rotate .ids
                for l in lines.iter_mut() {
                    if l.starts_with(b".permids") || (l.starts_with(b".ids") && self.rng.chance(1, 4)) {
                        let (key, mut toks) = split(l);
                        if toks.len() >= 2 {
                            let i = self.rng.below(toks.len() as u64) as usize;
                            let j = self.rng.below(toks.len() as u64) as usize;
                            if self.rng.chance(1, 4) {
                                // the same level / variable twice
                                toks[i] = toks[j].clone();
                            } else {
                                toks.swap(i, j);
                            }
                        }
                        *l = joinl(&key, &toks, b" ");
                    }
                }
            }
            14 => {
                // drop the .varnames line (the names are then rebuilt from .orderedvarnames) or
                // also .orderedvarnames (only .suppvarnames remains)
                lines.retain(|l| !l.starts_with(b".varnames"));
                if self.rng.chance(1, 3) {
                    lines.retain(|l| !l.starts_with(b".orderedvarnames"));
                }
            }
            _ => {
                // a value after the key of a line that has none / key glued to the value
                let (key, toks) = split(&lines[li]);
                lines[li] = if self.rng.chance(1, 2) { joinl(&key, &toks, b"") } else { joinl(&key, &[b"x".to_vec()], b" ") };
            }
        }
    }

    /// structured header mutations of one base file: tokens, numbers, separators, line order,
    /// duplicate / missing / new lines, invalid UTF-8 in names
    fn hdr_cases(&mut self, dd: &str, ascii: bool, nmut: usize) {
        let nv = self.rng.range(3, 5) as u32;
        let mut base_ops = Vec::new();
        let style = *self.rng.pick(&[0u64, 1, 1, 1, 3]);
        if let Some(v) = self.var_names(nv, style) {
            base_ops.push(v);
        }
        // at least one variable outside the support
        let mut support = self.perm(nv);
        support.truncate(self.rng.range(1, nv as u64 - 1) as usize);
        support.sort_unstable();
        let nf = self.rng.range(1, 3) as usize;
        for _ in 0..nf {
            if dd == "mtbdd" {
                base_ops.push(format!("F {}", self.mt_table(nv, &support)));
            } else if dd == "tdd" {
                base_ops.push(format!("F {}", self.tdd_table(nv, &support)));
            } else {
                base_ops.push(format!("F {}", self.bool_table(nv, &support, false)));
            }
        }
        let rn = self.rng.chance(2, 3);
        let ver3 = self.rng.chance(1, 2);
        base_ops.push(self.x_op(nf, ver3, ascii, rn, false, false));
        let file = Self::base_file(dd, nv, &base_ops);
        let Some(npos) = file.windows(7).position(|w| w == b".nodes\n") else {
            return;
        };
        let lines: Vec<Vec<u8>> = file[..npos].split(|&b| b == b'\n').filter(|l| !l.is_empty()).map(|l| l.to_vec()).collect();
        let body = &file[npos..];
        let mut mops = Vec::new();
        for _ in 0..nmut {
            let mut ls = lines.clone();
            let k = *self.rng.pick(&[1u64, 1, 1, 2, 2, 3]);
            for _ in 0..k {
                self.hdr_mutate(&mut ls);
            }
            let mut data = Vec::new();
            for l in &ls {
                data.extend_from_slice(l);
                data.push(b'\n');
            }
            data.extend_from_slice(body);
            mops.push(format!("M raw {}", hex(&data)));
        }
        for chunk in mops.chunks(250) {
            let mut ops = base_ops.clone();
            ops.extend(chunk.iter().cloned());
            self.emit("mal", dd, nv, "", &ops);
        }
    }

    /// TDD files read by the importers of the binary kinds (the only importers there are):
    /// the file as written (three children per node, terminal `U`), the file with the unknown
    /// child of every node line dropped and / or `U` replaced by `F` (then a well-formed file of
    /// the binary kinds), and random mutations of these
    fn cross_cases(&mut self, nbase: usize, nmut: usize) {
        /// `terms`: the descriptions that replace F / U / T on terminal lines
        fn edit(file: &[u8], drop_middle: bool, terms: Option<[&str; 3]>) -> Vec<u8> {
            let Some(npos) = file.windows(7).position(|w| w == b".nodes\n") else {
                return file.to_vec();
            };
            let mut out = file[..npos + 7].to_vec();
            for line in file[npos + 7..].split(|&b| b == b'\n') {
                if line.is_empty() {
                    continue;
                }
                let toks: Vec<&[u8]> = line.split(|&b| b == b' ').collect();
                let mut toks: Vec<Vec<u8>> = toks.into_iter().map(|t| t.to_vec()).collect();
                if drop_middle && toks.len() == 5 {
                    toks.remove(3);
                }
                if let (Some(t), 4) = (terms, toks.len()) {
                    if toks[2] == b"0" && toks[3] == b"0" {
                        toks[1] = match toks[1].as_slice() {
                            b"F" => t[0],
                            b"U" => t[1],
                            _ => t[2],
                        }
                        .as_bytes()
                        .to_vec();
                    }
                }
                out.extend_from_slice(&toks.join(&b' '));
                out.push(b'\n');
            }
            out
        }
        for _ in 0..nbase {
            let nv = self.rng.range(1, 4) as u32;
            let all: Vec<u32> = (0..nv).collect();
            let nf = self.rng.range(1, 2) as usize;
            let mut src = Vec::new();
            if self.rng.chance(1, 2) {
                if let Some(v) = self.var_names(nv, 1) {
                    src.push(v);
                }
            }
            for _ in 0..nf {
                src.push(format!("F {}", self.tdd_table(nv, &all)));
            }
            let (rn, ver3) = (self.rng.chance(1, 2), self.rng.chance(1, 2));
            src.push(self.x_op(nf, ver3, true, rn, false, false));
            let file = Self::base_file("tdd", nv, &src);
            if file.is_empty() {
                continue;
            }
            for dd in ["bdd", "bcdd", "zbdd", "mtbdd"] {
                // terminals of the target kind for F / U / T
                let t = match dd {
                    "zbdd" => ["E", "E", "B"],
                    "mtbdd" => ["0", "7", "1"],
                    _ => ["F", "F", "T"],
                };
                let variants = [file.clone(), edit(&file, true, None), edit(&file, false, Some(t)), edit(&file, true, Some(t))];
                let mut mops: Vec<String> = variants.iter().map(|v| format!("M raw {}", hex(v))).collect();
                for i in 0..nmut {
                    let v = &variants[i % 4];
                    let m = self.mutation(v);
                    let tok: Vec<&str> = m.split_whitespace().collect();
                    mops.push(format!("M raw {}", hex(&apply_mutation(v, &tok))));
                }
                self.emit("mal", dd, nv, "", &mops);
            }
        }
    }

    /// out-of-memory during import: ASCII BCDD dump (negated edges) into small BDD managers
    fn oom_cases(&mut self, n: usize) {
        for _ in 0..n {
            let nv = self.rng.range(2, 5) as u32;
            let all: Vec<u32> = (0..nv).collect();
            let ops_src = vec![format!("F {}", self.bool_table(nv, &all, false)), "X ver=2 mode=a strict=0 dd=- rn=0 roots=0".to_string()];
            let file = Self::base_file("bcdd", nv, &ops_src);
            let mut ops = Vec::new();
            for cap in 0..12 {
                ops.push(format!("L {cap} raw {}", hex(&file)));
            }
            self.emit("mal", "bdd", nv, "", &ops);
        }
    }
}

fn gen(tier: &str, seed: u64) {
    let thorough = tier == "thorough";
    let mut g = Gen { rng: Rng::new(seed), id: 0, reorder: std::env::var("VERIF_C15_REORDER").map(|v| v != "0").unwrap_or(true) };
    for dd in ["bdd", "bcdd", "zbdd", "mtbdd", "tdd"] {
        g.three_var_cases(dd);
        g.random_cases(dd, if thorough { 400 } else { 40 });
    }
    g.big_cases("bcdd", if thorough { 8 } else { 2 });
    g.big_cases("bdd", if thorough { 2 } else { 1 });
    // malformed stream: ~3k (quick) / ~20k (thorough) inputs per format
    let (nbase, nmut) = if thorough { (8, 2200) } else { (2, 1200) };
    for _ in 0..nbase {
        g.mal_cases("bcdd", false, nmut); // binary
    }
    for dd in ["bdd", "bcdd", "zbdd", "mtbdd"] {
        for _ in 0..(nbase / 2).max(1) {
            g.mal_cases(dd, true, nmut / 2);
        }
    }
    // TDD: there is no importer (header loader + the model's readers only) ...
    for _ in 0..(nbase / 2).max(1) {
        g.mal_cases("tdd", true, nmut / 2);
    }
    // ... so TDD files go through the importers of the other kinds
    // structured header mutations
    let (hbase, hmut) = if thorough { (6, 1500) } else { (2, 500) };
    for _ in 0..hbase {
        g.hdr_cases("bcdd", false, hmut);
        for dd in ["bdd", "bcdd", "zbdd", "mtbdd"] {
            g.hdr_cases(dd, true, hmut / 2);
        }
    }
    g.cross_cases(if thorough { 12 } else { 3 }, if thorough { 400 } else { 100 });
    g.hdr_cases("tdd", true, hmut / 2);
    g.oom_cases(if thorough { 40 } else { 6 });
}

fn main() {
    let args: Vec<String> = std::env::args().collect();
    match mode().as_str() {
        "gen" => gen(&args[2], args[3].parse().unwrap()),
        "run" => {
            std::panic::set_hook(Box::new(|info| {
                let loc = info.location().map(|l| format!("{}:{}", l.file(), l.line())).unwrap_or_default();
                *LAST_PANIC_LOC.lock().unwrap() = loc;
            }));
            let cases = read_cases_from_args();
            run_cases_watchdog(cases, Duration::from_millis(env_u64("VERIF_HANG_MS", 20000)), |case, out| {
                match case.param("dd").unwrap_or("bdd") {
                    "bdd" => run_case::<KBdd>(case, out),
                    "bcdd" => run_case::<KBcdd>(case, out),
                    "zbdd" => run_case::<KZbdd>(case, out),
                    "mtbdd" => run_case::<KMtbdd>(case, out),
                    "tdd" => run_case::<KTdd>(case, out),
                    k => panic!("unknown dd kind {k}"),
                }
            });
        }
        m => panic!("unknown mode {m}"),
    }
}
