//! Package GCTHREAD (notes/GCTHREAD.md, model coq/Mgr/GcThread.v): the two observations about the
//! background collector of the index-based manager, demonstrated on the real code through the public
//! API only (`gc_count`, `num_inner_nodes`, the names of the process' threads).  Nothing here is a
//! property verdict: the lines are recorded in the evidence of C05.
//!
//! `h_gcthread autogc <cap> <keep>`: BDD manager of capacity `cap` (gc_lwm = cap/100*90, gc_hwm =
//!   cap/100*95), one node per variable.  Phase 1 creates gc_hwm + 2 nodes, of which `keep` stay
//!   referenced (the others are garbage): the collector thread is triggered.  Phase 2 drops every
//!   handle and calls `gc()`.  Phase 3 creates gc_hwm + 2 garbage nodes again and waits for another
//!   automatic collection.  Prints the `gc_count` values.
//! `h_gcthread quit <n> <delay_ms>`: creates `n` managers and drops the only handle `delay_ms` after
//!   `new_manager` returned; prints how many threads named "oxidd mi gc" are left afterwards.

use oxidd::bdd::{BDDFunction, BDDManagerRef};
use oxidd::{BooleanFunction, Manager, ManagerRef};
use std::time::{Duration, Instant};

fn gc_count(mref: &BDDManagerRef) -> u64 {
    mref.with_manager_shared(|m| m.gc_count())
}

fn wait_gc_count(mref: &BDDManagerRef, at_least: u64, ms: u64) -> u64 {
    let t0 = Instant::now();
    loop {
        let c = gc_count(mref);
        if c >= at_least || t0.elapsed() > Duration::from_millis(ms) {
            return c;
        }
        std::thread::sleep(Duration::from_millis(2));
    }
}

fn autogc(cap: usize, keep: usize, settle_ms: u64) {
    let hwm = cap / 100 * 95;
    let lwm = cap / 100 * 90;
    let n = (hwm + 2) as u32;
    let mref = oxidd::bdd::new_manager(cap, 64, 1);
    mref.with_manager_exclusive(|m| {
        m.add_vars(n);
    });
    // let the collector thread reach `Condvar::wait` (settle_ms = 0: race it)
    std::thread::sleep(Duration::from_millis(settle_ms));
    let mut held: Vec<BDDFunction> = Vec::new();
    let mut oom1 = 0;
    mref.with_manager_shared(|m| {
        for v in 0..n {
            match BDDFunction::var(m, v) {
                Ok(f) => {
                    if held.len() < keep {
                        held.push(f)
                    }
                }
                Err(_) => oom1 += 1,
            }
        }
    });
    let g1 = wait_gc_count(&mref, 1, 1500);
    std::thread::sleep(Duration::from_millis(50)); // sweep + epilogue
    let n1 = mref.with_manager_shared(|m| m.num_inner_nodes());
    held.clear();
    let freed = mref.with_manager_shared(|m| m.gc());
    let g2 = gc_count(&mref);
    let n2 = mref.with_manager_shared(|m| m.num_inner_nodes());
    let mut oom3 = 0;
    mref.with_manager_shared(|m| {
        for v in 0..n {
            if BDDFunction::var(m, v).is_err() {
                oom3 += 1
            }
        }
    });
    let n3 = mref.with_manager_shared(|m| m.num_inner_nodes());
    let g3 = wait_gc_count(&mref, g2 + 1, 600);
    std::thread::sleep(Duration::from_millis(50));
    let n4 = mref.with_manager_shared(|m| m.num_inner_nodes());
    println!(
        "AUTOGC cap={cap} lwm={lwm} hwm={hwm} keep={keep} settle_ms={settle_ms} created={n} oom_phase1={oom1} \
         auto_collections_phase1={g1} nodes_after_phase1={n1} explicit_gc_freed={freed} gc_count_after_explicit={g2} \
         nodes_after_explicit={n2} oom_phase3={oom3} nodes_phase3={n3} auto_collections_phase3={} nodes_at_end={n4}",
        g3 - g2
    );
}

fn collector_threads() -> usize {
    std::fs::read_dir("/proc/self/task")
        .map(|d| {
            d.filter_map(|e| e.ok())
                .filter(|e| {
                    std::fs::read_to_string(e.path().join("comm"))
                        .map(|c| c.trim() == "oxidd mi gc")
                        .unwrap_or(false)
                })
                .count()
        })
        .unwrap_or(0)
}

fn quit(n: usize, delay_ms: u64) {
    let before = collector_threads();
    for _ in 0..n {
        let m = oxidd::bdd::new_manager(128, 16, 1);
        if delay_ms > 0 {
            std::thread::sleep(Duration::from_millis(delay_ms));
        }
        drop(m);
    }
    std::thread::sleep(Duration::from_millis(400));
    let after = collector_threads();
    println!("QUIT managers={n} delay_ms={delay_ms} collector_threads_before={before} collector_threads_left={after}");
}

fn main() {
    let a: Vec<String> = std::env::args().collect();
    let num = |i: usize, d: u64| a.get(i).and_then(|s| s.parse::<u64>().ok()).unwrap_or(d);
    match a.get(1).map(|s| s.as_str()) {
        Some("autogc") => autogc(num(2, 200) as usize, num(3, 1000) as usize, num(4, 80)),
        Some("quit") => quit(num(2, 8) as usize, num(3, 0)),
        _ => {
            eprintln!("usage: h_gcthread autogc <cap> <keep> [settle_ms] | quit <n> <delay_ms>");
            std::process::exit(2)
        }
    }
}
