//! C16: variable / name bookkeeping of the managers (`VarNameMap` behind
//! `add_vars`, `add_named_vars`, `add_named_vars_from_map`, `set_var_name`).
//!
//! `h_names gen <tier> <seed> [<shard> <nshards>]` prints a case file,
//! `h_names run [file]` executes it on real managers and prints after EVERY
//! call the full observable:
//!
//! ```text
//! <op> -> <res> # <num_vars> <num_levels> <num_named_vars> # <var_name(v),..> # <name=var,..> # <var_to_level(v),..> [# sem <handle tables>]
//! ```
//!
//! Names are hex-encoded UTF-8 (`_` = the empty name, `.` = empty list).
//! Ops:
//!   `V k`            add_vars(k)
//!   `N n1,n2,..`     add_named_vars([..])
//!   `S v n`          set_var_name(v, n)        (v = number or `L` = last variable)
//!   `M s1;s2;..`     add_named_vars_from_map(map) where the map is built by the
//!                    `VarNameMap` calls `U:k` add_unnamed, `N:list` add_named,
//!                    `S:v:n` set_var_name, `G:n` get_or_add  (`M -` = empty map)
//!   `F v i | F a i j | F o i j | F n i`   create a handle (indices modulo what exists)
//!   `G`              gc
//!   `R seed`         set_var_order_seq with a seeded permutation
//! Results: `ok:lo:hi`, `u`, `err:name:present_var:lo:hi`, `panic`, `get:v:found`.

use hcommon::*;
use oxidd::{BooleanFunction, Manager, ManagerRef, TVLFunction, VarNo};
use oxidd_core::error::DuplicateVarName;
use oxidd_core::util::VarNameMap;
use std::ops::Range;
use std::panic::{catch_unwind, AssertUnwindSafe};
use std::time::Duration;

// ---------------------------------------------------------------------------
// encoding
// ---------------------------------------------------------------------------
fn hex(s: &str) -> String {
    if s.is_empty() {
        return "_".into();
    }
    s.bytes().map(|b| format!("{b:02x}")).collect()
}

fn unhex(h: &str) -> String {
    if h == "_" {
        return String::new();
    }
    let b: Vec<u8> = (0..h.len() / 2).map(|i| u8::from_str_radix(&h[2 * i..2 * i + 2], 16).unwrap()).collect();
    String::from_utf8(b).expect("utf8 name")
}

fn parse_names(l: &str) -> Vec<String> {
    if l == "." {
        Vec::new()
    } else {
        l.split(',').map(unhex).collect()
    }
}

fn res_named(r: Result<Range<VarNo>, DuplicateVarName>) -> String {
    match r {
        Ok(r) => format!("ok:{}:{}", r.start, r.end),
        Err(e) => {
            format!("err:{}:{}:{}:{}", hex(&e.name), e.present_var, e.added_vars.start, e.added_vars.end)
        }
    }
}

fn res_set(r: Result<(), DuplicateVarName>) -> String {
    match r {
        Ok(()) => "u".into(),
        Err(e) => res_named(Err(e)),
    }
}

fn guarded(f: impl FnOnce() -> String) -> String {
    catch_unwind(AssertUnwindSafe(f)).unwrap_or_else(|_| "panic".into())
}

/// One `VarNameMap` call of the map handed to `add_named_vars_from_map`.
fn map_op(map: &mut VarNameMap, sub: &str) -> String {
    let f: Vec<&str> = sub.split(':').collect();
    guarded(|| match f[0] {
        "U" => {
            map.add_unnamed(f[1].parse().unwrap());
            "u".into()
        }
        "N" => res_named(map.add_named(parse_names(f[1]))),
        "S" => res_set(map.set_var_name(f[1].parse().unwrap(), unhex(f[2]))),
        "G" => {
            let (v, found) = map.get_or_add(unhex(f[1]));
            format!("get:{v}:{}", found as u8)
        }
        o => panic!("unknown map op {o}"),
    })
}

/// The four calls of the property on a real manager.
fn mgr_op<M: Manager>(m: &mut M, tok: &[&str]) -> String {
    match tok[0] {
        "V" => {
            let r = m.add_vars(tok[1].parse().unwrap());
            format!("ok:{}:{}", r.start, r.end)
        }
        "N" => res_named(m.add_named_vars(parse_names(tok[1]))),
        "S" => {
            let v: VarNo = if tok[1] == "L" { m.num_vars().saturating_sub(1) } else { tok[1].parse().unwrap() };
            let name = unhex(tok[2]);
            guarded(|| res_set(m.set_var_name(v, name)))
        }
        "M" => {
            let mut map = VarNameMap::new();
            let mut subs = Vec::new();
            if tok[1] != "-" {
                for sub in tok[1].split(';') {
                    subs.push(map_op(&mut map, sub));
                }
            }
            let r = res_named(m.add_named_vars_from_map(map));
            std::iter::once(r).chain(subs).collect::<Vec<_>>().join(";")
        }
        o => panic!("unknown op {o}"),
    }
}

fn observe<M: Manager>(m: &M, universe: &[String]) -> String {
    let n = m.num_vars();
    let join = |v: Vec<String>| if v.is_empty() { ".".to_string() } else { v.join(",") };
    let names = join((0..n).map(|v| hex(m.var_name(v))).collect());
    let lookups = join(
        universe
            .iter()
            .map(|h| match m.name_to_var(unhex(h)) {
                Some(v) => format!("{h}={v}"),
                None => format!("{h}=-"),
            })
            .collect(),
    );
    let levels = join((0..n).map(|v| m.var_to_level(v).to_string()).collect());
    format!("{} {} {} # {} # {} # {}", n, m.num_levels(), m.num_named_vars(), names, lookups, levels)
}

/// all names occurring in the ops of a case (hex), "" first
fn universe(case: &Case) -> Vec<String> {
    let mut u: Vec<String> = Vec::new();
    let add_list = |l: &str, u: &mut Vec<String>| {
        if l != "." {
            u.extend(l.split(',').map(|s| s.to_string()));
        }
    };
    for line in &case.ops {
        let tok: Vec<&str> = line.split_whitespace().collect();
        match tok[0] {
            "N" => add_list(tok[1], &mut u),
            "S" => u.push(tok[2].to_string()),
            "M" if tok[1] != "-" => {
                for sub in tok[1].split(';') {
                    let f: Vec<&str> = sub.split(':').collect();
                    match f[0] {
                        "N" => add_list(f[1], &mut u),
                        "S" => u.push(f[2].to_string()),
                        "G" => u.push(f[1].to_string()),
                        _ => {}
                    }
                }
            }
            _ => {}
        }
    }
    u.push("_".into());
    u.sort();
    u.dedup();
    u
}

/// assignments to `n` variables over `base` values: all of them when there
/// are at most 81, else 48 seeded samples
fn assignments(n: usize, base: u64, rng: &mut Rng) -> Vec<Vec<u8>> {
    let total = (base as f64).powi(n as i32);
    if total <= 81.0 {
        let total = total as u64;
        (0..total)
            .map(|mut x| {
                (0..n)
                    .map(|_| {
                        let d = (x % base) as u8;
                        x /= base;
                        d
                    })
                    .collect()
            })
            .collect()
    } else {
        (0..48).map(|_| (0..n).map(|_| rng.below(base) as u8).collect()).collect()
    }
}

/// Every manager owns a gc thread that only learns about the manager's end
/// when it already waits on its condition variable; a manager that lives for
/// a few microseconds leaves its thread behind (tens of thousands of them
/// exhaust the address-space mappings of the process).  Finished managers
/// are therefore parked and dropped `RETIRE_DEPTH` cases later.
const RETIRE_DEPTH: usize = 256;
static RETIRED: std::sync::Mutex<std::collections::VecDeque<Box<dyn std::any::Any + Send>>> =
    std::sync::Mutex::new(std::collections::VecDeque::new());
fn retire<T: Send + 'static>(x: T) {
    let old = {
        let mut q = RETIRED.lock().unwrap_or_else(|e| e.into_inner());
        q.push_back(Box::new(x));
        if q.len() > RETIRE_DEPTH {
            q.pop_front()
        } else {
            None
        }
    };
    drop(old);
}

fn perm(n: u32, seed: u64) -> Vec<VarNo> {
    let mut rng = Rng::new(seed);
    let mut p: Vec<VarNo> = (0..n).collect();
    for i in (1..p.len()).rev() {
        let j = rng.below(i as u64 + 1) as usize;
        p.swap(i, j);
    }
    p
}

// ---------------------------------------------------------------------------
// one runner per diagram kind (concrete types; the shared parts are generic)
// ---------------------------------------------------------------------------
macro_rules! runner {
    ($fname:ident, $fun:ty, $newmgr:expr, $base:expr, $sem:expr,
     var: $mkvar:expr, and: $and:expr, or: $or:expr, not: $not:expr, eval: $eval:expr) => {
        pub fn $fname(case: &Case, out: &mut dyn FnMut(String)) {
            let mref = $newmgr;
            let uni = universe(case);
            let mut handles: Vec<$fun> = Vec::new();
            let mut rng = Rng::new(case.param_u64("s", 7));
            let eval: fn(&$fun, &[u8]) -> String = $eval;
            let table = |f: &$fun, asg: &[Vec<u8>], ext: &dyn Fn(usize) -> u8, n_new: usize| -> String {
                asg.iter()
                    .map(|a| {
                        let mut full = a.clone();
                        full.extend((0..n_new).map(|i| ext(i)));
                        eval(f, &full)
                    })
                    .collect::<Vec<_>>()
                    .join(".")
            };
            for line in &case.ops {
                let tok: Vec<&str> = line.split_whitespace().collect();
                let mut sem = String::new();
                let res = match tok[0] {
                    "V" | "N" | "S" | "M" => {
                        let adds = tok[0] != "S";
                        // handles observed across an adding call: first two and last two
                        let sel: Vec<usize> = if $sem && adds {
                            let k = handles.len();
                            let mut s: Vec<usize> = (0..k.min(2)).chain(k.saturating_sub(2)..k).collect();
                            s.dedup();
                            s
                        } else {
                            Vec::new()
                        };
                        let n_old = mref.with_manager_shared(|m| m.num_vars()) as usize;
                        let asg = if sel.is_empty() { Vec::new() } else { assignments(n_old, $base, &mut rng) };
                        let before: Vec<String> = sel.iter().map(|&i| table(&handles[i], &asg, &|_| 0, 0)).collect();
                        let r = mref.with_manager_exclusive(|m| mgr_op(m, &tok));
                        if !sel.is_empty() {
                            let n_new = mref.with_manager_shared(|m| m.num_vars()) as usize - n_old;
                            let rnd: Vec<u8> = (0..n_new).map(|_| rng.below($base) as u8).collect();
                            let parts: Vec<String> = sel
                                .iter()
                                .zip(before)
                                .map(|(&i, b)| {
                                    let f = &handles[i];
                                    format!(
                                        "h{}|{}|{}|{}|{}",
                                        i,
                                        b,
                                        table(f, &asg, &|_| 0, n_new),
                                        table(f, &asg, &|_| 1, n_new),
                                        table(f, &asg, &|j| rnd[j], n_new)
                                    )
                                })
                                .collect();
                            sem = format!(" # sem {}", parts.join(","));
                        }
                        r
                    }
                    "F" => {
                        let nv = mref.with_manager_shared(|m| m.num_vars());
                        let nh = handles.len();
                        let idx = |t: &str| t.parse::<usize>().unwrap() % nh.max(1);
                        let f: Option<$fun> = match tok[1] {
                            "v" if nv > 0 => {
                                let v = tok[2].parse::<u32>().unwrap() % nv;
                                mref.with_manager_shared(|m| ($mkvar)(m, v))
                            }
                            "a" if nh > 0 => ($and)(&handles[idx(tok[2])], &handles[idx(tok[3])]),
                            "o" if nh > 0 => ($or)(&handles[idx(tok[2])], &handles[idx(tok[3])]),
                            "n" if nh > 0 => ($not)(&handles[idx(tok[2])]),
                            _ => None,
                        };
                        match f {
                            Some(f) => {
                                handles.push(f);
                                "h".to_string()
                            }
                            None => "skip".to_string(),
                        }
                    }
                    "G" => {
                        mref.with_manager_shared(|m| m.gc());
                        "u".to_string()
                    }
                    "R" => {
                        let seed = tok[1].parse().unwrap();
                        mref.with_manager_exclusive(|m| {
                            let order = perm(m.num_vars(), seed);
                            oxidd_reorder::set_var_order_seq(m, &order);
                        });
                        "u".to_string()
                    }
                    o => panic!("unknown op {o}"),
                };
                let obs = mref.with_manager_shared(|m| observe(m, &uni));
                out(format!("{line} -> {res} # {obs}{sem}"));
            }
            drop(handles);
            retire(mref);
        }
    };
}

fn bits(a: &[u8]) -> impl Iterator<Item = (VarNo, bool)> + '_ {
    a.iter().enumerate().map(|(v, &b)| (v as VarNo, b != 0))
}

runner!(run_bdd, oxidd::bdd::BDDFunction, oxidd::bdd::new_manager(2048, 256, 1), 2, true,
    var: |m, v| oxidd::bdd::BDDFunction::var(m, v).ok(),
    and: |a: &oxidd::bdd::BDDFunction, b| a.and(b).ok(),
    or: |a: &oxidd::bdd::BDDFunction, b| a.or(b).ok(),
    not: |a: &oxidd::bdd::BDDFunction| a.not().ok(),
    eval: |f, a| (f.eval(bits(a)) as u8).to_string());

runner!(run_bcdd, oxidd::bcdd::BCDDFunction, oxidd::bcdd::new_manager(2048, 256, 1), 2, true,
    var: |m, v| oxidd::bcdd::BCDDFunction::var(m, v).ok(),
    and: |a: &oxidd::bcdd::BCDDFunction, b| a.and(b).ok(),
    or: |a: &oxidd::bcdd::BCDDFunction, b| a.or(b).ok(),
    not: |a: &oxidd::bcdd::BCDDFunction| a.not().ok(),
    eval: |f, a| (f.eval(bits(a)) as u8).to_string());

// ZBDD: the denotation of a ZBDD handle depends on the variable domain by
// design (documented at `Manager::add_vars`), so only the bookkeeping is observed.
runner!(run_zbdd, oxidd::zbdd::ZBDDFunction, oxidd::zbdd::new_manager(2048, 256, 1), 2, false,
    var: |m, v| oxidd::zbdd::ZBDDFunction::var(m, v).ok(),
    and: |a: &oxidd::zbdd::ZBDDFunction, b| a.and(b).ok(),
    or: |a: &oxidd::zbdd::ZBDDFunction, b| a.or(b).ok(),
    not: |_a: &oxidd::zbdd::ZBDDFunction| None,
    eval: |f, a| (f.eval(bits(a)) as u8).to_string());

runner!(run_tdd, oxidd::tdd::TDDFunction, oxidd::tdd::new_manager(2048, 256, 1), 3, true,
    var: |m, v| oxidd::tdd::TDDFunction::var(m, v).ok(),
    and: |a: &oxidd::tdd::TDDFunction, b| a.and(b).ok(),
    or: |a: &oxidd::tdd::TDDFunction, b| a.or(b).ok(),
    not: |a: &oxidd::tdd::TDDFunction| a.not().ok(),
    eval: |f, a| {
        let args = a.iter().enumerate().map(|(v, &b)| (v as VarNo, match b { 0 => Some(false), 1 => Some(true), _ => None }));
        match f.eval(args) { Some(false) => "0".into(), Some(true) => "1".into(), None => "u".into() }
    });

#[cfg(feature = "mtbdd")]
mod mt {
    use super::*;
    use oxidd::mtbdd::terminal::I64;
    use oxidd::PseudoBooleanFunction;
    pub type F = oxidd::mtbdd::MTBDDFunction<I64>;
    runner!(run_mtbdd, F, oxidd::mtbdd::new_manager::<I64>(2048, 256, 256, 1), 2, true,
        var: |m, v| F::var(m, v).ok(),
        and: |a: &F, b| PseudoBooleanFunction::mul(a, b).ok(),
        or: |a: &F, b| PseudoBooleanFunction::add(a, b).ok(),
        not: |_a: &F| None,
        eval: |f, a| format!("{:?}", f.eval(bits(a))));
}

// ---------------------------------------------------------------------------
// generator
// ---------------------------------------------------------------------------
const A: &str = "61";
const B: &str = "62";
const C: &str = "63";

fn alphabet_full() -> Vec<String> {
    let mut al: Vec<String> = Vec::new();
    al.push("V 1".into());
    al.push("V 2".into());
    for x in ["_", A, B, C] {
        al.push(format!("N {x}"));
    }
    al.push(format!("N {A},{B}"));
    al.push(format!("N {A},{A}"));
    al.push(format!("N {B},_,{A}"));
    for v in ["0", "1", "L"] {
        for x in ["_", A, B] {
            al.push(format!("S {v} {x}"));
        }
    }
    // add_named_vars_from_map: plain, with an unnamed hole and a rename inside
    // the argument, with a rejected call inside the argument
    al.push(format!("M N:{A},{C}"));
    al.push(format!("M U:1;N:{B};S:0:{C};S:1:{A}"));
    al.push(format!("M N:{C},{C};G:{B};S:0:_"));
    al
}

fn alphabet_small() -> Vec<String> {
    vec![
        "V 1".into(),
        "N _".into(),
        format!("N {A}"),
        format!("N {B}"),
        format!("N {A},{B}"),
        format!("N {A},{A}"),
        format!("S 0 {A}"),
        format!("S 0 {B}"),
        "S 0 _".into(),
        format!("S 1 {A}"),
        format!("S L {B}"),
        format!("M N:{B},{C};S:0:{A}"),
    ]
}

fn random_name(rng: &mut Rng) -> String {
    const POOL: &[&str] = &[
        "a", "A", "b", "x0", "x1", " ", "a b", "\t", "\u{0}", "ä", "a\u{308}", "ß", "ſ", "\u{3a9}", "\u{2126}", "变量", "переменная",
        "🦀", "🦀🦀", "\u{feff}", "\u{200b}", "é", "e\u{301}", "x,y", "x;y", "x:y", "_", "-", ".", "#", "->",
    ];
    match rng.below(10) {
        0..=5 => (*rng.pick(POOL)).to_string(),
        6 | 7 => {
            let n = rng.range(1, 4);
            (0..n)
                .map(|_| loop {
                    let c = match rng.below(4) {
                        0 => rng.below(0x80) as u32,
                        1 => rng.below(0x800) as u32,
                        2 => rng.below(0x10000) as u32,
                        _ => rng.below(0x110000) as u32,
                    };
                    if let Some(ch) = char::from_u32(c) {
                        break ch;
                    }
                })
                .collect()
        }
        _ => format!("v{}", rng.below(6)),
    }
}

fn gen_random_case(rng: &mut Rng, reorder: bool) -> Vec<String> {
    let pool: Vec<String> = (0..rng.range(2, 7)).map(|_| hex(&random_name(rng))).collect();
    let name = |rng: &mut Rng| if rng.chance(1, 6) { "_".to_string() } else { rng.pick(&pool).clone() };
    let list = |rng: &mut Rng| {
        let n = rng.below(5);
        if n == 0 {
            ".".to_string()
        } else {
            (0..n).map(|_| name(rng)).collect::<Vec<_>>().join(",")
        }
    };
    let len = rng.range(8, 40);
    let mut ops = Vec::new();
    let mut approx_vars = 0u64; // upper bound on the number of variables (guides the choice of v)
    for _ in 0..len {
        let r = rng.below(100);
        let var = |rng: &mut Rng, n: u64| if rng.chance(1, 12) { "L".to_string() } else { rng.below(n + 1).to_string() };
        if r < 10 {
            let k = rng.below(4);
            approx_vars += k;
            ops.push(format!("V {k}"));
        } else if r < 30 {
            let l = list(rng);
            approx_vars += 4;
            ops.push(format!("N {l}"));
        } else if r < 55 {
            ops.push(format!("S {} {}", var(rng, approx_vars.min(12)), name(rng)));
        } else if r < 65 {
            let nsub = rng.below(5);
            let mut subs = Vec::new();
            let mut mv = 0u64;
            for _ in 0..nsub {
                subs.push(match rng.below(4) {
                    0 => {
                        let k = rng.below(3);
                        mv += k;
                        format!("U:{k}")
                    }
                    1 => {
                        mv += 4;
                        format!("N:{}", list(rng))
                    }
                    2 => format!("S:{}:{}", rng.below(mv.min(8) + 1), name(rng)),
                    _ => {
                        mv += 1;
                        format!("G:{}", name(rng))
                    }
                });
            }
            approx_vars += mv;
            ops.push(if subs.is_empty() { "M -".to_string() } else { format!("M {}", subs.join(";")) });
        } else if r < 85 {
            ops.push(match rng.below(5) {
                0 | 1 => format!("F v {}", rng.below(16)),
                2 => format!("F a {} {}", rng.below(16), rng.below(16)),
                3 => format!("F o {} {}", rng.below(16), rng.below(16)),
                _ => format!("F n {}", rng.below(16)),
            });
        } else if r < 92 || !reorder {
            ops.push("G".into());
        } else {
            ops.push(format!("R {}", rng.below(1 << 20)));
        }
    }
    ops
}

fn gen(tier: &str, seed: u64, shard: u64, nshards: u64) {
    let mut rng = Rng::new(seed);
    let reorder = std::env::var("VERIF_C16_REORDER").map(|v| v == "1").unwrap_or(false);
    let mut id = 0u64;
    let mut emit = |dd: &str, s: u64, ops: &[String]| {
        if id % nshards == shard {
            println!("CASE {id} dd={dd} s={s}");
            for o in ops {
                println!("{o}");
            }
            println!("END");
        }
        id += 1;
    };
    let kinds: &[&str] =
        if cfg!(feature = "mtbdd") { &["bdd", "bcdd", "zbdd", "tdd", "mtbdd"] } else { &["bdd", "bcdd", "zbdd", "tdd"] };
    let exhaustive = |al: &[String], len: usize, dd: &str, emit: &mut dyn FnMut(&str, u64, &[String])| {
        let n = al.len();
        let mut idx = vec![0usize; len];
        'outer: loop {
            let ops: Vec<String> = idx.iter().map(|&i| al[i].clone()).collect();
            emit(dd, 1, &ops);
            let mut p = len;
            loop {
                if p == 0 {
                    break 'outer;
                }
                p -= 1;
                idx[p] += 1;
                if idx[p] < n {
                    break;
                }
                idx[p] = 0;
            }
        }
    };
    // (a) exhaustive call sequences (the observable is printed after every
    // call, so the sequences of maximal length cover all shorter ones)
    let full = alphabet_full();
    let small = alphabet_small();
    if tier == "thorough" {
        exhaustive(&small, 6, "bdd", &mut emit);
        exhaustive(&full, 4, "bdd", &mut emit);
        for dd in &kinds[1..] {
            exhaustive(&full, 3, dd, &mut emit);
            exhaustive(&small, 4, dd, &mut emit);
        }
    } else {
        exhaustive(&full, 4, "bdd", &mut emit);
        for dd in &kinds[1..] {
            exhaustive(&full, 3, dd, &mut emit);
        }
    }
    // (b) handles across adding calls: a fixed prelude that creates handles,
    // then every pair of calls of the full alphabet
    for dd in kinds {
        for o1 in &full {
            for o2 in &full {
                let ops: Vec<String> = vec![
                    "V 2".to_string(),
                    "F v 0".into(),
                    "F v 1".into(),
                    "F a 0 1".into(),
                    "F n 2".into(),
                    "F o 3 0".into(),
                    o1.clone(),
                    "F v 2".into(),
                    "F o 4 5".into(),
                    o2.clone(),
                    "G".into(),
                ];
                emit(dd, 3, &ops);
            }
        }
    }
    // (c) random longer sequences with unicode names, handle creation, gc
    // (and reordering when VERIF_C16_REORDER=1)
    let nrand = if tier == "thorough" { 60000 } else { 10000 };
    for i in 0..nrand {
        let dd = kinds[i % kinds.len()];
        let s = rng.next() >> 16;
        let ops = gen_random_case(&mut rng, reorder);
        emit(dd, s, &ops);
    }
}

fn main() {
    let args: Vec<String> = std::env::args().collect();
    match mode().as_str() {
        "gen" => {
            let (shard, nshards) =
                if args.len() >= 6 { (args[4].parse().unwrap(), args[5].parse().unwrap()) } else { (0, 1) };
            gen(&args[2], args[3].parse().unwrap(), shard, nshards)
        }
        "run" => {
            std::panic::set_hook(Box::new(|_| {}));
            let cases = read_cases_from_args();
            run_cases_watchdog(cases, Duration::from_millis(env_u64("VERIF_HANG_MS", 8000)), |case, out| {
                match case.param("dd").unwrap_or("bdd") {
                    "bdd" => run_bdd(case, out),
                    "bcdd" => run_bcdd(case, out),
                    "zbdd" => run_zbdd(case, out),
                    "tdd" => run_tdd(case, out),
                    #[cfg(feature = "mtbdd")]
                    "mtbdd" => mt::run_mtbdd(case, out),
                    o => panic!("diagram kind {o} not available in this build"),
                }
            });
        }
        m => panic!("unknown mode {m}"),
    }
}
