//! C12 (number types): drives `oxidd_core::util::num::{Natural, Saturating, F64}`
//! through op sequences over a small register file.
//!
//! `h_nat gen <tier> <seed>` prints a case file, `h_nat run [file]` executes a
//! case file against the implementation and prints one result line per op.
//! Results are reported through public accessors only (`mantissa()`, `exp()`,
//! `is_nan()`, `bit_width()`, `TryFrom`, `f64::from`, the `fmt` traits).
//!
//! Case header: `<id> kind=nat|sat64|sat128|f64`.
//!
//! Ops of `kind=nat` (registers are decimal indices, `k` is a decimal u64):
//!   from8|from16|from32|from64|from128 r v      r := Natural::from(v)
//!   dig r h0,h1,..|-                            r := from_le_digits (hex digits)
//!   add r a b | shl r a k | shr r a k | shl32 r a k | shr32 r a k
//!   clone r a | clonefrom r a                   (clone_from into the existing r)
//!   cmp a b | to64 a | to128 a | f64 a | fmt a | fmtf a
//! Natural results are printed as `nan` or `m=<hex digits, le> e=<exp> bw=<bit_width>`.

use hcommon::*;
use oxidd_core::util::num::{Natural, Saturating, F64};
use std::hash::{Hash, Hasher};
use std::time::Duration;

const NREG: usize = 16;
/// formatting is skipped for exponents above this bound (the output would have
/// that many characters); additions are skipped when the operands' exponents
/// differ by more than this (the result would need that many bits)
const BIG: u64 = 1 << 16;

fn desc(n: &Natural) -> String {
    if n.is_nan() {
        return "nan".into();
    }
    let m: Vec<String> = n.mantissa().iter().map(|d| format!("{d:x}")).collect();
    format!("m={} e={} bw={}", m.join(","), n.exp(), n.bit_width())
}

fn hash_of(n: &Natural) -> u64 {
    let mut h = std::collections::hash_map::DefaultHasher::new();
    n.hash(&mut h);
    h.finish()
}

fn run_nat(case: &Case, out: &mut dyn FnMut(String)) {
    let mut regs: Vec<Natural> = (0..NREG).map(|_| Natural::ZERO).collect();
    for line in &case.ops {
        let tok: Vec<&str> = line.split_whitespace().collect();
        let r = |i: usize| tok[i].parse::<usize>().unwrap() % NREG;
        let k = |i: usize| tok[i].parse::<u64>().unwrap();
        let res: String = match tok[0] {
            "from8" => {
                regs[r(1)] = Natural::from(k(2) as u8);
                desc(&regs[r(1)])
            }
            "from16" => {
                regs[r(1)] = Natural::from(k(2) as u16);
                desc(&regs[r(1)])
            }
            "from32" => {
                regs[r(1)] = Natural::from(k(2) as u32);
                desc(&regs[r(1)])
            }
            "from64" => {
                regs[r(1)] = Natural::from(k(2));
                desc(&regs[r(1)])
            }
            "from128" => {
                regs[r(1)] = Natural::from(tok[2].parse::<u128>().unwrap());
                desc(&regs[r(1)])
            }
            "dig" => {
                let ds: Vec<u64> = if tok[2] == "-" {
                    Vec::new()
                } else {
                    tok[2].split(',').map(|h| u64::from_str_radix(h, 16).unwrap()).collect()
                };
                regs[r(1)] = Natural::from_le_digits(&ds);
                desc(&regs[r(1)])
            }
            "add" => {
                let (a, b) = (regs[r(2)].clone(), regs[r(3)].clone());
                let far = !a.is_nan()
                    && !b.is_nan()
                    && a.mantissa() != [0]
                    && b.mantissa() != [0]
                    && a.exp().abs_diff(b.exp()) > BIG;
                if far {
                    "skip".into()
                } else {
                    regs[r(1)] = a + b;
                    desc(&regs[r(1)])
                }
            }
            "shl" => {
                regs[r(1)] = regs[r(2)].clone() << k(3);
                desc(&regs[r(1)])
            }
            "shr" => {
                regs[r(1)] = regs[r(2)].clone() >> k(3);
                desc(&regs[r(1)])
            }
            "shl32" => {
                regs[r(1)] = regs[r(2)].clone() << (k(3) as u32);
                desc(&regs[r(1)])
            }
            "shr32" => {
                regs[r(1)] = regs[r(2)].clone() >> (k(3) as u32);
                desc(&regs[r(1)])
            }
            "clone" => {
                regs[r(1)] = regs[r(2)].clone();
                desc(&regs[r(1)])
            }
            "clonefrom" => {
                let src = regs[r(2)].clone();
                regs[r(1)].clone_from(&src);
                desc(&regs[r(1)])
            }
            "cmp" => {
                let (a, b) = (&regs[r(1)], &regs[r(2)]);
                let c = match a.partial_cmp(b) {
                    None => "none",
                    Some(std::cmp::Ordering::Less) => "lt",
                    Some(std::cmp::Ordering::Equal) => "eq",
                    Some(std::cmp::Ordering::Greater) => "gt",
                };
                format!("{c} e={} h={}", (a == b) as u8, (hash_of(a) == hash_of(b)) as u8)
            }
            "to64" => match u64::try_from(&regs[r(1)]) {
                Ok(v) => format!("ok {v}"),
                Err(_) => "err".into(),
            },
            "to128" => match u128::try_from(&regs[r(1)]) {
                Ok(v) => format!("ok {v}"),
                Err(_) => "err".into(),
            },
            "f64" => format!("{:016x}", f64::from(&regs[r(1)]).to_bits()),
            "fmt" => {
                let a = &regs[r(1)];
                if !a.is_nan() && a.exp() > BIG {
                    "skip".into()
                } else {
                    format!("d={a} b={a:b} o={a:o} x={a:x} X={a:X}")
                }
            }
            "fmtf" => {
                let a = &regs[r(1)];
                if !a.is_nan() && a.exp() > BIG {
                    "skip".into()
                } else {
                    format!(
                        "[{a:#b}] [{a:#o}] [{a:#x}] [{a:#X}] [{a:>12x}] [{a:<12o}] [{a:*^13b}] [{a:012x}] [{a:+x}] [{a:#014X}] [{a:-<+#9o}] [{a:7}]"
                    )
                }
            }
            other => panic!("unknown op {other}"),
        };
        out(format!("{line} -> {res}"));
    }
}

macro_rules! run_sat {
    ($name:ident, $t:ty) => {
        fn $name(case: &Case, out: &mut dyn FnMut(String)) {
            let mut regs: Vec<Saturating<$t>> = (0..NREG).map(|_| Saturating(0)).collect();
            for line in &case.ops {
                let tok: Vec<&str> = line.split_whitespace().collect();
                let r = |i: usize| tok[i].parse::<usize>().unwrap() % NREG;
                let d = r(1);
                match tok[0] {
                    "from" => regs[d] = Saturating::<$t>::from(tok[2].parse::<u32>().unwrap()),
                    "raw" => regs[d] = Saturating(tok[2].parse::<$t>().unwrap()),
                    "add" => regs[d] = regs[r(2)] + regs[r(3)],
                    "sub" => {
                        // `-` panics/wraps on underflow, which the documentation leaves
                        // open: only exercised where lhs >= rhs or lhs is the marker
                        let (a, b) = (regs[r(2)], regs[r(3)]);
                        if a.0 != <$t>::MAX && a.0 < b.0 {
                            out(format!("{line} -> skip"));
                            continue;
                        }
                        regs[d] = a - b
                    }
                    "shl" => regs[d] = regs[r(2)] << tok[3].parse::<u32>().unwrap(),
                    "shr" => {
                        let k = tok[3].parse::<u32>().unwrap();
                        // `>>` with k >= BITS overflows (panic in debug): not exercised
                        if k >= <$t>::BITS && regs[r(2)].0 != <$t>::MAX {
                            out(format!("{line} -> skip"));
                            continue;
                        }
                        regs[d] = regs[r(2)] >> k
                    }
                    "addassign" => {
                        let b = regs[r(2)];
                        regs[d] += &b
                    }
                    "shlassign" => regs[d] <<= tok[2].parse::<u32>().unwrap(),
                    "shrassign" => {
                        let k = tok[2].parse::<u32>().unwrap();
                        if k >= <$t>::BITS && regs[d].0 != <$t>::MAX {
                            out(format!("{line} -> skip"));
                            continue;
                        }
                        regs[d] >>= k
                    }
                    other => panic!("unknown op {other}"),
                }
                out(format!("{line} -> {}", regs[d].0));
            }
        }
    };
}
run_sat!(run_sat64, u64);
run_sat!(run_sat128, u128);

fn run_f64(case: &Case, out: &mut dyn FnMut(String)) {
    let mut regs: Vec<F64> = (0..NREG).map(|_| F64(0.0)).collect();
    for line in &case.ops {
        let tok: Vec<&str> = line.split_whitespace().collect();
        let r = |i: usize| tok[i].parse::<usize>().unwrap() % NREG;
        let d = r(1);
        match tok[0] {
            "from" => regs[d] = F64::from(tok[2].parse::<u32>().unwrap()),
            "raw" => regs[d] = F64(f64::from_bits(u64::from_str_radix(tok[2], 16).unwrap())),
            "add" => regs[d] = regs[r(2)] + regs[r(3)],
            "sub" => regs[d] = regs[r(2)] - regs[r(3)],
            "shl" => regs[d] = regs[r(2)] << tok[3].parse::<u32>().unwrap(),
            "shr" => regs[d] = regs[r(2)] >> tok[3].parse::<u32>().unwrap(),
            other => panic!("unknown op {other}"),
        }
        out(format!("{line} -> {:016x}", regs[d].0.to_bits()));
    }
}

// --------------------------------------------------------------------------
// generator
// --------------------------------------------------------------------------

struct Gen {
    id: u64,
    rng: Rng,
}

impl Gen {
    fn emit(&mut self, kind: &str, ops: &[String]) {
        println!("CASE {} kind={kind}", self.id);
        for o in ops {
            println!("{o}");
        }
        println!("END");
        self.id += 1;
    }

    /// random digit with "interesting" shapes
    fn digit(&mut self) -> u64 {
        match self.rng.below(10) {
            0 => 0,
            1 => u64::MAX,
            2 => 1,
            3 => 1 << 63,
            4 => u64::MAX << self.rng.below(64),
            5 => u64::MAX >> self.rng.below(64),
            6 => 1u64 << self.rng.below(64),
            _ => self.rng.next(),
        }
    }

    fn digits(&mut self, max: u64) -> String {
        let n = self.rng.below(max + 1);
        if n == 0 {
            return "-".into();
        }
        let v: Vec<String> = (0..n).map(|_| format!("{:x}", self.digit())).collect();
        v.join(",")
    }
}

fn hexdigits(limbs: &[u64]) -> String {
    let v: Vec<String> = limbs.iter().map(|d| format!("{d:x}")).collect();
    v.join(",")
}

/// 2^k + delta (delta in -1..=1) as little-endian limbs
fn pow2_delta(k: u32, delta: i32) -> Vec<u64> {
    let n = (k / 64 + 1) as usize;
    let mut v = vec![0u64; n];
    v[(k / 64) as usize] = 1u64 << (k % 64);
    match delta {
        1 => v[0] |= 1, // k >= 1
        -1 => {
            // 2^k - 1: all ones below bit k
            for (i, d) in v.iter_mut().enumerate() {
                let lo = i as u32 * 64;
                *d = if k >= lo + 64 {
                    u64::MAX
                } else if k > lo {
                    (1u64 << (k - lo)) - 1
                } else {
                    0
                };
            }
        }
        _ => {}
    }
    v
}

const SHIFTS: [u64; 7] = [0, 1, 63, 64, 65, 1 << 40, u64::MAX - 1];
const KS: [u32; 10] = [31, 32, 63, 64, 65, 127, 128, 129, 191, 192];

fn boundary_set() -> Vec<Vec<u64>> {
    let mut b = vec![vec![0u64], vec![1u64]];
    for k in KS {
        for d in [-1, 0, 1] {
            b.push(pow2_delta(k, d));
        }
    }
    b
}

fn observe(ops: &mut Vec<String>, r: usize) {
    ops.push(format!("to64 {r}"));
    ops.push(format!("to128 {r}"));
    ops.push(format!("f64 {r}"));
    ops.push(format!("fmt {r}"));
}

fn gen(tier: &str, seed: u64) {
    let thorough = tier == "thorough";
    let mut g = Gen { id: 0, rng: Rng::new(seed) };

    // (a) all operand pairs of the boundary set: sum (both orders), comparison,
    // all shifts of the sum in both directions, conversions, text
    let bs = boundary_set();
    for a in &bs {
        for b in &bs {
            let mut ops = vec![format!("dig 0 {}", hexdigits(a)), format!("dig 1 {}", hexdigits(b))];
            ops.push("add 2 0 1".into());
            ops.push("add 3 1 0".into());
            ops.push("cmp 0 1".into());
            ops.push("cmp 1 0".into());
            ops.push("cmp 2 3".into());
            ops.push("cmp 2 0".into());
            observe(&mut ops, 2);
            for s in SHIFTS {
                ops.push(format!("shl 4 2 {s}"));
                ops.push(format!("shr 5 4 {s}"));
                ops.push("cmp 5 2".into());
                ops.push(format!("shr 6 2 {s}"));
                ops.push(format!("shl 7 0 {s}"));
                ops.push(format!("shl 8 1 {s}"));
                ops.push("add 9 7 8".into());
                ops.push("cmp 9 4".into());
                if s <= u32::MAX as u64 {
                    ops.push(format!("shl32 10 2 {s}"));
                    ops.push(format!("shr32 11 10 {s}"));
                    ops.push("cmp 11 2".into());
                    ops.push("cmp 10 4".into());
                }
                ops.push("cmp 4 2".into());
                ops.push("cmp 6 2".into());
            }
            // the error value is absorbing
            ops.push("shl 12 9 2".into());
            ops.push("add 13 12 0".into());
            ops.push("add 13 1 12".into());
            ops.push("add 13 12 12".into());
            ops.push("shr 13 12 1".into());
            ops.push("cmp 12 12".into());
            ops.push("cmp 12 0".into());
            observe(&mut ops, 12);
            // halving as in sat_count
            ops.push("shl 14 0 1".into());
            ops.push("shl 15 1 1".into());
            ops.push("add 14 14 15".into());
            ops.push("shr 14 14 1".into());
            ops.push("cmp 14 2".into());
            ops.push("shr 15 2 1".into());
            g.emit("nat", &ops);
        }
    }

    // (b) conversions from all integer widths and back
    {
        let mut vals: Vec<u128> = vec![0, 1, 2, 3, 4, 255, 256, 65535, 65536];
        for k in 0..128u32 {
            for d in [-1i32, 0, 1] {
                let v = (1u128 << k).wrapping_add(d as i128 as u128);
                vals.push(v);
            }
            vals.push(u128::MAX << k);
            vals.push(u128::MAX >> k);
            vals.push((u64::MAX as u128) << k);
            vals.push((((1u128 << 63) | 1) << k) | 0);
            vals.push(((1u128 << 64) | 1).wrapping_shl(k));
            vals.push(((1u128 << 62) | 1).wrapping_shl(k));
        }
        let nrnd = if thorough { 20000 } else { 2000 };
        for _ in 0..nrnd {
            let w = g.rng.range(1, 128) as u32;
            let hi = g.rng.next() as u128;
            let lo = g.rng.next() as u128;
            let mut v = (hi << 64) | lo;
            if w < 128 {
                v &= (1u128 << w) - 1;
            }
            v |= 1;
            let s = g.rng.below(129 - w as u64) as u32;
            vals.push(v << s);
        }
        for chunk in vals.chunks(4) {
            let mut ops = Vec::new();
            for (i, &v) in chunk.iter().enumerate() {
                let r = i;
                ops.push(format!("from128 {r} {v}"));
                observe(&mut ops, r);
                ops.push(format!("dig 8 {:x},{:x}", v as u64, (v >> 64) as u64));
                ops.push(format!("cmp {r} 8"));
                ops.push(format!("from64 9 {}", v as u64));
                ops.push("to64 9".into());
                ops.push("to128 9".into());
                ops.push("f64 9".into());
                ops.push(format!("cmp {r} 9"));
                ops.push(format!("add 10 {r} 9"));
                ops.push(format!("from32 11 {}", v as u32));
                ops.push(format!("from16 12 {}", v as u16));
                ops.push(format!("from8 13 {}", v as u8));
                ops.push("to64 11".into());
                ops.push("to128 12".into());
                ops.push("to64 13".into());
                ops.push("add 14 11 12".into());
                ops.push("add 14 14 13".into());
                ops.push("fmt 14".into());
                ops.push("fmtf 14".into());
                ops.push(format!("fmtf {r}"));
                ops.push(format!("shl 15 {r} {}", g.rng.below(130)));
                ops.push("to128 15".into());
                ops.push("to64 15".into());
                ops.push("f64 15".into());
            }
            g.emit("nat", &ops);
        }
    }

    // (c) f64 conversion around the precision / range limits
    {
        let mut ops = Vec::new();
        let mut n = 0;
        for w in [1u64, 2, 52, 53, 54, 55, 56, 63, 64, 65, 66, 117, 118, 127, 128, 129] {
            for _ in 0..(if thorough { 40 } else { 8 }) {
                // mantissa of exactly w bits, odd, with interesting low bits
                let nd = (w as usize + 63) / 64;
                let mut limbs: Vec<u64> = (0..nd).map(|_| g.rng.next()).collect();
                if g.rng.chance(1, 3) {
                    for l in limbs.iter_mut() {
                        *l = if g.rng.chance(1, 2) { 0 } else { u64::MAX };
                    }
                }
                let top = (w - 1) % 64;
                let last = nd - 1;
                limbs[last] &= if top == 63 { u64::MAX } else { (1u64 << (top + 1)) - 1 };
                limbs[last] |= 1u64 << top;
                limbs[0] |= 1;
                ops.push(format!("dig 0 {}", hexdigits(&limbs)));
                for e in [0u64, 1, 900, 1023 - w.min(1023), 1024 - w.min(1024), 1025, 1 << 40, u64::MAX - 1] {
                    ops.push(format!("shl 1 0 {e}"));
                    ops.push("f64 1".into());
                }
                n += 1;
                if n % 8 == 0 {
                    g.emit("nat", &ops);
                    ops.clear();
                }
            }
        }
        if !ops.is_empty() {
            g.emit("nat", &ops);
        }
    }

    // (d) clone / clone_from between all representation shapes
    {
        let shapes = ["-", "1", "5", "1,1", "3,0,1", "1,2,3,4", "ffffffffffffffff,ffffffffffffffff"];
        for a in shapes {
            for b in shapes {
                let mut ops = vec![format!("dig 0 {a}"), format!("dig 1 {b}")];
                ops.push("shl 1 1 7".into());
                ops.push("clone 2 1".into());
                ops.push("cmp 2 1".into());
                ops.push("clonefrom 0 1".into());
                ops.push("cmp 0 1".into());
                ops.push("add 3 0 1".into());
                ops.push("add 4 1 1".into());
                ops.push("cmp 3 4".into());
                ops.push("fmt 0".into());
                g.emit("nat", &ops);
            }
        }
    }

    // (e) random operands up to 512 bits (built with from_le_digits / shl /
    // add), random op sequences
    let nrand = if thorough { 100_000 } else { 6000 };
    for _ in 0..nrand {
        let mut ops = Vec::new();
        let nreg = 6u64;
        for r in 0..nreg {
            match g.rng.below(8) {
                0 => ops.push(format!("from64 {r} {}", g.digit())),
                1 => {
                    let v = ((g.digit() as u128) << 64) | g.digit() as u128;
                    ops.push(format!("from128 {r} {v}"))
                }
                _ => {
                    let ds = g.digits(8);
                    ops.push(format!("dig {r} {ds}"))
                }
            }
            if g.rng.chance(1, 2) {
                let s = *g.rng.pick(&[1u64, 3, 63, 64, 65, 128, 200]);
                ops.push(format!("shl {r} {r} {s}"));
            }
        }
        let len = g.rng.range(8, 40);
        for _ in 0..len {
            let (d, a, b) = (g.rng.below(nreg), g.rng.below(nreg), g.rng.below(nreg));
            let c = g.rng.below(100);
            if c < 40 {
                ops.push(format!("add {d} {a} {b}"));
            } else if c < 50 {
                // same operand twice / same exponent: cancellation of low bits
                ops.push(format!("add {d} {a} {a}"));
            } else if c < 60 {
                let s = if g.rng.chance(1, 8) { *g.rng.pick(&SHIFTS) } else { g.rng.below(140) };
                ops.push(format!("shl {d} {a} {s}"));
            } else if c < 70 {
                let s = if g.rng.chance(1, 8) { *g.rng.pick(&SHIFTS) } else { g.rng.below(140) };
                ops.push(format!("shr {d} {a} {s}"));
            } else if c < 75 {
                // exact halving: (a + a) >> 1, (a<<s + b<<s) >> s
                let s = g.rng.range(1, 70);
                ops.push(format!("shl 6 {a} {s}"));
                ops.push(format!("shl 7 {b} {s}"));
                ops.push("add 8 6 7".into());
                ops.push(format!("shr {d} 8 {s}"));
                ops.push(format!("add 9 {a} {b}"));
                ops.push(format!("cmp {d} 9"));
            } else if c < 85 {
                ops.push(format!("cmp {a} {b}"));
            } else if c < 88 {
                ops.push(format!("clonefrom {d} {a}"));
            } else if c < 90 {
                ops.push(format!("to64 {a}"));
                ops.push(format!("to128 {a}"));
            } else if c < 94 {
                ops.push(format!("f64 {a}"));
            } else if c < 98 {
                ops.push(format!("fmt {a}"));
            } else {
                ops.push(format!("fmtf {a}"));
            }
        }
        for r in 0..nreg {
            ops.push(format!("cmp {r} {}", (r + 1) % nreg));
        }
        ops.push(format!("fmt {}", g.rng.below(nreg)));
        g.emit("nat", &ops);
    }

    // (f) accumulation as in sat_count: leaves are 0 or 2^vars, inner nodes
    // (a + b) >> 1; plus chains where the halving is inexact
    let nacc = if thorough { 4000 } else { 400 };
    for _ in 0..nacc {
        let vars = *g.rng.pick(&[0u64, 1, 3, 16, 17, 63, 64, 65, 86, 127, 128, 1100, 4000]);
        let mut ops = vec!["from32 0 0".to_string(), "from32 1 1".to_string(), format!("shl32 1 1 {vars}")];
        let nreg = 8u64;
        for r in 2..nreg {
            ops.push(format!("clone {r} {}", g.rng.below(2)));
        }
        let depth = g.rng.range(4, 60);
        for _ in 0..depth {
            let (d, a, b) = (g.rng.range(2, nreg - 1), g.rng.below(nreg), g.rng.below(nreg));
            ops.push(format!("add {d} {a} {b}"));
            ops.push(format!("shr32 {d} {d} 1"));
            if g.rng.chance(1, 6) {
                ops.push(format!("cmp {d} {a}"));
            }
        }
        for r in 2..nreg {
            ops.push(format!("fmt {r}"));
            ops.push(format!("f64 {r}"));
            ops.push(format!("to128 {r}"));
        }
        g.emit("nat", &ops);
    }

    // (g) Saturating<u64>, Saturating<u128>, F64
    let nsat = if thorough { 4000 } else { 400 };
    for kind in ["sat64", "sat128"] {
        let bits: u32 = if kind == "sat64" { 64 } else { 128 };
        for _ in 0..nsat {
            let mut ops = Vec::new();
            let nreg = 6u64;
            for r in 0..nreg {
                let v: u128 = match g.rng.below(8) {
                    0 => 0,
                    1 => 1,
                    2 => u128::MAX,
                    3 => u128::MAX - 1,
                    4 => 1u128 << g.rng.below(bits as u64),
                    5 => (1u128 << (bits - 1)) - 1 + g.rng.below(3) as u128,
                    _ => ((g.rng.next() as u128) << 64 | g.rng.next() as u128) >> g.rng.below(128),
                };
                let v = if bits == 64 { v as u64 as u128 } else { v };
                if g.rng.chance(1, 4) {
                    ops.push(format!("from {r} {}", v as u32));
                } else {
                    ops.push(format!("raw {r} {v}"));
                }
            }
            for _ in 0..g.rng.range(5, 30) {
                let (d, a, b) = (g.rng.below(nreg), g.rng.below(nreg), g.rng.below(nreg));
                let k = *g.rng.pick(&[0u64, 1, 2, 31, 32, 62, 63, 64, 65, 126, 127, 128, 129, 1100]);
                match g.rng.below(9) {
                    0 | 1 | 2 => ops.push(format!("add {d} {a} {b}")),
                    3 => ops.push(format!("sub {d} {a} {b}")),
                    4 => ops.push(format!("shl {d} {a} {k}")),
                    5 => ops.push(format!("shr {d} {a} {k}")),
                    6 => ops.push(format!("addassign {d} {a}")),
                    7 => ops.push(format!("shlassign {d} {k}")),
                    _ => ops.push(format!("shrassign {d} {k}")),
                }
            }
            // sat_count shape: 1 << vars, then halving sums
            let vars = *g.rng.pick(&[0u64, 5, 62, 63, 64, 65, 127, 128, 129, 1100]);
            ops.push("from 0 0".into());
            ops.push("from 1 1".into());
            ops.push(format!("shl 1 1 {vars}"));
            for _ in 0..g.rng.range(2, 12) {
                let (d, a, b) = (g.rng.range(2, nreg - 1), g.rng.below(nreg), g.rng.below(nreg));
                ops.push(format!("add {d} {a} {b}"));
                ops.push(format!("shr {d} {d} 1"));
            }
            g.emit(kind, &ops);
        }
    }
    for _ in 0..nsat {
        let mut ops = Vec::new();
        let nreg = 6u64;
        for r in 0..nreg {
            match g.rng.below(6) {
                0 => ops.push(format!("from {r} {}", g.rng.below(3))),
                1 => ops.push(format!("from {r} {}", g.rng.next() as u32)),
                2 => {
                    // integer-valued doubles up to 2^53 and beyond
                    let v = (g.rng.next() >> g.rng.below(64)) as f64;
                    ops.push(format!("raw {r} {:016x}", v.to_bits()))
                }
                3 => {
                    let v = (g.rng.next() >> 11) as f64 * 2f64.powi(g.rng.below(2000) as i32 - 1000);
                    ops.push(format!("raw {r} {:016x}", v.to_bits()))
                }
                _ => ops.push(format!("from {r} {}", 1u32 << g.rng.below(32))),
            }
        }
        for _ in 0..g.rng.range(5, 30) {
            let (d, a, b) = (g.rng.below(nreg), g.rng.below(nreg), g.rng.below(nreg));
            let k = *g.rng.pick(&[0u64, 1, 2, 52, 53, 54, 63, 64, 100, 1021, 1022, 1023, 1024, 1074, 1075, 2000, 2200]);
            match g.rng.below(6) {
                0 | 1 | 2 => ops.push(format!("add {d} {a} {b}")),
                3 => ops.push(format!("sub {d} {a} {b}")),
                4 => ops.push(format!("shl {d} {a} {k}")),
                _ => ops.push(format!("shr {d} {a} {k}")),
            }
        }
        let vars = *g.rng.pick(&[0u64, 5, 52, 53, 54, 64, 1020, 1021, 1022, 1023, 1100, 2044, 2045, 3000]);
        let (sh, up) = if vars >= 1021 { (vars - 1021, 1021) } else { (vars, 0) };
        ops.push("from 0 0".into());
        ops.push("from 1 1".into());
        ops.push(format!("shl 1 1 {sh}"));
        for _ in 0..g.rng.range(2, 12) {
            let (d, a, b) = (g.rng.range(2, nreg - 1), g.rng.below(nreg), g.rng.below(nreg));
            ops.push(format!("add {d} {a} {b}"));
            ops.push(format!("shr {d} {d} 1"));
        }
        for r in 2..nreg {
            ops.push(format!("shl {r} {r} {up}"));
        }
        g.emit("f64", &ops);
    }
}

fn main() {
    let args: Vec<String> = std::env::args().collect();
    match mode().as_str() {
        "gen" => {
            let tier = args.get(2).map(|s| s.as_str()).unwrap_or("quick").to_string();
            let seed = args.get(3).and_then(|s| s.parse().ok()).unwrap_or(1u64);
            gen(&tier, seed);
        }
        _ => {
            let cases = read_cases_from_args();
            let ms = env_u64("VERIF_HANG_MS", 20000);
            run_cases_watchdog(cases, Duration::from_millis(ms), |case, out| match case.param("kind") {
                Some("sat64") => run_sat64(case, out),
                Some("sat128") => run_sat128(case, out),
                Some("f64") => run_f64(case, out),
                _ => run_nat(case, out),
            });
        }
    }
}
