//! C10 (scalar part): evaluates the terminal number types `I64` and `F64` of
//! `oxidd-rules-mtbdd` (through `NumberBase` and `PartialOrd`/`PartialEq`).
//!
//! `h_num gen <tier> <seed> [part]` prints a case file, `h_num run [file]`
//! executes it on the real code.  One line per evaluation:
//!
//! ```text
//! CASE <id> ty=i64|f64
//! <op> <a> [<b>] -> <result>
//! END
//! ```
//!
//! ops: `add sub mul div` (NumberBase), `cmp` (`partial_cmp`: lt/eq/gt/none),
//! `eq` (`==`: 1/0), `zero one nan` (`is_zero/is_one/is_nan` of `a`: 1/0),
//! `from` (f64 only: the normalisation `F64::from`), `const` (i64/f64:
//! `NumberBase::zero/one/nan`, operand 0/1/2).
//! I64 values are written `nan`, `-inf`, `+inf` or decimal; F64 values as the
//! 16-hex-digit pattern of `f64::from(x).to_bits()`; operands of F64 ops are
//! bit patterns fed through `F64::from(f64::from_bits(..))`.

use hcommon::*;
use oxidd_core::function::NumberBase;
use oxidd_rules_mtbdd::terminal::{F64, I64};
use std::cmp::Ordering;
use std::time::Duration;

// ---------------------------------------------------------------- formats

fn parse_i64(s: &str) -> I64 {
    match s {
        "nan" => I64::NaN,
        "-inf" => I64::MinusInf,
        "+inf" => I64::PlusInf,
        _ => I64::Num(s.parse::<i64>().expect("i64 operand")),
    }
}

fn fmt_i64(x: I64) -> String {
    match x {
        I64::NaN => "nan".into(),
        I64::MinusInf => "-inf".into(),
        I64::PlusInf => "+inf".into(),
        I64::Num(n) => n.to_string(),
    }
}

fn parse_f64(s: &str) -> F64 {
    F64::from(f64::from_bits(u64::from_str_radix(s, 16).expect("f64 bit pattern")))
}

fn fmt_f64(x: F64) -> String {
    format!("{:016x}", f64::from(x).to_bits())
}

fn fmt_ord(o: Option<Ordering>) -> &'static str {
    match o {
        Some(Ordering::Less) => "lt",
        Some(Ordering::Equal) => "eq",
        Some(Ordering::Greater) => "gt",
        None => "none",
    }
}

fn fmt_bool(b: bool) -> &'static str {
    if b {
        "1"
    } else {
        "0"
    }
}

// ---------------------------------------------------------------- run

fn eval<T: NumberBase + Copy>(
    tok: &[&str],
    parse: &dyn Fn(&str) -> T,
    fmt: &dyn Fn(T) -> String,
) -> String {
    let a = parse(tok[1]);
    let b = || parse(tok[2]);
    match tok[0] {
        "add" => fmt(NumberBase::add(&a, &b())),
        "sub" => fmt(NumberBase::sub(&a, &b())),
        "mul" => fmt(NumberBase::mul(&a, &b())),
        "div" => fmt(NumberBase::div(&a, &b())),
        "cmp" => fmt_ord(a.partial_cmp(&b())).to_string(),
        "eq" => fmt_bool(a == b()).to_string(),
        "zero" => fmt_bool(a.is_zero()).to_string(),
        "one" => fmt_bool(a.is_one()).to_string(),
        "nan" => fmt_bool(a.is_nan()).to_string(),
        "from" => fmt(a),
        o => panic!("unknown op {o}"),
    }
}

fn constant<T: NumberBase>(k: &str) -> T {
    match k {
        "0" => T::zero(),
        "1" => T::one(),
        _ => T::nan(),
    }
}

fn run_case(case: &Case, out: &mut dyn FnMut(String)) {
    let ty = case.param("ty").unwrap_or("i64").to_string();
    for line in &case.ops {
        let tok: Vec<&str> = line.split_whitespace().collect();
        let res = if tok[0] == "const" {
            if ty == "i64" {
                fmt_i64(constant::<I64>(tok[1]))
            } else {
                fmt_f64(constant::<F64>(tok[1]))
            }
        } else if ty == "i64" {
            eval::<I64>(&tok, &parse_i64, &fmt_i64)
        } else {
            eval::<F64>(&tok, &parse_f64, &fmt_f64)
        };
        out(format!("{line} -> {res}"));
    }
}

// ---------------------------------------------------------------- gen

const BIN_OPS: [&str; 6] = ["add", "sub", "mul", "div", "cmp", "eq"];
const UN_OPS: [&str; 3] = ["zero", "one", "nan"];

struct Emit {
    id: u64,
    ty: &'static str,
    buf: Vec<String>,
    per_case: usize,
}
impl Emit {
    fn new(ty: &'static str, first_id: u64) -> Self {
        Emit { id: first_id, ty, buf: Vec::new(), per_case: 240 }
    }
    fn flush(&mut self) {
        if self.buf.is_empty() {
            return;
        }
        println!("CASE {} ty={}", self.id, self.ty);
        for l in self.buf.drain(..) {
            println!("{l}");
        }
        println!("END");
        self.id += 1;
    }
    fn line(&mut self, l: String) {
        self.buf.push(l);
    }
    /// all binary ops on (a, b); unary ops on a when `unary`
    fn pair(&mut self, a: &str, b: &str, unary: bool) {
        for op in BIN_OPS {
            self.line(format!("{op} {a} {b}"));
        }
        if unary {
            for op in UN_OPS {
                self.line(format!("{op} {a}"));
            }
            if self.ty == "f64" {
                self.line(format!("from {a}"));
            }
        }
        if self.buf.len() >= self.per_case {
            self.flush();
        }
    }
}

fn i64_boundary() -> Vec<String> {
    let mut v: Vec<String> = vec!["nan".into(), "-inf".into(), "+inf".into()];
    let nums: [i64; 19] = [
        0,
        1,
        -1,
        2,
        -2,
        3,
        -7,
        i64::MIN,
        i64::MIN + 1,
        i64::MAX,
        i64::MAX - 1,
        1 << 31,
        -(1 << 31),
        1 << 32,
        -(1 << 32),
        (1 << 62),
        -(1 << 62),
        3037000499, // floor(sqrt(i64::MAX))
        3037000500,
    ];
    v.extend(nums.iter().map(|n| n.to_string()));
    v
}

fn rand_i64(rng: &mut Rng) -> String {
    let n: i64 = match rng.below(100) {
        0..=1 => return "nan".into(),
        2..=4 => return "-inf".into(),
        5..=7 => return "+inf".into(),
        // small
        8..=27 => rng.below(41) as i64 - 20,
        // near the ends of the range
        28..=39 => {
            let k = rng.below(34);
            i64::MAX - rng.below(1 << k) as i64
        }
        40..=51 => {
            let k = rng.below(34);
            i64::MIN + rng.below(1 << k) as i64
        }
        // around +-2^k (products / sums that just overflow or just do not)
        52..=71 => {
            let k = rng.range(1, 62);
            let d = rng.below(9) as i64 - 4;
            let x = (1i64 << k).wrapping_add(d);
            if rng.chance(1, 2) {
                x
            } else {
                x.wrapping_neg()
            }
        }
        // random magnitude
        72..=87 => {
            let k = rng.range(0, 63);
            let x = (rng.next() >> (63 - k)) as i64;
            if rng.chance(1, 2) {
                x
            } else {
                x.wrapping_neg()
            }
        }
        // full range
        _ => rng.next() as i64,
    };
    n.to_string()
}

fn f64_boundary() -> Vec<String> {
    let pats: [u64; 34] = [
        0x0000_0000_0000_0000, // +0
        0x8000_0000_0000_0000, // -0
        0x3FF0_0000_0000_0000, // 1
        0xBFF0_0000_0000_0000, // -1
        0x4000_0000_0000_0000, // 2
        0x4008_0000_0000_0000, // 3
        0xC01C_0000_0000_0000, // -7
        0x3FE0_0000_0000_0000, // 0.5
        0x3FB9_9999_9999_999A, // 0.1
        0x3FD5_5555_5555_5555, // 1/3
        0x7FF0_0000_0000_0000, // +inf
        0xFFF0_0000_0000_0000, // -inf
        0x7FF8_0000_0000_0000, // canonical NaN
        0xFFF8_0000_0000_0000, // negative quiet NaN
        0x7FF0_0000_0000_0001, // signalling NaN, small payload
        0x7FF4_0000_DEAD_BEEF, // signalling NaN with payload
        0xFFFF_FFFF_FFFF_FFFF, // all ones
        0x7FFF_FFFF_FFFF_FFFF,
        0x7FEF_FFFF_FFFF_FFFF, // MAX
        0xFFEF_FFFF_FFFF_FFFF, // -MAX
        0x7FEF_FFFF_FFFF_FFFE,
        0x7FE0_0000_0000_0000, // 2^1023
        0x0010_0000_0000_0000, // MIN_POSITIVE (smallest normal)
        0x8010_0000_0000_0000,
        0x000F_FFFF_FFFF_FFFF, // largest subnormal
        0x0000_0000_0000_0001, // smallest subnormal
        0x8000_0000_0000_0001,
        0x0000_0000_0000_0002,
        0x0008_0000_0000_0000, // subnormal 2^-1023
        0x0010_0000_0000_0001,
        0x3FF0_0000_0000_0001, // 1 + ulp
        0x3FEF_FFFF_FFFF_FFFF, // 1 - ulp/2
        0x4340_0000_0000_0000, // 2^53
        0x3CA0_0000_0000_0000, // 2^-53
    ];
    pats.iter().map(|p| format!("{p:016x}")).collect()
}

fn rand_f64(rng: &mut Rng, bnd: &[String]) -> String {
    let p: u64 = match rng.below(100) {
        0..=9 => return rng.pick(bnd).clone(),
        // NaN with random payload / sign
        10..=12 => 0x7FF0_0000_0000_0000 | (rng.next() & 0x800F_FFFF_FFFF_FFFF) | 1,
        // subnormals
        13..=22 => {
            let k = rng.range(1, 52);
            (rng.next() & ((1u64 << k) - 1)) | (rng.below(2) << 63)
        }
        // near the overflow threshold
        23..=32 => ((0x7FDu64 + rng.below(2)) << 52) | (rng.next() & 0x000F_FFFF_FFFF_FFFF) | (rng.below(2) << 63),
        // near the underflow threshold (small normal exponents)
        33..=42 => (rng.range(1, 60) << 52) | (rng.next() & 0x000F_FFFF_FFFF_FFFF) | (rng.below(2) << 63),
        // moderate exponents (sums with cancellation, exact results)
        43..=67 => {
            let e = 1023 - 30 + rng.below(61);
            let mant = if rng.chance(1, 3) {
                // few significant bits
                (rng.next() & 0x000F_FFFF_FFFF_FFFF) & !((1u64 << rng.range(20, 52)) - 1)
            } else {
                rng.next() & 0x000F_FFFF_FFFF_FFFF
            };
            (e << 52) | mant | (rng.below(2) << 63)
        }
        // small integers as floats
        68..=75 => (rng.below(2001) as f64 - 1000.0).to_bits(),
        // arbitrary pattern
        _ => rng.next(),
    };
    format!("{p:016x}")
}

fn gen(tier: &str, seed: u64, part: u64) {
    let pairs: u64 = match tier {
        "quick" => 50_000,
        // thorough: the check asks for 20 parts
        _ => 50_000,
    };
    let mut rng = Rng::new(seed.wrapping_mul(0x1000_0000_01B3).wrapping_add(part));
    // ---- I64
    let mut e = Emit::new("i64", part * 10_000_000);
    if part == 0 {
        for k in ["0", "1", "2"] {
            e.line(format!("const {k}"));
        }
        let b = i64_boundary();
        for x in &b {
            for y in &b {
                e.pair(x, y, true);
            }
        }
        e.flush();
    }
    for i in 0..pairs {
        let a = rand_i64(&mut rng);
        // every 8th pair: second operand derived from the first (equal, negated, off by one)
        let b = if i % 8 == 0 {
            match (a.parse::<i64>(), rng.below(4)) {
                (Ok(n), 0) => n.to_string(),
                (Ok(n), 1) => n.wrapping_neg().to_string(),
                (Ok(n), 2) => n.wrapping_neg().wrapping_add(1).to_string(),
                (Ok(n), _) => (i64::MAX.wrapping_sub(n)).wrapping_add(rng.below(3) as i64).to_string(),
                _ => a.clone(),
            }
        } else {
            rand_i64(&mut rng)
        };
        e.pair(&a, &b, i % 16 == 0);
    }
    e.flush();
    // ---- F64
    let mut e = Emit::new("f64", part * 10_000_000 + 5_000_000);
    let fb = f64_boundary();
    if part == 0 {
        for k in ["0", "1", "2"] {
            e.line(format!("const {k}"));
        }
        for x in &fb {
            for y in &fb {
                e.pair(x, y, true);
            }
        }
        e.flush();
    }
    for i in 0..pairs {
        let a = rand_f64(&mut rng, &fb);
        let b = if i % 8 == 0 {
            let p = u64::from_str_radix(&a, 16).unwrap();
            let q = match rng.below(5) {
                0 => p,
                1 => p ^ (1 << 63),
                2 => p.wrapping_add(1),
                3 => (p ^ (1 << 63)).wrapping_add(rng.below(3)),
                _ => p.wrapping_sub(1 << 52),
            };
            format!("{q:016x}")
        } else {
            rand_f64(&mut rng, &fb)
        };
        e.pair(&a, &b, i % 16 == 0);
    }
    e.flush();
}

fn main() {
    let args: Vec<String> = std::env::args().collect();
    match mode().as_str() {
        "gen" => gen(
            &args[2],
            args[3].parse().unwrap(),
            args.get(4).map(|p| p.parse().unwrap()).unwrap_or(0),
        ),
        "run" => {
            let cases = read_cases_from_args();
            run_cases_watchdog(cases, Duration::from_millis(env_u64("VERIF_HANG_MS", 4000)), |case, out| {
                run_case(case, out)
            });
        }
        m => panic!("unknown mode {m}"),
    }
}
