//! ARCSLAB (C05 / C20): drives `arcslab::ArcSlab` through operation scripts.
//!
//! `h_slab gen <tier> <seed>` prints a case file, `h_slab run [file]` executes a case file on
//! the real crate and prints one result line per op:
//!
//!   <op> -> <res> items=<num_items|-> pages=<live pages> log=<events|->[ rdrop=<events>]
//!   <op> -> invalid            the CLIENT would break a precondition (nothing is executed)
//!   <op> -> dead               the slab is gone (its data `D` has been dropped)
//!
//! res: `a<page>.<index>` (ADD: address of the new slot; pages are numbered in order of first
//! appearance, the index is recovered from the pointer), `some<p>` / `none` (into_inner,
//! force_into_inner), `n<count>` (CLONE: `current()` afterwards; NUM), `v<p>.<count>` (GET), `u`.
//! events: `p<v>` = Drop of an item's payload, `f<v>` = the closure of `drop_with` is called,
//! `D` = Drop of the slab's data.  `rdrop` = what dropping the RETURNED item logs.
//! pages = number of live allocations with size == align == PAGE_SIZE (counted by the global
//! allocator), relative to the start of the case.
//!
//! `PAR <t> <r>`: t threads use the slab at the same time for r rounds (see `St::par`): `par-ok<items created>`
//! or `par-bad:<what>`; only FIN may follow (the order of the free list is not determined afterwards).
//!
//! Handles are kept as raw pointers (`into_raw`) and rebuilt (`from_raw`) for every operation,
//! like the pointer-based manager does with its edges.  The harness never touches the slab or
//! a handle once the data's Drop has run (flag), so that a store that dies too early shows as
//! a difference to the model and not as undefined behaviour of the harness.

use arcslab::{ArcItem, ArcSlab, ArcSlabRef, AtomicRefCounted, ExtHandle, IntHandle};
use hcommon::*;
use std::alloc::{GlobalAlloc, Layout, System};
use std::cell::{Cell, RefCell};
use std::ptr::NonNull;
use std::sync::atomic::{AtomicI64, Ordering};
use std::time::Duration;

// ---- page allocation counter ------------------------------------------------------------------

struct CountingAlloc;
static PAGES_LIVE: AtomicI64 = AtomicI64::new(0);

#[inline]
fn is_page(l: &Layout) -> bool {
    l.size() == l.align() && matches!(l.size(), 32 | 64 | 128 | 1024)
}

unsafe impl GlobalAlloc for CountingAlloc {
    unsafe fn alloc(&self, l: Layout) -> *mut u8 {
        if is_page(&l) {
            PAGES_LIVE.fetch_add(1, Ordering::SeqCst);
        }
        unsafe { System.alloc(l) }
    }
    unsafe fn dealloc(&self, p: *mut u8, l: Layout) {
        if is_page(&l) {
            PAGES_LIVE.fetch_sub(1, Ordering::SeqCst);
        }
        unsafe { System.dealloc(p, l) }
    }
}

#[global_allocator]
static GLOBAL: CountingAlloc = CountingAlloc;

// ---- items that record their drops ------------------------------------------------------------

thread_local! {
    static LOG: RefCell<Vec<String>> = const { RefCell::new(Vec::new()) };
    static DEAD: Cell<bool> = const { Cell::new(false) };
}

fn log_push(s: String) {
    LOG.with(|l| l.borrow_mut().push(s));
}
fn log_take() -> String {
    LOG.with(|l| {
        let v = std::mem::take(&mut *l.borrow_mut());
        if v.is_empty() {
            "-".to_string()
        } else {
            v.join(",")
        }
    })
}

trait Pay: 'static {
    fn new(v: u64) -> Self;
    fn v(&self) -> u64;
}

/// 8 bytes: `ArcItem<Small>` = 16 bytes
struct Small(u64);
impl Pay for Small {
    fn new(v: u64) -> Self {
        Small(v)
    }
    fn v(&self) -> u64 {
        self.0
    }
}
impl Drop for Small {
    fn drop(&mut self) {
        log_push(format!("p{}", self.0));
    }
}

/// 24 bytes: `ArcItem<Big>` = 32 bytes
struct Big(u64, [u64; 2]);
impl Pay for Big {
    fn new(v: u64) -> Self {
        Big(v, [!v, v ^ 0x5555])
    }
    fn v(&self) -> u64 {
        assert!(self.1[0] == !self.0 && self.1[1] == self.0 ^ 0x5555, "payload {} corrupted", self.0);
        self.0
    }
}
impl Drop for Big {
    fn drop(&mut self) {
        log_push(format!("p{}", self.0));
    }
}

/// the slab's data `D`
struct DataTag(u64);
impl Drop for DataTag {
    fn drop(&mut self) {
        assert_eq!(self.0, 0xD47A, "slab data corrupted");
        log_push("D".to_string());
        DEAD.with(|d| d.set(true));
    }
}

// ---- one case ---------------------------------------------------------------------------------

/// size of the page header (`slab`, `prev`), = offset of the first slot
const HDR: usize = 16;

struct Hd<P> {
    ptr: NonNull<ArcItem<P>>,
    ext: bool,
}

struct St<P: Pay, const PS: usize> {
    slab: NonNull<ArcSlab<ArcItem<P>, DataTag, PS>>,
    hs: Vec<Option<Hd<P>>>,
    refs: usize,
    tok: usize,
    pages: Vec<usize>,
    base_pages: i64,
}

impl<P: Pay, const PS: usize> St<P, PS> {
    fn sl(&self) -> &ArcSlab<ArcItem<P>, DataTag, PS> {
        // only called while the data has not been dropped
        unsafe { self.slab.as_ref() }
    }
    fn addr(&mut self, p: NonNull<ArcItem<P>>) -> String {
        let a = p.as_ptr() as usize;
        let base = a & !(PS - 1);
        let isz = std::mem::size_of::<ArcItem<P>>();
        let off = a - base;
        if off < HDR || (off - HDR) % isz != 0 || off + isz > PS {
            return format!("misplaced-slot(offset {off} on its page)");
        }
        let pno = match self.pages.iter().position(|&b| b == base) {
            Some(i) => i,
            None => {
                self.pages.push(base);
                self.pages.len() - 1
            }
        };
        format!("a{}.{}", pno, (off - HDR) / isz)
    }
    fn bound(&self, h: usize) -> bool {
        h < self.hs.len() && self.hs[h].is_some()
    }
    fn set(&mut self, h: usize, v: Hd<P>) {
        while self.hs.len() <= h {
            self.hs.push(None);
        }
        self.hs[h] = Some(v);
    }
    fn tail(&self) -> String {
        let dead = DEAD.with(|d| d.get());
        let items = if dead { "-".to_string() } else { self.sl().num_items().to_string() };
        format!(" items={} pages={} log={}", items, PAGES_LIVE.load(Ordering::SeqCst) - self.base_pages, log_take())
    }
    /// the end of one handle: `how` = 0 drop, 1 into_inner, 2 drop_with
    fn end_handle(&mut self, hd: Hd<P>, how: u8) -> (String, Option<ArcItem<P>>) {
        let mut ret = None;
        let res;
        if hd.ext {
            let e: ExtHandle<ArcItem<P>, DataTag, PS> = unsafe { ExtHandle::from_raw(hd.ptr) };
            match how {
                0 => {
                    drop(e);
                    res = "u".to_string();
                }
                1 => {
                    ret = ExtHandle::into_inner(e);
                    res = ret.as_ref().map_or("none".to_string(), |i| format!("some{}", i.v()));
                }
                _ => {
                    ExtHandle::drop_with(e, |i| log_push(format!("f{}", i.v())));
                    res = "u".to_string();
                }
            }
        } else {
            let e: IntHandle<'_, ArcItem<P>, DataTag, PS> = unsafe { IntHandle::from_raw(hd.ptr) };
            match how {
                0 => {
                    drop(e);
                    res = "u".to_string();
                }
                1 => {
                    ret = IntHandle::into_inner(e);
                    res = ret.as_ref().map_or("none".to_string(), |i| format!("some{}", i.v()));
                }
                _ => {
                    IntHandle::drop_with(e, |i| log_push(format!("f{}", i.v())));
                    res = "u".to_string();
                }
            }
        }
        (res, ret)
    }
    /// `t` threads work on the slab at the same time (the model is sequential: only what every interleaving
    /// guarantees is checked, here, by the harness): every thread creates items, clones handles (IntHandle
    /// and ExtHandle), and drops all of them again in another order.  Checked: no two items that are alive
    /// at the same time share a slot; every payload created here is dropped exactly once (by the thread that
    /// ends its last handle); num_items afterwards = before; counts seen through `current()` are >= 1.
    fn par(&mut self, t: usize, rounds: usize) -> String {
        use std::collections::HashSet;
        use std::sync::Mutex;
        let before = self.sl().num_items();
        let live: Mutex<HashSet<usize>> = Mutex::new(HashSet::new());
        // slots of the items the script holds
        for hd in self.hs.iter().flatten() {
            live.lock().unwrap().insert(hd.ptr.as_ptr() as usize);
        }
        let slab_addr = self.slab.as_ptr() as usize;
        let problems: Mutex<Vec<String>> = Mutex::new(Vec::new());
        let mut logs: Vec<Vec<String>> = Vec::new();
        let mut created = 0u64;
        std::thread::scope(|sc| {
            let mut joins = Vec::new();
            for ti in 0..t {
                let (live, problems) = (&live, &problems);
                joins.push(sc.spawn(move || {
                    let slab: &ArcSlab<ArcItem<P>, DataTag, PS> = unsafe { &*(slab_addr as *const ArcSlab<ArcItem<P>, DataTag, PS>) };
                    let mut rng = Rng::new(0x51ab + ti as u64);
                    let mut made = 0u64;
                    for r in 0..rounds {
                        let k = 1 + rng.below(4) as usize;
                        let mut ints: Vec<IntHandle<'_, ArcItem<P>, DataTag, PS>> = Vec::new();
                        let mut exts: Vec<ExtHandle<ArcItem<P>, DataTag, PS>> = Vec::new();
                        let mut addrs: Vec<usize> = Vec::new();
                        for j in 0..k {
                            let v = 1_000_000 + (ti as u64) * 10_000 + (r as u64) * 10 + j as u64;
                            let h = slab.add_item(ArcItem::new(P::new(v)));
                            made += 1;
                            let a = (&*h as *const ArcItem<P>) as usize;
                            if !live.lock().unwrap().insert(a) {
                                problems.lock().unwrap().push(format!("slot {a:#x} handed out while its item is alive"));
                            }
                            addrs.push(a);
                            if h.v() != v || h.current() != 1 {
                                problems.lock().unwrap().push(format!("new item {v}: payload {} count {}", h.v(), h.current()));
                            }
                            let c = h.clone();
                            if rng.chance(1, 2) {
                                exts.push(ExtHandle::from(c));
                            } else {
                                ints.push(c);
                            }
                            if rng.chance(1, 3) {
                                exts.push(ExtHandle::from(h));
                            } else {
                                ints.push(h);
                            }
                        }
                        for e in &exts {
                            if e.current() < 1 || !std::ptr::eq(ExtHandle::slab(e), slab) {
                                problems.lock().unwrap().push("ExtHandle: count 0 or another slab".to_string());
                            }
                        }
                        // the slots are given back by the drops below: take them out of the set first
                        for a in addrs {
                            live.lock().unwrap().remove(&a);
                        }
                        if rng.chance(1, 2) {
                            ints.reverse();
                        }
                        while let Some(h) = ints.pop() {
                            match rng.below(3) {
                                0 => drop(h),
                                1 => drop(IntHandle::into_inner(h)),
                                _ => IntHandle::drop_with(h, drop),
                            }
                            if rng.chance(1, 2) {
                                if let Some(e) = exts.pop() {
                                    drop(ExtHandle::into_inner(e));
                                }
                            }
                        }
                        drop(exts);
                    }
                    (made, LOG.with(|l| std::mem::take(&mut *l.borrow_mut())))
                }));
            }
            for j in joins {
                match j.join() {
                    Ok((made, log)) => {
                        created += made;
                        logs.push(log);
                    }
                    Err(_) => problems.lock().unwrap().push("a worker thread panicked".to_string()),
                }
            }
        });
        let mut drops: Vec<String> = logs.into_iter().flatten().collect();
        let n = drops.len() as u64;
        drops.sort();
        drops.dedup();
        let mut pr = problems.into_inner().unwrap();
        if n != created || drops.len() as u64 != created {
            pr.push(format!("{created} items created, {n} drops logged, {} distinct", drops.len()));
        }
        if DEAD.with(|d| d.get()) {
            pr.push("the slab died".to_string());
        } else if self.sl().num_items() != before {
            pr.push(format!("num_items {} afterwards, {before} before", self.sl().num_items()));
        }
        if pr.is_empty() {
            format!("par-ok{created}")
        } else {
            format!("par-bad:{}", pr.join(";").replace(' ', "_"))
        }
    }
    /// drops what the client still holds (order: handle variables ascending, raw references,
    /// `ArcSlabRef`s); stops using anything as soon as the data has been dropped
    fn fin(&mut self) {
        for h in 0..self.hs.len() {
            if let Some(hd) = self.hs[h].take() {
                if !DEAD.with(|d| d.get()) {
                    let _ = self.end_handle(hd, 0);
                }
            }
        }
        while self.tok > 0 {
            self.tok -= 1;
            if !DEAD.with(|d| d.get()) {
                unsafe { ArcSlab::release(self.slab) };
            }
        }
        while self.refs > 0 {
            self.refs -= 1;
            if !DEAD.with(|d| d.get()) {
                drop(unsafe { ArcSlabRef::from_raw(self.slab) });
            }
        }
    }
}

fn run_case<P: Pay, const PS: usize>(case: &Case, out: &mut dyn FnMut(String)) {
    let isz = case.param_u64("isz", 16) as usize;
    if std::mem::size_of::<ArcItem<P>>() != isz {
        out(format!("LAYOUT -> item size is {} bytes, the case says {isz}", std::mem::size_of::<ArcItem<P>>()));
        return;
    }
    LOG.with(|l| l.borrow_mut().clear());
    DEAD.with(|d| d.set(false));
    let base_pages = PAGES_LIVE.load(Ordering::SeqCst);
    let r: ArcSlabRef<ArcItem<P>, DataTag, PS> = ArcSlab::new(DataTag(0xD47A));
    let slab = ArcSlabRef::into_raw(r);
    let mut st: St<P, PS> = St { slab, hs: Vec::new(), refs: 1, tok: 0, pages: Vec::new(), base_pages };
    out(format!("NEW -> u{}", st.tail()));
    for line in &case.ops {
        let tok: Vec<&str> = line.split_whitespace().collect();
        let arg = |i: usize| tok[i].parse::<u64>().unwrap();
        if DEAD.with(|d| d.get()) {
            out(format!("{line} -> dead"));
            continue;
        }
        let mut rdrop: Option<String> = None;
        let res: Option<String> = match tok[0] {
            "ADD" => {
                let h = arg(1) as usize;
                if st.bound(h) {
                    None
                } else {
                    let ih = st.sl().add_item(ArcItem::new(P::new(arg(2))));
                    let ptr = IntHandle::into_raw(ih);
                    st.set(h, Hd { ptr, ext: false });
                    Some(st.addr(ptr))
                }
            }
            "CLONE" => {
                let (h, h2) = (arg(1) as usize, arg(2) as usize);
                if !st.bound(h) || st.bound(h2) {
                    None
                } else {
                    let (ptr, ext) = {
                        let hd = st.hs[h].as_ref().unwrap();
                        (hd.ptr, hd.ext)
                    };
                    let (p2, cur) = if ext {
                        let e: ExtHandle<ArcItem<P>, DataTag, PS> = unsafe { ExtHandle::from_raw(ptr) };
                        let c = e.clone();
                        let cur = c.current();
                        let _ = ExtHandle::into_raw(e);
                        (ExtHandle::into_raw(c), cur)
                    } else {
                        let e: IntHandle<'_, ArcItem<P>, DataTag, PS> = unsafe { IntHandle::from_raw(ptr) };
                        let c = e.clone();
                        let cur = c.current();
                        let _ = IntHandle::into_raw(e);
                        (IntHandle::into_raw(c), cur)
                    };
                    if p2 != ptr {
                        Some("clone-points-elsewhere".to_string())
                    } else {
                        st.set(h2, Hd { ptr: p2, ext });
                        Some(format!("n{cur}"))
                    }
                }
            }
            "DROP" | "INTO" | "DROPWITH" => {
                let h = arg(1) as usize;
                if !st.bound(h) {
                    None
                } else {
                    let hd = st.hs[h].take().unwrap();
                    let how = match tok[0] {
                        "DROP" => 0,
                        "INTO" => 1,
                        _ => 2,
                    };
                    let (res, ret) = st.end_handle(hd, how);
                    let t = st.tail();
                    if let Some(item) = ret {
                        drop(item);
                        rdrop = Some(log_take());
                    }
                    out(format!("{line} -> {res}{t}{}", rdrop.map_or(String::new(), |r| format!(" rdrop={r}"))));
                    continue;
                }
            }
            "FORCE" => {
                let h = arg(1) as usize;
                if !st.bound(h) || st.hs[h].as_ref().unwrap().ext {
                    None
                } else {
                    let ptr = st.hs[h].as_ref().unwrap().ptr;
                    let e: IntHandle<'_, ArcItem<P>, DataTag, PS> = unsafe { IntHandle::from_raw(ptr) };
                    if e.current() != 1 {
                        let _ = IntHandle::into_raw(e);
                        None
                    } else {
                        st.hs[h] = None;
                        let item = unsafe { IntHandle::force_into_inner(e) };
                        let res = format!("some{}", item.v());
                        let t = st.tail();
                        drop(item);
                        out(format!("{line} -> {res}{t} rdrop={}", log_take()));
                        continue;
                    }
                }
            }
            "EXT" => {
                let h = arg(1) as usize;
                if !st.bound(h) || st.hs[h].as_ref().unwrap().ext {
                    None
                } else {
                    let ptr = st.hs[h].as_ref().unwrap().ptr;
                    let e: IntHandle<'_, ArcItem<P>, DataTag, PS> = unsafe { IntHandle::from_raw(ptr) };
                    let x: ExtHandle<ArcItem<P>, DataTag, PS> = ExtHandle::from(e);
                    let p2 = ExtHandle::into_raw(x);
                    if p2 != ptr {
                        Some("ext-points-elsewhere".to_string())
                    } else {
                        st.set(h, Hd { ptr, ext: true });
                        Some("u".to_string())
                    }
                }
            }
            "GET" => {
                let h = arg(1) as usize;
                if !st.bound(h) {
                    None
                } else {
                    let (ptr, ext) = {
                        let hd = st.hs[h].as_ref().unwrap();
                        (hd.ptr, hd.ext)
                    };
                    if ext {
                        let e: ExtHandle<ArcItem<P>, DataTag, PS> = unsafe { ExtHandle::from_raw(ptr) };
                        let s = format!("v{}.{}", e.v(), e.current());
                        let same = std::ptr::eq(ExtHandle::slab(&e), st.slab.as_ptr())
                            && std::ptr::eq(ArcSlab::from_data_ptr(ExtHandle::slab(&e).data()), st.slab.as_ptr());
                        let _ = ExtHandle::into_raw(e);
                        Some(if same { s } else { "slab-of-handle-is-another-slab".to_string() })
                    } else {
                        let e: IntHandle<'_, ArcItem<P>, DataTag, PS> = unsafe { IntHandle::from_raw(ptr) };
                        let s = format!("v{}.{}", e.v(), e.current());
                        let _ = IntHandle::into_raw(e);
                        Some(s)
                    }
                }
            }
            "NUM" => Some(format!("n{}", st.sl().num_items())),
            "RETAIN" => {
                st.sl().retain();
                st.tok += 1;
                Some("u".to_string())
            }
            "RELEASE" => {
                if st.tok == 0 {
                    None
                } else {
                    st.tok -= 1;
                    unsafe { ArcSlab::release(st.slab) };
                    Some("u".to_string())
                }
            }
            "REFCLONE" => {
                if st.refs == 0 {
                    None
                } else {
                    let r = unsafe { ArcSlabRef::from_raw(st.slab) };
                    let c = r.clone();
                    let same = ArcSlabRef::into_raw(c) == ArcSlabRef::into_raw(r);
                    st.refs += 1;
                    Some(if same { "u".to_string() } else { "ref-clone-points-elsewhere".to_string() })
                }
            }
            "REFDROP" => {
                if st.refs == 0 {
                    None
                } else {
                    st.refs -= 1;
                    drop(unsafe { ArcSlabRef::from_raw(st.slab) });
                    Some("u".to_string())
                }
            }
            "PAR" => Some(st.par(arg(1) as usize, arg(2) as usize)),
            "FIN" => {
                st.fin();
                Some("u".to_string())
            }
            other => panic!("unknown op {other}"),
        };
        match res {
            None => out(format!("{line} -> invalid")),
            Some(r) => out(format!("{line} -> {r}{}", st.tail())),
        }
    }
    // silent cleanup (scripts normally end with FIN)
    st.fin();
    LOG.with(|l| l.borrow_mut().clear());
}

// ---- generator --------------------------------------------------------------------------------

/// the generator's own bookkeeping (which operations are acceptable): not a verdict, the
/// harness and the model decide `invalid` themselves
#[derive(Clone)]
struct Shadow {
    hs: Vec<Option<(usize, bool)>>, // item id, ext
    rc: Vec<u32>,                   // per item id
    refs: u32,
    tok: u32,
    alive: bool,
    next_pay: u64,
}

impl Shadow {
    fn new(nh: usize) -> Self {
        Shadow { hs: vec![None; nh], rc: Vec::new(), refs: 1, tok: 0, alive: true, next_pay: 1 }
    }
    fn ext_count(&self) -> u32 {
        self.hs.iter().filter(|h| matches!(h, Some((_, true)))).count() as u32
    }
    fn first_unbound(&self) -> Option<usize> {
        self.hs.iter().position(|h| h.is_none())
    }
    fn slab_release(&mut self) {
        if self.refs + self.tok + self.ext_count() == 0 {
            self.alive = false;
        }
    }
    /// all acceptable operations (canonical: new handles go into the first unbound variable)
    fn moves(&self, all_targets: bool) -> Vec<String> {
        let mut v = Vec::new();
        if !self.alive {
            return v;
        }
        let targets: Vec<usize> = if all_targets {
            (0..self.hs.len()).filter(|&i| self.hs[i].is_none()).collect()
        } else {
            self.first_unbound().into_iter().collect()
        };
        for &t in &targets {
            v.push(format!("ADD {t} {}", self.next_pay));
        }
        for (h, e) in self.hs.iter().enumerate() {
            if let Some((it, ext)) = e {
                for &t in &targets {
                    v.push(format!("CLONE {h} {t}"));
                }
                v.push(format!("DROP {h}"));
                v.push(format!("INTO {h}"));
                v.push(format!("DROPWITH {h}"));
                if !ext {
                    v.push(format!("EXT {h}"));
                    if self.rc[*it] == 1 {
                        v.push(format!("FORCE {h}"));
                    }
                }
            }
        }
        v.push("RETAIN".into());
        if self.tok > 0 {
            v.push("RELEASE".into());
        }
        if self.refs > 0 {
            v.push("REFCLONE".into());
            v.push("REFDROP".into());
        }
        v
    }
    fn apply(&mut self, op: &str) {
        let t: Vec<&str> = op.split_whitespace().collect();
        let a = |i: usize| t[i].parse::<usize>().unwrap();
        if !self.alive {
            return;
        }
        match t[0] {
            "ADD" => {
                if self.hs[a(1)].is_none() {
                    self.rc.push(1);
                    self.hs[a(1)] = Some((self.rc.len() - 1, false));
                    self.next_pay += 1;
                }
            }
            "CLONE" => {
                if let (Some((it, ext)), None) = (self.hs[a(1)], self.hs[a(2)]) {
                    self.rc[it] += 1;
                    self.hs[a(2)] = Some((it, ext));
                }
            }
            "DROP" | "INTO" | "DROPWITH" => {
                if let Some((it, _)) = self.hs[a(1)].take() {
                    self.rc[it] -= 1;
                    self.slab_release();
                }
            }
            "FORCE" => {
                if let Some((it, false)) = self.hs[a(1)] {
                    if self.rc[it] == 1 {
                        self.rc[it] = 0;
                        self.hs[a(1)] = None;
                    }
                }
            }
            "EXT" => {
                if let Some((it, false)) = self.hs[a(1)] {
                    self.hs[a(1)] = Some((it, true));
                }
            }
            "RETAIN" => self.tok += 1,
            "RELEASE" => {
                if self.tok > 0 {
                    self.tok -= 1;
                    self.slab_release();
                }
            }
            "REFCLONE" => {
                if self.refs > 0 {
                    self.refs += 1
                }
            }
            "REFDROP" => {
                if self.refs > 0 {
                    self.refs -= 1;
                    self.slab_release();
                }
            }
            _ => {}
        }
    }
}

fn gen(tier: &str, seed: u64) {
    let thorough = tier == "thorough";
    let mut rng = Rng::new(seed);
    let mut id = 0u64;
    let mut emit = |ps: u64, isz: u64, ops: &[String]| {
        println!("CASE s{id} ps={ps} isz={isz}");
        for o in ops {
            println!("{o}");
        }
        println!("END");
        id += 1;
    };
    // (a) every script of ACCEPTABLE operations up to a length over 3 handle variables (new
    // handles go into the first unbound variable), each followed by FIN; pages of 1 and 3 slots
    fn dfs(sh: &Shadow, pre: &mut Vec<String>, depth: usize, f: &mut dyn FnMut(&[String])) {
        if depth == 0 || !sh.alive {
            let mut ops = pre.clone();
            ops.push("FIN".into());
            f(&ops);
            return;
        }
        let mv = sh.moves(false);
        for m in mv {
            let mut s2 = sh.clone();
            s2.apply(&m);
            pre.push(m);
            dfs(&s2, pre, depth - 1, f);
            pre.pop();
        }
    }
    let depth = if thorough { 6 } else { 5 };
    for (ps, isz) in [(32u64, 16u64), (64, 16)] {
        let mut pre = Vec::new();
        dfs(&Shadow::new(3), &mut pre, depth, &mut |ops| emit(ps, isz, ops));
    }
    // the same one step shorter on the other layouts (2 handle variables, 1 slot / 3 slots of 32 bytes)
    for (ps, isz) in [(64u64, 32u64), (128, 32)] {
        let mut pre = Vec::new();
        dfs(&Shadow::new(2), &mut pre, depth, &mut |ops| emit(ps, isz, ops));
    }
    // (b) every script of length 3 over the FULL alphabet on 2 handle variables (rejected
    // operations included: `invalid` must be decided alike)
    {
        let mut alpha: Vec<String> = Vec::new();
        for h in 0..2 {
            alpha.push(format!("ADD {h} {}", 7 + h));
            alpha.push(format!("CLONE {h} {}", 1 - h));
            for o in ["DROP", "INTO", "DROPWITH", "FORCE", "EXT", "GET"] {
                alpha.push(format!("{o} {h}"));
            }
        }
        for o in ["RETAIN", "RELEASE", "REFCLONE", "REFDROP", "NUM"] {
            alpha.push(o.to_string());
        }
        let n = alpha.len();
        let len = if thorough { 4 } else { 3 };
        let mut idx = vec![0usize; len];
        'outer: loop {
            let mut ops: Vec<String> = idx.iter().map(|&i| alpha[i].clone()).collect();
            ops.push("FIN".into());
            emit(64, 16, &ops);
            let mut p = len;
            loop {
                if p == 0 {
                    break 'outer;
                }
                p -= 1;
                idx[p] += 1;
                if idx[p] < n {
                    break;
                }
                idx[p] = 0;
            }
        }
    }
    // (p) threads: a few items held by the script, then 2..4 threads that add / clone / convert / drop at the
    // same time, then FIN (order-independent guarantees only, checked by the harness)
    let npar = if thorough { 200 } else { 30 };
    for i in 0..npar {
        let (ps, isz) = *rng.pick(&[(32u64, 16u64), (64, 16), (128, 16), (1024, 16), (64, 32), (1024, 32)]);
        let mut ops: Vec<String> = Vec::new();
        let nheld = rng.below(5);
        for h in 0..nheld {
            ops.push(format!("ADD {h} {}", h + 1));
        }
        if nheld > 1 && rng.chance(1, 2) {
            ops.push("DROP 0".into());
        }
        if nheld > 0 && rng.chance(1, 2) {
            ops.push(format!("EXT {}", nheld - 1));
        }
        // (the first cases are small: they are the ones that also run under miri)
        let (t, r) = if i < 4 { (2, 3) } else { (rng.range(2, 4), *rng.pick(&[5u64, 40, 300])) };
        ops.push(format!("PAR {t} {r}"));
        ops.push("FIN".into());
        emit(ps, isz, &ops);
    }
    // (c) long random scripts: phases that fill / empty, many pages, slot re-use, every layout
    let nrand = if thorough { 12000 } else { 1500 };
    let layouts: [(u64, u64); 7] = [(32, 16), (64, 16), (128, 16), (1024, 16), (64, 32), (128, 32), (1024, 32)];
    for _ in 0..nrand {
        let (ps, isz) = *rng.pick(&layouts);
        let nh = *rng.pick(&[4usize, 8, 16, 40]);
        let len = *rng.pick(&[30u64, 80, 200, 500]);
        let mut sh = Shadow::new(nh);
        let mut ops: Vec<String> = Vec::new();
        let mut fill = true;
        let early_death = rng.chance(1, 4);
        for i in 0..len {
            if i % 25 == 0 {
                fill = rng.chance(3, 5);
            }
            if !sh.alive {
                // a few operations on the dead slab, then stop
                for _ in 0..rng.below(3) {
                    ops.push(rng.pick(&["NUM", "ADD 0 99", "DROP 0", "REFCLONE", "RETAIN"]).to_string());
                }
                break;
            }
            let bound: Vec<usize> = (0..nh).filter(|&h| sh.hs[h].is_some()).collect();
            let unbound: Vec<usize> = (0..nh).filter(|&h| sh.hs[h].is_none()).collect();
            let r = rng.below(100);
            let (padd, pend) = if fill { (45, 15) } else { (12, 50) };
            let o: String = if r < padd {
                if !unbound.is_empty() && (bound.is_empty() || rng.chance(2, 3)) {
                    format!("ADD {} {}", rng.pick(&unbound), sh.next_pay)
                } else if !unbound.is_empty() {
                    format!("CLONE {} {}", rng.pick(&bound), rng.pick(&unbound))
                } else {
                    format!("GET {}", rng.pick(&bound))
                }
            } else if r < padd + pend && !bound.is_empty() {
                let h = *rng.pick(&bound);
                format!("{} {h}", rng.pick(&["DROP", "DROP", "INTO", "INTO", "DROPWITH", "FORCE"]))
            } else if r < 75 {
                if bound.is_empty() { "NUM".to_string() } else { format!("{} {}", rng.pick(&["GET", "GET", "EXT"]), rng.pick(&bound)) }
            } else if r < 80 {
                "NUM".to_string()
            } else if r < 85 {
                "RETAIN".to_string()
            } else if r < 89 {
                "RELEASE".to_string()
            } else if r < 93 {
                "REFCLONE".to_string()
            } else if r < 96 {
                // (keeping at least one reference unless this script is meant to lose the slab early)
                if early_death || sh.refs + sh.tok + sh.ext_count() > 1 { "REFDROP".to_string() } else { "NUM".to_string() }
            } else {
                // operations the client must not do: rejected alike by harness and model
                match rng.below(4) {
                    0 => format!("ADD {} 77", if bound.is_empty() { 0 } else { *rng.pick(&bound) }),
                    1 => format!("DROP {}", if unbound.is_empty() { 0 } else { *rng.pick(&unbound) }),
                    2 => format!("FORCE {}", rng.below(nh as u64)),
                    _ => format!("CLONE {} {}", rng.below(nh as u64), rng.below(nh as u64)),
                }
            };
            sh.apply(&o);
            ops.push(o);
        }
        ops.push("FIN".into());
        emit(ps, isz, &ops);
    }
}

fn main() {
    let args: Vec<String> = std::env::args().collect();
    match mode().as_str() {
        "gen" => gen(&args[2], args[3].parse().unwrap()),
        "run" => {
            let cases = read_cases_from_args();
            fn dispatch(case: &Case, out: &mut dyn FnMut(String)) {
                let ps = case.param_u64("ps", 64);
                let isz = case.param_u64("isz", 16);
                match (ps, isz) {
                    (32, 16) => run_case::<Small, 32>(case, out),
                    (64, 16) => run_case::<Small, 64>(case, out),
                    (128, 16) => run_case::<Small, 128>(case, out),
                    (1024, 16) => run_case::<Small, 1024>(case, out),
                    (64, 32) => run_case::<Big, 64>(case, out),
                    (128, 32) => run_case::<Big, 128>(case, out),
                    (1024, 32) => run_case::<Big, 1024>(case, out),
                    _ => panic!("unsupported layout ps={ps} isz={isz}"),
                }
            }
            if cfg!(miri) {
                // under miri: on the main thread, no watchdog thread (miri insists that every thread is joined
                // before the main thread ends; a hang is caught by the caller's time limit)
                for case in &cases {
                    let mut lines: Vec<String> = Vec::new();
                    let r = std::panic::catch_unwind(std::panic::AssertUnwindSafe(|| dispatch(case, &mut |s| lines.push(s))));
                    println!("CASE {}", case.header);
                    for l in &lines {
                        println!("{l}");
                    }
                    if r.is_err() {
                        println!("PANIC (under miri)");
                    }
                    println!("END");
                }
            } else {
                run_cases_watchdog(cases, Duration::from_millis(env_u64("VERIF_HANG_MS", 4000)), dispatch);
            }
        }
        m => panic!("unknown mode {m}"),
    }
}
