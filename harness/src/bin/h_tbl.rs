//! C17: drives `linear_hashtbl::raw::RawTable` through op sequences.
//!
//! `h_tbl gen <tier> <seed>` prints a case file, `h_tbl run [file]` executes a
//! case file against the implementation and prints one result line per op.

use hcommon::*;
use linear_hashtbl::raw::{RawTable, Status};
use std::time::Duration;

fn hash_fn(id: u64, k: u64) -> u64 {
    match id {
        0 => 0,
        1 => k,
        2 => k.wrapping_mul(1 << 32),
        3 => 14 + k % 3,
        4 => (k % 2) * (1 << 63) + k / 2,
        _ => k.wrapping_mul(11400714819323198485),
    }
}

fn fmt_list(mut v: Vec<u64>) -> String {
    v.sort_unstable();
    let mut s = String::from("l");
    for x in v {
        s.push(' ');
        s.push_str(&x.to_string());
    }
    s
}

fn run_case<S: Status>(case: &Case, hid: u64, out: &mut dyn FnMut(String)) {
    let mut t: RawTable<u64, S> = RawTable::new();
    let h = |k: u64| hash_fn(hid, k);
    for line in &case.ops {
        let tok: Vec<&str> = line.split_whitespace().collect();
        let arg = |i: usize| tok[i].parse::<u64>().unwrap();
        let res = match tok[0] {
            "W" => {
                t = RawTable::with_capacity(arg(1) as usize);
                "u".to_string()
            }
            "I" => {
                let k = arg(1);
                match t.find_or_find_insert_slot(h(k), |&x| x == k) {
                    Ok(_) => "b0".to_string(),
                    Err(slot) => {
                        unsafe { t.insert_in_slot_unchecked(h(k), slot, k) };
                        "b1".to_string()
                    }
                }
            }
            "R" => {
                let k = arg(1);
                match t.remove_entry(h(k), |&x| x == k) {
                    Some(v) => format!("o{v}"),
                    None => "o-".to_string(),
                }
            }
            "L" => {
                let k = arg(1);
                match t.get(h(k), |&x| x == k) {
                    Some(v) => format!("o{v}"),
                    None => "o-".to_string(),
                }
            }
            "T" => {
                let (m, r) = (arg(1), arg(2));
                let mut dropped = Vec::new();
                t.retain(|&mut k| k % m != r, |k| dropped.push(k));
                fmt_list(dropped)
            }
            "V" => {
                t.reserve(arg(1) as usize);
                "u".to_string()
            }
            "C" => {
                t.clear();
                "u".to_string()
            }
            "D" => fmt_list(t.drain().collect()),
            "P" => {
                let j = arg(1) as usize;
                let mut d = t.drain();
                let mut v = Vec::new();
                for _ in 0..j {
                    match d.next() {
                        Some(x) => v.push(x),
                        None => break,
                    }
                }
                drop(d);
                fmt_list(v)
            }
            "E" => {
                let it = t.iter();
                let n = it.len();
                let v: Vec<u64> = it.copied().collect();
                assert_eq!(n, v.len(), "ExactSizeIterator::len disagrees");
                fmt_list(v)
            }
            "M" => fmt_list(t.iter_mut().map(|x| *x).collect()),
            "X" => {
                let old = std::mem::replace(&mut t, RawTable::new());
                fmt_list(old.into_iter().collect())
            }
            "N" => format!("n{}", t.len()),
            "K" => {
                let c = t.clone();
                t = c;
                "u".to_string()
            }
            other => panic!("unknown op {other}"),
        };
        out(format!("{line} -> {res}"));
    }
}

fn gen(tier: &str, seed: u64) {
    let mut rng = Rng::new(seed);
    let mut id = 0u64;
    let mut emit = |sbits: u64, hid: u64, ops: &[String]| {
        println!("CASE {id} sbits={sbits} hash={hid}");
        for o in ops {
            println!("{o}");
        }
        println!("END");
        id += 1;
    };
    // (a) exhaustive short sequences over a small alphabet, each followed by a
    // probe suffix that observes the whole set
    let keys: [u64; 4] = [0, 1, 2, 3];
    let mut alphabet: Vec<String> = Vec::new();
    for k in keys {
        alphabet.push(format!("I {k}"));
        alphabet.push(format!("R {k}"));
    }
    alphabet.push("T 2 0".into());
    alphabet.push("T 3 1".into());
    alphabet.push("C".into());
    alphabet.push("D".into());
    alphabet.push("P 1".into());
    alphabet.push("V 12".into());
    alphabet.push("X".into());
    let max_len = if tier == "thorough" { 5 } else { 4 };
    let hids: &[u64] = if tier == "thorough" { &[0, 1, 3, 4] } else { &[0, 3] };
    let suffix: Vec<String> =
        vec!["N".into(), "E".into(), "L 0".into(), "L 1".into(), "L 2".into(), "L 3".into(), "L 7".into()];
    for &hid in hids {
        let n = alphabet.len();
        let mut idx = vec![0usize; max_len];
        'outer: loop {
            let mut ops: Vec<String> = idx.iter().map(|&i| alphabet[i].clone()).collect();
            ops.extend(suffix.iter().cloned());
            emit(if hid % 2 == 0 { 31 } else { 63 }, hid, &ops);
            let mut p = max_len;
            loop {
                if p == 0 {
                    break 'outer;
                }
                p -= 1;
                idx[p] += 1;
                if idx[p] < n {
                    break;
                }
                idx[p] = 0;
            }
        }
    }
    // (c) scenarios: fill, punch tombstones, bulk-empty, refill with fresh keys
    // and look up absent keys (tombstones and the free counter interact here)
    let nscen = if tier == "thorough" { 20000 } else { 3000 };
    for _ in 0..nscen {
        let hid = *rng.pick(&[0u64, 1, 1, 1, 3, 5]);
        let sbits = if rng.chance(1, 2) { 31 } else { 63 };
        let mut ops = Vec::new();
        let rounds = rng.range(1, 3);
        let mut fresh = 100u64;
        for _ in 0..rounds {
            let nfill = rng.range(4, 13);
            let base = rng.below(16);
            let keys: Vec<u64> = (0..nfill).map(|i| base + i).collect();
            for k in &keys {
                ops.push(format!("I {k}"));
            }
            // remove a prefix / suffix / random subset, in random direction
            let mut rem: Vec<u64> = keys.iter().copied().filter(|_| rng.chance(4, 5)).collect();
            if rng.chance(1, 2) {
                rem.reverse();
            }
            for k in &rem {
                ops.push(format!("R {k}"));
            }
            ops.push(
                match rng.below(6) {
                    0 => "D".to_string(),
                    1 => format!("P {}", rng.below(3)),
                    2 => "C".to_string(),
                    3 => format!("T {} 0", rng.range(1, 3)),
                    4 => "K".to_string(),
                    _ => "D".to_string(),
                },
            );
            let nre = rng.range(6, 14);
            for _ in 0..nre {
                let k = if rng.chance(2, 3) { fresh += 1; fresh } else { rng.below(32) };
                ops.push(format!("I {k}"));
                if rng.chance(1, 3) {
                    ops.push(format!("L {}", rng.below(400)));
                }
            }
            ops.push(format!("L {}", 500 + rng.below(32)));
            ops.push("N".into());
            ops.push("E".into());
        }
        emit(sbits, hid, &ops);
    }
    // (b) long random sequences: growth, shrinking, tombstone accumulation
    let nrand = if tier == "thorough" { 40000 } else { 3000 };
    for _ in 0..nrand {
        let hid = rng.below(6);
        let sbits = if rng.chance(1, 2) { 31 } else { 63 };
        let universe = *rng.pick(&[6u64, 14, 24, 64, 300]);
        let len = *rng.pick(&[30u64, 80, 200, 400]);
        let mut ops = Vec::new();
        if rng.chance(1, 4) {
            ops.push(format!("W {}", rng.below(40)));
        }
        // phases bias towards filling or emptying so that sizes move
        let mut fill = true;
        for i in 0..len {
            if i % 40 == 0 {
                fill = rng.chance(3, 5);
            }
            let k = rng.below(universe);
            let r = rng.below(100);
            let (pi, pr) = if fill { (50, 15) } else { (15, 50) };
            let o = if r < pi {
                format!("I {k}")
            } else if r < pi + pr {
                format!("R {k}")
            } else if r < 78 {
                format!("L {k}")
            } else if r < 82 {
                let m = rng.range(2, 5);
                format!("T {m} {}", rng.below(m))
            } else if r < 84 {
                format!("V {}", rng.below(2 * universe))
            } else if r < 86 {
                "C".into()
            } else if r < 88 {
                "D".into()
            } else if r < 90 {
                format!("P {}", rng.below(6))
            } else if r < 93 {
                "E".into()
            } else if r < 94 {
                "M".into()
            } else if r < 97 {
                "N".into()
            } else if r < 99 {
                "K".into()
            } else {
                "X".into()
            };
            ops.push(o);
        }
        ops.push("N".into());
        ops.push("E".into());
        for k in 0..universe.min(24) {
            ops.push(format!("L {k}"));
        }
        emit(sbits, hid, &ops);
    }
}

fn main() {
    let args: Vec<String> = std::env::args().collect();
    match mode().as_str() {
        "gen" => gen(&args[2], args[3].parse().unwrap()),
        "run" => {
            let cases = read_cases_from_args();
            run_cases_watchdog(cases, Duration::from_millis(env_u64("VERIF_HANG_MS", 4000)), |case, out| {
                let hid = case.param_u64("hash", 1);
                if case.param_u64("sbits", 31) == 31 {
                    run_case::<u32>(case, hid, out)
                } else {
                    run_case::<usize>(case, hid, out)
                }
            });
        }
        m => panic!("unknown mode {m}"),
    }
}
