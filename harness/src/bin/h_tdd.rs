//! C11: drives the real TDD manager (`oxidd::tdd`) with two variables.
//!
//! `h_tdd gen <tier> <seed>` prints a case file, `h_tdd run [file]` executes it.
//!
//! A function is named by its value table: 9 letters over F/U/T, entry
//! `3*i0 + i1` = value under x0 = v(i0), x1 = v(i1) with v(0)=F, v(1)=U, v(2)=T.
//! `order=0`: logical x0 is VarNo 0 (level 0), x1 is VarNo 1 (level 1);
//! `order=1`: x0 is VarNo 1 (level 1), x1 is VarNo 0 (level 0).
//!
//! Operands are built from the PUBLIC constructors `TDDFunction::f/t/u`, `var`
//! and connectives (two independent routes), checked with `eval`, and every
//! result is printed as `<table>:<structure>:<canon>` where the structure is
//! the node tree `(level,t,u,e)` read through `cofactors()` and `canon` says
//! whether the handle equals the handle first seen for the same table.

use hcommon::*;
use oxidd::tdd::TDDFunction;
use oxidd::{Function, HasLevel, Manager, ManagerRef, Node, TVLFunction};
use oxidd_rules_tdd::TDDTerminal;
use std::borrow::Borrow;
use std::collections::HashMap;
use std::time::Duration;

type Tab = [u8; 9]; // 0 = F, 1 = U, 2 = T

const VALS: [Option<bool>; 3] = [Some(false), None, Some(true)];
const BINOPS: [&str; 8] = ["and", "or", "nand", "nor", "xor", "equiv", "imp", "imp_strict"];

fn tab_str(t: &Tab) -> String {
    t.iter().map(|&v| ['F', 'U', 'T'][v as usize]).collect()
}
fn parse_tab(s: &str) -> Tab {
    let b = s.as_bytes();
    assert_eq!(b.len(), 9, "table must have 9 entries: {s}");
    let mut t = [0u8; 9];
    for i in 0..9 {
        t[i] = match b[i] {
            b'F' => 0,
            b'U' => 1,
            b'T' => 2,
            _ => panic!("bad table {s}"),
        };
    }
    t
}
fn tv(v: Option<bool>) -> u8 {
    match v {
        Some(false) => 0,
        None => 1,
        Some(true) => 2,
    }
}

struct Ctx {
    /// VarNo of logical x0, x1
    vars: [u32; 2],
    consts: [TDDFunction; 3], // F, U, T through the public constructors
    /// indicator functions is_v(x_i): ind[i][v]
    ind: Option<[[TDDFunction; 3]; 2]>,
    seen: HashMap<Tab, TDDFunction>,
    built1: HashMap<Tab, TDDFunction>,
    built2: HashMap<Tab, TDDFunction>,
    flip: bool,
}

fn table_of(cx: &mut Ctx, f: &TDDFunction) -> Tab {
    let mut t = [0u8; 9];
    for i0 in 0..3 {
        for i1 in 0..3 {
            cx.flip = !cx.flip;
            let a0 = (cx.vars[0], VALS[i0]);
            let a1 = (cx.vars[1], VALS[i1]);
            let r = if cx.flip { f.eval([a0, a1]) } else { f.eval([a1, a0]) };
            t[3 * i0 + i1] = tv(r);
        }
    }
    t
}

fn level_of(f: &TDDFunction) -> Option<u32> {
    f.with_manager_shared(|m, e| match m.get_node(e) {
        Node::Inner(n) => Some(n.level()),
        Node::Terminal(_) => None,
    })
}
fn terminal_of(f: &TDDFunction) -> Option<TDDTerminal> {
    f.with_manager_shared(|m, e| match m.get_node(e) {
        Node::Inner(_) => None,
        Node::Terminal(t) => Some(*t.borrow()),
    })
}

/// node tree via the public `cofactors()`
fn structure(f: &TDDFunction) -> String {
    match f.cofactors() {
        None => match terminal_of(f) {
            Some(TDDTerminal::False) => "F".into(),
            Some(TDDTerminal::Unknown) => "U".into(),
            Some(TDDTerminal::True) => "T".into(),
            None => "?inner-without-cofactors".into(),
        },
        Some((t, u, e)) => {
            let l = level_of(f).map(|l| l.to_string()).unwrap_or("?terminal-with-cofactors".into());
            format!("({},{},{},{})", l, structure(&t), structure(&u), structure(&e))
        }
    }
}

/// `<table>:<structure>:<canon>`
fn describe(cx: &mut Ctx, f: &TDDFunction) -> String {
    let t = table_of(cx, f);
    let canon = match cx.seen.get(&t) {
        Some(g) => (g == f) as u8,
        None => {
            cx.seen.insert(t, f.clone());
            1
        }
    };
    format!("{}:{}:{}", tab_str(&t), structure(f), canon)
}

fn indicators(cx: &mut Ctx, mref: &oxidd::tdd::TDDManagerRef) -> Result<(), String> {
    if cx.ind.is_some() {
        return Ok(());
    }
    let mut res: Vec<[TDDFunction; 3]> = Vec::new();
    for i in 0..2 {
        let x = mref.with_manager_shared(|m| TDDFunction::var(m, cx.vars[i])).map_err(|_| "oom")?;
        let nx = x.not().map_err(|_| "oom")?;
        // x -> not x  is T unless x = T;  not x -> x  is T unless x = F (Lukasiewicz)
        let is_t = nx.imp_strict(&x).map_err(|_| "oom")?; // not (x -> not x)
        let is_f = x.imp_strict(&nx).map_err(|_| "oom")?; // not (not x -> x)
        let is_u = x.equiv(&nx).map_err(|_| "oom")?;
        // expected tables of the indicators (verified before use)
        let ind = [is_f, is_u, is_t];
        for (v, f) in ind.iter().enumerate() {
            let got = table_of(cx, f);
            let mut want = [0u8; 9];
            for i0 in 0..3 {
                for i1 in 0..3 {
                    let xv = if i == 0 { i0 } else { i1 };
                    want[3 * i0 + i1] = if xv == v { 2 } else { 0 };
                }
            }
            if got != want {
                return Err(format!(
                    "BUILD-MISMATCH indicator is_{}(x{}) want={} got={}",
                    ['F', 'U', 'T'][v],
                    i,
                    tab_str(&want),
                    tab_str(&got)
                ));
            }
        }
        res.push(ind);
    }
    let b = res.pop().unwrap();
    let a = res.pop().unwrap();
    cx.ind = Some([a, b]);
    Ok(())
}

/// case split on logical variable `i`: value `c[v]` where x_i = v
fn split(cx: &Ctx, route: u8, i: usize, c: [&TDDFunction; 3]) -> TDDFunction {
    let ind = &cx.ind.as_ref().unwrap()[i];
    if route == 1 {
        let a = ind[2].and(c[2]).unwrap();
        let b = ind[1].and(c[1]).unwrap();
        let d = ind[0].and(c[0]).unwrap();
        a.or(&b).unwrap().or(&d).unwrap()
    } else {
        let inner = ind[1].ite(c[1], c[0]).unwrap();
        ind[2].ite(c[2], &inner).unwrap()
    }
}

/// Build the function with value table `t` (route 1: and/or, route 2: ite) and
/// check it with `eval`.
fn build(cx: &mut Ctx, mref: &oxidd::tdd::TDDManagerRef, t: &Tab, route: u8) -> Result<TDDFunction, String> {
    if let Some(f) = (if route == 1 { &cx.built1 } else { &cx.built2 }).get(t) {
        return Ok(f.clone());
    }
    indicators(cx, mref)?;
    let mut rows: Vec<TDDFunction> = Vec::new();
    for i0 in 0..3 {
        let c = [
            &cx.consts[t[3 * i0] as usize],
            &cx.consts[t[3 * i0 + 1] as usize],
            &cx.consts[t[3 * i0 + 2] as usize],
        ];
        rows.push(split(cx, route, 1, c));
    }
    let f = split(cx, route, 0, [&rows[0], &rows[1], &rows[2]]);
    let got = table_of(cx, &f);
    if got != *t {
        return Err(format!("BUILD-MISMATCH route={} want={} got={}", route, tab_str(t), tab_str(&got)));
    }
    if route == 1 { &mut cx.built1 } else { &mut cx.built2 }.insert(*t, f.clone());
    Ok(f)
}

fn apply_bin(op: &str, f: &TDDFunction, g: &TDDFunction) -> TDDFunction {
    match op {
        "and" => f.and(g),
        "or" => f.or(g),
        "nand" => f.nand(g),
        "nor" => f.nor(g),
        "xor" => f.xor(g),
        "equiv" => f.equiv(g),
        "imp" => f.imp(g),
        "imp_strict" => f.imp_strict(g),
        _ => panic!("unknown operator {op}"),
    }
    .expect("out of memory")
}

fn cof_line(cx: &mut Ctx, f: &TDDFunction) -> String {
    match f.cofactors() {
        None => {
            let single = f.cofactor_true().is_none() && f.cofactor_unknown().is_none() && f.cofactor_false().is_none();
            format!("none single={}", single as u8)
        }
        Some((t, u, e)) => {
            let single = f.cofactor_true().as_ref() == Some(&t)
                && f.cofactor_unknown().as_ref() == Some(&u)
                && f.cofactor_false().as_ref() == Some(&e);
            let (a, b, c) = (table_of(cx, &t), table_of(cx, &u), table_of(cx, &e));
            format!("{} {} {} single={}", tab_str(&a), tab_str(&b), tab_str(&c), single as u8)
        }
    }
}

fn run_case(case: &Case, out: &mut dyn FnMut(String)) {
    let order = case.param_u64("order", 0);
    let cache = case.param_u64("cache", 1024) as usize;
    let mref = oxidd::tdd::new_manager(4096, cache, 1);
    mref.with_manager_exclusive(|m| {
        m.add_vars(2);
    });
    let consts = mref.with_manager_shared(|m| [TDDFunction::f(m), TDDFunction::u(m), TDDFunction::t(m)]);
    let mut cx = Ctx {
        vars: if order == 0 { [0, 1] } else { [1, 0] },
        consts,
        ind: None,
        seen: HashMap::new(),
        built1: HashMap::new(),
        built2: HashMap::new(),
        flip: false,
    };
    for line in &case.ops {
        let tok: Vec<&str> = line.split_whitespace().collect();
        let res: Result<String, String> = (|| {
            Ok(match tok[0] {
                "C" => {
                    let f = mref.with_manager_shared(|m| match tok[1] {
                        "f" => TDDFunction::f(m),
                        "t" => TDDFunction::t(m),
                        "u" => TDDFunction::u(m),
                        o => panic!("unknown constant {o}"),
                    });
                    describe(&mut cx, &f)
                }
                "V" => {
                    let i: usize = tok[1].parse().unwrap();
                    let f = mref.with_manager_shared(|m| TDDFunction::var(m, cx.vars[i])).expect("oom");
                    describe(&mut cx, &f)
                }
                "N" => {
                    let f = build(&mut cx, &mref, &parse_tab(tok[1]), 1)?;
                    let r = f.not().expect("oom");
                    let r2 = f.clone().not_owned().expect("oom");
                    if r != r2 {
                        return Err("not() and not_owned() return different handles".into());
                    }
                    describe(&mut cx, &r)
                }
                "B" => {
                    let f = build(&mut cx, &mref, &parse_tab(tok[2]), 1)?;
                    let g = build(&mut cx, &mref, &parse_tab(tok[3]), 1)?;
                    let r = apply_bin(tok[1], &f, &g);
                    describe(&mut cx, &r)
                }
                "I" => {
                    let f = build(&mut cx, &mref, &parse_tab(tok[1]), 1)?;
                    let g = build(&mut cx, &mref, &parse_tab(tok[2]), 1)?;
                    let h = build(&mut cx, &mref, &parse_tab(tok[3]), 1)?;
                    let r = f.ite(&g, &h).expect("oom");
                    describe(&mut cx, &r)
                }
                "K" => {
                    let f = build(&mut cx, &mref, &parse_tab(tok[1]), 1)?;
                    cof_line(&mut cx, &f)
                }
                "Q" => {
                    let f = build(&mut cx, &mref, &parse_tab(tok[1]), 1)?;
                    let g = build(&mut cx, &mref, &parse_tab(tok[2]), 2)?;
                    format!("eq={}", (f == g) as u8)
                }
                "A" => {
                    // all operators on one sampled operand tuple
                    let f = build(&mut cx, &mref, &parse_tab(tok[1]), 1)?;
                    let g = build(&mut cx, &mref, &parse_tab(tok[2]), 1)?;
                    let h = build(&mut cx, &mref, &parse_tab(tok[3]), 1)?;
                    let g2 = build(&mut cx, &mref, &parse_tab(tok[2]), 2)?;
                    let mut s = String::new();
                    let r = f.not().expect("oom");
                    s.push_str(&format!("not={}", describe(&mut cx, &r)));
                    for op in BINOPS {
                        let r = apply_bin(op, &f, &g);
                        s.push_str(&format!(" {}={}", op, describe(&mut cx, &r)));
                    }
                    let r = f.ite(&g, &h).expect("oom");
                    s.push_str(&format!(" ite={}", describe(&mut cx, &r)));
                    s.push_str(&format!(" eq={}{}", (f == g2) as u8, (g == g2) as u8));
                    s.push_str(&format!(" cof={}", cof_line(&mut cx, &f).replace(' ', ",")));
                    s
                }
                o => panic!("unknown op {o}"),
            })
        })();
        match res {
            Ok(r) => out(format!("{line} -> {r}")),
            Err(e) => out(format!("{line} -> {e}")),
        }
    }
}

// ---------------------------------------------------------------------------

fn one_var_tab(t3: usize, var: usize) -> Tab {
    // t3 in 0..27: value for F, U, T = digits of t3 base 3
    let d = [(t3 % 3) as u8, ((t3 / 3) % 3) as u8, ((t3 / 9) % 3) as u8];
    let mut t = [0u8; 9];
    for i0 in 0..3 {
        for i1 in 0..3 {
            t[3 * i0 + i1] = d[if var == 0 { i0 } else { i1 }];
        }
    }
    t
}

fn rand_tab(rng: &mut Rng, prev: &[Tab]) -> Tab {
    let r = rng.below(100);
    if r < 45 {
        let mut t = [0u8; 9];
        for x in t.iter_mut() {
            *x = rng.below(3) as u8;
        }
        t
    } else if r < 60 {
        one_var_tab(rng.below(27) as usize, rng.below(2) as usize)
    } else if r < 68 {
        [rng.below(3) as u8; 9]
    } else if r < 80 || prev.is_empty() {
        // few distinct values: a random table over two values
        let a = rng.below(3) as u8;
        let b = rng.below(3) as u8;
        let mut t = [0u8; 9];
        for x in t.iter_mut() {
            *x = if rng.chance(1, 2) { a } else { b };
        }
        t
    } else {
        let mut t = *rng.pick(prev);
        match rng.below(3) {
            0 => {}
            1 => {
                for x in t.iter_mut() {
                    *x = 2 - *x;
                }
            }
            _ => {
                let i = rng.below(9) as usize;
                t[i] = rng.below(3) as u8;
            }
        }
        t
    }
}

fn gen(tier: &str, seed: u64) {
    let mut rng = Rng::new(seed);
    let mut id = 0u64;
    let mut emit = |order: u64, cache: u64, tag: &str, ops: &[String]| {
        println!("CASE {id} order={order} cache={cache} kind={tag}");
        for o in ops {
            println!("{o}");
        }
        println!("END");
        id += 1;
    };
    let caches = [1024u64, 16];
    for order in 0..2u64 {
        // constants, variables, negation, cofactors, equality on the 27 one-variable functions
        let mut ops: Vec<String> = vec!["C f".into(), "C t".into(), "C u".into(), "V 0".into(), "V 1".into()];
        for var in 0..2 {
            for a in 0..27 {
                let t = tab_str(&one_var_tab(a, var));
                ops.push(format!("N {t}"));
                ops.push(format!("K {t}"));
            }
        }
        for a in 0..27 {
            for b in 0..27 {
                if a == b || rng.chance(1, 9) {
                    ops.push(format!("Q {} {}", tab_str(&one_var_tab(a, 0)), tab_str(&one_var_tab(b, 0))));
                }
            }
        }
        emit(order, 1024, "base", &ops);
        // every connective on every pair of one-variable functions (of x0; of x0 and x1)
        for (k, op) in BINOPS.iter().enumerate() {
            for gvar in 0..2 {
                let mut ops = Vec::new();
                for a in 0..27 {
                    for b in 0..27 {
                        ops.push(format!("B {} {} {}", op, tab_str(&one_var_tab(a, 0)), tab_str(&one_var_tab(b, gvar))));
                    }
                }
                if gvar == 1 {
                    // also (x1-function, x0-function): operand order matters for imp / imp_strict
                    for a in 0..27 {
                        for b in 0..27 {
                            ops.push(format!("B {} {} {}", op, tab_str(&one_var_tab(a, 1)), tab_str(&one_var_tab(b, 0))));
                        }
                    }
                }
                emit(order, caches[(k + gvar) % 2], "pairs", &ops);
            }
        }
        // ite on every triple of one-variable functions of x0
        for a in 0..27 {
            let mut ops = Vec::new();
            for b in 0..27 {
                for c in 0..27 {
                    ops.push(format!(
                        "I {} {} {}",
                        tab_str(&one_var_tab(a, 0)),
                        tab_str(&one_var_tab(b, 0)),
                        tab_str(&one_var_tab(c, 0))
                    ));
                }
            }
            emit(order, caches[a % 2], "ite1", &ops);
        }
        // ite on mixed triples (if over x0, then over x1, else over x0 / x1): sampled
        let nmix = if tier == "thorough" { 40 } else { 6 };
        for k in 0..nmix {
            let mut ops = Vec::new();
            for _ in 0..500 {
                let vs = [rng.below(2) as usize, rng.below(2) as usize, rng.below(2) as usize];
                ops.push(format!(
                    "I {} {} {}",
                    tab_str(&one_var_tab(rng.below(27) as usize, vs[0])),
                    tab_str(&one_var_tab(rng.below(27) as usize, vs[1])),
                    tab_str(&one_var_tab(rng.below(27) as usize, vs[2]))
                ));
            }
            emit(order, caches[k % 2], "itemix", &ops);
        }
    }
    // sampled two-variable operand tuples
    let ntuples = if tier == "thorough" { 100_000 } else { 2_000 };
    let per_case = 50;
    let mut prev: Vec<Tab> = Vec::new();
    let mut k = 0u64;
    let mut done = 0;
    while done < ntuples {
        let mut ops = Vec::new();
        for _ in 0..per_case {
            let f = rand_tab(&mut rng, &prev);
            prev.push(f);
            let mut g = rand_tab(&mut rng, &prev);
            let mut h = rand_tab(&mut rng, &prev);
            match rng.below(12) {
                0 => g = f,
                1 => h = f,
                2 => h = g,
                3 => g = [rng.below(3) as u8; 9],
                4 => h = [rng.below(3) as u8; 9],
                5 => {
                    g = [rng.below(3) as u8; 9];
                    h = [rng.below(3) as u8; 9];
                }
                _ => {}
            }
            prev.push(g);
            prev.push(h);
            if prev.len() > 64 {
                prev.drain(0..32);
            }
            ops.push(format!("A {} {} {}", tab_str(&f), tab_str(&g), tab_str(&h)));
            done += 1;
        }
        emit(k % 2, caches[((k / 2) % 2) as usize], "sample", &ops);
        k += 1;
    }
}

fn main() {
    let args: Vec<String> = std::env::args().collect();
    match mode().as_str() {
        "gen" => gen(&args[2], args[3].parse().unwrap()),
        "run" => {
            let cases = read_cases_from_args();
            run_cases_watchdog(cases, Duration::from_millis(env_u64("VERIF_HANG_MS", 20000)), |case, out| {
                run_case(case, out)
            });
        }
        m => panic!("unknown mode {m}"),
    }
}
