//! Shared helpers of the correspondence harness: one PRNG, the case-file
//! reader, a watchdog that turns a hang into a reported result.

use std::io::{BufRead, Write};
use std::sync::mpsc;
use std::time::Duration;

/// SplitMix64: every random choice of every generator derives from one state.
#[derive(Clone)]
pub struct Rng(pub u64);
impl Rng {
    pub fn new(seed: u64) -> Self {
        Rng(seed ^ 0x9E37_79B9_7F4A_7C15)
    }
    pub fn next(&mut self) -> u64 {
        self.0 = self.0.wrapping_add(0x9E37_79B9_7F4A_7C15);
        let mut z = self.0;
        z = (z ^ (z >> 30)).wrapping_mul(0xBF58_476D_1CE4_E5B9);
        z = (z ^ (z >> 27)).wrapping_mul(0x94D0_49BB_1331_11EB);
        z ^ (z >> 31)
    }
    pub fn below(&mut self, n: u64) -> u64 {
        if n == 0 {
            0
        } else {
            self.next() % n
        }
    }
    pub fn range(&mut self, lo: u64, hi: u64) -> u64 {
        lo + self.below(hi - lo + 1)
    }
    pub fn chance(&mut self, num: u64, den: u64) -> bool {
        self.below(den) < num
    }
    pub fn pick<'a, T>(&mut self, xs: &'a [T]) -> &'a T {
        &xs[self.below(xs.len() as u64) as usize]
    }
}

/// One case of a case file: header tokens (after `CASE`) and its op lines.
#[derive(Clone, Debug)]
pub struct Case {
    pub header: String,
    pub ops: Vec<String>,
}
impl Case {
    pub fn param(&self, key: &str) -> Option<&str> {
        self.header
            .split_whitespace()
            .find_map(|t| t.strip_prefix(key).and_then(|r| r.strip_prefix('=')))
    }
    pub fn param_u64(&self, key: &str, default: u64) -> u64 {
        self.param(key).and_then(|v| v.parse().ok()).unwrap_or(default)
    }
}

pub fn read_cases(r: impl BufRead) -> Vec<Case> {
    let mut cases = Vec::new();
    let mut cur: Option<Case> = None;
    for line in r.lines() {
        let line = line.expect("read");
        let l = line.trim_end();
        if l.is_empty() || l.starts_with('#') {
            continue;
        }
        if let Some(h) = l.strip_prefix("CASE ") {
            cur = Some(Case { header: h.to_string(), ops: Vec::new() });
        } else if l == "END" {
            if let Some(c) = cur.take() {
                cases.push(c);
            }
        } else if let Some(c) = cur.as_mut() {
            c.ops.push(l.to_string());
        }
    }
    cases
}

pub fn read_cases_from_args() -> Vec<Case> {
    let args: Vec<String> = std::env::args().collect();
    // `<bin> run <file>` or `<bin> run` (stdin)
    if args.len() >= 3 {
        let f = std::fs::File::open(&args[2]).expect("open case file");
        read_cases(std::io::BufReader::new(f))
    } else {
        read_cases(std::io::stdin().lock())
    }
}

/// Run `f` on every case under a watchdog.  `f` gets the case and a sink for
/// output lines.  One worker thread processes the cases in order; the main
/// thread watches a heartbeat.  A case that does not finish within `timeout`
/// gets what it produced so far plus a `HANG` line, and the process stops
/// after printing `ABORTED-AFTER <index>` (the stuck thread can not be
/// cancelled); the driver script re-invokes the binary on the remaining cases.
pub fn run_cases_watchdog<F>(cases: Vec<Case>, timeout: Duration, f: F)
where
    F: Fn(&Case, &mut dyn FnMut(String)) + Send + Sync + 'static,
{
    use std::sync::atomic::{AtomicU64, Ordering};
    use std::sync::{Arc, Mutex};
    use std::time::Instant;
    let start = Instant::now();
    let beat = Arc::new(AtomicU64::new(0)); // ms since start of the current case's begin
    let cur: Arc<Mutex<(usize, String, Vec<String>)>> = Arc::new(Mutex::new((0, String::new(), Vec::new())));
    let (tx, rx) = mpsc::channel::<()>();
    let writer = Arc::new(Mutex::new(std::io::BufWriter::with_capacity(1 << 20, std::io::stdout())));
    let (beat2, cur2, writer2) = (beat.clone(), cur.clone(), writer.clone());
    std::thread::Builder::new()
        .stack_size(512 << 20)
        .spawn(move || {
            for (idx, case) in cases.iter().enumerate() {
                {
                    let mut g = cur2.lock().unwrap();
                    *g = (idx, case.header.clone(), Vec::new());
                }
                beat2.store(start.elapsed().as_millis() as u64, Ordering::SeqCst);
                let mut sink = |s: String| cur2.lock().unwrap().2.push(s);
                let r = std::panic::catch_unwind(std::panic::AssertUnwindSafe(|| f(case, &mut sink)));
                if let Err(e) = r {
                    let msg = if let Some(s) = e.downcast_ref::<&str>() {
                        s.to_string()
                    } else if let Some(s) = e.downcast_ref::<String>() {
                        s.clone()
                    } else {
                        "?".into()
                    };
                    cur2.lock().unwrap().2.push(format!("PANIC {}", msg.replace('\n', " ")));
                }
                let mut g = cur2.lock().unwrap();
                let mut w = writer2.lock().unwrap();
                writeln!(w, "CASE {}", g.1).unwrap();
                for l in g.2.iter() {
                    writeln!(w, "{l}").unwrap();
                }
                writeln!(w, "END").unwrap();
                // a later case may abort the process: nothing finished may be lost
                w.flush().unwrap();
                g.2.clear();
                g.1.clear();
            }
            writer2.lock().unwrap().flush().unwrap();
            let _ = tx.send(());
        })
        .expect("spawn");
    loop {
        match rx.recv_timeout(Duration::from_millis(100)) {
            Ok(()) => break,
            Err(mpsc::RecvTimeoutError::Disconnected) => break,
            Err(mpsc::RecvTimeoutError::Timeout) => {
                let now = start.elapsed().as_millis() as u64;
                let b = beat.load(Ordering::SeqCst);
                if now.saturating_sub(b) > timeout.as_millis() as u64 {
                    // The worker holds no lock while it is stuck inside `f`.
                    let g = cur.lock().unwrap();
                    eprintln!("watchdog: case {} hangs", g.0);
                    let mut so = writer.lock().unwrap();
                    writeln!(so, "CASE {}", g.1).unwrap();
                    for l in g.2.iter() {
                        writeln!(so, "{l}").unwrap();
                    }
                    writeln!(so, "HANG").unwrap();
                    writeln!(so, "END").unwrap();
                    writeln!(so, "ABORTED-AFTER {}", g.0).unwrap();
                    so.flush().unwrap();
                    std::process::exit(0);
                }
            }
        }
    }
}

pub fn mode() -> String {
    std::env::args().nth(1).unwrap_or_else(|| "run".into())
}

pub fn env_u64(key: &str, default: u64) -> u64 {
    std::env::var(key).ok().and_then(|v| v.parse().ok()).unwrap_or(default)
}
