// Links liboxidd_ffi_c.a (built by checks/C19.py from the repository's current working tree with
// `cargo build --release -p oxidd-ffi-c`, CARGO_TARGET_DIR = OXIDD_FFI_LIB_DIR/..).
fn main() {
    let dir = std::env::var("OXIDD_FFI_LIB_DIR").unwrap_or_else(|_| "/verif/.cache/target-ffi/release".into());
    println!("cargo:rerun-if-env-changed=OXIDD_FFI_LIB_DIR");
    println!("cargo:rerun-if-changed={dir}/liboxidd_ffi_c.a");
    println!("cargo:rustc-link-search=native={dir}");
    println!("cargo:rustc-link-lib=static=oxidd_ffi_c");
}
