//! C19 harness: drives the C interface of `liboxidd_ffi_c.a` (built from the repository's
//! working tree) and mirrors every call on the Rust API in a second manager.
//!
//! `h_ffi gen <tier> <seed>` prints a case file, `h_ffi run [file]` executes it and prints per
//! op `"<op> -> C <observable> || R <observable>"`.
//!
//! Case header: `CASE <id> kind=<bdd|bcdd|zbdd> cap=<inner nodes> cache=<n> threads=<n>`.
//! Slots: `m<k>` manager handles, `f<k>` function handles, `s<k>` substitution objects; the
//! harness is the *client* of the C interface and keeps its own ledger of what it owns
//! (following the documentation comments of the entry points).

#![allow(clippy::missing_safety_doc, clippy::too_many_arguments, dead_code)]

#[path = "../../../harness/src/lib.rs"]
mod hcommon;
use hcommon::*;

include!("../inc/ffi_decl.rs");
include!("../inc/ffi_run.rs");
include!("../inc/ffi_gen.rs");

fn main() {
    let mode = mode();
    if mode == "gen" {
        let tier = std::env::args().nth(2).unwrap_or_else(|| "quick".into());
        let seed: u64 = std::env::args().nth(3).and_then(|s| s.parse().ok()).unwrap_or(1);
        gen_cases(&tier, seed);
        return;
    }
    let cases = read_cases_from_args();
    let timeout = std::time::Duration::from_millis(env_u64("VERIF_HANG_MS", 20000));
    run_cases_watchdog(cases, timeout, |case, sink| match case.param("kind") {
        Some("bdd") => run_case::<BddK>(case, sink),
        Some("bcdd") => run_case::<BcddK>(case, sink),
        Some("zbdd") => run_case::<ZbddK>(case, sink),
        k => sink(format!("BADKIND {k:?}")),
    });
}
