// C types and `extern "C"` declarations of crates/oxidd-ffi-c (hand-written from the Rust
// signatures in src/{bdd,bcdd,zbdd}.rs and src/util/*.rs; there is no generated header in the
// offline sandbox), plus the trait `K` that gives the interpreter one view of the three kinds.

use std::ffi::{c_char, c_void};
use std::mem::MaybeUninit;

use oxidd::util::AllocResult;
use oxidd::{
    BooleanFunction, BooleanFunctionQuant, BooleanOperator, BooleanVecSet, Function, FunctionSubst,
    HasLevel, Manager, ManagerRef, Subst, VarNo,
};

/// `oxidd_{bdd,bcdd,zbdd}_manager_t`
#[repr(C)]
#[derive(Clone, Copy, PartialEq, Debug)]
pub struct RawM {
    pub p: *const c_void,
}
/// `oxidd_{bdd,bcdd,zbdd}_t`
#[repr(C)]
#[derive(Clone, Copy, PartialEq, Debug)]
pub struct RawF {
    pub p: *const c_void,
    pub i: usize,
}
pub const INVALID: RawF = RawF { p: std::ptr::null(), i: 0 };
#[repr(C)]
pub struct RawPair {
    pub first: RawF,
    pub second: RawF,
}
#[repr(C)]
#[derive(Clone, Copy)]
pub struct VarRange {
    pub start: u32,
    pub end: u32,
}
#[repr(C)]
#[derive(Clone, Copy)]
pub struct DupRes {
    pub added: VarRange,
    pub present: u32,
}
#[repr(C)]
pub struct Assignment {
    pub data: *mut i8,
    pub len: usize,
}
#[repr(C)]
pub struct NaturalT {
    pub ptr: *mut u64,
    pub len: u64,
    pub shl: u64,
}
#[repr(C)]
pub struct StringT {
    pub data: *const c_char,
    pub len: usize,
    pub cap: usize,
}
#[repr(C)]
pub struct ErrorT {
    pub msg: StringT,
}
#[repr(C)]
#[derive(Clone, Copy)]
pub struct StrT {
    pub ptr: *const c_char,
    pub len: usize,
}
#[repr(C)]
#[derive(Clone, Copy)]
pub struct VarBool {
    pub var: u32,
    pub val: bool,
}
#[repr(C)]
#[derive(Clone, Copy)]
pub struct Opt<T: Copy> {
    pub is_some: bool,
    pub value: MaybeUninit<T>,
}
#[repr(C)]
pub struct SizeHint {
    pub lower: usize,
    pub upper: usize,
}
#[repr(C)]
pub struct Iter<T: Copy> {
    pub next: extern "C" fn(*mut c_void) -> Opt<T>,
    pub size_hint: Option<extern "C" fn(*mut c_void) -> SizeHint>,
    pub context: *mut c_void,
}
#[repr(C)]
#[derive(Clone, Copy)]
pub struct Named<T: Copy> {
    pub func: T,
    pub name: StrT,
}
#[repr(C)]
pub struct ExportSettings {
    pub version: u8,
    pub ascii: bool,
    pub strict: bool,
    pub diagram_name: StrT,
}
#[repr(C)]
pub struct SliceU32 {
    pub ptr: *const u32,
    pub len: usize,
}

extern "C" {
    pub fn oxidd_assignment_free(a: Assignment);
    pub fn oxidd_natural_free(n: NaturalT);
    pub fn oxidd_natural_to_string(n: &NaturalT) -> StringT;
    pub fn oxidd_natural_clone(n: &NaturalT) -> NaturalT;
    pub fn oxidd_natural_eq(a: &NaturalT, b: &NaturalT) -> bool;
    pub fn oxidd_natural_cmp(a: &NaturalT, b: &NaturalT) -> i8;
    pub fn oxidd_string_free(s: StringT);
    pub fn oxidd_string_clone(s: &StringT) -> StringT;
    pub fn oxidd_error_free(e: ErrorT);
    pub fn oxidd_error_clone(e: &ErrorT) -> ErrorT;
    pub fn oxidd_dddmp_open(path: *const c_char, len: usize, error: *mut ErrorT) -> *mut c_void;
    pub fn oxidd_dddmp_close(file: *mut c_void);
    pub fn oxidd_dddmp_num_roots(file: *const c_void) -> usize;
    pub fn oxidd_dddmp_num_vars(file: *const c_void) -> u32;
    pub fn oxidd_dddmp_num_support_vars(file: *const c_void) -> u32;
    pub fn oxidd_dddmp_num_nodes(file: *const c_void) -> usize;
    pub fn oxidd_dddmp_diagram_name(file: *const c_void) -> StrT;
    pub fn oxidd_dddmp_support_var_order(file: *const c_void) -> SliceU32;
    pub fn oxidd_dddmp_has_root_names(file: *const c_void) -> bool;
    pub fn oxidd_dddmp_support_vars(file: *const c_void) -> SliceU32;
    pub fn oxidd_dddmp_support_var_to_level(file: *const c_void) -> SliceU32;
    pub fn oxidd_dddmp_has_var_names(file: *const c_void) -> bool;
    pub fn oxidd_dddmp_var_name(file: *const c_void, i: u32) -> StrT;
    pub fn oxidd_dddmp_root_name(file: *const c_void, i: usize) -> StrT;
}

macro_rules! ffi_common_decl {
    ($k:literal) => {
        extern "C" {
            #[link_name = concat!("oxidd_", $k, "_manager_new")]
            pub fn manager_new(cap: usize, cache: usize, threads: u32) -> RawM;
            #[link_name = concat!("oxidd_", $k, "_manager_ref")]
            pub fn manager_ref(m: RawM) -> RawM;
            #[link_name = concat!("oxidd_", $k, "_manager_unref")]
            pub fn manager_unref(m: RawM);
            #[link_name = concat!("oxidd_", $k, "_ref")]
            pub fn fref(f: RawF) -> RawF;
            #[link_name = concat!("oxidd_", $k, "_unref")]
            pub fn unref(f: RawF);
            #[link_name = concat!("oxidd_", $k, "_manager_run_in_worker_pool")]
            pub fn run_in_worker_pool(
                m: RawM,
                cb: extern "C" fn(*mut c_void) -> *mut c_void,
                data: *mut c_void,
            ) -> *mut c_void;
            #[link_name = concat!("oxidd_", $k, "_containing_manager")]
            pub fn containing_manager(f: RawF) -> RawM;
            #[link_name = concat!("oxidd_", $k, "_manager_num_inner_nodes")]
            pub fn num_inner_nodes(m: RawM) -> usize;
            #[link_name = concat!("oxidd_", $k, "_manager_approx_num_inner_nodes")]
            pub fn approx_num_inner_nodes(m: RawM) -> usize;
            #[link_name = concat!("oxidd_", $k, "_manager_num_vars")]
            pub fn num_vars(m: RawM) -> u32;
            #[link_name = concat!("oxidd_", $k, "_manager_num_named_vars")]
            pub fn num_named_vars(m: RawM) -> u32;
            #[link_name = concat!("oxidd_", $k, "_manager_add_vars")]
            pub fn add_vars(m: RawM, n: u32) -> VarRange;
            #[link_name = concat!("oxidd_", $k, "_manager_add_named_vars")]
            pub fn add_named_vars(m: RawM, names: *const *const c_char, count: u32) -> DupRes;
            #[link_name = concat!("oxidd_", $k, "_manager_add_named_vars_iter")]
            pub fn add_named_vars_iter(m: RawM, iter: Iter<StrT>) -> DupRes;
            #[link_name = concat!("oxidd_", $k, "_manager_var_name")]
            pub fn var_name(m: RawM, var: u32, len: *mut usize) -> *const c_char;
            #[link_name = concat!("oxidd_", $k, "_manager_with_var_name")]
            pub fn with_var_name(
                m: RawM,
                var: u32,
                cb: extern "C" fn(*mut c_void, *const c_char, usize) -> *mut c_void,
                data: *mut c_void,
            ) -> *mut c_void;
            #[link_name = concat!("oxidd_", $k, "_manager_set_var_name")]
            pub fn set_var_name(m: RawM, var: u32, name: *const c_char, len: usize) -> u32;
            #[link_name = concat!("oxidd_", $k, "_manager_name_to_var")]
            pub fn name_to_var(m: RawM, name: *const c_char, len: usize) -> u32;
            #[link_name = concat!("oxidd_", $k, "_manager_var_to_level")]
            pub fn var_to_level(m: RawM, var: u32) -> u32;
            #[link_name = concat!("oxidd_", $k, "_manager_level_to_var")]
            pub fn level_to_var(m: RawM, level: u32) -> u32;
            #[link_name = concat!("oxidd_", $k, "_manager_gc")]
            pub fn gc(m: RawM) -> usize;
            #[link_name = concat!("oxidd_", $k, "_manager_gc_count")]
            pub fn gc_count(m: RawM) -> u64;
            #[link_name = concat!("oxidd_", $k, "_manager_set_var_order")]
            pub fn set_var_order(m: RawM, order: *const u32, len: usize);
            #[link_name = concat!("oxidd_", $k, "_manager_import_dddmp")]
            pub fn import_dddmp(
                m: RawM,
                file: *mut c_void,
                support_vars: *const u32,
                roots: *mut RawF,
                error: *mut ErrorT,
            ) -> bool;
            #[link_name = concat!("oxidd_", $k, "_manager_export_dddmp")]
            pub fn export_dddmp(
                m: RawM,
                path: *const c_char,
                path_len: usize,
                functions: *const RawF,
                num_functions: usize,
                function_names: *const *const c_char,
                settings: *const ExportSettings,
                error: *mut ErrorT,
            ) -> bool;
            #[link_name = concat!("oxidd_", $k, "_manager_export_dddmp_iter")]
            pub fn export_dddmp_iter(
                m: RawM,
                path: *const c_char,
                path_len: usize,
                functions: Iter<RawF>,
                settings: *const ExportSettings,
                error: *mut ErrorT,
            ) -> bool;
            #[link_name = concat!("oxidd_", $k, "_manager_export_dddmp_with_names_iter")]
            pub fn export_dddmp_with_names_iter(
                m: RawM,
                path: *const c_char,
                path_len: usize,
                functions: Iter<Named<RawF>>,
                settings: *const ExportSettings,
                error: *mut ErrorT,
            ) -> bool;
            #[link_name = concat!("oxidd_", $k, "_manager_dump_all_dot_path")]
            pub fn dump_all_dot_path(
                m: RawM,
                path: *const c_char,
                path_len: usize,
                functions: *const RawF,
                function_names: *const *const c_char,
                num_function_names: usize,
                error: *mut ErrorT,
            ) -> bool;
            #[link_name = concat!("oxidd_", $k, "_manager_dump_all_dot_path_iter")]
            pub fn dump_all_dot_path_iter(
                m: RawM,
                path: *const c_char,
                path_len: usize,
                functions: Iter<Named<RawF>>,
                error: *mut ErrorT,
            ) -> bool;
            #[link_name = concat!("oxidd_", $k, "_var")]
            pub fn var(m: RawM, v: u32) -> RawF;
            #[link_name = concat!("oxidd_", $k, "_not_var")]
            pub fn not_var(m: RawM, v: u32) -> RawF;
            #[link_name = concat!("oxidd_", $k, "_false")]
            pub fn ffalse(m: RawM) -> RawF;
            #[link_name = concat!("oxidd_", $k, "_true")]
            pub fn ftrue(m: RawM) -> RawF;
            #[link_name = concat!("oxidd_", $k, "_cofactors")]
            pub fn cofactors(f: RawF) -> RawPair;
            #[link_name = concat!("oxidd_", $k, "_cofactor_true")]
            pub fn cofactor_true(f: RawF) -> RawF;
            #[link_name = concat!("oxidd_", $k, "_cofactor_false")]
            pub fn cofactor_false(f: RawF) -> RawF;
            #[link_name = concat!("oxidd_", $k, "_node_level")]
            pub fn node_level(f: RawF) -> u32;
            #[link_name = concat!("oxidd_", $k, "_node_var")]
            pub fn node_var(f: RawF) -> u32;
            #[link_name = concat!("oxidd_", $k, "_not")]
            pub fn not(f: RawF) -> RawF;
            #[link_name = concat!("oxidd_", $k, "_and")]
            pub fn and(a: RawF, b: RawF) -> RawF;
            #[link_name = concat!("oxidd_", $k, "_or")]
            pub fn or(a: RawF, b: RawF) -> RawF;
            #[link_name = concat!("oxidd_", $k, "_nand")]
            pub fn nand(a: RawF, b: RawF) -> RawF;
            #[link_name = concat!("oxidd_", $k, "_nor")]
            pub fn nor(a: RawF, b: RawF) -> RawF;
            #[link_name = concat!("oxidd_", $k, "_xor")]
            pub fn xor(a: RawF, b: RawF) -> RawF;
            #[link_name = concat!("oxidd_", $k, "_equiv")]
            pub fn equiv(a: RawF, b: RawF) -> RawF;
            #[link_name = concat!("oxidd_", $k, "_imp")]
            pub fn imp(a: RawF, b: RawF) -> RawF;
            #[link_name = concat!("oxidd_", $k, "_imp_strict")]
            pub fn imp_strict(a: RawF, b: RawF) -> RawF;
            #[link_name = concat!("oxidd_", $k, "_ite")]
            pub fn ite(a: RawF, b: RawF, c: RawF) -> RawF;
            #[link_name = concat!("oxidd_", $k, "_node_count")]
            pub fn node_count(f: RawF) -> usize;
            #[link_name = concat!("oxidd_", $k, "_satisfiable")]
            pub fn satisfiable(f: RawF) -> bool;
            #[link_name = concat!("oxidd_", $k, "_valid")]
            pub fn valid(f: RawF) -> bool;
            #[link_name = concat!("oxidd_", $k, "_sat_count")]
            pub fn sat_count(f: RawF, vars: u32) -> NaturalT;
            #[link_name = concat!("oxidd_", $k, "_sat_count_double")]
            pub fn sat_count_double(f: RawF, vars: u32) -> f64;
            #[link_name = concat!("oxidd_", $k, "_pick_cube")]
            pub fn pick_cube(f: RawF) -> Assignment;
            #[link_name = concat!("oxidd_", $k, "_pick_cube_dd")]
            pub fn pick_cube_dd(f: RawF) -> RawF;
            #[link_name = concat!("oxidd_", $k, "_pick_cube_dd_set")]
            pub fn pick_cube_dd_set(f: RawF, lits: RawF) -> RawF;
            #[link_name = concat!("oxidd_", $k, "_eval")]
            pub fn eval(f: RawF, args: *const VarBool, num_args: usize) -> bool;
        }
    };
}

macro_rules! ffi_quant_decl {
    ($k:literal) => {
        extern "C" {
            #[link_name = concat!("oxidd_", $k, "_substitute")]
            pub fn substitute(f: RawF, s: *const c_void) -> RawF;
            #[link_name = concat!("oxidd_", $k, "_substitution_new")]
            pub fn substitution_new(cap: usize) -> *mut c_void;
            #[link_name = concat!("oxidd_", $k, "_substitution_add_pair")]
            pub fn substitution_add_pair(s: *mut c_void, var: u32, replacement: RawF);
            #[link_name = concat!("oxidd_", $k, "_substitution_free")]
            pub fn substitution_free(s: *mut c_void);
            #[link_name = concat!("oxidd_", $k, "_restrict")]
            pub fn restrict(f: RawF, vars: RawF) -> RawF;
            #[link_name = concat!("oxidd_", $k, "_forall")]
            pub fn forall(f: RawF, vars: RawF) -> RawF;
            #[link_name = concat!("oxidd_", $k, "_exists")]
            pub fn exists(f: RawF, vars: RawF) -> RawF;
            #[link_name = concat!("oxidd_", $k, "_unique")]
            pub fn unique(f: RawF, vars: RawF) -> RawF;
            #[link_name = concat!("oxidd_", $k, "_apply_forall")]
            pub fn apply_forall(op: u8, a: RawF, b: RawF, vars: RawF) -> RawF;
            #[link_name = concat!("oxidd_", $k, "_apply_exists")]
            pub fn apply_exists(op: u8, a: RawF, b: RawF, vars: RawF) -> RawF;
            #[link_name = concat!("oxidd_", $k, "_apply_unique")]
            pub fn apply_unique(op: u8, a: RawF, b: RawF, vars: RawF) -> RawF;
        }
    };
}

pub mod c_bdd {
    use super::*;
    ffi_common_decl!("bdd");
    ffi_quant_decl!("bdd");
}
pub mod c_bcdd {
    use super::*;
    ffi_common_decl!("bcdd");
    ffi_quant_decl!("bcdd");
}
pub mod c_zbdd {
    use super::*;
    ffi_common_decl!("zbdd");
    extern "C" {
        pub fn oxidd_zbdd_singleton(m: RawM, v: u32) -> RawF;
        pub fn oxidd_zbdd_make_node(var: RawF, hi: RawF, lo: RawF) -> RawF;
        pub fn oxidd_zbdd_empty(m: RawM) -> RawF;
        pub fn oxidd_zbdd_base(m: RawM) -> RawF;
        pub fn oxidd_zbdd_subset0(f: RawF, v: u32) -> RawF;
        pub fn oxidd_zbdd_subset1(f: RawF, v: u32) -> RawF;
        pub fn oxidd_zbdd_change(f: RawF, v: u32) -> RawF;
        pub fn oxidd_zbdd_union(a: RawF, b: RawF) -> RawF;
        pub fn oxidd_zbdd_intsec(a: RawF, b: RawF) -> RawF;
        pub fn oxidd_zbdd_diff(a: RawF, b: RawF) -> RawF;
    }
}

/// One decision-diagram kind: its C entry points (module `C`) and its Rust API mirror type.
pub trait K: 'static {
    type F: BooleanFunction + Clone + PartialEq + 'static;
    const NAME: &'static str;
    const QUANT: bool;
    const ZSET: bool;
    fn new_mirror(cap: usize, cache: usize, threads: u32) -> <Self::F as Function>::ManagerRef;
    fn r_set_var_order(m: &<Self::F as Function>::ManagerRef, order: &[VarNo]);
    /// Rust API mirror of the kind-specific function-valued calls
    fn r_special(
        _op: &str,
        _a: &[&Self::F],
        _v: VarNo,
        _bop: Option<BooleanOperator>,
    ) -> AllocResult<Self::F> {
        unreachable!()
    }
    fn r_singleton(_m: &<Self::F as Function>::ManagerRef, _v: VarNo) -> AllocResult<Self::F> {
        unreachable!()
    }
    fn r_base(_m: &<Self::F as Function>::ManagerRef) -> Self::F {
        unreachable!()
    }
    fn r_subst(_f: &Self::F, _vars: &[VarNo], _reps: &[Self::F]) -> AllocResult<Self::F> {
        unreachable!()
    }
    fn r_export(
        m: &<Self::F as Function>::ManagerRef,
        path: &str,
        fs: &[&Self::F],
        names: Option<&[String]>,
        ascii: bool,
        v3: bool,
        strict: bool,
        dd_name: &str,
    ) -> std::io::Result<()>;
    fn r_dot(
        m: &<Self::F as Function>::ManagerRef,
        path: &str,
        fs: &[(&Self::F, String)],
    ) -> std::io::Result<()>;
    /// "<level> <var>" of the root node or "none none" for a terminal
    fn r_level(f: &Self::F) -> String;

    // C entry points
    unsafe fn c_special(_op: &str, _a: &[RawF], _v: u32, _bop: u8) -> RawF {
        unreachable!()
    }
    unsafe fn c_singleton(_m: RawM, _v: u32) -> RawF {
        unreachable!()
    }
    unsafe fn c_base(_m: RawM) -> RawF {
        unreachable!()
    }
    unsafe fn c_empty(_m: RawM) -> RawF {
        unreachable!()
    }
    unsafe fn c_substitution_new(_cap: usize) -> *mut c_void {
        unreachable!()
    }
    unsafe fn c_substitution_add_pair(_s: *mut c_void, _v: u32, _f: RawF) {
        unreachable!()
    }
    unsafe fn c_substitution_free(_s: *mut c_void) {
        unreachable!()
    }
    unsafe fn c_substitute(_f: RawF, _s: *const c_void) -> RawF {
        unreachable!()
    }
    fn c() -> &'static CApi;
}

/// table of the entry points shared by the three kinds
pub struct CApi {
    pub manager_new: unsafe extern "C" fn(usize, usize, u32) -> RawM,
    pub manager_ref: unsafe extern "C" fn(RawM) -> RawM,
    pub manager_unref: unsafe extern "C" fn(RawM),
    pub fref: unsafe extern "C" fn(RawF) -> RawF,
    pub unref: unsafe extern "C" fn(RawF),
    pub run_in_worker_pool:
        unsafe extern "C" fn(RawM, extern "C" fn(*mut c_void) -> *mut c_void, *mut c_void) -> *mut c_void,
    pub containing_manager: unsafe extern "C" fn(RawF) -> RawM,
    pub num_inner_nodes: unsafe extern "C" fn(RawM) -> usize,
    pub approx_num_inner_nodes: unsafe extern "C" fn(RawM) -> usize,
    pub num_vars: unsafe extern "C" fn(RawM) -> u32,
    pub num_named_vars: unsafe extern "C" fn(RawM) -> u32,
    pub add_vars: unsafe extern "C" fn(RawM, u32) -> VarRange,
    pub add_named_vars: unsafe extern "C" fn(RawM, *const *const c_char, u32) -> DupRes,
    pub add_named_vars_iter: unsafe extern "C" fn(RawM, Iter<StrT>) -> DupRes,
    pub var_name: unsafe extern "C" fn(RawM, u32, *mut usize) -> *const c_char,
    pub with_var_name: unsafe extern "C" fn(
        RawM,
        u32,
        extern "C" fn(*mut c_void, *const c_char, usize) -> *mut c_void,
        *mut c_void,
    ) -> *mut c_void,
    pub set_var_name: unsafe extern "C" fn(RawM, u32, *const c_char, usize) -> u32,
    pub name_to_var: unsafe extern "C" fn(RawM, *const c_char, usize) -> u32,
    pub var_to_level: unsafe extern "C" fn(RawM, u32) -> u32,
    pub level_to_var: unsafe extern "C" fn(RawM, u32) -> u32,
    pub gc: unsafe extern "C" fn(RawM) -> usize,
    pub gc_count: unsafe extern "C" fn(RawM) -> u64,
    pub set_var_order: unsafe extern "C" fn(RawM, *const u32, usize),
    pub import_dddmp: unsafe extern "C" fn(RawM, *mut c_void, *const u32, *mut RawF, *mut ErrorT) -> bool,
    pub export_dddmp: unsafe extern "C" fn(
        RawM,
        *const c_char,
        usize,
        *const RawF,
        usize,
        *const *const c_char,
        *const ExportSettings,
        *mut ErrorT,
    ) -> bool,
    pub export_dddmp_iter:
        unsafe extern "C" fn(RawM, *const c_char, usize, Iter<RawF>, *const ExportSettings, *mut ErrorT) -> bool,
    pub export_dddmp_with_names_iter: unsafe extern "C" fn(
        RawM,
        *const c_char,
        usize,
        Iter<Named<RawF>>,
        *const ExportSettings,
        *mut ErrorT,
    ) -> bool,
    pub dump_all_dot_path: unsafe extern "C" fn(
        RawM,
        *const c_char,
        usize,
        *const RawF,
        *const *const c_char,
        usize,
        *mut ErrorT,
    ) -> bool,
    pub dump_all_dot_path_iter:
        unsafe extern "C" fn(RawM, *const c_char, usize, Iter<Named<RawF>>, *mut ErrorT) -> bool,
    pub var: unsafe extern "C" fn(RawM, u32) -> RawF,
    pub not_var: unsafe extern "C" fn(RawM, u32) -> RawF,
    pub ffalse: unsafe extern "C" fn(RawM) -> RawF,
    pub ftrue: unsafe extern "C" fn(RawM) -> RawF,
    pub cofactors: unsafe extern "C" fn(RawF) -> RawPair,
    pub cofactor_true: unsafe extern "C" fn(RawF) -> RawF,
    pub cofactor_false: unsafe extern "C" fn(RawF) -> RawF,
    pub node_level: unsafe extern "C" fn(RawF) -> u32,
    pub node_var: unsafe extern "C" fn(RawF) -> u32,
    pub not: unsafe extern "C" fn(RawF) -> RawF,
    pub and: unsafe extern "C" fn(RawF, RawF) -> RawF,
    pub or: unsafe extern "C" fn(RawF, RawF) -> RawF,
    pub nand: unsafe extern "C" fn(RawF, RawF) -> RawF,
    pub nor: unsafe extern "C" fn(RawF, RawF) -> RawF,
    pub xor: unsafe extern "C" fn(RawF, RawF) -> RawF,
    pub equiv: unsafe extern "C" fn(RawF, RawF) -> RawF,
    pub imp: unsafe extern "C" fn(RawF, RawF) -> RawF,
    pub imp_strict: unsafe extern "C" fn(RawF, RawF) -> RawF,
    pub ite: unsafe extern "C" fn(RawF, RawF, RawF) -> RawF,
    pub node_count: unsafe extern "C" fn(RawF) -> usize,
    pub satisfiable: unsafe extern "C" fn(RawF) -> bool,
    pub valid: unsafe extern "C" fn(RawF) -> bool,
    pub sat_count: unsafe extern "C" fn(RawF, u32) -> NaturalT,
    pub sat_count_double: unsafe extern "C" fn(RawF, u32) -> f64,
    pub pick_cube: unsafe extern "C" fn(RawF) -> Assignment,
    pub pick_cube_dd: unsafe extern "C" fn(RawF) -> RawF,
    pub pick_cube_dd_set: unsafe extern "C" fn(RawF, RawF) -> RawF,
    pub eval: unsafe extern "C" fn(RawF, *const VarBool, usize) -> bool,
}

macro_rules! capi_table {
    ($m:ident) => {
        CApi {
            manager_new: $m::manager_new,
            manager_ref: $m::manager_ref,
            manager_unref: $m::manager_unref,
            fref: $m::fref,
            unref: $m::unref,
            run_in_worker_pool: $m::run_in_worker_pool,
            containing_manager: $m::containing_manager,
            num_inner_nodes: $m::num_inner_nodes,
            approx_num_inner_nodes: $m::approx_num_inner_nodes,
            num_vars: $m::num_vars,
            num_named_vars: $m::num_named_vars,
            add_vars: $m::add_vars,
            add_named_vars: $m::add_named_vars,
            add_named_vars_iter: $m::add_named_vars_iter,
            var_name: $m::var_name,
            with_var_name: $m::with_var_name,
            set_var_name: $m::set_var_name,
            name_to_var: $m::name_to_var,
            var_to_level: $m::var_to_level,
            level_to_var: $m::level_to_var,
            gc: $m::gc,
            gc_count: $m::gc_count,
            set_var_order: $m::set_var_order,
            import_dddmp: $m::import_dddmp,
            export_dddmp: $m::export_dddmp,
            export_dddmp_iter: $m::export_dddmp_iter,
            export_dddmp_with_names_iter: $m::export_dddmp_with_names_iter,
            dump_all_dot_path: $m::dump_all_dot_path,
            dump_all_dot_path_iter: $m::dump_all_dot_path_iter,
            var: $m::var,
            not_var: $m::not_var,
            ffalse: $m::ffalse,
            ftrue: $m::ftrue,
            cofactors: $m::cofactors,
            cofactor_true: $m::cofactor_true,
            cofactor_false: $m::cofactor_false,
            node_level: $m::node_level,
            node_var: $m::node_var,
            not: $m::not,
            and: $m::and,
            or: $m::or,
            nand: $m::nand,
            nor: $m::nor,
            xor: $m::xor,
            equiv: $m::equiv,
            imp: $m::imp,
            imp_strict: $m::imp_strict,
            ite: $m::ite,
            node_count: $m::node_count,
            satisfiable: $m::satisfiable,
            valid: $m::valid,
            sat_count: $m::sat_count,
            sat_count_double: $m::sat_count_double,
            pick_cube: $m::pick_cube,
            pick_cube_dd: $m::pick_cube_dd,
            pick_cube_dd_set: $m::pick_cube_dd_set,
            eval: $m::eval,
        }
    };
}

static C_BDD: CApi = capi_table!(c_bdd);
static C_BCDD: CApi = capi_table!(c_bcdd);
static C_ZBDD: CApi = capi_table!(c_zbdd);

fn do_export<'id, F>(
    m: &F::Manager<'id>,
    path: &str,
    fs: &[&F],
    names: Option<&[String]>,
    ascii: bool,
    v3: bool,
    strict: bool,
    dd_name: &str,
) -> std::io::Result<()>
where
    F: Function,
    oxidd_core::function::INodeOfFunc<'id, F>: HasLevel,
    oxidd_core::function::TermOfFunc<'id, F>: oxidd_dump::AsciiDisplay,
{
    use oxidd_dump::dddmp;
    let file = std::fs::File::create(path)?;
    let set = dddmp::ExportSettings::default();
    let set = if ascii { set.ascii() } else { set };
    let set = set
        .version(if v3 { dddmp::DDDMPVersion::V3_0 } else { dddmp::DDDMPVersion::V2_0 })
        .strict(strict)
        .diagram_name(dd_name);
    match names {
        None => set.export(file, m, fs.iter().copied()),
        Some(ns) => set.export_with_names(file, m, fs.iter().copied().zip(ns.iter())),
    }
}

macro_rules! quant_kind {
    ($K:ident, $name:literal, $m:ident, $F:ty, $new:path, $tab:ident) => {
        pub struct $K;
        impl K for $K {
            type F = $F;
            const NAME: &'static str = $name;
            const QUANT: bool = true;
            const ZSET: bool = false;
            fn new_mirror(cap: usize, cache: usize, threads: u32) -> <$F as Function>::ManagerRef {
                $new(cap, cache, threads)
            }
            fn r_set_var_order(m: &<$F as Function>::ManagerRef, order: &[VarNo]) {
                m.with_manager_exclusive(|m| oxidd_reorder::set_var_order(m, order))
            }
            fn r_special(op: &str, a: &[&$F], _v: VarNo, bop: Option<BooleanOperator>) -> AllocResult<$F> {
                match op {
                    "RESTRICT" => a[0].restrict(a[1]),
                    "FORALL" => a[0].forall(a[1]),
                    "EXISTS" => a[0].exists(a[1]),
                    "UNIQUE" => a[0].unique(a[1]),
                    "AFA" => a[0].apply_forall(bop.unwrap(), a[1], a[2]),
                    "AEX" => a[0].apply_exists(bop.unwrap(), a[1], a[2]),
                    "AUQ" => a[0].apply_unique(bop.unwrap(), a[1], a[2]),
                    _ => unreachable!(),
                }
            }
            fn r_subst(f: &$F, vars: &[VarNo], reps: &[$F]) -> AllocResult<$F> {
                let s = Subst::new(vars.to_vec(), reps.to_vec());
                f.substitute(&s)
            }
            fn r_export(
                m: &<$F as Function>::ManagerRef,
                path: &str,
                fs: &[&$F],
                names: Option<&[String]>,
                ascii: bool,
                v3: bool,
                strict: bool,
                dd_name: &str,
            ) -> std::io::Result<()> {
                m.with_manager_shared(|m| do_export::<$F>(m, path, fs, names, ascii, v3, strict, dd_name))
            }
            fn r_dot(m: &<$F as Function>::ManagerRef, path: &str, fs: &[(&$F, String)]) -> std::io::Result<()> {
                let file = std::fs::File::create(path)?;
                m.with_manager_shared(|m| {
                    oxidd_dump::dot::dump_all(
                        std::io::BufWriter::new(file),
                        m,
                        fs.iter().map(|(f, n)| (*f, n.as_str())),
                    )
                })
            }
            fn r_level(f: &$F) -> String {
                f.with_manager_shared(|m, e| match m.get_node(e) {
                    oxidd::Node::Inner(n) => {
                        let l = n.level();
                        format!("{} {}", l, m.level_to_var(l))
                    }
                    oxidd::Node::Terminal(_) => "none none".to_string(),
                })
            }
            unsafe fn c_special(op: &str, a: &[RawF], _v: u32, bop: u8) -> RawF {
                match op {
                    "RESTRICT" => $m::restrict(a[0], a[1]),
                    "FORALL" => $m::forall(a[0], a[1]),
                    "EXISTS" => $m::exists(a[0], a[1]),
                    "UNIQUE" => $m::unique(a[0], a[1]),
                    "AFA" => $m::apply_forall(bop, a[0], a[1], a[2]),
                    "AEX" => $m::apply_exists(bop, a[0], a[1], a[2]),
                    "AUQ" => $m::apply_unique(bop, a[0], a[1], a[2]),
                    _ => unreachable!(),
                }
            }
            unsafe fn c_substitution_new(cap: usize) -> *mut c_void {
                $m::substitution_new(cap)
            }
            unsafe fn c_substitution_add_pair(s: *mut c_void, v: u32, f: RawF) {
                $m::substitution_add_pair(s, v, f)
            }
            unsafe fn c_substitution_free(s: *mut c_void) {
                $m::substitution_free(s)
            }
            unsafe fn c_substitute(f: RawF, s: *const c_void) -> RawF {
                $m::substitute(f, s)
            }
            fn c() -> &'static CApi {
                &$tab
            }
        }
    };
}

quant_kind!(BddK, "bdd", c_bdd, oxidd::bdd::BDDFunction, oxidd::bdd::new_manager, C_BDD);
quant_kind!(BcddK, "bcdd", c_bcdd, oxidd::bcdd::BCDDFunction, oxidd::bcdd::new_manager, C_BCDD);

pub struct ZbddK;
type ZF = oxidd::zbdd::ZBDDFunction;
impl K for ZbddK {
    type F = ZF;
    const NAME: &'static str = "zbdd";
    const QUANT: bool = false;
    const ZSET: bool = true;
    fn new_mirror(cap: usize, cache: usize, threads: u32) -> <ZF as Function>::ManagerRef {
        oxidd::zbdd::new_manager(cap, cache, threads)
    }
    fn r_set_var_order(m: &<ZF as Function>::ManagerRef, order: &[VarNo]) {
        m.with_manager_exclusive(|m| oxidd_reorder::set_var_order(m, order))
    }
    fn r_special(op: &str, a: &[&ZF], v: VarNo, _bop: Option<BooleanOperator>) -> AllocResult<ZF> {
        match op {
            "SUBSET0" => a[0].subset0(v),
            "SUBSET1" => a[0].subset1(v),
            "CHANGE" => a[0].change(v),
            "UNION" => a[0].union(a[1]),
            "INTSEC" => a[0].intsec(a[1]),
            "DIFF" => a[0].diff(a[1]),
            "MKNODE" => a[0].with_manager_shared(|m, var| {
                let hi = m.clone_edge(a[1].as_edge(m));
                let lo = m.clone_edge(a[2].as_edge(m));
                oxidd::zbdd::make_node(m, var, hi, lo).map(|e| ZF::from_edge(m, e))
            }),
            _ => unreachable!(),
        }
    }
    fn r_singleton(m: &<ZF as Function>::ManagerRef, v: VarNo) -> AllocResult<ZF> {
        m.with_manager_shared(|m| ZF::singleton(m, v))
    }
    fn r_base(m: &<ZF as Function>::ManagerRef) -> ZF {
        m.with_manager_shared(|m| ZF::base(m))
    }
    fn r_export(
        m: &<ZF as Function>::ManagerRef,
        path: &str,
        fs: &[&ZF],
        names: Option<&[String]>,
        ascii: bool,
        v3: bool,
        strict: bool,
        dd_name: &str,
    ) -> std::io::Result<()> {
        m.with_manager_shared(|m| do_export::<ZF>(m, path, fs, names, ascii, v3, strict, dd_name))
    }
    fn r_dot(m: &<ZF as Function>::ManagerRef, path: &str, fs: &[(&ZF, String)]) -> std::io::Result<()> {
        let file = std::fs::File::create(path)?;
        m.with_manager_shared(|m| {
            oxidd_dump::dot::dump_all(std::io::BufWriter::new(file), m, fs.iter().map(|(f, n)| (*f, n.as_str())))
        })
    }
    fn r_level(f: &ZF) -> String {
        f.with_manager_shared(|m, e| match m.get_node(e) {
            oxidd::Node::Inner(n) => {
                let l = n.level();
                format!("{} {}", l, m.level_to_var(l))
            }
            oxidd::Node::Terminal(_) => "none none".to_string(),
        })
    }
    unsafe fn c_special(op: &str, a: &[RawF], v: u32, _bop: u8) -> RawF {
        match op {
            "SUBSET0" => c_zbdd::oxidd_zbdd_subset0(a[0], v),
            "SUBSET1" => c_zbdd::oxidd_zbdd_subset1(a[0], v),
            "CHANGE" => c_zbdd::oxidd_zbdd_change(a[0], v),
            "UNION" => c_zbdd::oxidd_zbdd_union(a[0], a[1]),
            "INTSEC" => c_zbdd::oxidd_zbdd_intsec(a[0], a[1]),
            "DIFF" => c_zbdd::oxidd_zbdd_diff(a[0], a[1]),
            "MKNODE" => c_zbdd::oxidd_zbdd_make_node(a[0], a[1], a[2]),
            _ => unreachable!(),
        }
    }
    unsafe fn c_singleton(m: RawM, v: u32) -> RawF {
        c_zbdd::oxidd_zbdd_singleton(m, v)
    }
    unsafe fn c_base(m: RawM) -> RawF {
        c_zbdd::oxidd_zbdd_base(m)
    }
    unsafe fn c_empty(m: RawM) -> RawF {
        c_zbdd::oxidd_zbdd_empty(m)
    }
    fn c() -> &'static CApi {
        &C_ZBDD
    }
}
