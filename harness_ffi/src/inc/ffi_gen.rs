// Case generator: enumerated ownership probes (every function-valued entry point x every
// validity pattern of its operands x ref/unref/gc placements) and random call sequences.
// Sequences are legal by construction (documented preconditions); calls that need a *valid*
// function are skipped by the interpreter when the handle turned out invalid at run time.

const BIN_OPS: [&str; 8] = ["AND", "OR", "NAND", "NOR", "XOR", "EQUIV", "IMP", "IMPS"];

#[derive(Clone, Default)]
struct GSlot {
    /// Some((pos, neg)): if valid, the function is this conjunction of literals
    cube: Option<(u64, u64)>,
    /// Some(mask): (zbdd) if valid, every member set is a subset of mask
    zmask: Option<u64>,
    singleton: Option<u32>,
}

struct Gen {
    rng: Rng,
    kind: &'static str,
    ops: Vec<String>,
    next_f: usize,
    next_m: usize,
    next_s: usize,
    nv: u32,
    order: Vec<u32>, // level -> var
    funs: BTreeMap<usize, GSlot>,
    mgrs: Vec<usize>,
    subs: BTreeMap<usize, (Vec<u32>, bool)>, // vars, used
    /// the manager is too small for the work: no reordering (level swaps abort the process when
    /// they run out of memory, by design), no later add_vars for ZBDDs (tautology chain rebuild)
    small: bool,
}

impl Gen {
    fn new(kind: &'static str, seed: u64) -> Self {
        Gen {
            rng: Rng::new(seed),
            kind,
            ops: Vec::new(),
            next_f: 0,
            next_m: 0,
            next_s: 0,
            nv: 0,
            order: Vec::new(),
            funs: BTreeMap::new(),
            mgrs: Vec::new(),
            subs: BTreeMap::new(),
            small: false,
        }
    }
    fn quant(&self) -> bool {
        self.kind != "zbdd"
    }
    fn z(&self) -> bool {
        self.kind == "zbdd"
    }
    fn emit(&mut self, s: String) {
        self.ops.push(s);
    }
    fn newf(&mut self, s: GSlot) -> usize {
        let d = self.next_f;
        self.next_f += 1;
        self.funs.insert(d, s);
        d
    }
    fn m(&mut self) -> usize {
        let i = self.rng.below(self.mgrs.len() as u64) as usize;
        self.mgrs[i]
    }
    fn mnew(&mut self) {
        let d = self.next_m;
        self.next_m += 1;
        self.mgrs.push(d);
        self.emit(format!("MNEW m{d}"));
    }
    fn addvars(&mut self, k: u32) {
        let m = self.m();
        self.emit(format!("ADDVARS m{m} {k}"));
        for v in self.nv..self.nv + k {
            self.order.push(v);
        }
        self.nv += k;
        if self.z() {
            // a ZBDD function that was a cube stays one (the new variables occur negated)
            let (lo, hi) = (self.nv - k, self.nv);
            for s in self.funs.values_mut() {
                if let Some((_, n)) = s.cube.as_mut() {
                    for v in lo..hi {
                        *n |= 1 << v;
                    }
                }
            }
        }
    }
    fn level_of(&self, v: u32) -> usize {
        self.order.iter().position(|x| *x == v).unwrap()
    }
    fn any_f(&mut self) -> Option<usize> {
        if self.funs.is_empty() {
            return None;
        }
        let keys: Vec<usize> = self.funs.keys().copied().collect();
        Some(keys[self.rng.below(keys.len() as u64) as usize])
    }
    fn pick_where(&mut self, p: impl Fn(&GSlot) -> bool) -> Option<usize> {
        let keys: Vec<usize> = self.funs.iter().filter(|(_, s)| p(s)).map(|(k, _)| *k).collect();
        if keys.is_empty() {
            None
        } else {
            Some(keys[self.rng.below(keys.len() as u64) as usize])
        }
    }
    fn var(&mut self, v: u32, neg: bool) -> usize {
        let m = self.m();
        let cube = if neg { (0, 1u64 << v) } else { (1u64 << v, 0) };
        let d = self.newf(GSlot { cube: Some(cube), ..Default::default() });
        self.emit(format!("{} f{d} m{m} {v}", if neg { "NVAR" } else { "VAR" }));
        d
    }
    /// a fresh cube over random distinct variables (positive literals only if `pos_only`)
    fn make_cube(&mut self, pos_only: bool) -> usize {
        let cnt = self.rng.range(1, 2.min(self.nv as u64).max(1));
        let mut vars: Vec<u32> = (0..self.nv).collect();
        let mut cur: Option<usize> = None;
        for _ in 0..cnt {
            if vars.is_empty() {
                break;
            }
            let v = vars.remove(self.rng.below(vars.len() as u64) as usize);
            let neg = !pos_only && self.rng.chance(1, 2);
            let l = self.var(v, neg);
            cur = Some(match cur {
                None => l,
                Some(c) => {
                    let (a, b) = (self.funs[&c].cube.unwrap(), self.funs[&l].cube.unwrap());
                    let d = self.newf(GSlot { cube: Some((a.0 | b.0, a.1 | b.1)), ..Default::default() });
                    self.emit(format!("AND f{d} f{c} f{l}"));
                    d
                }
            });
        }
        cur.unwrap()
    }
    fn is_pos_cube(s: &GSlot) -> bool {
        matches!(s.cube, Some((_, 0)))
    }
    fn zset(&mut self) -> usize {
        // a small family built from terminals / singletons
        let m = self.m();
        match self.rng.below(3) {
            0 => {
                let d = self.newf(GSlot { zmask: Some(0), ..Default::default() });
                self.emit(format!("BASE f{d} m{m}"));
                d
            }
            1 => {
                let d = self.newf(GSlot { zmask: Some(0), cube: None, ..Default::default() });
                self.emit(format!("EMPTY f{d} m{m}"));
                d
            }
            _ => {
                let v = self.rng.below(self.nv as u64) as u32;
                let d = self.newf(GSlot { zmask: Some(1 << v), singleton: Some(v), ..Default::default() });
                self.emit(format!("SINGLETON f{d} m{m} {v}"));
                d
            }
        }
    }

    /// one random step
    fn step(&mut self) {
        let r = self.rng.below(100);
        let nf = self.funs.len();
        if nf < 3 || r < 8 {
            // constructors
            let m = self.m();
            match self.rng.below(if self.z() { 8 } else { 5 }) {
                0 => {
                    let d = self.newf(GSlot::default());
                    self.emit(format!("FALSE f{d} m{m}"));
                }
                1 => {
                    let d = self.newf(GSlot { cube: Some((0, 0)), ..Default::default() });
                    // for ZBDDs ⊤ is the conjunction of no literals as well
                    self.emit(format!("TRUE f{d} m{m}"));
                }
                2 | 3 => {
                    let v = self.rng.below(self.nv as u64) as u32;
                    let neg = self.rng.chance(1, 2);
                    self.var(v, neg);
                }
                4 => {
                    let po = self.rng.chance(1, 2);
                    self.make_cube(po);
                }
                _ => {
                    self.zset();
                }
            }
            return;
        }
        let a = self.any_f().unwrap();
        let b = self.any_f().unwrap();
        let c = self.any_f().unwrap();
        match r {
            8..=27 => {
                let op = *self.rng.pick(&BIN_OPS);
                let (sa, sb) = (self.funs[&a].clone(), self.funs[&b].clone());
                let cube = match (op, sa.cube, sb.cube) {
                    ("AND", Some(x), Some(y)) if (x.0 | x.1) & (y.0 | y.1) == 0 => Some((x.0 | y.0, x.1 | y.1)),
                    _ => None,
                };
                let d = self.newf(GSlot { cube, ..Default::default() });
                self.emit(format!("{op} f{d} f{a} f{b}"));
            }
            28..=31 => {
                let d = self.newf(GSlot::default());
                self.emit(format!("NOT f{d} f{a}"));
            }
            32..=36 => {
                let d = self.newf(GSlot::default());
                self.emit(format!("ITE f{d} f{a} f{b} f{c}"));
            }
            37..=42 => {
                let s = self.funs[&a].clone();
                let d = self.newf(s);
                self.emit(format!("REF f{d} f{a}"));
            }
            43..=52 => {
                self.funs.remove(&a);
                self.emit(format!("UNREF f{a}"));
            }
            53..=55 => {
                let zm = self.funs[&a].zmask;
                let (d1, d2) = (
                    self.newf(GSlot { zmask: zm, ..Default::default() }),
                    self.newf(GSlot { zmask: zm, ..Default::default() }),
                );
                self.emit(format!("COFS f{d1} f{d2} f{a}"));
            }
            56..=57 => {
                let zm = self.funs[&a].zmask;
                let d = self.newf(GSlot { zmask: zm, ..Default::default() });
                let t = self.rng.chance(1, 2);
                self.emit(format!("{} f{d} f{a}", if t { "COFT" } else { "COFF" }));
            }
            58..=60 => {
                let d = self.newf(GSlot::default());
                self.emit(format!("PICKDD f{d} f{a}"));
            }
            61..=62 => {
                let cb = match self.pick_where(|s| s.cube.is_some()) {
                    Some(x) => x,
                    None => self.make_cube(false),
                };
                let d = self.newf(GSlot::default());
                self.emit(format!("PICKSET f{d} f{a} f{cb}"));
            }
            63..=72 if self.quant() => {
                let which = self.rng.below(8);
                if which == 0 {
                    let cb = match self.pick_where(|s| s.cube.is_some()) {
                        Some(x) => x,
                        None => self.make_cube(false),
                    };
                    let d = self.newf(GSlot::default());
                    self.emit(format!("RESTRICT f{d} f{a} f{cb}"));
                } else {
                    let cb = match self.pick_where(Self::is_pos_cube) {
                        Some(x) => x,
                        None => self.make_cube(true),
                    };
                    let d = self.newf(GSlot::default());
                    match which {
                        1 | 2 | 3 => {
                            let q = ["FORALL", "EXISTS", "UNIQUE"][(which - 1) as usize];
                            self.emit(format!("{q} f{d} f{a} f{cb}"));
                        }
                        _ => {
                            let q = *self.rng.pick(&["AFA", "AEX", "AUQ"]);
                            let op = *self.rng.pick(&BIN_OPS);
                            self.emit(format!("{q} {op} f{d} f{a} f{b} f{cb}"));
                        }
                    }
                }
            }
            73..=78 if self.quant() => {
                // substitutions
                let unused: Vec<usize> = self.subs.iter().filter(|(_, s)| !s.1).map(|(k, _)| *k).collect();
                let any: Vec<usize> = self.subs.keys().copied().collect();
                match self.rng.below(6) {
                    0 => {
                        let s = self.next_s;
                        self.next_s += 1;
                        self.subs.insert(s, (Vec::new(), false));
                        self.emit(format!("SNEW s{s}"));
                    }
                    1 | 2 if !unused.is_empty() => {
                        let s = unused[self.rng.below(unused.len() as u64) as usize];
                        let free: Vec<u32> = (0..self.nv).filter(|v| !self.subs[&s].0.contains(v)).collect();
                        if !free.is_empty() {
                            let v = free[self.rng.below(free.len() as u64) as usize];
                            self.subs.get_mut(&s).unwrap().0.push(v);
                            self.emit(format!("SADD s{s} {v} f{b}"));
                        }
                    }
                    3 | 4 if !any.is_empty() => {
                        let s = any[self.rng.below(any.len() as u64) as usize];
                        self.subs.get_mut(&s).unwrap().1 = true;
                        let d = self.newf(GSlot::default());
                        self.emit(format!("SUBST f{d} f{a} s{s}"));
                    }
                    5 if !any.is_empty() => {
                        let s = any[self.rng.below(any.len() as u64) as usize];
                        self.subs.remove(&s);
                        self.emit(format!("SFREE s{s}"));
                    }
                    _ => {
                        let d = self.newf(GSlot::default());
                        self.emit(format!("SUBST f{d} f{a} null"));
                    }
                }
            }
            63..=72 => {
                // zbdd set operations
                let v = self.rng.below(self.nv as u64) as u32;
                match self.rng.below(6) {
                    0 | 1 | 2 => {
                        let op = ["SUBSET0", "SUBSET1", "CHANGE"][self.rng.below(3) as usize];
                        let zm = self.funs[&a].zmask.map(|m| m | 1 << v);
                        let d = self.newf(GSlot { zmask: zm, ..Default::default() });
                        self.emit(format!("{op} f{d} f{a} {v}"));
                    }
                    _ => {
                        let op = ["UNION", "INTSEC", "DIFF"][self.rng.below(3) as usize];
                        let zm = match (self.funs[&a].zmask, self.funs[&b].zmask) {
                            (Some(x), Some(y)) => Some(x | y),
                            _ => None,
                        };
                        let d = self.newf(GSlot { zmask: zm, ..Default::default() });
                        self.emit(format!("{op} f{d} f{a} f{b}"));
                    }
                }
            }
            73..=78 => {
                // zbdd make_node: var = singleton {v}; hi, lo only use variables below v
                let v = self.rng.below(self.nv as u64) as u32;
                let lv = self.level_of(v);
                let below: u64 = self.order[lv + 1..].iter().fold(0, |m, u| m | 1 << u);
                let ok = |s: &GSlot| matches!(s.zmask, Some(m) if m & !below == 0);
                let hi = match self.pick_where(ok) {
                    Some(x) => x,
                    None => {
                        let m = self.m();
                        let d = self.newf(GSlot { zmask: Some(0), ..Default::default() });
                        self.emit(format!("BASE f{d} m{m}"));
                        d
                    }
                };
                let lo = self.pick_where(ok).unwrap();
                let m = self.m();
                let sv = self.newf(GSlot { zmask: Some(1 << v), singleton: Some(v), ..Default::default() });
                self.emit(format!("SINGLETON f{sv} m{m} {v}"));
                // fresh references for the two consumed operands; never used again by the generator
                let (fh, fl) = (self.next_f, self.next_f + 1);
                self.next_f += 2;
                self.emit(format!("REF f{fh} f{hi}"));
                self.emit(format!("REF f{fl} f{lo}"));
                let zm = self.funs[&hi].zmask.unwrap() | self.funs[&lo].zmask.unwrap() | 1 << v;
                let d = self.newf(GSlot { zmask: Some(zm), ..Default::default() });
                self.emit(format!("MKNODE f{d} f{sv} f{fh} f{fl}"));
            }
            79..=80 => {
                let d = self.newf(GSlot::default());
                self.emit(format!("INV f{d}"));
            }
            81..=84 => {
                let q = match self.rng.below(6) {
                    0 => format!("NC f{a}"),
                    1 => format!("SAT f{a}"),
                    2 => {
                        let extra = if self.z() || self.rng.chance(2, 3) { 0 } else { self.rng.below(3) as u32 };
                        format!("SATCOUNT f{a} {}", self.nv + extra)
                    }
                    3 => format!("PICK f{a}"),
                    4 => format!("LEVEL f{a}"),
                    _ => {
                        // every variable gets a value (in random order), some twice (last one counts)
                        let mut vs: Vec<u32> = (0..self.nv).collect();
                        for _ in 0..self.rng.below(3) {
                            vs.push(self.rng.below(self.nv as u64) as u32);
                        }
                        for i in (1..vs.len()).rev() {
                            vs.swap(i, self.rng.below(i as u64 + 1) as usize);
                        }
                        let args: Vec<String> = vs.iter().map(|v| format!("{v}={}", self.rng.below(2))).collect();
                        format!("EVAL f{a} {}", if args.is_empty() { "-".to_string() } else { args.join(",") })
                    }
                };
                self.emit(q);
            }
            85..=87 => {
                let m = self.m();
                self.emit(format!("GC m{m}"));
            }
            88 => {
                let m = self.m();
                self.emit(format!("COUNTS m{m}"));
            }
            89 => {
                // manager handles: ref / unref / containing (at least one handle is kept)
                let m = self.m();
                match self.rng.below(3) {
                    0 => {
                        let d = self.next_m;
                        self.next_m += 1;
                        self.mgrs.push(d);
                        self.emit(format!("MREF m{d} m{m}"));
                    }
                    1 if self.mgrs.len() > 1 => {
                        self.mgrs.retain(|x| *x != m);
                        self.emit(format!("MUNREF m{m}"));
                    }
                    _ => {
                        let m2 = self.m();
                        let x = self.rng.below(1000);
                        self.emit(format!("POOL m{m2} {x}"));
                    }
                }
            }
            90 if self.nv < 6 && !(self.small && self.z()) => self.addvars(1),
            91 if !self.small => {
                // full permutation
                let mut p: Vec<u32> = (0..self.nv).collect();
                for i in (1..p.len()).rev() {
                    p.swap(i, self.rng.below(i as u64 + 1) as usize);
                }
                let m = self.m();
                self.order = p.clone();
                let s: Vec<String> = p.iter().map(|v| v.to_string()).collect();
                if p.len() >= 2 {
                    self.emit(format!("ORDER m{m} {}", s.join(" ")));
                    // both directions of the variable/level permutation, C versus Rust, right away
                    self.emit(format!("COUNTS m{m}"));
                }
            }
            92..=93 => {
                // export (+ import): operands and destinations
                let k = self.rng.range(1, 2) as usize;
                let srcs: Vec<usize> = (0..k).map(|_| self.any_f().unwrap()).collect();
                let m = self.m();
                let ss: Vec<String> = srcs.iter().map(|s| format!("f{s}")).collect();
                let bin_ok = self.kind == "bcdd";
                let ascii = if bin_ok && self.rng.chance(1, 2) { "b" } else { "a" };
                let ver = if self.rng.chance(1, 2) { "2" } else { "3" };
                if self.rng.chance(1, 2) {
                    let ds: Vec<String> = srcs.iter().map(|_| format!("f{}", self.newf(GSlot::default()))).collect();
                    // if the export fails at run time (an invalid source) the destinations stay unused
                    for d in &ds {
                        self.funs.remove(&d[1..].parse::<usize>().unwrap());
                    }
                    self.emit(format!("RT m{m} {ascii} {ver} {} {}", ds.join(","), ss.join(",")));
                } else {
                    let mode = *self.rng.pick(&["arr", "arrn", "iter", "itern"]);
                    let x = self.rng.below(9);
                    self.emit(format!("EXPORT m{m} {mode} {ascii} {ver} 0 dd{x} {}", ss.join(",")));
                }
            }
            94 => {
                let srcs: Vec<String> = (0..self.rng.range(0, 2)).map(|_| format!("f{}", self.any_f().unwrap())).collect();
                let m = self.m();
                let mode = if self.rng.chance(1, 2) { "arr" } else { "iter" };
                self.emit(format!("DOT m{m} {mode} {}", if srcs.is_empty() { "-".to_string() } else { srcs.join(",") }));
            }
            95 => {
                let m = self.m();
                let v = self.rng.below(self.nv as u64);
                match self.rng.below(4) {
                    0 => {
                        let nm = *self.rng.pick(&["a", "b", "c", "-", "x_y"]);
                        self.emit(format!("SETNAME m{m} {v} {nm}"))
                    }
                    1 => self.emit(format!("NAME m{m} {v}")),
                    2 => {
                        let nm = *self.rng.pick(&["a", "b", "c", "-", "zz"]);
                        self.emit(format!("N2V m{m} {nm}"))
                    }
                    _ => self.emit(format!("TT f{a}")),
                }
            }
            _ => {
                self.emit(format!("TT f{a}"));
            }
        }
    }

    fn finish(mut self, id: &str, cap: usize, threads: u32) {
        self.emit("FINAL".into());
        println!("CASE {id} kind={} cap={cap} cache=1024 threads={threads}", self.kind);
        for o in &self.ops {
            println!("{o}");
        }
        println!("END");
    }
}

/// operand roles of a probe
#[derive(Clone, Copy, PartialEq)]
enum Role {
    Gen,     // a general function
    Cube,    // a conjunction of literals
    PosCube, // a conjunction of variables
    Set,     // zbdd: a family built from singletons
    Single,  // zbdd: singleton of the top variable
    Low,     // zbdd: family over variables below the top variable (owned copy, consumed by make_node)
}

fn probe_ops(kind: &str) -> Vec<(String, Vec<Role>)> {
    use Role::*;
    let mut v: Vec<(String, Vec<Role>)> = Vec::new();
    for o in ["NOT", "PICKDD", "COFT", "COFF", "COFS", "REF", "TT", "LEVEL"] {
        v.push((o.into(), vec![Gen]));
    }
    for o in BIN_OPS {
        v.push((o.into(), vec![Gen, Gen]));
    }
    v.push(("PICKSET".into(), vec![Gen, Cube]));
    v.push(("ITE".into(), vec![Gen, Gen, Gen]));
    v.push(("RT".into(), vec![Gen, Gen]));
    v.push(("EXPORT".into(), vec![Gen, Gen]));
    v.push(("DOT".into(), vec![Gen, Gen]));
    if kind != "zbdd" {
        v.push(("RESTRICT".into(), vec![Gen, Cube]));
        for o in ["FORALL", "EXISTS", "UNIQUE"] {
            v.push((o.into(), vec![Gen, PosCube]));
        }
        for q in ["AFA", "AEX", "AUQ"] {
            for o in ["AND", "XOR", "IMPS"] {
                v.push((format!("{q} {o}"), vec![Gen, Gen, PosCube]));
            }
        }
        v.push(("SUBST".into(), vec![Gen, Gen]));
        v.push(("SUBSTNULL".into(), vec![Gen]));
    } else {
        for o in ["SUBSET0", "SUBSET1", "CHANGE"] {
            v.push((o.into(), vec![Set]));
        }
        for o in ["UNION", "INTSEC", "DIFF"] {
            v.push((o.into(), vec![Set, Set]));
        }
        v.push(("MKNODE".into(), vec![Single, Low, Low]));
    }
    v
}

/// one probe: set-up, the call with the given validity pattern, then ref / unref / gc around
/// the result while the operands are released
fn probe(kind: &'static str, id: &str, op: &str, roles: &[Role], invalid: u32, variant: u32) {
    let mut o: Vec<String> = Vec::new();
    o.push("MNEW m0".into());
    o.push("ADDVARS m0 3".into());
    if variant == 2 {
        o.push("ORDER m0 2 0 1".into());
    }
    let mut nf = 0usize;
    let mut fresh = || {
        nf += 1;
        nf - 1
    };
    let mut args: Vec<usize> = Vec::new();
    let top = if variant == 2 { 2 } else { 0 };
    let (l1, l2) = if variant == 2 { (0, 1) } else { (1, 2) };
    for (i, r) in roles.iter().enumerate() {
        if invalid >> i & 1 == 1 {
            let d = fresh();
            o.push(format!("INV f{d}"));
            args.push(d);
            continue;
        }
        let d = match r {
            Role::Gen => {
                let (a, b, c) = (fresh(), fresh(), fresh());
                o.push(format!("VAR f{a} m0 {}", i % 3));
                o.push(format!("NVAR f{b} m0 {}", (i + 1) % 3));
                o.push(format!("{} f{c} f{a} f{b}", ["XOR", "AND", "OR"][i % 3]));
                o.push(format!("UNREF f{a}"));
                o.push(format!("UNREF f{b}"));
                c
            }
            Role::Cube => {
                let (a, b, c) = (fresh(), fresh(), fresh());
                o.push(format!("VAR f{a} m0 1"));
                o.push(format!("NVAR f{b} m0 2"));
                o.push(format!("AND f{c} f{a} f{b}"));
                o.push(format!("UNREF f{a}"));
                o.push(format!("UNREF f{b}"));
                c
            }
            Role::PosCube => {
                let (a, b, c) = (fresh(), fresh(), fresh());
                o.push(format!("VAR f{a} m0 0"));
                o.push(format!("VAR f{b} m0 2"));
                o.push(format!("AND f{c} f{a} f{b}"));
                o.push(format!("UNREF f{a}"));
                o.push(format!("UNREF f{b}"));
                c
            }
            Role::Set => {
                let (a, b, c) = (fresh(), fresh(), fresh());
                o.push(format!("SINGLETON f{a} m0 {}", i % 3));
                o.push(format!("SINGLETON f{b} m0 {}", (i + 2) % 3));
                o.push(format!("UNION f{c} f{a} f{b}"));
                o.push(format!("UNREF f{a}"));
                o.push(format!("UNREF f{b}"));
                c
            }
            Role::Single => {
                let a = fresh();
                o.push(format!("SINGLETON f{a} m0 {top}"));
                a
            }
            Role::Low => {
                let (a, b, c) = (fresh(), fresh(), fresh());
                o.push(format!("SINGLETON f{a} m0 {}", if i == 1 { l1 } else { l2 }));
                o.push(format!("BASE f{b} m0"));
                o.push(format!("UNION f{c} f{a} f{b}"));
                o.push(format!("UNREF f{a}"));
                o.push(format!("UNREF f{b}"));
                c
            }
        };
        args.push(d);
    }
    o.push("GC m0".into());
    // the call
    let mut results: Vec<usize> = Vec::new();
    let mut consumed: Vec<usize> = Vec::new();
    let a = |i: usize| format!("f{}", args[i]);
    match op {
        "TT" | "LEVEL" => o.push(format!("{op} {}", a(0))),
        "COFS" => {
            let (d1, d2) = (fresh(), fresh());
            o.push(format!("COFS f{d1} f{d2} {}", a(0)));
            results.extend([d1, d2]);
        }
        "SUBSET0" | "SUBSET1" | "CHANGE" => {
            let d = fresh();
            o.push(format!("{op} f{d} {} {}", a(0), variant % 3));
            results.push(d);
        }
        "RT" => {
            let (d1, d2) = (fresh(), fresh());
            o.push(format!(
                "RT m0 {} {} f{d1},f{d2} {},{}",
                if kind == "bcdd" && variant == 1 { "b" } else { "a" },
                if variant == 2 { "3" } else { "2" },
                a(0),
                a(1)
            ));
            if invalid == 0 {
                results.extend([d1, d2]);
            }
        }
        "EXPORT" => o.push(format!(
            "EXPORT m0 {} a 2 {} probe {},{}",
            ["arr", "arrn", "itern"][variant as usize % 3],
            (variant == 1) as u8,
            a(0),
            a(1)
        )),
        "DOT" => o.push(format!("DOT m0 {} {},{}", if variant == 1 { "iter" } else { "arr" }, a(0), a(1))),
        "SUBST" => {
            let d = fresh();
            o.push("SNEW s0".into());
            o.push(format!("SADD s0 {} {}", variant % 3, a(1)));
            o.push(format!("SUBST f{d} {} s0", a(0)));
            if variant == 1 {
                let d2 = fresh();
                o.push(format!("SUBST f{d2} {} s0", a(0)));
                results.push(d2);
            }
            results.push(d);
        }
        "SUBSTNULL" => {
            let d = fresh();
            o.push(format!("SUBST f{d} {} null", a(0)));
            results.push(d);
        }
        "MKNODE" => {
            let d = fresh();
            o.push(format!("MKNODE f{d} {} {} {}", a(0), a(1), a(2)));
            results.push(d);
            // who was taken over (see oxidd_zbdd_make_node)
            if invalid & 1 == 0 && invalid & 2 == 0 {
                consumed.push(args[1]);
                if invalid & 4 == 0 {
                    consumed.push(args[2]);
                }
            }
        }
        _ => {
            let d = fresh();
            let al: Vec<String> = (0..args.len()).map(a).collect();
            if let Some((q, bop)) = op.split_once(' ') {
                o.push(format!("{q} {bop} f{d} {}", al.join(" ")));
            } else {
                o.push(format!("{op} f{d} {}", al.join(" ")));
            }
            results.push(d);
        }
    }
    o.push("GC m0".into());
    // a second reference to every result, then the first one is released
    let mut keep: Vec<usize> = Vec::new();
    for r in &results {
        if variant != 1 {
            let d = fresh();
            o.push(format!("REF f{d} f{r}"));
            o.push(format!("UNREF f{r}"));
            keep.push(d);
        } else {
            keep.push(*r);
        }
    }
    // operands go away; the results must survive a collection
    for x in &args {
        if !consumed.contains(x) {
            o.push(format!("UNREF f{x}"));
        }
    }
    if op == "SUBST" && variant != 2 {
        o.push("SFREE s0".into());
    }
    o.push("GC m0".into());
    for r in &keep {
        o.push(format!("TT f{r}"));
        o.push(format!("NC f{r}"));
    }
    if variant == 1 && invalid == 0 && op != "SUBSTNULL" {
        // all manager handles go away while functions are alive; get one back from a function
        o.push("MUNREF m0".into());
        if let Some(r) = keep.first() {
            o.push(format!("CONT m1 f{r}"));
            o.push("COUNTS m1".into());
        }
    }
    o.push("FINAL".into());
    println!("CASE {id} kind={kind} cap=65536 cache=1024 threads=1");
    for l in &o {
        println!("{l}");
    }
    println!("END");
}

/// Two (or three) managers of the same kind driven by one thread with the same number of
/// variables and nearly the same call sequence (so that node indices coincide), one after the
/// other or interleaved, without collections; query-heavy (sat_count / sat_count_double,
/// pick_cube, eval, level / name queries): state that an entry point keeps between calls shows
/// up as a difference to the mirror and to the model.
fn twin_case(kind: &'static str, id: &str, rng: &mut Rng, interleaved: bool, clients: usize) {
    let z = kind == "zbdd";
    let nv = rng.range(3, 5) as u32;
    let mut ops: Vec<Vec<String>> = vec![Vec::new(); clients];
    let all = |ops: &mut Vec<Vec<String>>, s: String| {
        for o in ops.iter_mut() {
            o.push(s.clone());
        }
    };
    all(&mut ops, "MNEW m0".into());
    if rng.chance(1, 3) {
        let names: Vec<String> = (0..nv).map(|i| if i % 2 == 0 { format!("v{i}") } else { "-".into() }).collect();
        all(&mut ops, format!("ADDNAMED m0 arr {}", names.join(" ")));
    } else {
        all(&mut ops, format!("ADDVARS m0 {nv}"));
    }
    let mut live: Vec<usize> = Vec::new();
    let mut next = 0usize;
    let steps = rng.range(15, 40);
    let eval_args = |rng: &mut Rng| -> String {
        let mut vs: Vec<u32> = (0..nv).collect();
        for i in (1..vs.len()).rev() {
            vs.swap(i, rng.below(i as u64 + 1) as usize);
        }
        vs.iter().map(|v| format!("{v}={}", rng.below(2))).collect::<Vec<_>>().join(",")
    };
    for _ in 0..steps {
        let r = rng.below(100);
        if live.len() < 2 || r < 14 {
            let d = next;
            next += 1;
            let v = rng.below(nv as u64);
            let s = match rng.below(if z { 6 } else { 4 }) {
                0 | 1 => format!("VAR f{d} m0 {v}"),
                2 => format!("NVAR f{d} m0 {v}"),
                3 => format!("{} f{d} m0", if rng.chance(1, 2) { "TRUE" } else { "FALSE" }),
                4 => format!("SINGLETON f{d} m0 {v}"),
                _ => format!("BASE f{d} m0"),
            };
            all(&mut ops, s);
            live.push(d);
            continue;
        }
        let a = live[rng.below(live.len() as u64) as usize];
        let b = live[rng.below(live.len() as u64) as usize];
        let c = live[rng.below(live.len() as u64) as usize];
        match r {
            14..=44 => {
                // a connective; the other clients sometimes use a different one
                let pool: &[&str] = if z && rng.chance(1, 3) { &["UNION", "INTSEC", "DIFF"] } else { &BIN_OPS };
                let d = next;
                next += 1;
                let base = *rng.pick(pool);
                for (k, o) in ops.iter_mut().enumerate() {
                    let op = if k > 0 && rng.chance(1, 2) { *rng.pick(pool) } else { base };
                    o.push(format!("{op} f{d} f{a} f{b}"));
                }
                live.push(d);
            }
            45..=49 => {
                let d = next;
                next += 1;
                all(&mut ops, format!("NOT f{d} f{a}"));
                live.push(d);
            }
            50..=54 => {
                let d = next;
                next += 1;
                all(&mut ops, format!("ITE f{d} f{a} f{b} f{c}"));
                live.push(d);
            }
            55..=62 => {
                let d = next;
                next += 1;
                all(&mut ops, format!("REF f{d} f{a}"));
                live.push(d);
            }
            63..=66 => {
                live.retain(|x| *x != a);
                all(&mut ops, format!("UNREF f{a}"));
            }
            67..=80 => all(&mut ops, format!("SATCOUNT f{a} {nv}")),
            81..=85 => all(&mut ops, format!("PICK f{a}")),
            86..=89 => {
                let args = eval_args(rng);
                all(&mut ops, format!("EVAL f{a} {args}"));
            }
            90..=92 => all(&mut ops, format!("LEVEL f{a}")),
            93..=94 => all(&mut ops, format!("NC f{a}")),
            95 => all(&mut ops, format!("SAT f{a}")),
            96 => all(&mut ops, "COUNTS m0".into()),
            97 => all(&mut ops, format!("NAME m0 {}", rng.below(nv as u64))),
            98 => all(&mut ops, format!("N2V m0 v{}", rng.below(nv as u64))),
            _ => all(&mut ops, format!("TT f{a}")),
        }
    }
    for f in &live {
        all(&mut ops, format!("SATCOUNT f{f} {nv}"));
    }
    all(&mut ops, "FINAL".into());
    println!("CASE {id} kind={kind} cap=65536 cache=1024 threads=1");
    if interleaved {
        for i in 0..ops[0].len() {
            for (k, o) in ops.iter().enumerate() {
                // the last client finishes first, then the others
                if o[i] == "FINAL" && k + 1 != ops.len() {
                    continue;
                }
                println!("@{k} {}", o[i]);
            }
        }
        for k in 0..ops.len() - 1 {
            println!("@{k} FINAL");
        }
    } else {
        for (k, o) in ops.iter().enumerate() {
            for l in o {
                println!("@{k} {l}");
            }
        }
    }
    println!("END");
}

fn gen_cases(tier: &str, seed: u64) {
    let thorough = tier == "thorough";
    let kinds: [&'static str; 3] = ["bdd", "bcdd", "zbdd"];
    let mut id = 0;
    // enumerated ownership probes
    for kind in kinds {
        for (op, roles) in probe_ops(kind) {
            let n = roles.len() as u32;
            for invalid in 0..(1u32 << n) {
                for variant in 0..3 {
                    if invalid != 0 && variant == 2 && !thorough && op != "MKNODE" {
                        continue;
                    }
                    id += 1;
                    probe(kind, &format!("p{id}"), &op, &roles, invalid, variant);
                }
            }
        }
        // constructors
        for (i, c) in ["FALSE", "TRUE", "VAR", "NVAR", "SINGLETON", "EMPTY", "BASE"].iter().enumerate() {
            if i >= 4 && kind != "zbdd" {
                continue;
            }
            id += 1;
            println!("CASE c{id} kind={kind} cap=65536 cache=1024 threads=1");
            println!("MNEW m0\nADDNAMED m0 arr x - y\nADDNAMED m0 iter y z\nADDNAMED m0 null a b\nCOUNTS m0");
            println!("NAME m0 0\nNAME m0 1\nN2V m0 y\nN2V m0 -\nN2V m0 q\nSETNAME m0 1 x\nSETNAME m0 1 w\nSETNAME m0 0 -\nCOUNTS m0");
            let arg = if i >= 2 && i <= 4 { " 1" } else { "" };
            println!("{c} f0 m0{arg}\nREF f1 f0\nREF f2 f1\nUNREF f0\nGC m0\nTT f1\nMREF m1 m0\nMUNREF m0\n{c} f3 m1{arg}\nTT f3");
            println!("UNREF f1\nUNREF f2\nGC m1\nTT f3\nLEVEL f3\nFINAL\nEND");
        }
    }
    // several managers on one thread
    let ntwin = if thorough { 300 } else { 36 };
    for kind in kinds {
        for i in 0..ntwin {
            id += 1;
            let mut rng = Rng::new(seed.wrapping_mul(7_000_003).wrapping_add(id as u64));
            twin_case(kind, &format!("t{id}"), &mut rng, i % 2 == 1, if i % 6 == 5 { 3 } else { 2 });
        }
    }
    // random sequences; every third one with a manager too small for the work (INVALID handles)
    let nrand = if thorough { 1500 } else { 60 };
    for kind in kinds {
        for i in 0..nrand {
            id += 1;
            let mut g = Gen::new(kind, seed.wrapping_mul(1_000_003).wrapping_add(id as u64));
            g.mnew();
            let nv = g.rng.range(2, 5) as u32;
            g.addvars(nv);
            let len = g.rng.range(20, if thorough { 160 } else { 90 });
            let small = i % 3 == 2;
            g.small = small;
            for _ in 0..len {
                g.step();
            }
            let cap = if small {
                (if kind == "zbdd" { nv as u64 + g.rng.range(1, 10) } else { g.rng.range(2, 20) }) as usize
            } else {
                1 << 16
            };
            let threads = if i % 7 == 6 { 2 } else { 1 };
            g.finish(&format!("r{id}"), cap, threads);
        }
    }
}
