// Interpreter: executes one case on the C interface and on the Rust API mirror.

use std::collections::BTreeMap;

type MRef<Kd> = <<Kd as K>::F as Function>::ManagerRef;

struct Interp<Kd: K> {
    // client side of the C interface
    mgrs: BTreeMap<usize, RawM>,
    funs: BTreeMap<usize, RawF>,
    subs: BTreeMap<usize, *mut c_void>,
    sub_len: BTreeMap<usize, usize>,
    // Rust API mirror
    rmgr: Option<MRef<Kd>>,
    rfuns: BTreeMap<usize, Option<Kd::F>>,
    rsubs: BTreeMap<usize, (Vec<VarNo>, Vec<Kd::F>)>,
    tmp: String,
    caseid: String,
    cfg: (usize, usize, u32),
    /// collector threads that existed before this case (leaked by an earlier one)
    base_threads: usize,
}

fn slot(t: &str) -> usize {
    t[1..].parse().expect("slot")
}

/// number of live "oxidd mi gc" threads (one per live index-based manager)
fn gc_threads() -> usize {
    let mut n = 0;
    if let Ok(rd) = std::fs::read_dir("/proc/self/task") {
        for e in rd.flatten() {
            if let Ok(s) = std::fs::read_to_string(e.path().join("comm")) {
                if s.trim() == "oxidd mi gc" {
                    n += 1;
                }
            }
        }
    }
    n
}

/// waits (bounded) until every collector thread sleeps (i.e. waits on its condition variable):
/// the quit signal sent by the drop of the last manager reference is lost otherwise
fn gc_threads_asleep() {
    let t0 = std::time::Instant::now();
    loop {
        let mut all = true;
        if let Ok(rd) = std::fs::read_dir("/proc/self/task") {
            for e in rd.flatten() {
                if let Ok(s) = std::fs::read_to_string(e.path().join("comm")) {
                    if s.trim() == "oxidd mi gc" {
                        let st = std::fs::read_to_string(e.path().join("stat")).unwrap_or_default();
                        // "<pid> (<comm>) <state> ..."
                        let state = st.rsplit(") ").next().and_then(|r| r.chars().next()).unwrap_or('S');
                        if state != 'S' {
                            all = false;
                        }
                    }
                }
            }
        }
        if all || t0.elapsed() > std::time::Duration::from_millis(500) {
            return;
        }
        std::thread::sleep(std::time::Duration::from_micros(100));
    }
}

/// waits (bounded) until the number of gc threads is `want`
fn gc_threads_settle(want: usize) -> usize {
    let mut n = gc_threads();
    let t0 = std::time::Instant::now();
    while n != want && t0.elapsed() < std::time::Duration::from_millis(400) {
        std::thread::sleep(std::time::Duration::from_micros(200));
        n = gc_threads();
    }
    n
}

fn bool_op(name: &str) -> Option<BooleanOperator> {
    Some(match name {
        "AND" => BooleanOperator::And,
        "OR" => BooleanOperator::Or,
        "XOR" => BooleanOperator::Xor,
        "EQUIV" => BooleanOperator::Equiv,
        "NAND" => BooleanOperator::Nand,
        "NOR" => BooleanOperator::Nor,
        "IMP" => BooleanOperator::Imp,
        "IMPS" => BooleanOperator::ImpStrict,
        _ => return None,
    })
}

extern "C" fn pool_cb(data: *mut c_void) -> *mut c_void {
    (data as usize).wrapping_mul(3).wrapping_add(1) as *mut c_void
}

extern "C" fn name_cb(data: *mut c_void, p: *const c_char, len: usize) -> *mut c_void {
    let out = unsafe { &mut *(data as *mut Vec<u8>) };
    if !p.is_null() {
        out.extend_from_slice(unsafe { std::slice::from_raw_parts(p as *const u8, len) });
    }
    len as *mut c_void
}

/// generic C iterator over a vector
struct VecIter<T: Copy> {
    items: Vec<T>,
    pos: usize,
}
extern "C" fn vec_iter_next<T: Copy>(ctx: *mut c_void) -> Opt<T> {
    let it = unsafe { &mut *(ctx as *mut VecIter<T>) };
    if it.pos < it.items.len() {
        it.pos += 1;
        Opt { is_some: true, value: MaybeUninit::new(it.items[it.pos - 1]) }
    } else {
        Opt { is_some: false, value: MaybeUninit::uninit() }
    }
}
extern "C" fn vec_iter_hint<T: Copy>(ctx: *mut c_void) -> SizeHint {
    let it = unsafe { &mut *(ctx as *mut VecIter<T>) };
    let r = it.items.len() - it.pos;
    SizeHint { lower: r, upper: r }
}
fn c_iter<T: Copy>(it: &mut VecIter<T>, with_hint: bool) -> Iter<T> {
    Iter {
        next: vec_iter_next::<T>,
        size_hint: if with_hint { Some(vec_iter_hint::<T>) } else { None },
        context: it as *mut VecIter<T> as *mut c_void,
    }
}

unsafe fn take_error(e: ErrorT) -> String {
    let s = if e.msg.data.is_null() {
        String::new()
    } else {
        String::from_utf8_lossy(std::slice::from_raw_parts(e.msg.data as *const u8, e.msg.len)).into_owned()
    };
    // exercise clone + free of the error / string types
    let c = oxidd_error_clone(&e);
    oxidd_error_free(c);
    oxidd_error_free(e);
    s.replace(' ', "_")
}

fn empty_error() -> ErrorT {
    ErrorT { msg: StringT { data: std::ptr::null(), len: 0, cap: 0 } }
}

impl<Kd: K> Interp<Kd> {
    fn c(&self) -> &'static CApi {
        Kd::c()
    }
    fn m(&self, t: &str) -> RawM {
        *self.mgrs.get(&slot(t)).expect("manager slot")
    }
    fn f(&self, t: &str) -> RawF {
        *self.funs.get(&slot(t)).expect("function slot")
    }
    fn rf(&self, t: &str) -> Option<&Kd::F> {
        self.rfuns.get(&slot(t)).and_then(|o| o.as_ref())
    }
    fn rm(&self) -> &MRef<Kd> {
        self.rmgr.as_ref().expect("mirror manager")
    }
    fn any_mgr(&self) -> Option<RawM> {
        self.mgrs.values().next().copied()
    }
    fn nvars(&self) -> u32 {
        self.rm().with_manager_shared(|m| m.num_vars())
    }

    /// value table through `oxidd_*_eval` on all assignments
    fn c_table(&self, h: RawF) -> String {
        if h.p.is_null() {
            return "inv".into();
        }
        let n = self.nvars();
        if n > 6 {
            return format!("big/{:x}", h.i);
        }
        let mut tt: u64 = 0;
        for a in 0..(1u32 << n) {
            let args: Vec<VarBool> = (0..n).map(|v| VarBool { var: v, val: a >> v & 1 == 1 }).collect();
            if unsafe { (self.c().eval)(h, args.as_ptr(), args.len()) } {
                tt |= 1 << a;
            }
        }
        format!("{tt:x}/{:x}", h.i)
    }
    fn r_table(&self, f: &Kd::F) -> String {
        let n = self.nvars();
        if n > 6 {
            return "big".into();
        }
        let mut tt: u64 = 0;
        for a in 0..(1u32 << n) {
            if f.eval((0..n).map(|v| (v, a >> v & 1 == 1))) {
                tt |= 1 << a;
            }
        }
        format!("{tt:x}")
    }

    /// stores a function-valued result on both sides and formats the observation
    fn put(&mut self, dst: &str, c: RawF, r: Option<AllocResult<Kd::F>>) -> String {
        let d = slot(dst);
        assert!(!self.funs.contains_key(&d), "destination slot in use");
        self.funs.insert(d, c);
        let cs = self.c_table(c);
        let (rs, rv) = match r {
            None => ("skip".to_string(), None),
            Some(Err(_)) => ("oom".to_string(), None),
            Some(Ok(f)) => (self.r_table(&f), Some(f)),
        };
        // the mirror follows the validity of the C handle
        self.rfuns.insert(d, if c.p.is_null() { None } else { rv });
        format!("C {cs} || R {rs}")
    }

    fn tmp_path(&self, tag: &str) -> String {
        format!("{}/{}-{}-{}", self.tmp, std::process::id(), self.caseid, tag)
    }

    fn exec(&mut self, tok: &[&str]) -> String {
        let c = self.c();
        // Operands the client does not own (an earlier call that should have produced them was
        // skipped or removed by the shrinker) or destinations that are in use: skip the call.
        let dst_pos: &[usize] = match tok[0] {
            "COFS" => &[1, 2],
            "AFA" | "AEX" | "AUQ" => &[2],
            "RT" => &[4],
            "MUNREF" | "UNREF" | "SFREE" | "ADDVARS" | "ADDNAMED" | "SETNAME" | "NAME" | "N2V" | "COUNTS" | "GC"
            | "ORDER" | "POOL" | "EXPORT" | "DOT" | "SADD" | "NC" | "SAT" | "SATCOUNT" | "PICK" | "EVAL" | "LEVEL"
            | "TT" | "FINAL" => &[],
            _ => &[1],
        };
        for (i, t) in tok.iter().enumerate().skip(1) {
            if matches!(tok[0], "ADDNAMED" | "SETNAME" | "N2V") && i >= 2 {
                break; // names
            }
            if matches!(tok[0], "EXPORT") && i == 6 {
                continue; // diagram name
            }
            for part in t.split(',') {
                let b = part.as_bytes();
                if b.len() < 2 || !matches!(b[0], b'm' | b'f' | b's') || !b[1..].iter().all(|c| c.is_ascii_digit()) {
                    continue;
                }
                let k = slot(part);
                let owned = match b[0] {
                    b'm' => self.mgrs.contains_key(&k),
                    b'f' => self.funs.contains_key(&k),
                    _ => self.subs.contains_key(&k),
                };
                if owned == dst_pos.contains(&i) {
                    return "SKIP".into();
                }
            }
        }
        // Documented preconditions on plain numbers (a shrunk case may have lost its add_vars):
        // the client does not make such calls.
        if tok[0] != "MNEW" {
            if self.rmgr.is_none() {
                return "SKIP".into();
            }
            let n = self.nvars();
            let var_ok = |t: &str| t.parse::<u32>().map(|v| v < n).unwrap_or(false);
            let ok = match tok[0] {
                "VAR" | "NVAR" | "SINGLETON" | "SUBSET0" | "SUBSET1" | "CHANGE" => var_ok(tok[3]),
                "SADD" | "SETNAME" | "NAME" => var_ok(tok[2]),
                "SATCOUNT" => tok[2].parse::<u32>().map(|v| if Kd::ZSET { v == n } else { v >= n }).unwrap_or(false),
                "EVAL" => {
                    let vs: Vec<u32> = if tok[2] == "-" {
                        Vec::new()
                    } else {
                        tok[2].split(',').filter_map(|p| p.split_once('=').and_then(|(v, _)| v.parse().ok())).collect()
                    };
                    vs.iter().all(|v| *v < n) && (0..n).all(|v| vs.contains(&v))
                }
                "ORDER" => {
                    let vs: Vec<u32> = tok[2..].iter().filter_map(|t| t.parse().ok()).collect();
                    vs.len() < 2 || (vs.len() == n as usize && (0..n).all(|v| vs.contains(&v)))
                }
                "MKNODE" => {
                    // var must be an inner node whose level is above the levels of hi and lo
                    let (var, hi, lo) = (self.f(tok[2]), self.f(tok[3]), self.f(tok[4]));
                    let lv = |h: RawF| if h.p.is_null() { u32::MAX } else { unsafe { (c.node_level)(h) } };
                    var.p.is_null() || hi.p.is_null() || lo.p.is_null() || (lv(var) != u32::MAX && lv(var) < lv(hi) && lv(var) < lv(lo))
                }
                _ => true,
            };
            if !ok {
                return "SKIP".into();
            }
        }
        match tok[0] {
            "MNEW" => {
                let (cap, cache, threads) = self.cfg;
                let base = gc_threads();
                self.base_threads = base;
                let m = unsafe { (c.manager_new)(cap, cache, threads) };
                self.mgrs.insert(slot(tok[1]), m);
                // the mirror never runs out of memory
                self.rmgr = Some(Kd::new_mirror(1 << 16, cache.max(1024), threads));
                // A manager's collector thread ("oxidd mi gc") only notices the quit signal of the
                // last reference while it waits on its condition variable; let both threads get
                // there before the case goes on (a manager that is destroyed right after its
                // creation would otherwise leak its thread -- the same holds for the Rust API).
                gc_threads_settle(base + 2);
                std::thread::sleep(std::time::Duration::from_micros(300));
                format!("C {} || R ok", if m.p.is_null() { "null" } else { "ok" })
            }
            "MREF" => {
                let m = self.m(tok[2]);
                let m2 = unsafe { (c.manager_ref)(m) };
                self.mgrs.insert(slot(tok[1]), m2);
                format!("C same={} || R ok", (m2 == m) as u8)
            }
            "MUNREF" => {
                let m = self.mgrs.remove(&slot(tok[1])).expect("manager slot");
                gc_threads_asleep();
                unsafe { (c.manager_unref)(m) };
                "C ok || R ok".into()
            }
            "CONT" => {
                let f = self.f(tok[2]);
                if f.p.is_null() {
                    return "SKIP".into();
                }
                let m = unsafe { (c.containing_manager)(f) };
                let same = self.any_mgr().map(|x| x == m).unwrap_or(m.p == f.p);
                self.mgrs.insert(slot(tok[1]), m);
                format!("C same={} || R ok", same as u8)
            }
            "ADDVARS" => {
                let k: u32 = tok[2].parse().unwrap();
                let r = unsafe { (c.add_vars)(self.m(tok[1]), k) };
                let rr = self.rm().with_manager_exclusive(|m| m.add_vars(k));
                format!("C {} {} || R {} {}", r.start, r.end, rr.start, rr.end)
            }
            "ADDNAMED" => {
                // ADDNAMED m mode name... ("-" = empty name, mode arr | iter | null)
                let names: Vec<String> =
                    tok[3..].iter().map(|t| if *t == "-" { String::new() } else { t.to_string() }).collect();
                let m = self.m(tok[1]);
                let cstrs: Vec<std::ffi::CString> =
                    names.iter().map(|n| std::ffi::CString::new(n.as_str()).unwrap()).collect();
                let r = match tok[2] {
                    "arr" => {
                        // an empty name is passed as NULL every other time
                        let ptrs: Vec<*const c_char> = cstrs
                            .iter()
                            .enumerate()
                            .map(|(i, s)| if s.as_bytes().is_empty() && i % 2 == 0 { std::ptr::null() } else { s.as_ptr() })
                            .collect();
                        unsafe { (c.add_named_vars)(m, ptrs.as_ptr(), ptrs.len() as u32) }
                    }
                    "null" => unsafe { (c.add_named_vars)(m, std::ptr::null(), names.len() as u32) },
                    _ => {
                        let mut it = VecIter {
                            items: names.iter().map(|n| StrT { ptr: n.as_ptr() as *const c_char, len: n.len() }).collect(),
                            pos: 0,
                        };
                        unsafe { (c.add_named_vars_iter)(m, c_iter(&mut it, tok[2] == "iterh")) }
                    }
                };
                let rr = self.rm().with_manager_exclusive(|m| {
                    if tok[2] == "null" {
                        Ok(m.add_vars(names.len() as u32))
                    } else {
                        m.add_named_vars(names.iter().map(|s| s.as_str()))
                    }
                });
                let rs = match rr {
                    Ok(r) => format!("{} {} none", r.start, r.end),
                    Err(e) => format!("{} {} {}", e.added_vars.start, e.added_vars.end, e.present_var),
                };
                format!("C {} {} {} || R {rs}", r.added.start, r.added.end, r.present)
            }
            "SETNAME" => {
                let v: u32 = tok[2].parse().unwrap();
                let name = if tok[3] == "-" { "" } else { tok[3] };
                let r = unsafe {
                    (c.set_var_name)(
                        self.m(tok[1]),
                        v,
                        if name.is_empty() { std::ptr::null() } else { name.as_ptr() as *const c_char },
                        name.len(),
                    )
                };
                let rr = self.rm().with_manager_exclusive(|m| m.set_var_name(v, name));
                let rs = match rr {
                    Ok(()) => "none".to_string(),
                    Err(e) => e.present_var.to_string(),
                };
                format!("C {r} || R {rs}")
            }
            "NAME" => {
                let v: u32 = tok[2].parse().unwrap();
                let m = self.m(tok[1]);
                let mut len: usize = usize::MAX;
                let p = unsafe { (c.var_name)(m, v, &mut len) };
                let s1 = if p.is_null() {
                    "null".to_string()
                } else {
                    let s = unsafe { std::ffi::CStr::from_ptr(p) }.to_string_lossy().into_owned();
                    unsafe { free(p as *mut c_void) };
                    format!("s:{s}")
                };
                let mut buf: Vec<u8> = Vec::new();
                let r2 = unsafe { (c.with_var_name)(m, v, name_cb, &mut buf as *mut Vec<u8> as *mut c_void) };
                let rn = self.rm().with_manager_shared(|m| m.var_name(v).to_string());
                format!(
                    "C {s1} len={len} cb={}:{} || R {}",
                    r2 as usize,
                    String::from_utf8_lossy(&buf),
                    if rn.is_empty() { "null".to_string() } else { format!("s:{rn}") }
                )
            }
            "N2V" => {
                let name = if tok[2] == "-" { "" } else { tok[2] };
                let r = unsafe { (c.name_to_var)(self.m(tok[1]), name.as_ptr() as *const c_char, name.len()) };
                let rr = self.rm().with_manager_shared(|m| m.name_to_var(name));
                format!("C {r} || R {}", rr.map(|v| v.to_string()).unwrap_or("none".into()))
            }
            "COUNTS" => {
                let m = self.m(tok[1]);
                let n = unsafe { (c.num_vars)(m) };
                let mut l2v = String::new();
                let mut v2l = String::new();
                for i in 0..n {
                    l2v.push_str(&format!("{},", unsafe { (c.level_to_var)(m, i) }));
                    v2l.push_str(&format!("{},", unsafe { (c.var_to_level)(m, i) }));
                }
                let cs = format!(
                    "vars={} named={} inner={} approx={} l2v={} v2l={}",
                    n,
                    unsafe { (c.num_named_vars)(m) },
                    unsafe { (c.num_inner_nodes)(m) },
                    unsafe { (c.approx_num_inner_nodes)(m) },
                    l2v,
                    v2l
                );
                let rs = self.rm().with_manager_shared(|m| {
                    let n = m.num_vars();
                    let mut l2v = String::new();
                    let mut v2l = String::new();
                    for i in 0..n {
                        l2v.push_str(&format!("{},", m.level_to_var(i)));
                        v2l.push_str(&format!("{},", m.var_to_level(i)));
                    }
                    format!(
                        "vars={} named={} inner={} approx={} l2v={} v2l={}",
                        n,
                        m.num_named_vars(),
                        m.num_inner_nodes(),
                        m.approx_num_inner_nodes(),
                        l2v,
                        v2l
                    )
                });
                format!("C {cs} || R {rs}")
            }
            "GC" => {
                let m = self.m(tok[1]);
                let n = unsafe { (c.gc)(m) };
                let inner = unsafe { (c.num_inner_nodes)(m) };
                let cnt = unsafe { (c.gc_count)(m) };
                let (rn, rinner, rcnt) =
                    self.rm().with_manager_shared(|m| (m.gc(), m.num_inner_nodes(), m.gc_count()));
                format!("C collected={n} inner={inner} gcs={cnt} || R collected={rn} inner={rinner} gcs={rcnt}")
            }
            "ORDER" => {
                let order: Vec<u32> = tok[2..].iter().map(|t| t.parse().unwrap()).collect();
                unsafe {
                    (c.set_var_order)(
                        self.m(tok[1]),
                        if order.is_empty() { std::ptr::null() } else { order.as_ptr() },
                        order.len(),
                    )
                };
                if order.len() >= 2 {
                    Kd::r_set_var_order(self.rm(), &order);
                }
                "C ok || R ok".into()
            }
            "POOL" => {
                let x: usize = tok[2].parse().unwrap();
                let r = unsafe { (c.run_in_worker_pool)(self.m(tok[1]), pool_cb, x as *mut c_void) };
                format!("C {} || R {}", r as usize, x.wrapping_mul(3).wrapping_add(1))
            }
            "EXPORT" | "RT" => self.export(tok),
            "DOT" => self.dot(tok),
            "INV" => self.put(tok[1], INVALID, None),
            "REF" => {
                let f = self.f(tok[2]);
                let f2 = unsafe { (c.fref)(f) };
                let r = self.rf(tok[2]).cloned().map(Ok);
                let s = self.put(tok[1], f2, r);
                format!("{s} same={}", (f2 == f) as u8)
            }
            "UNREF" => {
                let f = self.funs.remove(&slot(tok[1])).expect("function slot");
                if self.mgrs.is_empty() {
                    gc_threads_asleep();
                }
                unsafe { (c.unref)(f) };
                self.rfuns.remove(&slot(tok[1]));
                "C ok || R ok".into()
            }
            "VAR" | "NVAR" | "FALSE" | "TRUE" | "SINGLETON" | "EMPTY" | "BASE" => {
                let m = self.m(tok[2]);
                let v: u32 = tok.get(3).map(|t| t.parse().unwrap()).unwrap_or(0);
                let h = unsafe {
                    match tok[0] {
                        "VAR" => (c.var)(m, v),
                        "NVAR" => (c.not_var)(m, v),
                        "FALSE" => (c.ffalse)(m),
                        "TRUE" => (c.ftrue)(m),
                        "SINGLETON" => Kd::c_singleton(m, v),
                        "EMPTY" => Kd::c_empty(m),
                        _ => Kd::c_base(m),
                    }
                };
                let r = match tok[0] {
                    "VAR" => self.rm().with_manager_shared(|m| Kd::F::var(m, v)),
                    "NVAR" => self.rm().with_manager_shared(|m| Kd::F::not_var(m, v)),
                    "FALSE" | "EMPTY" => Ok(self.rm().with_manager_shared(|m| Kd::F::f(m))),
                    "TRUE" => Ok(self.rm().with_manager_shared(|m| Kd::F::t(m))),
                    "SINGLETON" => Kd::r_singleton(self.rm(), v),
                    _ => Ok(Kd::r_base(self.rm())),
                };
                self.put(tok[1], h, Some(r))
            }
            "NOT" | "PICKDD" | "SUBSET0" | "SUBSET1" | "CHANGE" => {
                let a = self.f(tok[2]);
                let v: u32 = tok.get(3).map(|t| t.parse().unwrap()).unwrap_or(0);
                let h = unsafe {
                    match tok[0] {
                        "NOT" => (c.not)(a),
                        "PICKDD" => (c.pick_cube_dd)(a),
                        _ => Kd::c_special(tok[0], &[a], v, 0),
                    }
                };
                let r = self.rf(tok[2]).map(|f| match tok[0] {
                    "NOT" => f.not(),
                    "PICKDD" => f.pick_cube_dd(|_, _, _| false),
                    _ => Kd::r_special(tok[0], &[f], v, None),
                });
                self.put(tok[1], h, r)
            }
            "AND" | "OR" | "NAND" | "NOR" | "XOR" | "EQUIV" | "IMP" | "IMPS" | "PICKSET" | "RESTRICT" | "FORALL"
            | "EXISTS" | "UNIQUE" | "UNION" | "INTSEC" | "DIFF" => {
                let (a, b) = (self.f(tok[2]), self.f(tok[3]));
                let h = unsafe {
                    match tok[0] {
                        "AND" => (c.and)(a, b),
                        "OR" => (c.or)(a, b),
                        "NAND" => (c.nand)(a, b),
                        "NOR" => (c.nor)(a, b),
                        "XOR" => (c.xor)(a, b),
                        "EQUIV" => (c.equiv)(a, b),
                        "IMP" => (c.imp)(a, b),
                        "IMPS" => (c.imp_strict)(a, b),
                        "PICKSET" => (c.pick_cube_dd_set)(a, b),
                        _ => Kd::c_special(tok[0], &[a, b], 0, 0),
                    }
                };
                let r = match (self.rf(tok[2]), self.rf(tok[3])) {
                    (Some(x), Some(y)) => Some(match tok[0] {
                        "AND" => x.and(y),
                        "OR" => x.or(y),
                        "NAND" => x.nand(y),
                        "NOR" => x.nor(y),
                        "XOR" => x.xor(y),
                        "EQUIV" => x.equiv(y),
                        "IMP" => x.imp(y),
                        "IMPS" => x.imp_strict(y),
                        "PICKSET" => x.pick_cube_dd_set(y),
                        _ => Kd::r_special(tok[0], &[x, y], 0, None),
                    }),
                    _ => None,
                };
                self.put(tok[1], h, r)
            }
            "ITE" => {
                let (a, b, d) = (self.f(tok[2]), self.f(tok[3]), self.f(tok[4]));
                let h = unsafe { (c.ite)(a, b, d) };
                let r = match (self.rf(tok[2]), self.rf(tok[3]), self.rf(tok[4])) {
                    (Some(x), Some(y), Some(z)) => Some(x.ite(y, z)),
                    _ => None,
                };
                self.put(tok[1], h, r)
            }
            "AFA" | "AEX" | "AUQ" => {
                // AFA <op> dst a b vars
                let bop = bool_op(tok[1]).expect("operator");
                let (a, b, d) = (self.f(tok[3]), self.f(tok[4]), self.f(tok[5]));
                let h = unsafe { Kd::c_special(tok[0], &[a, b, d], 0, bop as u8) };
                let r = match (self.rf(tok[3]), self.rf(tok[4]), self.rf(tok[5])) {
                    (Some(x), Some(y), Some(z)) => Some(Kd::r_special(tok[0], &[x, y, z], 0, Some(bop))),
                    _ => None,
                };
                self.put(tok[2], h, r)
            }
            "COFS" => {
                // COFS dt de a
                let a = self.f(tok[3]);
                let p = unsafe { (c.cofactors)(a) };
                let r = self.rf(tok[3]).map(|f| f.cofactors());
                let (rt, re) = match r {
                    None => (None, None),
                    Some(None) => (Some(None), Some(None)),
                    Some(Some((t, e))) => (Some(Some(t)), Some(Some(e))),
                };
                let s1 = self.put_opt(tok[1], p.first, rt);
                let s2 = self.put_opt(tok[2], p.second, re);
                format!("{s1} ;; {s2}")
            }
            "COFT" | "COFF" => {
                let a = self.f(tok[2]);
                let h = unsafe { if tok[0] == "COFT" { (c.cofactor_true)(a) } else { (c.cofactor_false)(a) } };
                let r = self.rf(tok[2]).map(|f| if tok[0] == "COFT" { f.cofactor_true() } else { f.cofactor_false() });
                self.put_opt(tok[1], h, r)
            }
            "MKNODE" => {
                // MKNODE dst var hi lo : hi and lo are consumed when the wrapper took them over
                let (var, hi, lo) = (self.f(tok[2]), self.f(tok[3]), self.f(tok[4]));
                let h = unsafe { Kd::c_special("MKNODE", &[var, hi, lo], 0, 0) };
                let r = match (self.rf(tok[2]), self.rf(tok[3]), self.rf(tok[4])) {
                    (Some(x), Some(y), Some(z)) => Some(Kd::r_special("MKNODE", &[x, y, z], 0, None)),
                    _ => None,
                };
                if !var.p.is_null() && !hi.p.is_null() {
                    self.funs.remove(&slot(tok[3]));
                    self.rfuns.remove(&slot(tok[3]));
                    if !lo.p.is_null() {
                        self.funs.remove(&slot(tok[4]));
                        self.rfuns.remove(&slot(tok[4]));
                    }
                }
                self.put(tok[1], h, r)
            }
            "SNEW" => {
                let s = unsafe { Kd::c_substitution_new(2) };
                self.subs.insert(slot(tok[1]), s);
                self.sub_len.insert(slot(tok[1]), 0);
                self.rsubs.insert(slot(tok[1]), (Vec::new(), Vec::new()));
                format!("C {} || R ok", if s.is_null() { "null" } else { "ok" })
            }
            "SADD" => {
                let f = self.f(tok[3]);
                if f.p.is_null() {
                    return "SKIP".into();
                }
                let v: u32 = tok[2].parse().unwrap();
                unsafe { Kd::c_substitution_add_pair(*self.subs.get(&slot(tok[1])).unwrap(), v, f) };
                let rf = self.rf(tok[3]).cloned().expect("mirror function");
                let e = self.rsubs.get_mut(&slot(tok[1])).unwrap();
                e.0.push(v);
                e.1.push(rf);
                "C ok || R ok".into()
            }
            "SFREE" => {
                let s = self.subs.remove(&slot(tok[1])).unwrap();
                unsafe { Kd::c_substitution_free(s) };
                self.rsubs.remove(&slot(tok[1]));
                "C ok || R ok".into()
            }
            "SUBST" => {
                // SUBST dst a s|null
                let a = self.f(tok[2]);
                if tok[3] == "null" {
                    let h = unsafe { Kd::c_substitute(a, std::ptr::null()) };
                    return self.put(tok[1], h, None);
                }
                let s = *self.subs.get(&slot(tok[3])).unwrap();
                let h = unsafe { Kd::c_substitute(a, s) };
                let (vars, reps) = self.rsubs.get(&slot(tok[3])).unwrap();
                let r = self.rf(tok[2]).map(|f| Kd::r_subst(f, vars, reps));
                self.put(tok[1], h, r)
            }
            "NC" | "SAT" | "SATCOUNT" | "PICK" | "EVAL" => {
                let a = self.f(tok[1]);
                if a.p.is_null() {
                    return "SKIP".into();
                }
                let rf = self.rf(tok[1]).expect("mirror function").clone();
                match tok[0] {
                    "NC" => format!("C {} || R {}", unsafe { (c.node_count)(a) }, rf.node_count()),
                    "SAT" => format!(
                        "C sat={} valid={} || R sat={} valid={}",
                        unsafe { (c.satisfiable)(a) } as u8,
                        unsafe { (c.valid)(a) } as u8,
                        rf.satisfiable() as u8,
                        rf.valid() as u8
                    ),
                    "SATCOUNT" => {
                        let vars: u32 = tok[2].parse().unwrap();
                        let n = unsafe { (c.sat_count)(a, vars) };
                        let st = unsafe { oxidd_natural_to_string(&n) };
                        let s = unsafe {
                            String::from_utf8_lossy(std::slice::from_raw_parts(st.data as *const u8, st.len)).into_owned()
                        };
                        let n2 = unsafe { oxidd_natural_clone(&n) };
                        let eq = unsafe { oxidd_natural_eq(&n, &n2) };
                        let cmp = unsafe { oxidd_natural_cmp(&n, &n2) };
                        unsafe {
                            let st2 = oxidd_string_clone(&st);
                            oxidd_string_free(st2);
                            oxidd_string_free(st);
                            oxidd_natural_free(n2);
                            oxidd_natural_free(n);
                        }
                        let d = unsafe { (c.sat_count_double)(a, vars) };
                        use std::hash::BuildHasherDefault;
                        type BH = BuildHasherDefault<std::collections::hash_map::DefaultHasher>;
                        let rn = rf.sat_count::<oxidd::util::num::Natural, BH>(vars, &mut Default::default());
                        let rd = rf.sat_count::<oxidd::util::num::F64, BH>(vars, &mut Default::default()).0;
                        format!(
                            "C {s} f64={:016x} eq={} cmp={cmp} || R {rn} f64={:016x}",
                            d.to_bits(),
                            eq as u8,
                            rd.to_bits()
                        )
                    }
                    "PICK" => {
                        let asg = unsafe { (c.pick_cube)(a) };
                        let cs = if asg.data.is_null() {
                            format!("none len={}", asg.len)
                        } else {
                            let sl = unsafe { std::slice::from_raw_parts(asg.data, asg.len) };
                            let mut s = String::from("cube:");
                            for x in sl {
                                s.push(match *x {
                                    -1 => '-',
                                    0 => '0',
                                    1 => '1',
                                    _ => '?',
                                });
                            }
                            s
                        };
                        unsafe { oxidd_assignment_free(asg) };
                        let rs = match rf.pick_cube(|_, _, _| false) {
                            None => "none len=0".to_string(),
                            Some(v) => {
                                let mut s = String::from("cube:");
                                for x in v {
                                    s.push(match x {
                                        oxidd::util::OptBool::None => '-',
                                        oxidd::util::OptBool::False => '0',
                                        oxidd::util::OptBool::True => '1',
                                    });
                                }
                                s
                            }
                        };
                        format!("C {cs} || R {rs}")
                    }
                    _ => {
                        // EVAL f v=b,v=b,...   ("-" = no arguments)
                        let args: Vec<(u32, bool)> = if tok[2] == "-" {
                            Vec::new()
                        } else {
                            tok[2]
                                .split(',')
                                .map(|p| {
                                    let (v, b) = p.split_once('=').unwrap();
                                    (v.parse().unwrap(), b == "1")
                                })
                                .collect()
                        };
                        let cargs: Vec<VarBool> = args.iter().map(|&(var, val)| VarBool { var, val }).collect();
                        let r = unsafe {
                            (c.eval)(a, if cargs.is_empty() { std::ptr::null() } else { cargs.as_ptr() }, cargs.len())
                        };
                        format!("C {} || R {}", r as u8, rf.eval(args.iter().copied()) as u8)
                    }
                }
            }
            "LEVEL" => {
                let a = self.f(tok[1]);
                let (l, v) = unsafe { ((c.node_level)(a), (c.node_var)(a)) };
                let rs = match self.rf(tok[1]) {
                    None => "skip".to_string(),
                    Some(f) => Kd::r_level(f),
                };
                format!("C {l} {v} || R {rs}")
            }
            "TT" => {
                let a = self.f(tok[1]);
                let cs = self.c_table(a);
                let rs = match self.rf(tok[1]) {
                    None => "skip".to_string(),
                    Some(f) => self.r_table(f),
                };
                format!("C {cs} || R {rs}")
            }
            "FINAL" => self.finalize(),
            o => format!("BADOP {o}"),
        }
    }

    /// result of a call returning `Option<Function>` on the Rust side
    fn put_opt(&mut self, dst: &str, c: RawF, r: Option<Option<Kd::F>>) -> String {
        match r {
            None => self.put(dst, c, None),
            Some(Some(f)) => self.put(dst, c, Some(Ok(f))),
            Some(None) => {
                let s = self.put(dst, c, None);
                s.replace("R skip", "R none")
            }
        }
    }

    fn export(&mut self, tok: &[&str]) -> String {
        // EXPORT m mode a|b 2|3 strict ddname f,f,...       mode: arr | arrn | iter | itern
        // RT     m a|b 2|3 d,d,... f,f,...                  export + open + import into d...
        let c = self.c();
        let rt = tok[0] == "RT";
        let m = self.m(tok[1]);
        let (mode, ascii, v3, strict, ddname, srcs) = if rt {
            ("arr", tok[2] == "a", tok[3] == "3", false, "rt", tok[5])
        } else {
            (tok[2], tok[3] == "a", tok[4] == "3", tok[5] == "1", tok[6], tok[7])
        };
        let src_slots: Vec<&str> = if srcs == "-" { Vec::new() } else { srcs.split(',').collect() };
        let fs: Vec<RawF> = src_slots.iter().map(|t| self.f(t)).collect();
        let names: Vec<String> = (0..fs.len()).map(|i| if i % 3 == 2 { String::new() } else { format!("fn{i}") }).collect();
        let cnames: Vec<std::ffi::CString> = names.iter().map(|n| std::ffi::CString::new(n.as_str()).unwrap()).collect();
        let cptrs: Vec<*const c_char> = cnames.iter().map(|s| s.as_ptr()).collect();
        let cpath = self.tmp_path("c.dddmp");
        let rpath = self.tmp_path("r.dddmp");
        let set = ExportSettings {
            version: v3 as u8,
            ascii,
            strict,
            diagram_name: StrT { ptr: ddname.as_ptr() as *const c_char, len: ddname.len() },
        };
        let mut err = empty_error();
        let with_names = mode == "arrn" || mode == "itern";
        let ok = unsafe {
            match mode {
                "arr" | "arrn" => (c.export_dddmp)(
                    m,
                    cpath.as_ptr() as *const c_char,
                    cpath.len(),
                    if fs.is_empty() { std::ptr::null() } else { fs.as_ptr() },
                    fs.len(),
                    if with_names { cptrs.as_ptr() } else { std::ptr::null() },
                    &set,
                    &mut err,
                ),
                "iter" => {
                    let mut it = VecIter { items: fs.clone(), pos: 0 };
                    (c.export_dddmp_iter)(m, cpath.as_ptr() as *const c_char, cpath.len(), c_iter(&mut it, true), &set, &mut err)
                }
                _ => {
                    let mut it = VecIter {
                        items: fs
                            .iter()
                            .zip(names.iter())
                            .map(|(f, n)| Named { func: *f, name: StrT { ptr: n.as_ptr() as *const c_char, len: n.len() } })
                            .collect(),
                        pos: 0,
                    };
                    (c.export_dddmp_with_names_iter)(
                        m,
                        cpath.as_ptr() as *const c_char,
                        cpath.len(),
                        c_iter(&mut it, false),
                        &set,
                        &mut err,
                    )
                }
            }
        };
        let emsg = if ok { "-".to_string() } else { unsafe { take_error(err) } };
        // mirror: the valid functions only (the C layer skips invalid ones and reports them afterwards)
        let rfs: Vec<&Kd::F> = src_slots.iter().filter_map(|t| self.rf(t)).collect();
        let rnames: Vec<String> =
            src_slots.iter().zip(names.iter()).filter(|(t, _)| self.rf(t).is_some()).map(|(_, n)| n.clone()).collect();
        let rres = Kd::r_export(
            self.rm(),
            &rpath,
            &rfs,
            if with_names { Some(&rnames) } else { None },
            ascii,
            v3,
            strict,
            ddname,
        );
        let cb = std::fs::read(&cpath).unwrap_or_default();
        let rb = std::fs::read(&rpath).unwrap_or_default();
        let all_valid = fs.iter().all(|f| !f.p.is_null());
        let mut out = format!(
            "C ok={} err={emsg} bytes={} || R ok={} bytes={} same={} allvalid={}",
            ok as u8,
            cb.len(),
            rres.is_ok() as u8,
            rb.len(),
            (cb == rb) as u8,
            all_valid as u8
        );
        if rt && ok {
            // open + header queries + import
            let mut err = empty_error();
            let file = unsafe { oxidd_dddmp_open(cpath.as_ptr() as *const c_char, cpath.len(), &mut err) };
            if file.is_null() {
                out.push_str(&format!(" open=err:{}", unsafe { take_error(err) }));
            } else {
                unsafe { oxidd_error_free(err) };
                let nroots = unsafe { oxidd_dddmp_num_roots(file) };
                let dn = unsafe { oxidd_dddmp_diagram_name(file) };
                let dn = unsafe { String::from_utf8_lossy(std::slice::from_raw_parts(dn.ptr as *const u8, dn.len)).into_owned() };
                out.push_str(&format!(
                    " roots={nroots} fvars={} supp={} name={dn}",
                    unsafe { oxidd_dddmp_num_vars(file) },
                    unsafe { oxidd_dddmp_num_support_vars(file) }
                ));
                // header queries, compared with the header the Rust API loads from the mirror's file
                let sl = |x: SliceU32| -> Vec<u32> {
                    if x.ptr.is_null() { Vec::new() } else { unsafe { std::slice::from_raw_parts(x.ptr, x.len) }.to_vec() }
                };
                let st = |x: StrT| -> String {
                    if x.ptr.is_null() {
                        String::new()
                    } else {
                        unsafe { String::from_utf8_lossy(std::slice::from_raw_parts(x.ptr as *const u8, x.len)).into_owned() }
                    }
                };
                let order = sl(unsafe { oxidd_dddmp_support_var_order(file) });
                let fvars = unsafe { oxidd_dddmp_num_vars(file) };
                let has_vn = unsafe { oxidd_dddmp_has_var_names(file) };
                let has_rn = unsafe { oxidd_dddmp_has_root_names(file) };
                let chdr = format!(
                    "{}|{}|{:?}|{:?}|{:?}|{}|{:?}|{}|{:?}",
                    unsafe { oxidd_dddmp_num_nodes(file) },
                    fvars,
                    sl(unsafe { oxidd_dddmp_support_vars(file) }),
                    order,
                    sl(unsafe { oxidd_dddmp_support_var_to_level(file) }),
                    has_vn as u8,
                    (0..fvars).map(|i| st(unsafe { oxidd_dddmp_var_name(file, i) })).collect::<Vec<_>>(),
                    has_rn as u8,
                    (0..nroots).map(|i| st(unsafe { oxidd_dddmp_root_name(file, i) })).collect::<Vec<_>>()
                );
                let rhdr = match std::fs::File::open(&rpath)
                    .and_then(|f| oxidd_dump::dddmp::DumpHeader::load(&mut std::io::BufReader::new(f)))
                {
                    Err(e) => format!("err:{e}"),
                    Ok(h) => format!(
                        "{}|{}|{:?}|{:?}|{:?}|{}|{:?}|{}|{:?}",
                        h.num_nodes(),
                        h.num_vars(),
                        h.support_vars(),
                        h.support_var_order(),
                        h.support_var_to_level(),
                        h.var_names().is_some() as u8,
                        (0..h.num_vars() as usize)
                            .map(|i| h.var_names().map(|v| v[i].clone()).unwrap_or_default())
                            .collect::<Vec<_>>(),
                        h.root_names().is_some() as u8,
                        (0..h.num_roots()).map(|i| h.root_names().map(|v| v[i].clone()).unwrap_or_default()).collect::<Vec<_>>()
                    ),
                };
                out.push_str(&format!(" hdr={}", (chdr == rhdr) as u8));
                if chdr != rhdr {
                    out.push_str(&format!(" chdr={} rhdr={}", chdr.replace(' ', ""), rhdr.replace(' ', "")));
                }
                let mut roots = vec![INVALID; nroots];
                let mut err = empty_error();
                // the support variable mapping is passed explicitly every other time
                let explicit = cpath.len() % 2 == 0 || ascii;
                let iok = unsafe {
                    (c.import_dddmp)(
                        m,
                        file,
                        if explicit && !order.is_empty() { order.as_ptr() } else { std::ptr::null() },
                        roots.as_mut_ptr(),
                        &mut err,
                    )
                };
                let ie = if iok {
                    unsafe { oxidd_error_free(err) };
                    "-".to_string()
                } else {
                    unsafe { take_error(err) }
                };
                unsafe { oxidd_dddmp_close(file) };
                out.push_str(&format!(" import={} ierr={ie}", iok as u8));
                if iok {
                    let dsts: Vec<&str> = tok[4].split(',').collect();
                    assert_eq!(dsts.len(), nroots, "root count");
                    for (i, d) in dsts.iter().enumerate() {
                        let r = self.rf(src_slots[i]).cloned().map(Ok);
                        let s = self.put(d, roots[i], r);
                        out.push_str(&format!(" ;; {s}"));
                    }
                }
            }
        }
        let _ = std::fs::remove_file(&cpath);
        let _ = std::fs::remove_file(&rpath);
        out
    }

    fn dot(&mut self, tok: &[&str]) -> String {
        // DOT m mode f,f,...    mode: arr | iter
        let c = self.c();
        let m = self.m(tok[1]);
        let src_slots: Vec<&str> = if tok[3] == "-" { Vec::new() } else { tok[3].split(',').collect() };
        let fs: Vec<RawF> = src_slots.iter().map(|t| self.f(t)).collect();
        let names: Vec<String> = (0..fs.len()).map(|i| format!("g{i}")).collect();
        let cnames: Vec<std::ffi::CString> = names.iter().map(|n| std::ffi::CString::new(n.as_str()).unwrap()).collect();
        let cptrs: Vec<*const c_char> = cnames.iter().map(|s| s.as_ptr()).collect();
        let cpath = self.tmp_path("c.dot");
        let rpath = self.tmp_path("r.dot");
        let mut err = empty_error();
        let ok = unsafe {
            if tok[2] == "arr" {
                (c.dump_all_dot_path)(
                    m,
                    cpath.as_ptr() as *const c_char,
                    cpath.len(),
                    if fs.is_empty() { std::ptr::null() } else { fs.as_ptr() },
                    cptrs.as_ptr(),
                    fs.len(),
                    &mut err,
                )
            } else {
                let mut it = VecIter {
                    items: fs
                        .iter()
                        .zip(names.iter())
                        .map(|(f, n)| Named { func: *f, name: StrT { ptr: n.as_ptr() as *const c_char, len: n.len() } })
                        .collect(),
                    pos: 0,
                };
                (c.dump_all_dot_path_iter)(m, cpath.as_ptr() as *const c_char, cpath.len(), c_iter(&mut it, true), &mut err)
            }
        };
        let emsg = if ok {
            unsafe { oxidd_error_free(err) };
            "-".to_string()
        } else {
            unsafe { take_error(err) }
        };
        let rfs: Vec<(&Kd::F, String)> = src_slots
            .iter()
            .zip(names.iter())
            .filter_map(|(t, n)| self.rf(t).map(|f| (f, n.clone())))
            .collect();
        let rres = Kd::r_dot(self.rm(), &rpath, &rfs);
        // node identifiers differ between the two managers: compare the shape only
        // (number of lines, of edges and of label lines)
        let shape = |p: &str| {
            let s = std::fs::read_to_string(p).unwrap_or_default();
            let lines = s.lines().count();
            let edges = s.matches("->").count();
            let labels: Vec<&str> = names.iter().filter(|n| s.contains(&format!("\"{n}\""))).map(|n| n.as_str()).collect();
            format!("lines={lines} edges={edges} labels={}", labels.len())
        };
        let out = format!("C ok={} err={emsg} {} || R ok={} {}", ok as u8, shape(&cpath), rres.is_ok() as u8, shape(&rpath));
        let _ = std::fs::remove_file(&cpath);
        let _ = std::fs::remove_file(&rpath);
        out
    }

    /// unref everything the client still owns, collect, report
    fn finalize(&mut self) -> String {
        let c = self.c();
        gc_threads_asleep();
        let threads_before = gc_threads();
        // a manager handle is needed for the final queries: take one from a function if necessary
        let m = match self.any_mgr() {
            Some(m) => Some(unsafe { (c.manager_ref)(m) }),
            None => self.funs.values().find(|f| !f.p.is_null()).map(|f| unsafe { (c.containing_manager)(*f) }),
        };
        let subs: Vec<usize> = self.subs.keys().copied().collect();
        for s in subs {
            let p = self.subs.remove(&s).unwrap();
            unsafe { Kd::c_substitution_free(p) };
        }
        self.rsubs.clear();
        let fs: Vec<usize> = self.funs.keys().copied().collect();
        for f in fs {
            let h = self.funs.remove(&f).unwrap();
            unsafe { (c.unref)(h) };
        }
        self.rfuns.clear();
        let ms: Vec<usize> = self.mgrs.keys().copied().collect();
        for k in ms {
            let h = self.mgrs.remove(&k).unwrap();
            unsafe { (c.manager_unref)(h) };
        }
        let (cs, alive_mid) = match m {
            Some(m) => {
                let n = unsafe { (c.gc)(m) };
                let inner = unsafe { (c.num_inner_nodes)(m) };
                let vars = unsafe { (c.num_vars)(m) };
                gc_threads_asleep();
                let mid = gc_threads();
                unsafe { (c.manager_unref)(m) };
                (format!("collected={n} inner={inner} vars={vars}"), mid)
            }
            None => ("nomanager".to_string(), gc_threads()),
        };
        let rs = match self.rmgr.take() {
            Some(rm) => {
                let s = rm.with_manager_shared(|m| {
                    let n = m.gc();
                    format!("collected={n} inner={} vars={}", m.num_inner_nodes(), m.num_vars())
                });
                gc_threads_asleep();
                drop(rm);
                s
            }
            None => "nomanager".to_string(),
        };
        // Other managers (of other instances of this case, or leaked by an earlier case) may be
        // alive: the counts are reported relative to the count after this instance is gone.  The
        // client expects its C manager to die iff it still owned something, the mirror always.
        let want = threads_before.saturating_sub(1 + m.is_some() as usize);
        let after = gc_threads_settle(want);
        format!(
            "C {cs} threads={},{},0 || R {rs}",
            threads_before.saturating_sub(after),
            alive_mid.saturating_sub(after)
        )
    }
}

extern "C" {
    fn free(p: *mut c_void);
}

fn new_interp<Kd: K>(case: &Case, inst: usize) -> Interp<Kd> {
    let tmp = std::env::var("VERIF_FFI_TMP").unwrap_or_else(|_| "/verif/.cache/work/C19/tmp".into());
    let _ = std::fs::create_dir_all(&tmp);
    Interp::<Kd> {
        mgrs: BTreeMap::new(),
        funs: BTreeMap::new(),
        subs: BTreeMap::new(),
        sub_len: BTreeMap::new(),
        rmgr: None,
        rfuns: BTreeMap::new(),
        rsubs: BTreeMap::new(),
        tmp,
        caseid: format!("{}.{inst}", case.header.split_whitespace().next().unwrap_or("x")),
        cfg: (
            case.param_u64("cap", 1 << 16) as usize,
            case.param_u64("cache", 1024) as usize,
            case.param_u64("threads", 1) as u32,
        ),
        base_threads: 0,
    }
}

/// Ops may start with `@<k>`: the call belongs to the k-th independent client (own C manager, own
/// mirror, own slots) of this case; all clients run on this one thread.
fn run_case<Kd: K>(case: &Case, sink: &mut dyn FnMut(String)) {
    let mut its: BTreeMap<usize, Interp<Kd>> = BTreeMap::new();
    for op in &case.ops {
        let mut tok: Vec<&str> = op.split_whitespace().collect();
        if tok.is_empty() {
            continue;
        }
        let mut inst = 0usize;
        if let Some(k) = tok[0].strip_prefix('@') {
            inst = k.parse().expect("instance");
            tok.remove(0);
            if tok.is_empty() {
                continue;
            }
        }
        let it = its.entry(inst).or_insert_with(|| new_interp::<Kd>(case, inst));
        // a panic inside the static library aborts the process (it is built with panic=abort) and
        // the lines of the running case are lost: leave a trace of where it happened on stderr
        eprintln!("at: case {} call [{op}]", it.caseid);
        let res = it.exec(&tok);
        sink(format!("{op} -> {res}"));
    }
    // a case without FINAL (shrunk): release what is left so that the next case starts clean
    for it in its.values_mut() {
        if !it.mgrs.is_empty() || !it.funs.is_empty() || !it.subs.is_empty() || it.rmgr.is_some() {
            let _ = it.finalize();
        }
    }
}
