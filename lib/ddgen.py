"""Case generators for the decision-diagram harness (h_dd).  Every random choice
comes from random.Random(seed)."""
import itertools
import random

BIN_OPS = ["AND", "OR", "NAND", "NOR", "XOR", "EQUIV", "IMP", "IMPS"]
KINDS_BOOL = ["bdd", "bcdd", "zbdd"]
PERMS3 = list(itertools.permutations(range(3)))


def header(cid, kind, cap=1 << 16, cache=1 << 12, threads=1, snap_each=False, extra=""):
    h = f"{cid} kind={kind} cap={cap} cache={cache} threads={threads}"
    if snap_each:
        h += " snap=each"
    if extra:
        h += " " + extra
    return h


def all_functions_prelude(nv=3, order=None, both_routes=True, base=0):
    """ops creating all 2^(2^nv) functions; route A in slots base.., route B in base+N.."""
    ops = [f"VARS {nv}"]
    if order is not None and list(order) != list(range(nv)):
        ops.append("ORDER " + " ".join(map(str, order)))
    n = 1 << (1 << nv)
    for i in range(n):
        ops.append(f"TT h{base + i} {nv} {i:x}")
    if both_routes:
        for i in range(n):
            ops.append(f"TTI h{base + n + i} {nv} {i:x}")
    return ops, n


def case_pairs(cid, kind, order, op, nv=3, cache=1 << 12, threads=1, sample=None, rng=None):
    """all (or sampled) ordered pairs of the 2^(2^nv) functions under one operator"""
    ops, n = all_functions_prelude(nv, order, both_routes=False)
    ops.append("SNAP")
    k = 1000
    pairs = [(a, b) for a in range(n) for b in range(n)]
    if sample is not None and sample < len(pairs):
        pairs = rng.sample(pairs, sample)
    for a, b in pairs:
        ops.append(f"{op} h{k} h{a} h{b}")
        k += 1
    ops.append("SNAP")
    return (header(cid, kind, cache=cache, threads=threads), ops)


def case_unary_and_consts(cid, kind, order, nv=3):
    ops, n = all_functions_prelude(nv, order, both_routes=True)
    # canonicity across the two construction routes
    for i in range(n):
        ops.append(f"EQ h{i} h{n + i}")
    ops.append("SNAP")
    k = 1000
    for i in range(n):
        ops.append(f"NOT h{k} h{i}")
        k += 1
        ops.append(f"EVAL h{i}")
        ops.append(f"SATVALID h{i}")      # satisfiable() / valid() through the Rust API (C02; package C12s)
        ops.append(f"NC h{i}")
        ops.append(f"COF h{k} h{k + 1} h{i}")
        k += 2
    for v in range(nv):
        ops.append(f"VAR h{k} {v}")
        ops.append(f"NVAR h{k + 1} {v}")
        k += 2
    ops.append(f"CONST h{k} 0")
    ops.append(f"CONST h{k + 1} 1")
    ops.append("SNAP")
    return (header(cid, kind), ops)


def case_ite(cid, kind, order, rng, triples, nv=3):
    ops, n = all_functions_prelude(nv, order, both_routes=False)
    ops.append("SNAP")
    k = 1000
    for _ in range(triples):
        a, b, c = rng.randrange(n), rng.randrange(n), rng.randrange(n)
        ops.append(f"ITE h{k} h{a} h{b} h{c}")
        k += 1
    ops.append("SNAP")
    return (header(cid, kind), ops)


def rand_tt(rng, nv):
    bits = 1 << nv
    style = rng.randrange(6)
    if style == 0:
        return rng.getrandbits(bits)
    if style == 1:  # sparse
        t = 0
        for _ in range(rng.randrange(1, 4)):
            t |= 1 << rng.randrange(bits)
        return t
    if style == 2:  # dense
        t = (1 << bits) - 1
        for _ in range(rng.randrange(1, 4)):
            t &= ~(1 << rng.randrange(bits))
        return t
    if style == 3:  # depends on few variables (skipped levels)
        vs = rng.sample(range(nv), rng.randrange(1, min(3, nv) + 1))
        sub = rng.getrandbits(1 << len(vs))
        t = 0
        for a in range(bits):
            idx = sum(((a >> v) & 1) << i for i, v in enumerate(vs))
            if (sub >> idx) & 1:
                t |= 1 << a
        return t
    if style == 4:  # constant cofactor
        v = rng.randrange(nv)
        g = rng.getrandbits(bits)
        t = 0
        for a in range(bits):
            if (a >> v) & 1:
                t |= (1 << a) if rng.random() < 0.5 else 0
            else:
                t |= ((g >> a) & 1) << a
        return t
    return rng.getrandbits(bits) & rng.getrandbits(bits)


def case_history(cid, kind, rng, nv=None, length=60, slots=24, reorder=True, quant=None, cap=1 << 14,
                 cache=None, threads=1, gc=True, addvars=True, extra_ops=()):
    """random history with a snapshot after every op"""
    nv = nv or rng.randrange(3, 7)
    cache = cache if cache is not None else rng.choice([1, 2, 16, 1 << 10])
    ops = [f"VARS {nv}"]
    live = set()
    quant = (kind in ("bdd", "bcdd")) if quant is None else quant
    nsub = 0

    def pick():
        return rng.choice(sorted(live))

    def fresh():
        return rng.randrange(slots)

    for _ in range(length):
        r = rng.random()
        if len(live) < 3 or r < 0.14:
            d = fresh()
            if nv <= 7:
                ops.append(f"{rng.choice(['TT', 'TTI'])} h{d} {nv} {rand_tt(rng, nv):x}")
            else:
                ops.append(f"VAR h{d} {rng.randrange(nv)}")
            live.add(d)
        elif r < 0.20:
            d = fresh()
            ops.append(f"{rng.choice(['VAR', 'NVAR'])} h{d} {rng.randrange(nv)}")
            live.add(d)
        elif r < 0.42:
            d = fresh()
            ops.append(f"{rng.choice(BIN_OPS)} h{d} h{pick()} h{pick()}")
            live.add(d)
        elif r < 0.47:
            d = fresh()
            ops.append(f"ITE h{d} h{pick()} h{pick()} h{pick()}")
            live.add(d)
        elif r < 0.51:
            d = fresh()
            ops.append(f"{rng.choice(['NOT', 'NOTO'])} h{d} h{pick()}")
            live.add(d)
        elif r < 0.55:
            d = fresh()
            ops.append(f"CLONE h{d} h{pick()}")
            live.add(d)
        elif r < 0.63:
            a = pick()
            ops.append(f"{rng.choice(['DROP', 'DROP', 'DROPT'])} h{a}")
            live.discard(a)
        elif r < 0.69 and gc:
            ops.append("GC")
        elif r < 0.72 and addvars and nv < 8:
            k = rng.randrange(1, 3)
            ops.append(f"VARS {k}")
            nv += k
        elif r < 0.78 and reorder:
            vs = list(range(nv))
            rng.shuffle(vs)
            vs = vs[: rng.randrange(2, nv + 1)]
            ops.append(f"{rng.choice(['ORDER', 'ORDERSEQ'])} " + " ".join(map(str, vs)))
        elif r < 0.81:
            ops.append(f"EQ h{pick()} h{pick()}")
        elif r < 0.84:
            ops.append(f"NC h{pick()}")
        elif r < 0.87:
            ops.append(f"EVAL h{pick()}")
        elif r < 0.89:
            d1, d2 = fresh(), fresh()
            if d1 != d2:
                ops.append(f"COF h{d1} h{d2} h{pick()}")
                live.add(d1)
                live.add(d2)
        elif r < 0.95 and quant:
            d = fresh()
            q = rng.random()
            mask = rng.randrange(1 << nv)
            if q < 0.3:
                ops.append(f"{rng.choice(['EXISTS', 'FORALL', 'UNIQUE'])} h{d} h{pick()} {mask}")
            elif q < 0.55:
                ops.append(f"{rng.choice(['AEX', 'AFA', 'AUQ'])} {rng.choice(BIN_OPS)} h{d} h{pick()} h{pick()} {mask}")
            elif q < 0.75:
                pos = rng.randrange(1 << nv)
                neg = rng.randrange(1 << nv) & ~pos
                ops.append(f"RESTRICT h{d} h{pick()} {pos} {neg}")
            else:
                if nsub == 0 or rng.random() < 0.3:
                    vs = rng.sample(range(nv), rng.randrange(1, min(3, nv) + 1))
                    ops.append(f"MKSUBST {nsub} " + " ".join(f"{v}=h{pick()}" for v in vs))
                    nsub += 1
                ops.append(f"SUBST h{d} h{pick()} {rng.randrange(nsub)}")
            live.add(d)
        elif r < 0.92 and kind == "zbdd":
            # ZBDD restrict (level-threaded variant that re-inserts don't-care nodes below the cube)
            d = fresh()
            pos = rng.randrange(1 << nv)
            neg = rng.randrange(1 << nv) & ~pos
            ops.append(f"RESTRICT h{d} h{pick()} {pos} {neg}")
            live.add(d)
        elif extra_ops:
            ops.append(rng.choice(extra_ops)(rng, nv, pick, fresh, live))
        else:
            ops.append(f"SAT h{pick()} {nv + rng.choice([0, 0, 1, 3])} {rng.choice(['u64', 'nat', 'u128'])}")
    ops.append("DROPALL")
    ops.append("GC")
    ops.append("SNAP")
    # which entry point declares the variables: add_vars, add_named_vars or add_named_vars_from_map
    how = rng.choice(["", "", " addvars=named", " addvars=map"])
    return (header(cid, kind, cap=cap, cache=cache, threads=threads, snap_each=True) + how, ops)


def perms(n):
    return list(itertools.permutations(range(n)))


def sublists(n):
    """all ordered selections of >= 2 distinct variables out of n (partial orders as ordered sub-lists)"""
    res = []
    for k in range(2, n + 1):
        res += list(itertools.permutations(range(n), k))
    return res


# ---------------------------------------------------------------------------
# MTBDD (I64 terminals)
# ---------------------------------------------------------------------------
MT_VALUES = ["0", "1", "-1", "2", "3", "-7", str(-2**63), str(2**63 - 1), "+inf", "-inf", "nan"]
MT_OPS = ["ADD", "SUB", "MUL", "DIV", "MIN", "MAX"]


def mt_case_pairs_1var(cid, op, order_swapped=False):
    """all 121 functions of one variable (over a 2-variable manager): every ordered pair"""
    ops = ["VARS 2"]
    if order_swapped:
        ops.append("ORDER 1 0")
    fs = [(a, b) for a in MT_VALUES for b in MT_VALUES]
    for i, (a, b) in enumerate(fs):
        ops.append(f"VT h{i} 1 {a} {b}")
    ops.append("SNAP")
    k = 1000
    for i in range(len(fs)):
        for j in range(len(fs)):
            ops.append(f"{op} h{k} h{i} h{j}")
            k += 1
    ops.append("SNAP")
    return (header(cid, "mtbdd"), ops)


def mt_rand_vt(rng, nv):
    style = rng.randrange(4)
    n = 1 << nv
    if style == 0:
        return [rng.choice(MT_VALUES) for _ in range(n)]
    if style == 1:  # 0-1 valued (condition-like)
        return [rng.choice(["0", "1"]) for _ in range(n)]
    if style == 2:  # few distinct values, shared sub-diagrams
        vs = rng.sample(MT_VALUES, 2)
        return [rng.choice(vs) for _ in range(n)]
    v = rng.choice(MT_VALUES)  # almost constant
    t = [v] * n
    t[rng.randrange(n)] = rng.choice(MT_VALUES)
    return t


def mt_case_history(cid, rng, nv=None, length=60, slots=20, cache=None, reorder=True, threads=1):
    nv = nv or rng.randrange(1, 5)
    cache = cache if cache is not None else rng.choice([1, 2, 16, 1 << 10])
    ops = [f"VARS {nv}"]
    live = set()
    conds = set()

    def pick():
        return rng.choice(sorted(live))

    for _ in range(length):
        r = rng.random()
        d = rng.randrange(slots)
        if len(live) < 3 or r < 0.2:
            t = mt_rand_vt(rng, nv)
            ops.append(f"VT h{d} {nv} " + " ".join(t))
            live.add(d)
            if all(x in ("0", "1") for x in t):
                conds.add(d)
            else:
                conds.discard(d)
        elif r < 0.25:
            ops.append(f"CONSTN h{d} {rng.choice(MT_VALUES)}")
            live.add(d); conds.discard(d)
        elif r < 0.30:
            ops.append(f"VAR h{d} {rng.randrange(nv)}")
            live.add(d); conds.add(d)
        elif r < 0.62:
            a, b = pick(), pick()
            # different operators on the same operands, back to back
            seq = rng.sample(MT_OPS, rng.randrange(1, 4))
            for o in seq:
                dd = rng.randrange(slots)
                ops.append(f"{o} h{dd} h{a} h{b}")
                live.add(dd); conds.discard(dd)
                if dd in (a, b):
                    break
        elif r < 0.70 and conds & live:
            c = rng.choice(sorted(conds & live))
            ops.append(f"ITE h{d} h{c} h{pick()} h{pick()}")
            live.add(d); conds.discard(d)
        elif r < 0.76:
            pos = rng.randrange(1 << nv)
            neg = rng.randrange(1 << nv) & ~pos
            ops.append(f"RESTRICT h{d} h{pick()} {pos} {neg}")
            live.add(d); conds.discard(d)
        elif r < 0.80:
            ops.append(f"EVAL h{pick()}")
        elif r < 0.83:
            ops.append(f"EQ h{pick()} h{pick()}")
        elif r < 0.86:
            ops.append(f"NC h{pick()}")
        elif r < 0.91:
            a = pick()
            ops.append(f"DROP h{a}")
            live.discard(a); conds.discard(a)
        elif r < 0.95:
            ops.append("GC")
        elif reorder and nv >= 2:
            vs = list(range(nv)); rng.shuffle(vs)
            ops.append("ORDER " + " ".join(map(str, vs[: rng.randrange(2, nv + 1)])))
    ops += ["DROPALL", "GC", "SNAP"]
    return (header(cid, "mtbdd", cap=1 << 14, cache=cache, threads=threads, snap_each=True), ops)


# ---- MTBDD<F64> (harness kind "mtbddf"): values are 16-digit hex bit patterns -------------------
# +0, 1, -1, 0.5, 3, -7, max finite, min subnormal, +inf, -inf, NaN; -0.0 and a NaN with payload only as
# INPUT (F64::from normalises them to +0.0 / the canonical NaN)
MTF_VALUES = ["0000000000000000", "3ff0000000000000", "bff0000000000000", "3fe0000000000000",
              "4008000000000000", "c01c000000000000", "7fefffffffffffff", "0000000000000001",
              "7ff0000000000000", "fff0000000000000", "7ff8000000000000"]
MTF_INPUT_ONLY = ["8000000000000000", "7ff0000000000001", "fff8000000000123"]


def mtf_case_pairs_1var(cid, op, order_swapped=False, lo=0, hi=None):
    """the 121 functions of one variable over MTF_VALUES (2-variable manager): ordered pairs (i, j) with
    lo <= i < hi under one operator; produces -0.0 and hardware NaNs inside the operations (0/-1, -1/+inf,
    0/0, inf/inf, inf-inf, 0*inf, ...)"""
    ops = ["VARS 2"]
    if order_swapped:
        ops.append("ORDER 1 0")
    fs = [(a, b) for a in MTF_VALUES for b in MTF_VALUES]
    hi = len(fs) if hi is None else hi
    for i, (a, b) in enumerate(fs):
        ops.append(f"VT h{i} 1 {a} {b}")
    # un-normalised inputs: must denote the same functions as their normalised counterparts
    for j, v in enumerate(MTF_INPUT_ONLY):
        ops.append(f"VT h{500 + j} 1 {v} {MTF_VALUES[1]}")
    ops.append("SNAP")
    k = 1000
    for i in range(lo, hi):
        for j in range(len(fs)):
            ops.append(f"{op} h{k} h{i} h{j}")
            k += 1
    ops.append("SNAP")
    ops += ["GC", "SNAP"]
    return (header(cid, "mtbddf"), ops)


def mtf_rand_vt(rng, nv):
    style = rng.randrange(4)
    n = 1 << nv
    if style == 0:
        return [rng.choice(MTF_VALUES + MTF_INPUT_ONLY[:1]) for _ in range(n)]
    if style == 1:  # 0-1 valued (condition-like)
        return [rng.choice([MTF_VALUES[0], MTF_VALUES[1]]) for _ in range(n)]
    if style == 2:  # few distinct values, shared sub-diagrams
        vs = rng.sample(MTF_VALUES, 2)
        return [rng.choice(vs) for _ in range(n)]
    v = rng.choice(MTF_VALUES)  # almost constant
    t = [v] * n
    t[rng.randrange(n)] = rng.choice(MTF_VALUES)
    return t


def mtf_case_history(cid, rng, nv=None, length=60, slots=20, cache=None, reorder=True, threads=1):
    """mt_case_history for F64 terminals"""
    nv = nv or rng.randrange(1, 5)
    cache = cache if cache is not None else rng.choice([1, 2, 16, 1 << 10])
    ops = [f"VARS {nv}"]
    live = set()
    conds = set()
    zero_one = (MTF_VALUES[0], MTF_VALUES[1])

    def pick():
        return rng.choice(sorted(live))

    for _ in range(length):
        r = rng.random()
        d = rng.randrange(slots)
        if len(live) < 3 or r < 0.2:
            t = mtf_rand_vt(rng, nv)
            ops.append(f"VT h{d} {nv} " + " ".join(t))
            live.add(d)
            if all(x in zero_one for x in t):
                conds.add(d)
            else:
                conds.discard(d)
        elif r < 0.25:
            ops.append(f"CONSTN h{d} {rng.choice(MTF_VALUES + MTF_INPUT_ONLY)}")
            live.add(d); conds.discard(d)
        elif r < 0.30:
            ops.append(f"VAR h{d} {rng.randrange(nv)}")
            live.add(d); conds.add(d)
        elif r < 0.66:
            a, b = pick(), pick()
            seq = rng.sample(MT_OPS, rng.randrange(1, 4))
            for o in seq:
                dd = rng.randrange(slots)
                ops.append(f"{o} h{dd} h{a} h{b}")
                live.add(dd); conds.discard(dd)
                if dd in (a, b):
                    break
        elif r < 0.72 and conds & live:
            c = rng.choice(sorted(conds & live))
            ops.append(f"ITE h{d} h{c} h{pick()} h{pick()}")
            live.add(d); conds.discard(d)
        elif r < 0.78:
            pos = rng.randrange(1 << nv)
            neg = rng.randrange(1 << nv) & ~pos
            ops.append(f"RESTRICT h{d} h{pick()} {pos} {neg}")
            live.add(d); conds.discard(d)
        elif r < 0.82:
            ops.append(f"EVAL h{pick()}")
        elif r < 0.85:
            ops.append(f"EQ h{pick()} h{pick()}")
        elif r < 0.87:
            ops.append(f"NC h{pick()}")
        elif r < 0.91:
            a = pick()
            ops.append(f"DROP h{a}")
            live.discard(a); conds.discard(a)
        elif r < 0.95:
            ops.append("GC")
        elif reorder and nv >= 2:
            vs = list(range(nv)); rng.shuffle(vs)
            ops.append("ORDER " + " ".join(map(str, vs[: rng.randrange(2, nv + 1)])))
    ops += ["DROPALL", "GC", "SNAP"]
    return (header(cid, "mtbddf", cap=1 << 14, cache=cache, threads=threads, snap_each=True), ops)


# package C10f: histories for the edge-level replay of the MTBDD<F64> model only (ocaml/c10b_main.ml; NOT for the
# shared DD driver / the debug-profile pass): more boundary values (max subnormal, min normal, 0.1, -0.5, 2^53,
# -max), ITE with conditions that are not 0-1-valued (release behaviour: every non-zero value selects the then-
# operand; the debug build asserts), -x + x and 0 - x chains, and PARSEC (the constant parsed from a DDDMP terminal
# description by ParseTagged::parse)
MTF_EXTRA = ["000fffffffffffff", "0010000000000000", "3fb999999999999a", "bfe0000000000000", "4340000000000000",
             "ffefffffffffffff", "8000000000000001"]
MTF_TEXTS = ["0", "-0", "-0.0", "1", "2.5", "-7", "nan", "-nan", "NaN", "-NaN", "inf", "-inf", "+inf", "1e-320", "1e400",
             "-1e400", "0.1", "MinusInf", "PlusInf", "4.9e-324", "1.7976931348623157e308", "-0e0", "+nan"]


def mtf_case_history_x(cid, rng, nv=None, length=60, slots=20, cache=None, threads=1):
    nv = nv or rng.randrange(1, 5)
    cache = cache if cache is not None else rng.choice([1, 2, 16, 1 << 10])
    ops = [f"VARS {nv}"]
    live = set()
    vals = MTF_VALUES + MTF_EXTRA

    def pick():
        return rng.choice(sorted(live))

    def vt():
        n = 1 << nv
        style = rng.randrange(3)
        if style == 0:
            return [rng.choice(vals + MTF_INPUT_ONLY) for _ in range(n)]
        if style == 1:
            vs = rng.sample(vals, 2)
            return [rng.choice(vs) for _ in range(n)]
        return [rng.choice([MTF_VALUES[0], MTF_VALUES[1], MTF_VALUES[10], MTF_VALUES[8]]) for _ in range(n)]

    for _ in range(length):
        r = rng.random()
        d = rng.randrange(slots)
        if len(live) < 3 or r < 0.18:
            ops.append(f"VT h{d} {nv} " + " ".join(vt()))
            live.add(d)
        elif r < 0.24:
            ops.append(f"CONSTN h{d} {rng.choice(vals + MTF_INPUT_ONLY)}")
            live.add(d)
        elif r < 0.34:
            ops.append(f"PARSEC h{d} {rng.choice(MTF_TEXTS)}")
            live.add(d)
        elif r < 0.38:
            ops.append(f"VAR h{d} {rng.randrange(nv)}")
            live.add(d)
        elif r < 0.58:
            a, b = pick(), pick()
            for o in rng.sample(MT_OPS, rng.randrange(1, 4)):
                dd = rng.randrange(slots)
                ops.append(f"{o} h{dd} h{a} h{b}")
                live.add(dd)
                if dd in (a, b):
                    break
        elif r < 0.66:
            # 0 - x, then (0 - x) + x and (-1) * x: signed-zero candidates
            a = pick()
            z, m, n1, n2 = slots, slots + 1, slots + 2, slots + 3
            ops += [f"CONSTN h{z} {MTF_VALUES[0]}", f"CONSTN h{m} {MTF_VALUES[2]}", f"SUB h{n1} h{z} h{a}",
                    f"ADD h{d} h{n1} h{a}", f"MUL h{n2} h{m} h{a}", f"DIV h{n1} h{z} h{n2}"]
            live |= {d, z, m, n1, n2}
        elif r < 0.78:
            # the condition is an arbitrary function
            ops.append(f"ITE h{d} h{pick()} h{pick()} h{pick()}")
            live.add(d)
        elif r < 0.84:
            pos = rng.randrange(1 << nv)
            neg = rng.randrange(1 << nv) & ~pos
            ops.append(f"RESTRICT h{d} h{pick()} {pos} {neg}")
            live.add(d)
        elif r < 0.88:
            ops.append(f"EVAL h{pick()}")
        elif r < 0.91:
            ops.append(f"EQ h{pick()} h{pick()}")
        elif r < 0.95:
            a = pick()
            ops.append(f"DROP h{a}")
            live.discard(a)
        elif r < 0.98:
            ops.append("GC")
        elif nv >= 2:
            vs = list(range(nv)); rng.shuffle(vs)
            ops.append("ORDER " + " ".join(map(str, vs[: rng.randrange(2, nv + 1)])))
    ops += ["DROPALL", "GC", "SNAP"]
    return (header(cid, "mtbddf", cap=1 << 14, cache=cache, threads=threads, snap_each=True), ops)


# ---------------------------------------------------------------------------
# TDD (three-valued; harness kind "tdd", ops T3*) -- package TDDx
# ---------------------------------------------------------------------------
T3_BIN_OPS = ["T3AND", "T3OR", "T3NAND", "T3NOR", "T3XOR", "T3EQUIV", "T3IMP", "T3IMPS"]


def tdd_case_history(cid, rng, nv=None, length=60, slots=20, cache=None, cap=1 << 14, threads=1, reorder=True, gc=True,
                     addvars=True, snap_each=True, extra=""):
    """random TDD history (constants, variables, not, the 8 connectives, ite, cofactors, clone/drop, gc, add_vars,
    set_var_order, ==, node_count, eval over all 3^n assignments) with a snapshot after every op and a final
    DROPALL / GC / SNAP; at most 5 variables (value tables have 3^n entries)"""
    nv = nv or rng.randrange(1, 5)
    cache = cache if cache is not None else rng.choice([1, 2, 16, 1 << 10])
    ops = [f"VARS {nv}"]
    live = set()

    def pick():
        return rng.choice(sorted(live))

    for _ in range(length):
        r = rng.random()
        d = rng.randrange(slots)
        if len(live) < 3 or r < 0.10:
            if rng.random() < 0.3:
                ops.append(f"T3CONST h{d} {rng.choice('fut')}")
            else:
                ops.append(f"T3VAR h{d} {rng.randrange(nv)}")
            live.add(d)
        elif r < 0.48:
            a, b = pick(), pick()
            # different connectives on the same operands back to back (also with swapped operands)
            for o in rng.sample(T3_BIN_OPS, rng.randrange(1, 4)):
                dd = rng.randrange(slots)
                x, y = (b, a) if rng.random() < 0.25 else (a, b)
                ops.append(f"{o} h{dd} h{x} h{y}")
                live.add(dd)
                if dd in (a, b):
                    break
        elif r < 0.58:
            f, g, h = pick(), pick(), pick()
            if rng.random() < 0.2:
                f, g, h = rng.choice([(f, f, h), (f, g, f), (f, g, g)])
            ops.append(f"T3ITE h{d} h{f} h{g} h{h}")
            live.add(d)
        elif r < 0.63:
            ops.append(f"T3NOT h{d} h{pick()}")
            live.add(d)
        elif r < 0.66:
            ds = rng.sample(range(slots), 3)
            a = pick()
            ops.append(f"T3COF h{ds[0]} h{ds[1]} h{ds[2]} h{a}")
            # (no handle is assigned when the operand is a terminal: the slots keep what they had)
        elif r < 0.70:
            ops.append(f"CLONE h{d} h{pick()}")
            live.add(d)
        elif r < 0.78:
            a = pick()
            ops.append(f"{rng.choice(['DROP', 'DROP', 'DROPT'])} h{a}")
            live.discard(a)
        elif r < 0.83 and gc:
            ops.append("GC")
        elif r < 0.85 and addvars and nv < 5:
            ops.append("VARS 1")
            nv += 1
        elif r < 0.90 and reorder and nv >= 2:
            vs = list(range(nv)); rng.shuffle(vs)
            ops.append(f"{rng.choice(['ORDER', 'ORDERSEQ'])} " + " ".join(map(str, vs[: rng.randrange(2, nv + 1)])))
        elif r < 0.94:
            ops.append(f"EQ h{pick()} h{pick()}")
        elif r < 0.97:
            ops.append(f"NC h{pick()}")
        else:
            ops.append(f"T3EVAL h{pick()}")
    ops += ["DROPALL", "GC", "SNAP"]
    return (header(cid, "tdd", cap=cap, cache=cache, threads=threads, snap_each=snap_each, extra=extra), ops)


def t3fill_op(cap, nv=4):
    """the TDD capacity probe sized for a store of `cap` nodes in a manager with nv variables (harness op
    T3FILL <k>): phase A creates 12 single nodes per variable; phase B (k >= 1, >= 4 variables) a base of k
    two-valued functions and then up to 10 k single nodes at level 0; the smallest k that can fill the store"""
    a = 12 * nv
    if cap <= a or nv < 4:
        return "T3FILL 0"
    for k, top in ((1, 60), (2, 74), (3, 84), (5, 116), (8, 164)):
        if cap <= top + 12 * (nv - 4):
            return f"T3FILL {k}"
    return "T3FILL 14"


def tdd_case_identities(cid, rng, nv=3, npool=10, nident=40, cache=None, threads=1, reorder=True):
    """canonicity across construction routes: a pool of functions built from variables and constants by random
    connectives; then, for sampled operands, a connective and a second derivation of the same function by an
    identity that holds by definition of the fixed tables (nand = not and, nor = not or, xor = not equiv,
    imp_strict(a, b) = not imp(b, a), De Morgan for and / or, commutativity, ite(f, g, g) = g, ite(t, g, h) = g,
    ite(f-const, g, h) = h, double negation); EQ of the two results (and of sampled cross pairs); reorderings
    and collections in between"""
    cache = cache if cache is not None else rng.choice([1, 2, 16, 1 << 10])
    ops = [f"VARS {nv}"]
    pool = []
    for v in range(nv):
        ops.append(f"T3VAR h{len(pool)} {v}"); pool.append(len(pool))
    for c in "fut":
        ops.append(f"T3CONST h{len(pool)} {c}"); pool.append(len(pool))
    cf, cu, ct = pool[nv], pool[nv + 1], pool[nv + 2]
    while len(pool) < nv + 3 + npool:
        d = len(pool)
        r = rng.random()
        if r < 0.7:
            ops.append(f"{rng.choice(T3_BIN_OPS)} h{d} h{rng.choice(pool)} h{rng.choice(pool)}")
        elif r < 0.85:
            ops.append(f"T3ITE h{d} h{rng.choice(pool)} h{rng.choice(pool)} h{rng.choice(pool)}")
        else:
            ops.append(f"T3NOT h{d} h{rng.choice(pool)}")
        pool.append(d)
    ops.append("SNAP")
    k = 1000
    res = []
    for i in range(nident):
        a, b, c = rng.choice(pool), rng.choice(pool), rng.choice(pool)
        r1, r2, t1, t2 = k, k + 1, k + 2, k + 3
        k += 4
        which = rng.randrange(12)
        if which == 0:
            ops += [f"T3NAND h{r1} h{a} h{b}", f"T3AND h{t1} h{a} h{b}", f"T3NOT h{r2} h{t1}"]
        elif which == 1:
            ops += [f"T3NOR h{r1} h{a} h{b}", f"T3OR h{t1} h{b} h{a}", f"T3NOT h{r2} h{t1}"]
        elif which == 2:
            ops += [f"T3XOR h{r1} h{a} h{b}", f"T3EQUIV h{t1} h{a} h{b}", f"T3NOT h{r2} h{t1}"]
        elif which == 3:
            ops += [f"T3IMPS h{r1} h{a} h{b}", f"T3IMP h{t1} h{b} h{a}", f"T3NOT h{r2} h{t1}"]
        elif which == 4:
            ops += [f"T3AND h{r1} h{a} h{b}", f"T3NOT h{t1} h{a}", f"T3NOT h{t2} h{b}", f"T3NOR h{r2} h{t1} h{t2}"]
        elif which == 5:
            ops += [f"T3OR h{r1} h{a} h{b}", f"T3NOT h{t1} h{a}", f"T3NOT h{t2} h{b}", f"T3NAND h{r2} h{t2} h{t1}"]
        elif which == 6:
            o = rng.choice(["T3AND", "T3OR", "T3XOR", "T3EQUIV", "T3NAND", "T3NOR"])
            ops += [f"{o} h{r1} h{a} h{b}", f"{o} h{r2} h{b} h{a}"]
        elif which == 7:
            ops += [f"T3ITE h{r1} h{a} h{b} h{b}", f"CLONE h{r2} h{b}"]
        elif which == 8:
            ops += [f"T3ITE h{r1} h{ct} h{b} h{c}", f"CLONE h{r2} h{b}"]
        elif which == 9:
            ops += [f"T3ITE h{r1} h{cf} h{b} h{c}", f"CLONE h{r2} h{c}"]
        elif which == 10:
            ops += [f"T3NOT h{t1} h{a}", f"T3NOT h{r1} h{t1}", f"CLONE h{r2} h{a}"]
        else:
            # contraposition of Lukasiewicz's implication
            ops += [f"T3IMP h{r1} h{a} h{b}", f"T3NOT h{t1} h{a}", f"T3NOT h{t2} h{b}", f"T3IMP h{r2} h{t2} h{t1}"]
        ops.append(f"EQ h{r1} h{r2}")
        res += [r1, r2]
        if i % 8 == 7:
            for _ in range(6):
                ops.append(f"EQ h{rng.choice(res + pool)} h{rng.choice(res + pool)}")
            ops.append("SNAP")
            ev = rng.random()
            if ev < 0.4 and reorder and nv >= 2:
                vs = list(range(nv)); rng.shuffle(vs)
                ops.append("ORDER " + " ".join(map(str, vs)))
            elif ev < 0.8:
                for x in rng.sample(res, len(res) // 2):
                    ops.append(f"DROP h{x}"); res.remove(x)
                ops.append("GC")
            ops.append("SNAP")
    for _ in range(20):
        ops.append(f"EQ h{rng.choice(res + pool)} h{rng.choice(res + pool)}")
    ops += ["SNAP", "DROPALL", "GC", "SNAP"]
    return (header(cid, "tdd", cache=cache, threads=threads), ops)


def tdd_case_node_counts(cid, rng, nv, nfun, norders, cache=None):
    """node_count of nfun random three-valued functions (variables, constants, random connectives / ite) under the
    initial and norders random variable orders (each followed by a collection in half of the cases)"""
    cache = cache if cache is not None else rng.choice([16, 1 << 10])
    ops = [f"VARS {nv}"]
    pool = []
    for v in range(nv):
        ops.append(f"T3VAR h{len(pool)} {v}"); pool.append(len(pool))
    for c in "fut":
        ops.append(f"T3CONST h{len(pool)} {c}"); pool.append(len(pool))
    while len(pool) < nv + 3 + nfun:
        d = len(pool)
        r = rng.random()
        if r < 0.75:
            ops.append(f"{rng.choice(T3_BIN_OPS)} h{d} h{rng.choice(pool)} h{rng.choice(pool)}")
        elif r < 0.92:
            ops.append(f"T3ITE h{d} h{rng.choice(pool)} h{rng.choice(pool)} h{rng.choice(pool)}")
        else:
            ops.append(f"T3NOT h{d} h{rng.choice(pool)}")
        pool.append(d)
    for i in pool:
        ops.append(f"NC h{i}")
    ops.append("SNAP")
    for _ in range(norders):
        if nv >= 2:
            order = list(range(nv)); rng.shuffle(order)
            ops.append(f"{rng.choice(['ORDER', 'ORDERSEQ'])} " + " ".join(map(str, order)))
        if rng.random() < 0.5:
            for x in rng.sample(pool, len(pool) // 3):
                ops.append(f"DROP h{x}"); pool.remove(x)
            ops.append("GC")
        for i in pool:
            ops.append(f"NC h{i}")
        ops.append("SNAP")
    ops += ["DROPALL", "GC", "SNAP"]
    return (header(cid, "tdd", cache=cache), ops)
