"""Shared machinery of /verif/check (stdlib only).

Pipeline of one check invocation (DESIGN.md section 3.1):
  1. audit of the Coq sources + build of the property's theorems
     (`make Props/<id>.vo`), `Print Assumptions` compared with an allow-list
  2. extraction of the model + build of the OCaml driver
  3. build of the Rust harness from /repo's *current working tree*
  4. lock-step run:  cases -> implementation trace -> model driver verdicts
  5. on a bad verdict: shrink, classify, replay file, VIOLATION line
  6. evidence file
"""
import hashlib
import json
import os
import re
import shutil
import subprocess
import sys
import time

ROOT = os.path.dirname(os.path.dirname(os.path.abspath(__file__)))
COQ = os.path.join(ROOT, "coq")
CACHE = os.path.join(ROOT, ".cache")
TARGET = os.path.join(CACHE, "target")
REPO = os.environ.get("VERIF_REPO", "/repo")
# VERIF_REPO / VERIF_TAG are used by tools/mutant_eval.py only: they point a check at a scratch
# worktree of /repo (with a seeded change applied) and give it private work / evidence / replay /
# cargo target directories, so that several seeded changes can be evaluated in parallel while
# /repo itself stays clean.  The registered commands never set them.
TAG = os.environ.get("VERIF_TAG", "")
HOOK_CFG = "oxidd_verif"
OUT = ROOT if not TAG else os.path.join(CACHE, "alt", TAG)

FORBIDDEN = re.compile(
    r"\b(Admitted|admit|Axiom|Axioms|Parameter|Parameters|Conjecture|Conjectures|Admit Obligations)\b"
    r"|Unset\s+Guard|Unset\s+Positivity|Unset\s+Universe\s+Checking|bypass_check|type-in-type|impredicative-set"
)

TRUSTED_BASE_COMMON = [
    "Coq 8.16.1 kernel (coqc; vm_compute used for closed finite computations only; no native_compute)",
    "no Axiom/Parameter/Admitted in /verif/coq (grep audit on every run) and Print Assumptions of every property theorem compared with a by-name allow-list",
    "hand-written Gallina model (not generated from the Rust text); tied to /repo by the correspondence run of this check",
    "OCaml extraction with `Require ExtrOcamlBasic` only, i.e. exactly the directives shipped in that file: Extract Inductive bool => bool, option => option, unit => unit, list => list, prod => ( * ), sumbool => bool, sumor => option; Extract Inlined Constant andb => (&&), orb => (||); no directive of our own (numbers positive/N/Z/nat stay inductive); OCaml 4.13.1; zarith only for decimal <-> positive conversion in the drivers",
    "the OCaml driver (parsing of traces, lifting of snapshots into the model's types, comparison code) and the Rust harness (generators, snapshot dumper) are unverified; EXCEPT the decision 'model table and real table are the same up to the naming of the new nodes' in ocaml/lswap.ml (C08 level swaps / reorderings, all kinds), c02_main.ml (C02 edge-level replay: new nodes and result edge), c14_main.ml (C14x: predicted table incl. reference counts) and c15_main.ml (C15: decoded diagram vs. dump): it is taken by the extracted checker coq/DD/IsoCheck.v (iso_with / iso_core / iso_snap_b), proved sound and complete against the relational definition (injective renaming in the sense of DD/Rename.v that fixes the old ids and maps the roots; coq/DD/IsoCheckProofs.v, theorems C20_iso_check_sound / _complete / _sem / C20_iso_rel_rename in coq/Props/C20.v); the former hand-written comparisons only word the message of a rejection (statistic iso_disagree = 0: they never contradicted the checker); see notes/GLUE.md for what stays hand-written per driver",
    "rustc/cargo as installed; harness built from /repo's working tree on every run",
]


class CheckFailure(Exception):
    pass


def log(msg):
    print(f"[check] {msg}", flush=True)


def sh(cmd, cwd=None, env=None, timeout=3600, stdin=None, capture=True):
    e = dict(os.environ)
    e.update({"CARGO_NET_OFFLINE": "true", "CARGO_TARGET_DIR": TARGET})
    if env:
        e.update(env)
    try:
        p = subprocess.run(
            cmd,
            cwd=cwd,
            env=e,
            shell=isinstance(cmd, str),
            stdout=subprocess.PIPE if capture else None,
            stderr=subprocess.STDOUT if capture else None,
            stdin=stdin,
            timeout=timeout,
        )
        out = p.stdout.decode("utf-8", "replace") if capture and p.stdout is not None else ""
        return p.returncode, out
    except subprocess.TimeoutExpired as ex:
        out = ex.stdout.decode("utf-8", "replace") if ex.stdout else ""
        return 124, out + "\n[timeout]"


# --------------------------------------------------------------------------
# context
# --------------------------------------------------------------------------
class Ctx:
    def __init__(self, pid, tier, seed):
        self.pid = pid
        self.tier = tier
        self.seed = seed
        self.t0 = time.time()
        self.violations = []  # list of dict(replay=..., nfif=bool, msg=...)
        self.known = []
        self.coverage = {}
        self.assumptions = []
        self.obligations = 0
        self.discharged = 0
        self.theorems = []
        self.axioms_seen = []
        self.samples = []
        self.stats = {}
        self.workdir = os.path.join(CACHE, "work" + ("-" + TAG if TAG else ""), pid)
        os.makedirs(self.workdir, exist_ok=True)
        os.makedirs(os.path.join(OUT, "replays"), exist_ok=True)
        os.makedirs(os.path.join(OUT, "evidence"), exist_ok=True)
        self.known_findings = load_known_findings(pid)
        self.replay_n = 0

    def add_stat(self, k, v):
        self.stats[k] = self.stats.get(k, 0) + v

    def wall(self):
        return round(time.time() - self.t0, 2)


# --------------------------------------------------------------------------
# known findings
# --------------------------------------------------------------------------
def load_known_findings(pid):
    """known_findings.txt lines:
         finding: property=<id> key=<regex matched against the violation signature> :: <what fails>
         fixed: property=<id> <commit> <what failed>            (suppresses nothing)
    """
    res = []
    p = os.path.join(ROOT, "known_findings.txt")
    if not os.path.exists(p):
        return res
    for line in open(p):
        line = line.strip()
        m = re.match(r"finding:\s+property=(\S+)\s+key=(\S+)\s+::\s+(.*)$", line)
        if m and m.group(1) == pid:
            res.append((re.compile(m.group(2)), m.group(3)))
    return res


# --------------------------------------------------------------------------
# Coq
# --------------------------------------------------------------------------
def coq_audit_sources():
    bad = []
    for dp, dns, fns in os.walk(COQ):
        # coq/scratch is not part of the development (git-ignored, never built by the checks)
        dns[:] = [d for d in dns if d != "scratch"]
        for fn in fns:
            if not fn.endswith(".v"):
                continue
            path = os.path.join(dp, fn)
            txt = open(path, encoding="utf-8").read()
            # strip comments (nested) before matching
            txt = strip_coq_comments(txt)
            for i, l in enumerate(txt.split("\n"), 1):
                if FORBIDDEN.search(l):
                    bad.append(f"{os.path.relpath(path, ROOT)}:{i}: {l.strip()}")
    return bad


def strip_coq_comments(txt):
    out = []
    depth = 0
    i = 0
    n = len(txt)
    instr = False
    while i < n:
        c = txt[i]
        if depth == 0 and c == '"':
            instr = not instr
            out.append(c)
            i += 1
            continue
        if not instr and txt.startswith("(*", i):
            depth += 1
            i += 2
            continue
        if not instr and depth > 0 and txt.startswith("*)", i):
            depth -= 1
            i += 2
            continue
        if depth == 0:
            out.append(c)
        elif c == "\n":
            out.append(c)
        i += 1
    return "".join(out)


def coq_ensure_makefile():
    """_CoqProject is generated: every .v under coq/ except Extract/ (those are compiled
    by ocaml_build in a scratch directory) and scratch/."""
    files = []
    for dp, dns, fns in os.walk(COQ):
        dns[:] = sorted(d for d in dns if d not in ("Extract", "scratch"))
        for fn in sorted(fns):
            if fn.endswith(".v"):
                files.append(os.path.relpath(os.path.join(dp, fn), COQ))
    txt = "-Q . OxiVerif\n" + "".join(f + "\n" for f in sorted(files))
    proj = os.path.join(COQ, "_CoqProject")
    mk = os.path.join(COQ, "Makefile")
    if not os.path.exists(proj) or open(proj).read() != txt or not os.path.exists(mk):
        open(proj, "w").write(txt)
        rc, out = sh("coq_makefile -f _CoqProject -o Makefile", cwd=COQ)
        if rc != 0:
            raise CheckFailure("coq_makefile failed:\n" + out)


def coq_make(targets, timeout=2400):
    """targets: list of .vo paths relative to coq/ (or [] for everything)."""
    coq_ensure_makefile()
    cmd = ["make", "-j16"] + targets
    rc, out = sh(cmd, cwd=COQ, timeout=timeout)
    if rc != 0 and "inconsistent assumptions" in out and not TAG:
        # compiled files left over from an interrupted / concurrent build: rebuild what the targets need from clean
        log("inconsistent .vo files: removing all compiled Rocq files and rebuilding the targets")
        sh("find . -name '*.vo' -o -name '*.vok' -o -name '*.vos' -o -name '*.glob' | xargs rm -f", cwd=COQ)
        shutil.rmtree(os.path.join(CACHE, "ocaml"), ignore_errors=True)
        rc, out = sh(cmd, cwd=COQ, timeout=timeout)
    return rc, out


def parse_print_assumptions(out):
    """One entry per `Print Assumptions`: [] when closed, else the axiom names.
    (Props files must not produce other output of the shape `name : type`; statement
    pins are written as `Definition pin : stmt := thm.`, which prints nothing.)"""
    res = []
    cur = None
    for l in out.split("\n"):
        if l.startswith("Closed under the global context"):
            if cur is not None:
                res.append(cur)
                cur = None
            res.append([])
        elif l.startswith("Axioms:"):
            if cur is not None:
                res.append(cur)
            cur = []
        elif cur is not None:
            # an axiom entry starts in column 0 with its qualified name; the " : type" part may
            # be on the same line or wrapped onto the following (indented) lines
            m = re.match(r"^([A-Za-z_][\w.']*)\s*(:|$)", l)
            if m and not l.startswith(("COQC", "COQDEP", "make")):
                cur.append(m.group(1))
    if cur is not None:
        res.append(cur)
    return res


def coq_check_props(ctx, allowed_axioms=()):
    """Rebuild Props/<id>.vo (always recompiled so that Print Assumptions output is
    captured), audit.  Returns True iff every theorem is discharged."""
    pid = ctx.pid
    bad = coq_audit_sources()
    if bad:
        ctx.proof_failure = "forbidden construct in Coq sources: " + "; ".join(bad[:5])
        return False
    props_v = os.path.join(COQ, "Props", f"{pid}.v")
    if not os.path.exists(props_v):
        ctx.proof_failure = f"Props/{pid}.v missing"
        return False
    src = strip_coq_comments(open(props_v).read())
    thms = re.findall(r"^\s*(?:Theorem|Lemma|Corollary)\s+([\w']+)", src, re.M)
    n_pa = len(re.findall(r"^\s*Print Assumptions\s+", src, re.M))
    ctx.theorems = thms
    ctx.obligations = len(thms)
    if n_pa < len(thms):
        ctx.proof_failure = f"Props/{pid}.v: {len(thms)} theorems but only {n_pa} Print Assumptions"
        return False
    for ext in (".vo", ".vos", ".vok", ".glob"):
        try:
            os.remove(os.path.join(COQ, "Props", pid + ext))
        except FileNotFoundError:
            pass
    t = time.time()
    rc, out = coq_make([f"Props/{pid}.vo"])
    ctx.coq_wall = round(time.time() - t, 1)
    open(os.path.join(ctx.workdir, "coq.log"), "w").write(out)
    if rc != 0:
        m = re.search(r'File "([^"]+)", line (\d+)[^\n]*\n((?:.*\n){0,6})', out)
        where = f"{m.group(1)}:{m.group(2)} {m.group(3).strip()[:300]}" if m else out[-400:]
        ctx.proof_failure = f"make Props/{pid}.vo failed: {where}"
        return False
    pa = parse_print_assumptions(out)
    if len(pa) < len(thms):
        ctx.proof_failure = f"only {len(pa)} Print Assumptions results for {len(thms)} theorems"
        return False
    ok = 0
    seen = set()
    for names in pa:
        extra = [a for a in names if a not in allowed_axioms]
        seen.update(names)
        if not extra:
            ok += 1
        else:
            ctx.proof_failure = f"theorem depends on axioms outside the allow-list: {extra}"
    ctx.axioms_seen = sorted(seen)
    ctx.discharged = min(ok, len(thms))
    return ok >= len(pa) and ctx.discharged == ctx.obligations


# --------------------------------------------------------------------------
# OCaml driver
# --------------------------------------------------------------------------
def file_hash(paths):
    h = hashlib.sha256()
    for p in paths:
        h.update(p.encode())
        h.update(open(p, "rb").read())
    return h.hexdigest()[:16]


def ocaml_build(ctx, extract_v, main_ml, extra_ml=(), model_vos=()):
    """Extract model.ml via coq/Extract/<extract_v> and build the driver.
    Returns path of the driver binary."""
    d = os.path.join(CACHE, "ocaml", ctx.pid)
    os.makedirs(d, exist_ok=True)
    # parallel runs (tools/mutant_eval.py) share this directory: one builder at a time
    import fcntl
    with open(os.path.join(d, ".lock"), "w") as lk:
        fcntl.flock(lk, fcntl.LOCK_EX)
        return _ocaml_build_locked(ctx, d, extract_v, main_ml, extra_ml, model_vos)


def _ocaml_build_locked(ctx, d, extract_v, main_ml, extra_ml=(), model_vos=()):
    # the model's .vo files must be up to date
    if model_vos:
        rc, out = coq_make(list(model_vos))
        if rc != 0:
            raise CheckFailure("building model .vo failed:\n" + out[-2000:])
    srcs = [os.path.join(COQ, "Extract", extract_v), os.path.join(ROOT, "ocaml", "conv.ml"),
            os.path.join(ROOT, "ocaml", main_ml)] + [os.path.join(ROOT, "ocaml", x) for x in extra_ml]
    vos = [os.path.join(COQ, v) for v in model_vos]
    stamp = file_hash(srcs + [v for v in vos if os.path.exists(v)])
    stamp_file = os.path.join(d, "stamp")
    drv = os.path.join(d, "driver")
    if os.path.exists(drv) and os.path.exists(stamp_file) and open(stamp_file).read() == stamp:
        return drv
    ex_cmd = ["coqc", "-Q", COQ, "OxiVerif", "-o", os.path.join(d, os.path.basename(extract_v) + "o"), srcs[0]]
    rc, out = sh(ex_cmd, cwd=d, timeout=900)
    if rc != 0 and "inconsistent assumptions" in out and model_vos and not TAG:
        # stale compiled files (make saw nothing to do): rebuild the model files from clean and extract again
        log("extraction: inconsistent .vo files, rebuilding the model files from clean")
        sh("find . -name '*.vo' -o -name '*.vok' -o -name '*.vos' -o -name '*.glob' | xargs rm -f", cwd=COQ)
        rc2, out2 = coq_make(list(model_vos))
        if rc2 == 0:
            rc, out = sh(ex_cmd, cwd=d, timeout=900)
    if rc != 0:
        raise CheckFailure("extraction failed:\n" + out[-3000:])
    mls = ["conv.ml"] + list(extra_ml) + [main_ml]
    for m in mls:
        shutil.copy(os.path.join(ROOT, "ocaml", m), d)
    rc, out = sh(["ocamlfind", "ocamlopt", "-O2", "-package", "zarith,str,unix", "-linkpkg", "-w", "-a",
                  "model.mli", "model.ml"] + mls + ["-o", "driver"], cwd=d, timeout=900)
    if rc != 0:
        raise CheckFailure("ocaml build failed:\n" + out[-3000:])
    open(stamp_file, "w").write(stamp)
    return drv


# --------------------------------------------------------------------------
# Rust harness
# --------------------------------------------------------------------------
def cargo_build(bins, profile="release", features=None, no_default=False, hooks=False, target_sub=None,
                timeout=3000):
    h = os.path.join(ROOT, "harness")
    if TAG:
        # private copy of the harness crate whose path dependencies point at VERIF_REPO
        h2 = os.path.join(OUT, "harness")
        shutil.rmtree(h2, ignore_errors=True)
        shutil.copytree(h, h2, ignore=shutil.ignore_patterns("target", "Cargo.lock"))
        t = open(os.path.join(h2, "Cargo.toml")).read().replace('"/repo/', '"' + REPO.rstrip("/") + "/")
        open(os.path.join(h2, "Cargo.toml"), "w").write(t)
        h = h2
        target_sub = (target_sub + "-" if target_sub else "") + "alt-" + TAG
    lock = os.path.join(h, "Cargo.lock")
    if not os.path.exists(lock) or os.path.getmtime(lock) < os.path.getmtime(os.path.join(REPO, "Cargo.lock")):
        shutil.copy(os.path.join(REPO, "Cargo.lock"), lock)
    cmd = ["cargo", "build", "--offline", "-q"]
    if profile == "release":
        cmd.append("--release")
    for b in bins:
        cmd += ["--bin", b]
    if no_default:
        cmd.append("--no-default-features")
    if features:
        cmd += ["--features", ",".join(features)]
    env = {}
    tdir = TARGET if not target_sub else os.path.join(CACHE, "target-" + target_sub)
    env["CARGO_TARGET_DIR"] = tdir
    flags = os.environ.get("RUSTFLAGS", "")
    if hooks:
        flags = (flags + f" --cfg {HOOK_CFG}").strip()
    env["RUSTFLAGS"] = flags
    rc, out = sh(cmd, cwd=h, env=env, timeout=timeout)
    if rc != 0:
        # a build failure of the code under test is not a property verdict
        raise CheckFailure("cargo build failed (harness or /repo does not compile):\n" + out[-4000:])
    sub = "release" if profile == "release" else "debug"
    return {b: os.path.join(tdir, sub, b) for b in bins}


# --------------------------------------------------------------------------
# case files and lock-step runs
# --------------------------------------------------------------------------
def parse_cases(text):
    cases = []
    cur = None
    for l in text.split("\n"):
        if l.startswith("CASE "):
            cur = [l[5:], []]
        elif l == "END":
            if cur is not None:
                cases.append((cur[0], cur[1]))
            cur = None
        elif cur is not None and l.strip():
            cur[1].append(l)
    return cases


def write_cases(path, cases):
    with open(path, "w") as f:
        for h, ops in cases:
            f.write(f"CASE {h}\n")
            for o in ops:
                f.write(o + "\n")
            f.write("END\n")


def run_impl(bin_path, cases_file, out_file, env=None, timeout=1800, extra_args=()):
    """Runs `<bin> run <cases>`; when the harness aborts after a hang (or the process
    dies), re-invokes it on the remaining cases.  Returns number of restarts."""
    restarts = 0
    all_cases = parse_cases(open(cases_file).read())
    start = 0
    with open(out_file, "w") as out:
        while start < len(all_cases):
            part = cases_file if start == 0 else cases_file + f".part{restarts}"
            if start > 0:
                write_cases(part, all_cases[start:])
            p = subprocess.run([bin_path, "run", part] + list(extra_args), stdout=subprocess.PIPE,
                               stderr=subprocess.PIPE, env={**os.environ, **(env or {})}, timeout=timeout)
            txt = p.stdout.decode("utf-8", "replace")
            m = re.search(r"^ABORTED-AFTER (\d+)\s*$", txt, re.M)
            if m:
                out.write(txt[: m.start()])
                start += int(m.group(1)) + 1
                restarts += 1
                continue
            if p.returncode != 0:
                # process died (abort / signal): report the case being processed
                done = parse_cases(txt)
                out.write("".join(f"CASE {h}\n" + "".join(o + "\n" for o in ops) + "END\n" for h, ops in done))
                k = start + len(done)
                if k < len(all_cases):
                    h, ops = all_cases[k]
                    err = p.stderr.decode("utf-8", "replace").strip().split("\n")[-3:]
                    msg = " | ".join(err)[:300]
                    out.write(f"CASE {h}\nCRASH rc={p.returncode} {msg}\nEND\n")
                start = k + 1
                restarts += 1
                continue
            out.write(txt)
            break
    return restarts


def run_driver(drv, impl_file, verdict_file, timeout=1800, args=()):
    with open(impl_file) as fin, open(verdict_file, "w") as fout:
        p = subprocess.run([drv] + list(args), stdin=fin, stdout=fout, stderr=subprocess.PIPE, timeout=timeout)
    if p.returncode != 0:
        raise CheckFailure("model driver failed: " + p.stderr.decode("utf-8", "replace")[-2000:])
    ok = 0
    bad = []
    stats = {}
    for l in open(verdict_file):
        if l.startswith("V "):
            t = l.rstrip("\n").split(" ", 3)
            if t[2] == "ok":
                ok += 1
            else:
                bad.append((t[1], t[3] if len(t) > 3 else ""))
        elif l.startswith("S "):
            t = l.split()
            stats[t[1]] = stats.get(t[1], 0) + int(t[2])
    return ok, bad, stats


# A panic / abort of the harness process that is caused by the operating system refusing a resource
# (thread creation fails with EAGAIN, memory) says nothing about the property: such cases are re-run
# (serially, after a pause); if the condition persists the check stops as a machinery failure (exit 2),
# it is never reported as a violation.
RESOURCE_RE = re.compile(
    r"Resource temporarily unavailable|WouldBlock|could not build thread pool|failed to spawn thread|"
    r"failed to initiate panic|Cannot allocate memory|OutOfMemory, message|os error 11\b|os error 12\b|memory allocation of \d+ bytes failed")


def retry_resource_failures(ctx, bin_path, drv, lookup, bad, env=None, drv_args=(), impl_args=(), timeout=1800, tag=""):
    """bad: [(case id, message)]; lookup: case id -> (header, ops).  Returns the bad list with the resource
    failures replaced by the verdicts of their re-runs."""
    res = [(c, m) for c, m in bad if not RESOURCE_RE.search(m)]
    todo = [c for c, m in bad if RESOURCE_RE.search(m)]
    for attempt in range(4):
        if not todo:
            break
        ctx.add_stat("resource_failures_retried", len(todo))
        time.sleep(3 + 5 * attempt)
        f = os.path.join(ctx.workdir, f"cases{tag}-resretry.txt")
        write_cases(f, [lookup[c] for c in todo if c in lookup])
        impl_file = os.path.join(ctx.workdir, f"impl{tag}-resretry.txt")
        verdict_file = os.path.join(ctx.workdir, f"verdict{tag}-resretry.txt")
        run_impl(bin_path, f, impl_file, env=env, timeout=timeout, extra_args=impl_args)
        _ok, bad2, _st = run_driver(drv, impl_file, verdict_file, timeout=timeout, args=drv_args)
        res += [(c, m) for c, m in bad2 if not RESOURCE_RE.search(m)]
        todo = [c for c, m in bad2 if RESOURCE_RE.search(m)]
    if todo:
        raise CheckFailure(f"operating-system resources exhausted (threads / memory) while running cases {todo[:5]}; not a verdict")
    return res


def lockstep(ctx, bin_path, drv, cases_file, tag="", env=None, drv_args=(), impl_args=(), timeout=1800):
    impl_file = os.path.join(ctx.workdir, f"impl{tag}.txt")
    verdict_file = os.path.join(ctx.workdir, f"verdict{tag}.txt")
    restarts = run_impl(bin_path, cases_file, impl_file, env=env, timeout=timeout, extra_args=impl_args)
    ok, bad, stats = run_driver(drv, impl_file, verdict_file, timeout=timeout, args=drv_args)
    for k, v in stats.items():
        ctx.add_stat(k, v)
    ctx.add_stat("restarts", restarts)
    if any(RESOURCE_RE.search(m) for _, m in bad):
        lookup = {h.split()[0]: (h, ops) for h, ops in parse_cases(open(cases_file).read())}
        n0 = len(bad)
        bad = retry_resource_failures(ctx, bin_path, drv, lookup, bad, env=env, drv_args=drv_args, impl_args=impl_args,
                                      timeout=timeout, tag=tag)
        ok += n0 - len(bad)
    return ok, bad


def lockstep_sharded(ctx, bin_path, drv, cases, nshards=16, env=None, drv_args=(), impl_args=(), timeout=1800,
                     tag=""):
    """Splits the case list round-robin into shards that run in parallel.  Returns
    (ok, bad, digests) where digests maps case id -> digest line of the driver (if any)."""
    from concurrent.futures import ThreadPoolExecutor
    nshards = max(1, min(nshards, len(cases)))
    # balance by op count
    order = sorted(range(len(cases)), key=lambda i: -len(cases[i][1]))
    shards = [[] for _ in range(nshards)]
    load = [0] * nshards
    for i in order:
        k = load.index(min(load))
        shards[k].append(cases[i])
        load[k] += len(cases[i][1]) + 5

    def one(k):
        f = os.path.join(ctx.workdir, f"cases{tag}-{k}.txt")
        write_cases(f, shards[k])
        impl_file = os.path.join(ctx.workdir, f"impl{tag}-{k}.txt")
        verdict_file = os.path.join(ctx.workdir, f"verdict{tag}-{k}.txt")
        restarts = run_impl(bin_path, f, impl_file, env=env, timeout=timeout, extra_args=impl_args)
        ok, bad, stats = run_driver(drv, impl_file, verdict_file, timeout=timeout, args=drv_args)
        dig = {}
        for l in open(verdict_file):
            if l.startswith("D "):
                t = l.split()
                dig[t[1]] = t[2]
        try:
            os.remove(impl_file)
        except OSError:
            pass
        return ok, bad, stats, restarts, dig

    ok_total, bad_total, digests = 0, [], {}
    with ThreadPoolExecutor(max_workers=nshards) as ex:
        for ok, bad, stats, restarts, dig in ex.map(one, range(nshards)):
            ok_total += ok
            bad_total += bad
            digests.update(dig)
            for k2, v in stats.items():
                ctx.add_stat(k2, v)
            ctx.add_stat("restarts", restarts)
    if any(RESOURCE_RE.search(m) for _, m in bad_total):
        lookup = {h.split()[0]: (h, ops) for h, ops in cases}
        n0 = len(bad_total)
        bad_total = retry_resource_failures(ctx, bin_path, drv, lookup, bad_total, env=env, drv_args=drv_args,
                                            impl_args=impl_args, timeout=timeout, tag=tag)
        ok_total += n0 - len(bad_total)
    # a watchdog verdict ("did not terminate") is confirmed before it counts: the case is run again on its own,
    # after all shards have finished, with a nine times longer limit; a case that was merely slow next to
    # 15 other shards passes then (and is counted as passed); a real non-termination still hits the limit
    if "-hangretry" not in tag and any("did not terminate (watchdog)" in m for _, m in bad_total):
        lookup = {h.split()[0]: (h, ops) for h, ops in cases}
        base_ms = int((env or {}).get("VERIF_HANG_MS", os.environ.get("VERIF_HANG_MS", "20000")))
        env2 = dict(env or {}, VERIF_HANG_MS=str(max(180000, 9 * base_ms)))
        kept, real = [], 0
        for cid, msg in bad_total:
            # (once two cases are confirmed as real non-terminations the remaining ones are kept as reported)
            if "did not terminate (watchdog)" in msg and cid in lookup and real < 2:
                ok1, bad1, dig1 = lockstep_sharded(ctx, bin_path, drv, [lookup[cid]], nshards=1, env=env2, drv_args=drv_args,
                                                   impl_args=impl_args, timeout=timeout, tag=tag + "-hangretry")
                if not bad1:
                    ok_total += 1
                    digests.update(dig1)
                    ctx.add_stat("watchdog_verdicts_not_confirmed", 1)
                    log(f"case {cid}: watchdog verdict not confirmed (terminates when run alone)")
                    continue
                real += 1
                kept += bad1
                continue
            kept.append((cid, msg))
        bad_total = kept
    return ok_total, bad_total, digests


def shrink_case(ctx, bin_path, drv, header, ops, want_kind, env=None, drv_args=(), impl_args=(), budget=150,
                protect=lambda op: False, accept=None):
    """ddmin over the op list of one case; keeps a candidate iff the verdict is still bad
    with the same kind."""
    tmp = os.path.join(ctx.workdir, "shrink.txt")

    def still_bad(cand):
        write_cases(tmp, [(header, cand)])
        try:
            e2 = dict(env or {})
            e2.setdefault("VERIF_HANG_MS", "800")
            ok, bad = lockstep(ctx, bin_path, drv, tmp, tag="-shrink", env=e2, drv_args=drv_args,
                               impl_args=impl_args, timeout=120)
        except Exception:
            return None
        for cid, msg in bad:
            if f"kind={want_kind}" in msg and (accept is None or accept(msg)):
                return msg
        return None

    cur = list(ops)
    cur_msg = still_bad(cur)
    if cur_msg is None:
        return ops, None
    n = 2
    runs = 0
    while len(cur) >= 2 and runs < budget:
        chunk = max(1, len(cur) // n)
        reduced = False
        i = 0
        while i < len(cur) and runs < budget:
            cand = cur[:i] + cur[i + chunk:]
            if any(protect(o) for o in cur[i:i + chunk]) or not cand:
                i += chunk
                continue
            runs += 1
            m = still_bad(cand)
            if m is not None:
                cur, cur_msg = cand, m
                n = max(n - 1, 2)
                reduced = True
            else:
                i += chunk
        if not reduced:
            if chunk == 1:
                break
            n = min(n * 2, len(cur))
    return cur, cur_msg


# --------------------------------------------------------------------------
# reporting
# --------------------------------------------------------------------------
def report_violation(ctx, signature, replay_obj, nfif=False):
    """signature: short stable text identifying the failing input/call site (matched against
    known findings)."""
    for rx, what in ctx.known_findings:
        if rx.search(signature):
            if what not in ctx.known:
                ctx.known.append(what)
                print(f"KNOWN-FINDING: property={ctx.pid} {what}", flush=True)
            return False
    ctx.replay_n += 1
    path = os.path.join(OUT, "replays", f"{ctx.pid}-{ctx.seed}-{ctx.replay_n}.json")
    replay_obj = dict(replay_obj)
    replay_obj.setdefault("property", ctx.pid)
    replay_obj.setdefault("seed", ctx.seed)
    replay_obj["signature"] = signature
    replay_obj["no_failing_input_found"] = bool(nfif)
    json.dump(replay_obj, open(path, "w"), indent=1)
    ctx.violations.append({"replay": path, "nfif": nfif, "signature": signature})
    line = f"VIOLATION property={ctx.pid} replay={path}"
    if nfif:
        line += " no-failing-input-found"
    print(line, flush=True)
    return True


def write_evidence(ctx, level, rule, checker_cmd, extra_cov=None, assumptions=()):
    cov = {
        "obligations": ctx.obligations,
        "discharged": ctx.discharged,
        "checker_cmd": checker_cmd,
        "trusted_base": TRUSTED_BASE_COMMON + list(assumptions),
        "theorems": ctx.theorems,
        "axioms_reported_by_Print_Assumptions": ctx.axioms_seen,
        "coqchk": ({"axioms": getattr(ctx, "coqchk_axioms", []), "wall_s": getattr(ctx, "coqchk_wall", None)}
                   if hasattr(ctx, "coqchk_wall") else "not run in this tier (thorough tier only)"),
        "evaluations": int(ctx.stats.get("cases", 0)),
        "distinct_nontrivial": int(ctx.stats.get("distinct_nontrivial", ctx.stats.get("cases", 0))),
        "rule": rule,
        "samples": ctx.samples[:8] if ctx.samples else ["(no sample recorded)"],
        "correspondence_stats": {k: v for k, v in sorted(ctx.stats.items())},
        "known_findings_reported": ctx.known,
    }
    if extra_cov:
        cov.update(extra_cov)
    ev = {
        "property_id": ctx.pid,
        "tier": ctx.tier,
        "seed": ctx.seed,
        "level": level,
        "coverage": cov,
        "assumptions": list(assumptions),
        "wall_s": ctx.wall(),
        "violations": len(ctx.violations),
    }
    p = os.path.join(OUT, "evidence", f"{ctx.pid}.json")
    json.dump(ev, open(p, "w"), indent=1)
    return p


def coqchk_props(ctx, allowed_axioms=()):
    """thorough tier: the compiled Props/<id>.vo and everything it depends on is re-checked by the
    independent checker coqchk; its context summary must list no axiom outside the allow-list, no
    type-in-type, no unsafe fixpoints, no assumed positivity."""
    t = time.time()
    rc, out = sh(["coqchk", "-silent", "-o", "-Q", ".", "OxiVerif", f"OxiVerif.Props.{ctx.pid}"], cwd=COQ, timeout=3000)
    ctx.coqchk_wall = round(time.time() - t, 1)
    open(os.path.join(ctx.workdir, "coqchk.log"), "w").write(out)
    if rc != 0 or "CONTEXT SUMMARY" not in out:
        ctx.proof_failure = "coqchk failed: " + out[-400:]
        return False
    summ = out.split("CONTEXT SUMMARY", 1)[1]
    sections = {}
    cur = None
    for l in summ.split("\n"):
        m = re.match(r"^\* ([^:]+):\s*(.*)$", l)
        if m:
            cur = m.group(1).strip()
            sections[cur] = [m.group(2).strip()] if m.group(2).strip() else []
        elif cur and l.strip():
            sections[cur].append(l.strip())
    axioms = [a for a in sections.get("Axioms", []) if a != "<none>"]
    names = [re.split(r"\s|:", a)[0] for a in axioms]
    extra = [a for a in names if a not in allowed_axioms and a.split(".")[-1] not in [x.split(".")[-1] for x in allowed_axioms]]
    ctx.coqchk_axioms = names
    for key in ("Constants/Inductives relying on type-in-type", "Constants/Inductives relying on unsafe (co)fixpoints",
                "Inductives whose positivity is assumed"):
        if [x for x in sections.get(key, []) if x != "<none>"]:
            ctx.proof_failure = f"coqchk: {key}: {sections[key][:3]}"
            return False
    if extra:
        ctx.proof_failure = f"coqchk reports axioms outside the allow-list: {extra}"
        return False
    log(f"coqchk ok ({ctx.coqchk_wall} s): axioms {names or 'none'}")
    return True


def proof_gate(ctx, allowed_axioms=()):
    """Step 1 of every check.  A proof obligation that no longer checks is reported as a
    violation with no failing input (the static part can not produce one)."""
    ctx.proof_failure = None
    if TAG:
        # parallel evaluation of a seeded change (tools/mutant_eval.py): the Rocq development does not
        # depend on /repo, its gate is exercised by the untagged runs; do not rebuild .vo files concurrently
        log("proof gate skipped (VERIF_TAG set: seeded-change evaluation)")
        return True
    ok = coq_check_props(ctx, allowed_axioms)
    if ok and ctx.tier == "thorough":
        ok = coqchk_props(ctx, allowed_axioms)
    if not ok:
        report_violation(
            ctx,
            f"proof:{ctx.pid}:{ctx.proof_failure}",
            {"stage": "proof", "theorem_file": f"coq/Props/{ctx.pid}.v", "what": ctx.proof_failure,
             "note": "a theorem / audit of the Rocq development no longer checks"},
            nfif=True,
        )
    return ok


def finish(ctx):
    if ctx.violations:
        log(f"{ctx.pid}: {len(ctx.violations)} violation(s); wall {ctx.wall()} s")
        sys.exit(1)
    log(f"{ctx.pid}: ok; obligations {ctx.discharged}/{ctx.obligations}; wall {ctx.wall()} s")
    sys.exit(0)
