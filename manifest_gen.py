"""Regenerates /verif/MANIFEST.json from the META blocks of checks/*.py."""
import importlib
import json
import os
import sys

ROOT = os.path.dirname(os.path.abspath(__file__))
sys.path.insert(0, os.path.join(ROOT, "lib"))
sys.path.insert(0, ROOT)

NOT_APPLICABLE = {}  # id -> reason; filled from not_applicable.json if present


def main():
    props = [json.loads(l) for l in open(os.path.join(ROOT, "properties.jsonl"))]
    checks = []
    na = []
    na_file = os.path.join(ROOT, "not_applicable.json")
    reasons = json.load(open(na_file)) if os.path.exists(na_file) else {}
    for p in props:
        pid = p["id"]
        f = os.path.join(ROOT, "checks", pid + ".py")
        if os.path.exists(f) and not os.path.exists(os.path.join(ROOT, "coq", "Props", pid + ".v")):
            na.append({"property_id": pid, "reason": reasons.get(pid, "correspondence harness exists but the Rocq theorems for this property are not committed yet; nothing is claimed")})
            continue
        if not os.path.exists(f):
            na.append({"property_id": pid, "reason": reasons.get(pid, "no check built yet in this round (planned, see DESIGN.md section 5); nothing is claimed for it")})
            continue
        m = importlib.import_module("checks." + pid).META
        checks.append({
            "property_id": pid,
            "quick_cmd": f"./check {pid} --tier quick",
            "thorough_cmd": f"./check {pid} --tier thorough",
            "evidence_file": f"/verif/evidence/{pid}.json",
            "replay_cmd_template": f"./check {pid} --replay {{path}}",
            "engine": "rocq+correspondence",
            "level_claimed": {"category": m["category"], "text": m["level_text"], "design_ref": m["design_ref"]},
            "level_note": m["level_note"],
            "technique": m["technique"],
        })
    hooks_file = os.path.join(ROOT, "hooks.json")
    hooks = json.load(open(hooks_file)) if os.path.exists(hooks_file) else {
        "guard": "cfg(oxidd_verif)",
        "enable": "RUSTFLAGS=\"--cfg oxidd_verif\" (set by lib/vf.py cargo_build(hooks=True))",
        "baseline_off_cmd": "cd /repo && cargo test --workspace --no-fail-fast --offline",
        "source_commits": [],
        "add_only": True,
    }
    man = {
        "version": 1,
        "setup_cmd": "./setup.sh",
        "hooks": hooks,
        "engines": [{
            "name": "rocq+correspondence",
            "path": "/verif/check",
            "serves_properties": [c["property_id"] for c in checks],
            "kind_free_text": "Rocq (Coq 8.16.1) theorems over a hand-written Gallina model (coq/), extracted to OCaml (ocaml/) and run in lock-step against a Rust harness built from /repo's working tree (harness/); lib/vf.py orchestrates, shrinks and writes evidence",
        }],
        "checks": checks,
        "not_applicable": na,
        "notes": "See DESIGN.md. Fixed defects are listed in known_findings.txt (fixed: lines).",
    }
    json.dump(man, open(os.path.join(ROOT, "MANIFEST.json"), "w"), indent=1)
    print(f"MANIFEST.json: {len(checks)} checks, {len(na)} not_applicable")


if __name__ == "__main__":
    main()
