(* ALLOC driver (package ALLOC; stage of checks/C14.py and checks/C05.py): replays the slot
   allocator events of the index-based manager (lines `EV A <thread> <event> <data ...>` logged
   by `mod atrace` of harness/src/bin/h_dd.rs through the cfg(oxidd_verif) hooks of /repo) on the
   extracted interleaving model coq/Mgr/Alloc.v, one model state per store (manager) of the case.

   Events (hook sites of /repo/crates/oxidd-core/src/lib.rs `verif::site::ALLOC_*`):
     N store cap terminals chunk lwm hwm     new store
     B store                                 worker / collector thread bound to the store
     P store took                            prepare_local_state
     S store local count gc nlists alloc     get_slot_from_shared, store state locked (count and gc
                                             state after the update, lists / pointer before the pop)
     R store id                              add_node done (0 = OutOfMemory)
     F store id kind                         free_slot begins (0 local, 1 local + hand-over, 2 non-local)
     L id count nlists                       non-local push done, store state locked
     D store id                              hand-over announced by F done
     T head start count nlists               return_preallocated done, store state locked
     G store returned                        guard dropped
     C store head count gc nlists            collector epilogue, store state locked

   What is checked (the first `kind=prop` finding of a case wins, otherwise the first `kind=corr` one):
     prop=C05  pure trace properties: a slot is handed out while it holds a node (handed out earlier and
               not freed since), a slot is freed that is not handed out, an ID outside the slot array;
               the shared node count reported under the store's lock differs from the number of
               handed-out slots although no thread can have a pending delta (every thread's last event
               flushed it) and no other request is in flight; COUNTS on a store without background
               collector: exact count <> #handed-out slots, approximate count <> exact count when no
               thread has a pending delta
     prop=C14  OutOfMemory where the model, replaying the same history, takes a slot this thread can
               reach; an `err oom` in the retry phase (header parameter retry_at); PANIC / HANG
     corr      hard differences (the replay of the store stops): slot ID, path (thread-local list /
               range / shared state), prepare_local_state / guard drop outcome, list head returned at
               guard drop / by the collector, a log the model cannot follow; soft differences (the
               replay goes on): shared node count, number of shared lists, allocation pointer, gc
               state, initialisation pointer; the invariant checker [ainv_b] failing on the final state
               (capacity <= 512) *)
open Conv

let starts_with s p = String.length s >= String.length p && String.sub s 0 (String.length p) = p

type store = {
  addr : string;
  cfg : Model.cfg;
  cap : int;
  termn : int;
  mutable st : Model.st;
  mutable nth : int;                           (* threads of the model state *)
  mutable sync : bool;                         (* the model still follows the log *)
  live : (int, int) Hashtbl.t;                 (* handed-out slot -> line of its hand-out *)
  mutable handover : (int * int) option;       (* (thread, slot): F kind 1 seen, hand-over not replayed yet *)
  dirty : (int, unit) Hashtbl.t;               (* threads that may have a non-zero node_count_delta (pure trace bookkeeping) *)
  mutable inflight : int;                      (* S events whose R has not been logged yet *)
  bggc : bool;                                 (* the store has a background collector (lwm < hwm) *)
}

exception Found of string * string * string   (* kind, prop, message *)

let path_name = function
  | Model.PLocalList -> "local list" | Model.PLocalRange -> "local range" | Model.PSharedList -> "shared list"
  | Model.PSharedChunk -> "new chunk" | Model.PSharedBump -> "single uninitialised slot"
  | Model.PNonLocalList -> "shared list (non-local)" | Model.PNonLocalBump -> "single uninitialised slot (non-local)"
  | Model.POom -> "out of memory"

let gc_code = function Model.GDisabled -> 0 | Model.GInit -> 1 | Model.GTriggered -> 2

let () =
  iter_cases stdin (fun c ->
      let stores : (string, store) Hashtbl.t = Hashtbl.create 4 in
      let order : string list ref = ref [] in           (* store addresses, oldest first *)
      let cur_store : (int, string) Hashtbl.t = Hashtbl.create 16 in
      let pend_alloc : (int, string * (Model.n option * Model.path) option * (int * int) option) Hashtbl.t = Hashtbl.create 16 in
      let pend_free : (int, string * int) Hashtbl.t = Hashtbl.create 16 in
      let returned : (int, unit) Hashtbl.t = Hashtbl.create 16 in
      let retry_at = param_int c "retry_at" (-1) in
      let first_prop : (int * string * string) option ref = ref None in
      let first_corr : (int * string) option ref = ref None in
      let prop i p msg = if !first_prop = None then first_prop := Some (i, p, msg) in
      let corr i msg = if !first_corr = None then first_corr := Some (i, msg) in
      let nthreads_seen = ref 0 in
      let opno = ref 0 in

      let ensure (s : store) (t : int) =
        while s.nth <= t do
          (match Model.step s.cfg Model.good s.st Model.ASpawn with
           | Some (st', _) -> s.st <- st'
           | None -> ());
          s.nth <- s.nth + 1
        done in
      let local_of (s : store) (t : int) : Model.local =
        ensure s t; List.nth s.st.Model.th t in
      (* one model step; [None] = the model cannot follow *)
      let mstep i (s : store) (a : Model.act) (what : string) : Model.obs option =
        if not s.sync then None
        else
          match Model.step s.cfg Model.good s.st a with
          | Some (st', o) -> s.st <- st'; stat "model_steps" 1; Some o
          | None ->
            s.sync <- false; stat "out_of_sync" 1;
            corr i (Printf.sprintf "the model cannot follow the log: %s is not enabled in the model state" what);
            None in
      let desync i (s : store) msg = if s.sync then (s.sync <- false; stat "out_of_sync" 1; corr i msg) in
      (* the thread's local state becomes / stops being bound to store [a]: seen from the other stores *)
      let others_enter i (a : string) t =
        Hashtbl.iter (fun a' s' -> if a' <> a then (ensure s' t; ignore (mstep i s' (Model.AOtherEnter (nat_of_int t)) "AOtherEnter"))) stores in
      let others_leave i (a : string) t nx ini =
        Hashtbl.iter (fun a' s' -> if a' <> a then (ensure s' t; ignore (mstep i s' (Model.AOtherLeave (nat_of_int t, nx, ini)) "AOtherLeave"))) stores in
      let count_of (s : store) = Z.to_int (z_of_mz s.st.Model.sh.Model.s_count) in
      let nlists (s : store) = List.length s.st.Model.sh.Model.s_free in
      (* soft differences (state the log shows only partly): recorded, the replay goes on *)
      let soft i (s : store) what (reported : int) (model : int) =
        if s.sync && reported <> model then (
          stat "soft_differences" 1;
          corr i (Printf.sprintf "%s: the log says %d, the model %d" what reported model)) in
      let check_count i (s : store) (what : string) (reported : int) =
        soft i s ("shared node count after " ^ what) reported (count_of s) in
      (* pure trace rule for the shared node count: when no thread can have a pending delta (every thread's last
         allocator event on this store was one that flushes its delta) and no other get_slot_from_shared is in
         flight, the shared count must be the number of slots that are handed out (+ [adj]) *)
      let quiet (s : store) = Hashtbl.length s.dirty = 0 && s.inflight = 0 && s.handover = None in
      let count_rule i (s : store) (what : string) (reported : int) (expected : int) =
        stat "count_rule_checked" 1;
        if reported <> expected then
          prop i "C05" (Printf.sprintf "shared node count after %s is %d although %d slots hold a node and no thread has a pending delta"
                          what reported expected) in
      (* the hand-over of thread [t]'s local list (F kind 1) is replayed now *)
      let apply_handover i (s : store) =
        match s.handover with
        | Some (t, id) ->
          s.handover <- None;
          stat "handovers" 1;
          (match mstep i s (Model.AFree (nat_of_int t, n_of_int id)) "AFree (hand-over)" with
           | Some (Model.OFree true) -> ()
           | Some _ -> desync i s (Printf.sprintf "free_slot of slot %d handed the local list over, the model does not" id)
           | None -> ())
        | None -> () in
      (* an event under the store's lock by another thread while a hand-over is announced: the number of
         shared lists tells whether the hand-over has happened already *)
      let disambiguate i (s : store) (reported_lists : int) =
        match s.handover with
        | Some _ when s.sync && reported_lists = nlists s + 1 -> stat "handover_order_resolved" 1; apply_handover i s
        | _ -> () in

      let event i (t : int) (ev : string) (d : string list) =
        let num k = int_of_string (List.nth d k) in
        if t >= !nthreads_seen then nthreads_seen := t + 1;
        stat ("ev_" ^ ev) 1;
        match ev with
        | "N" ->
          let a = List.nth d 0 in
          let cfg = { Model.cap = n_of_int (num 1); Model.term = n_of_int (num 2); Model.chunk = n_of_int (num 3);
                      Model.lwm = mz_of_z (Z.of_int (num 4)); Model.hwm = mz_of_z (Z.of_int (num 5)) } in
          let s = { addr = a; cfg; cap = num 1; termn = num 2; st = Model.init cfg Model.O; nth = 0; sync = true;
                    live = Hashtbl.create 64; handover = None; dirty = Hashtbl.create 8; inflight = 0;
                    bggc = num 4 < num 5 } in
          Hashtbl.replace stores a s;
          order := List.filter (fun x -> x <> a) !order @ [ a ];
          stat "stores" 1;
          (* threads whose local state is bound to another store right now *)
          Hashtbl.iter (fun t' a' -> if a' <> a then (ensure s t'; ignore (mstep i s (Model.AOtherEnter (nat_of_int t')) "AOtherEnter"))) cur_store
        | _ ->
          let a = match ev with
            | "L" -> (match Hashtbl.find_opt pend_free t with Some (a, _) -> a | None -> "?")
            | "T" -> (match Hashtbl.find_opt cur_store t with Some a -> a | None -> "?")
            | _ -> List.nth d 0 in
          (match Hashtbl.find_opt stores a with
           | None ->
             (* a pool worker of a manager of an earlier case that starts late: not this case's business *)
             if ev = "B" then stat "ev_bind_foreign_store" 1
             else corr i (Printf.sprintf "event %s of thread %d for an unknown store" ev t)
           | Some s ->
             ensure s t;
             let tn = nat_of_int t in
             (match ev with
              | "B" ->
                ignore (mstep i s (Model.ABind tn) "ABind");
                Hashtbl.replace cur_store t a;
                others_enter i a t
              | "P" ->
                let took = num 1 = 1 in
                (match mstep i s (Model.APrepare tn) "APrepare" with
                 | Some (Model.OPrep b) when b = took -> ()
                 | Some _ -> desync i s (Printf.sprintf "prepare_local_state of thread %d %s the local state, the model says the opposite" t (if took then "bound" else "did not bind"))
                 | None -> ());
                if took then (Hashtbl.replace cur_store t a; others_enter i a t)
              | "S" ->
                if (match s.handover with Some (t', _) -> t' <> t | None -> false) then disambiguate i s (num 4);
                (* pure trace bookkeeping: this thread's delta is flushed now *)
                Hashtbl.remove s.dirty t;
                let rule = if quiet s then Some (num 2, Hashtbl.length s.live) else None in
                s.inflight <- s.inflight + 1;
                let pre_lists = nlists s and pre_alloc = int_of_n s.st.Model.sh.Model.s_alloc in
                let is_this = Model.is_this (local_of s t).Model.l_cur in
                let pred =
                  match mstep i s (Model.AAlloc tn) "AAlloc" with
                  | Some (Model.OAlloc (id, p)) ->
                    (match p with
                     | Model.PLocalList | Model.PLocalRange ->
                       desync i s (Printf.sprintf "add_node of thread %d asked the shared state, the model takes a slot from the %s" t (path_name p));
                       None
                     | _ ->
                       stat ("path_" ^ String.map (fun ch -> if ch = ' ' || ch = '(' || ch = ')' || ch = '-' then '_' else ch) (path_name p)) 1;
                       if (num 1 = 1) <> is_this then
                         desync i s (Printf.sprintf "get_slot_from_shared of thread %d took the %s branch, the model's thread is %sbound to the store"
                                       t (if num 1 = 1 then "local" else "non-local") (if is_this then "" else "not "));
                       soft i s "number of shared free lists at get_slot_from_shared" (num 4) pre_lists;
                       soft i s "allocation pointer at get_slot_from_shared" (num 5) pre_alloc;
                       check_count i s "get_slot_from_shared" (num 2);
                       soft i s "gc state after get_slot_from_shared" (num 3) (gc_code s.st.Model.sh.Model.s_gc);
                       Some (id, p))
                  | Some _ -> desync i s "AAlloc: unexpected observation"; None
                  | None -> None in
                Hashtbl.replace pend_alloc t (a, pred, rule)
              | "R" ->
                let id = num 1 in
                let late_rule = ref None in
                let pred =
                  match Hashtbl.find_opt pend_alloc t with
                  | Some (a', pr, rule) when a' = a ->
                    Hashtbl.remove pend_alloc t;
                    s.inflight <- max 0 (s.inflight - 1);
                    late_rule := rule;
                    if s.sync then pr else None
                  | _ ->
                    (* no request to the shared state: thread-local list or range; the thread's delta changes *)
                    Hashtbl.replace s.dirty t ();
                    (match mstep i s (Model.AAlloc tn) "AAlloc" with
                     | Some (Model.OAlloc (pid, p)) ->
                       (match p with
                        | Model.PLocalList | Model.PLocalRange -> stat ("path_" ^ (if p = Model.PLocalList then "local_list" else "local_range")) 1; Some (pid, p)
                        | _ -> desync i s (Printf.sprintf "add_node of thread %d did not ask the shared state, the model does (%s)" t (path_name p)); None)
                     | _ -> None) in
                if id = 0 then stat "oom" 1;
                (* pure trace properties *)
                if id <> 0 then (
                  if id < s.termn || id >= s.termn + s.cap then
                    prop i "C05" (Printf.sprintf "add_node returned the slot ID %d outside of the slot array (%d terminals, capacity %d)" id s.termn s.cap)
                  else (
                    (match Hashtbl.find_opt s.live id with
                     | Some k -> prop i "C05" (Printf.sprintf "slot %d is handed out to thread %d although it holds a node (handed out at line %d and not freed since)" id t k)
                     | None -> ());
                    Hashtbl.replace s.live id i));
                (match pred with
                 | Some (pid, p) ->
                   let pid = match pid with Some x -> int_of_n x | None -> 0 in
                   if pid <> id then (
                     if id = 0 then (
                       prop i "C14" (Printf.sprintf "add_node of thread %d failed with OutOfMemory, the model takes slot %d from the %s (%d of %d slots hold a node)"
                                       t pid (path_name p) (Hashtbl.length s.live) s.cap);
                       s.sync <- false; stat "out_of_sync" 1)
                     else
                       desync i s (Printf.sprintf "add_node of thread %d returned slot %d, the model %s" t id
                                     (if pid = 0 then "is out of memory" else Printf.sprintf "takes slot %d from the %s" pid (path_name p))))
                 | None -> ());
                (match !late_rule with
                 | Some (cnt, nlive) -> count_rule i s "get_slot_from_shared" cnt (nlive + (if id <> 0 then 1 else 0))
                 | None -> ())
              | "F" ->
                let id = num 1 and kind = num 2 in
                stat (Printf.sprintf "free_kind%d" kind) 1;
                if not (Hashtbl.mem s.live id) then
                  prop i "C05" (Printf.sprintf "free_slot of slot %d, which is not handed out" id);
                Hashtbl.remove s.live id;
                (match kind with
                 | 0 ->
                   Hashtbl.replace s.dirty t ();
                   (match mstep i s (Model.AFree (tn, n_of_int id)) "AFree" with
                    | Some (Model.OFree false) ->
                      if not (Model.is_this (local_of s t).Model.l_cur) then desync i s "free_slot used the thread-local list, the model's thread is not bound to the store"
                    | Some _ -> desync i s (Printf.sprintf "free_slot of slot %d kept the local list, the model hands it over" id)
                    | None -> ())
                 | 1 -> apply_handover i s; s.handover <- Some (t, id)
                 | _ -> Hashtbl.replace pend_free t (a, id))
              | "L" ->
                (match Hashtbl.find_opt pend_free t with
                 | Some (_, id) ->
                   Hashtbl.remove pend_free t;
                   if s.handover <> None then disambiguate i s (num 2 - (if nlists s = 0 then 1 else 0));
                   if quiet s then count_rule i s "the non-local free_slot" (num 1) (Hashtbl.length s.live);
                   (match mstep i s (Model.AFree (tn, n_of_int id)) "AFree (non-local)" with
                    | Some (Model.OFree false) ->
                      if Model.is_this (local_of s t).Model.l_cur then desync i s "free_slot took the non-local path, the model's thread is bound to the store";
                      soft i s "number of shared free lists after the non-local free_slot" (num 2) (nlists s);
                      check_count i s "the non-local free_slot" (num 1)
                    | Some _ -> desync i s "AFree (non-local): unexpected observation"
                    | None -> ())
                 | None -> corr i "event L without a preceding F")
              | "D" -> apply_handover i s; Hashtbl.remove s.dirty t
              | "T" ->
                if (match s.handover with Some (t', _) -> t' <> t | None -> false) then disambiguate i s (num 3 - (if num 0 <> 0 then 1 else 0));
                Hashtbl.remove s.dirty t;
                if quiet s then count_rule i s "the guard drop" (num 2) (Hashtbl.length s.live);
                let ini = int_of_n (local_of s t).Model.l_init in
                (match mstep i s (Model.ADropGuard tn) "ADropGuard" with
                 | Some (Model.ODrop (true, nf)) ->
                   stat "guard_returns" 1;
                   Hashtbl.replace returned t ();
                   if num 0 <> int_of_n nf then
                     desync i s (Printf.sprintf "head of the list returned at guard drop: the log says %d, the model %d" (num 0) (int_of_n nf));
                   soft i s "initialisation pointer at guard drop" (num 1) ini;
                   soft i s "number of shared free lists after guard drop" (num 3) (nlists s);
                   check_count i s "guard drop" (num 2)
                 | Some _ -> desync i s "the guard drop returned slots / counts, the model's thread has nothing to return"
                 | None -> ())
              | "G" ->
                let l = local_of s t in
                if num 1 = 1 then (
                  if not (Hashtbl.mem returned t) then corr i "event G (returned) without a preceding T";
                  Hashtbl.remove returned t)
                else (
                  Hashtbl.remove s.dirty t;
                  match mstep i s (Model.ADropGuard tn) "ADropGuard" with
                  | Some (Model.ODrop (false, _)) -> ()
                  | Some _ -> desync i s "the guard drop returned nothing, the model's thread has slots / counts to return"
                  | None -> ());
                Hashtbl.remove cur_store t;
                others_leave i a t l.Model.l_next l.Model.l_init
              | "C" ->
                if (match s.handover with Some (t', _) -> t' <> t | None -> false) then disambiguate i s (num 4 - (if num 1 <> 0 then 1 else 0));
                if num 1 <> 0 then Hashtbl.remove s.dirty t;
                if quiet s then count_rule i s "the collector's epilogue" (num 2) (Hashtbl.length s.live);
                (match mstep i s (Model.AGcFlush tn) "AGcFlush" with
                 | Some (Model.OFlush h) ->
                   stat "gc_flushes" 1;
                   if num 1 <> int_of_n h then
                     desync i s (Printf.sprintf "head of the list returned by the collector thread: the log says %d, the model %d" (num 1) (int_of_n h));
                   soft i s "number of shared free lists after the collector's epilogue" (num 4) (nlists s);
                   check_count i s "the collector's epilogue" (num 2);
                   soft i s "gc state after the collector's epilogue" (num 3) (gc_code s.st.Model.sh.Model.s_gc)
                 | Some _ -> desync i s "AGcFlush: unexpected observation"
                 | None -> ())
              | _ -> stat "ev_unknown" 1)) in

      List.iteri
        (fun i l ->
          if l = "HANG" then prop i "C14" "implementation did not terminate (watchdog)"
          else if starts_with l "PANIC" || starts_with l "CRASH" then prop i "C14" ("implementation panicked/aborted: " ^ l)
          else if starts_with l "EV A " then (
            match split_ws l with
            | _ :: _ :: t :: ev :: d ->
              (try event i (int_of_string t) ev d
               with Failure m | Invalid_argument m -> corr i ("driver: cannot replay [" ^ l ^ "]: " ^ m)
                  | Not_found -> corr i ("driver: cannot replay [" ^ l ^ "]"))
            | _ -> corr i ("malformed event line: " ^ l))
          else if starts_with l "EV" || starts_with l "SNAP" then ()
          else (
            let ops, res = split_arrow l in
            let toks = split_ws ops in
            (match toks with
             | [ "COUNTS" ] ->
               (* the case's own manager = the oldest store *)
               (match !order with
                | a :: _ ->
                  let s = Hashtbl.find stores a in
                  let kv k = List.find_map (fun t -> match String.split_on_char '=' t with [ k'; v ] when k' = k -> int_of_string_opt v | _ -> None) (split_ws res) in
                  (match kv "exact", kv "approx" with
                   | Some e, Some ap when not s.bggc ->
                     (* (with a background collector the counts may change while they are read) *)
                     stat "counts_checked" 1;
                     if s.inflight = 0 && e <> Hashtbl.length s.live then
                       prop i "C05" (Printf.sprintf "num_inner_nodes is %d, %d slots are handed out and not freed" e (Hashtbl.length s.live))
                     else if quiet s && ap <> e then
                       prop i "C05" (Printf.sprintf "approx_num_inner_nodes is %d although no thread has a pending delta; exact count %d" ap e)
                     else if s.sync && s.handover = None then
                       soft i s "approx_num_inner_nodes" ap (max 0 (count_of s))
                   | _ -> ())
                | [] -> ())
             | _ -> ());
            if retry_at >= 0 && !opno >= retry_at && starts_with res "err oom" then
              prop i "C14" (Printf.sprintf "retry after drop + gc: [%s] failed with out-of-memory again (capacity is at least the measured need)" ops);
            incr opno))
        c.lines;
      (* final audit of every store the model followed to the end *)
      Hashtbl.iter
        (fun _ (s : store) ->
          apply_handover (List.length c.lines) s;
          if s.sync then (
            stat "stores_followed_to_the_end" 1;
            if s.cap <= 512 then (
              stat "final_invariant_audits" 1;
              if not (Model.ainv_b s.cfg s.st) then corr (List.length c.lines) "the invariant checker ainv_b fails on the model's final state";
              let ml = List.sort compare (List.map int_of_n (Model.live_slots s.cfg s.st)) in
              let tl = List.sort compare (Hashtbl.fold (fun k _ acc -> k :: acc) s.live []) in
              if ml <> tl then corr (List.length c.lines) "the model's live slots differ from the slots handed out according to the log")))
        stores;
      stat "cases" 1;
      stat "threads" !nthreads_seen;
      match !first_prop, !first_corr with
      | Some (i, p, msg), _ -> stat ("bad_" ^ p) 1; verdict_bad c i "prop" (Printf.sprintf "prop=%s %s" p msg)
      | None, Some (i, msg) -> verdict_bad c i "corr" ("prop=C14 " ^ msg)
      | None, None -> verdict_ok c);
  dump_stats ()
